// Package ev collects what a monitor observed during a run, writes the
// evidence file, matches violations against KNOWN_FINDINGS.txt and maps the
// outcome to the exit code / VIOLATION lines required by the interface.
package ev

import (
	"bufio"
	"encoding/json"
	"fmt"
	"os"
	"path/filepath"
	"regexp"
	"sort"
	"strconv"
	"strings"
	"sync"
	"time"
)

// Root is the /verif directory.
func Root() string {
	if r := os.Getenv("VERIF_ROOT"); r != "" {
		return r
	}
	return "/verif"
}

// Seed returns VERIF_SEED (default 1).
func Seed() int64 {
	if s := os.Getenv("VERIF_SEED"); s != "" {
		if n, err := strconv.ParseInt(s, 10, 64); err == nil {
			return n
		}
	}
	return 1
}

// Violation is one refuting observation.
type Violation struct {
	Key    string      `json:"key"`    // deterministic finding key
	Detail string      `json:"detail"` // human readable
	Replay interface{} `json:"replay"` // the failing input / history / schedule
}

// Partial is the mergeable part of a report, written by child processes.
type Partial struct {
	Evaluations  int64               `json:"evaluations"`
	Distinct     []string            `json:"distinct"`
	Counters     map[string]int64    `json:"counters"`
	Samples      []interface{}       `json:"samples"`
	Violations   []Violation         `json:"violations"`
	Inconclusive []string            `json:"inconclusive"`
	Sets         map[string][]string `json:"sets"`
}

// Report accumulates the observations of one check run.
type Report struct {
	mu           sync.Mutex
	Property     string
	Level        string
	Tier         string
	SeedVal      int64
	Rule         string
	Assumptions  []string
	Exhaustive   bool
	evaluations  int64
	distinct     map[string]struct{}
	counters     map[string]int64
	sets         map[string]map[string]struct{}
	samples      []interface{}
	violations   []Violation
	inconclusive []string
	extra        map[string]interface{}
	start        time.Time
	MaxSamples   int
}

// New creates a report.
func New(property, level, tier string) *Report {
	return &Report{
		Property:   property,
		Level:      level,
		Tier:       tier,
		SeedVal:    Seed(),
		distinct:   map[string]struct{}{},
		counters:   map[string]int64{},
		sets:       map[string]map[string]struct{}{},
		extra:      map[string]interface{}{},
		start:      time.Now(),
		MaxSamples: 6,
	}
}

// Eval counts n executed cases.
func (r *Report) Eval(n int) {
	r.mu.Lock()
	r.evaluations += int64(n)
	r.mu.Unlock()
}

// Distinct records a non-trivial case under a normalised key.
func (r *Report) Distinct(key string) {
	r.mu.Lock()
	r.distinct[key] = struct{}{}
	r.mu.Unlock()
}

// Count adds n to a named counter.
func (r *Report) Count(name string, n int64) {
	r.mu.Lock()
	r.counters[name] += n
	r.mu.Unlock()
}

// SetAdd adds a member to a named set (reported as its cardinality and, if small, its members).
func (r *Report) SetAdd(set, member string) {
	r.mu.Lock()
	m := r.sets[set]
	if m == nil {
		m = map[string]struct{}{}
		r.sets[set] = m
	}
	m[member] = struct{}{}
	r.mu.Unlock()
}

// Sample keeps up to MaxSamples written-out cases.
func (r *Report) Sample(s interface{}) {
	r.mu.Lock()
	if len(r.samples) < r.MaxSamples {
		r.samples = append(r.samples, s)
	}
	r.mu.Unlock()
}

// Extra sets a free-form coverage key.
func (r *Report) Extra(k string, v interface{}) {
	r.mu.Lock()
	r.extra[k] = v
	r.mu.Unlock()
}

// Violate records a violation.
func (r *Report) Violate(key, detail string, replay interface{}) {
	r.mu.Lock()
	r.violations = append(r.violations, Violation{Key: key, Detail: detail, Replay: replay})
	r.mu.Unlock()
}

// Inconclusive records a case that yielded no verdict.
func (r *Report) Inconclusive(reason string) {
	r.mu.Lock()
	r.inconclusive = append(r.inconclusive, reason)
	r.mu.Unlock()
}

// NumViolations returns the number of recorded violations.
func (r *Report) NumViolations() int {
	r.mu.Lock()
	defer r.mu.Unlock()
	return len(r.violations)
}

// Partial extracts the mergeable content.
func (r *Report) Partial() *Partial {
	r.mu.Lock()
	defer r.mu.Unlock()
	p := &Partial{
		Evaluations:  r.evaluations,
		Counters:     r.counters,
		Samples:      r.samples,
		Violations:   r.violations,
		Inconclusive: r.inconclusive,
		Sets:         map[string][]string{},
	}
	for k := range r.distinct {
		p.Distinct = append(p.Distinct, k)
	}
	for s, m := range r.sets {
		for k := range m {
			p.Sets[s] = append(p.Sets[s], k)
		}
	}
	return p
}

// WritePartial writes the mergeable content to a file (child processes).
func (r *Report) WritePartial(path string) error {
	data, err := json.Marshal(r.Partial())
	if err != nil {
		return err
	}
	tmp := path + ".tmp"
	if err := os.WriteFile(tmp, data, 0o644); err != nil {
		return err
	}
	return os.Rename(tmp, path)
}

// MergeFile merges a partial written by a child.
func (r *Report) MergeFile(path string) error {
	data, err := os.ReadFile(path)
	if err != nil {
		return err
	}
	var p Partial
	if err := json.Unmarshal(data, &p); err != nil {
		return err
	}
	r.Merge(&p)
	return nil
}

// Merge merges a partial.
func (r *Report) Merge(p *Partial) {
	r.mu.Lock()
	defer r.mu.Unlock()
	r.evaluations += p.Evaluations
	for _, k := range p.Distinct {
		r.distinct[k] = struct{}{}
	}
	for k, v := range p.Counters {
		r.counters[k] += v
	}
	for s, ms := range p.Sets {
		m := r.sets[s]
		if m == nil {
			m = map[string]struct{}{}
			r.sets[s] = m
		}
		for _, k := range ms {
			m[k] = struct{}{}
		}
	}
	for _, s := range p.Samples {
		if len(r.samples) < r.MaxSamples {
			r.samples = append(r.samples, s)
		}
	}
	r.violations = append(r.violations, p.Violations...)
	r.inconclusive = append(r.inconclusive, p.Inconclusive...)
}

type known struct {
	property string
	re       *regexp.Regexp
	what     string
	raw      string
}

func loadKnown(property string) []known {
	f, err := os.Open(filepath.Join(Root(), "KNOWN_FINDINGS.txt"))
	if err != nil {
		return nil
	}
	defer f.Close()
	var res []known
	sc := bufio.NewScanner(f)
	sc.Buffer(make([]byte, 1<<20), 1<<20)
	for sc.Scan() {
		line := strings.TrimSpace(sc.Text())
		if !strings.HasPrefix(line, "known:") {
			continue
		}
		// known: property=C07 key=<regex> :: <what fails>
		body := strings.TrimSpace(strings.TrimPrefix(line, "known:"))
		parts := strings.SplitN(body, "::", 2)
		what := ""
		if len(parts) == 2 {
			what = strings.TrimSpace(parts[1])
		}
		fields := strings.Fields(parts[0])
		var prop, key string
		for i, f := range fields {
			if strings.HasPrefix(f, "property=") {
				prop = strings.TrimPrefix(f, "property=")
			}
			if strings.HasPrefix(f, "key=") {
				key = strings.TrimPrefix(strings.Join(fields[i:], " "), "key=")
				break
			}
		}
		if prop != property || key == "" {
			continue
		}
		re, err := regexp.Compile("^(?:" + key + ")$")
		if err != nil {
			fmt.Fprintf(os.Stderr, "KNOWN_FINDINGS.txt: bad regex %q: %v\n", key, err)
			continue
		}
		res = append(res, known{property: prop, re: re, what: what, raw: key})
	}
	return res
}

// Finish writes the evidence file, prints KNOWN-FINDING / VIOLATION lines and
// returns the process exit code. minEvals is the floor below which the run is
// considered to have observed nothing (exit 2).
func (r *Report) Finish(minEvals int) int {
	r.mu.Lock()
	defer r.mu.Unlock()

	kn := loadKnown(r.Property)
	knownHit := map[string]int{}
	type uv struct {
		v Violation
		n int
	}
	unknown := map[string]*uv{}
	var unknownOrder []string
	for _, v := range r.violations {
		matched := false
		for _, k := range kn {
			if k.re.MatchString(v.Key) {
				knownHit[k.raw+" :: "+k.what]++
				matched = true
				break
			}
		}
		if matched {
			continue
		}
		if u, ok := unknown[v.Key]; ok {
			u.n++
			continue
		}
		unknown[v.Key] = &uv{v: v, n: 1}
		unknownOrder = append(unknownOrder, v.Key)
	}

	// every listed finding of this property is printed, with the number of times this run observed it (a finding
	// that needs a particular schedule or crash point is not reproduced by every run)
	var khKeys []string
	for _, k := range kn {
		id := k.raw + " :: " + k.what
		if _, ok := knownHit[id]; !ok {
			knownHit[id] = 0
		}
	}
	for k := range knownHit {
		khKeys = append(khKeys, k)
	}
	sort.Strings(khKeys)
	for _, k := range khKeys {
		fmt.Printf("KNOWN-FINDING: property=%s %s (observed %d times in this run)\n", r.Property, k, knownHit[k])
	}

	replayDir := filepath.Join(Root(), "out", "replay", r.Property)
	_ = os.RemoveAll(replayDir)
	var violationKeys []string
	for i, key := range unknownOrder {
		u := unknown[key]
		_ = os.MkdirAll(replayDir, 0o755)
		path := filepath.Join(replayDir, fmt.Sprintf("%d.json", i+1))
		data, _ := json.MarshalIndent(map[string]interface{}{
			"property": r.Property,
			"key":      u.v.Key,
			"detail":   u.v.Detail,
			"count":    u.n,
			"seed":     r.SeedVal,
			"tier":     r.Tier,
			"replay":   u.v.Replay,
		}, "", " ")
		_ = os.WriteFile(path, data, 0o644)
		fmt.Printf("VIOLATION property=%s replay=%s key=%q detail=%q\n", r.Property, path, u.v.Key, trunc(u.v.Detail, 400))
		violationKeys = append(violationKeys, fmt.Sprintf("%s (x%d)", key, u.n))
	}

	cov := map[string]interface{}{
		"evaluations":         r.evaluations,
		"distinct_nontrivial": len(r.distinct),
		"rule":                r.Rule,
		"samples":             r.samples,
		"exhaustive":          r.Exhaustive,
		"counters":            r.counters,
		"inconclusive_cases":  len(r.inconclusive),
	}
	if len(r.inconclusive) > 0 {
		n := len(r.inconclusive)
		if n > 20 {
			n = 20
		}
		cov["inconclusive_reasons"] = r.inconclusive[:n]
	}
	sets := map[string]interface{}{}
	for s, m := range r.sets {
		var ks []string
		for k := range m {
			ks = append(ks, k)
		}
		sort.Strings(ks)
		e := map[string]interface{}{"count": len(ks)}
		if len(ks) <= 60 {
			e["members"] = ks
		} else {
			e["members_head"] = ks[:60]
		}
		sets[s] = e
	}
	if len(sets) > 0 {
		cov["sets"] = sets
	}
	if len(khKeys) > 0 {
		cov["known_findings_hit"] = knownHit
	}
	if len(violationKeys) > 0 {
		cov["violation_keys"] = violationKeys
	}
	for k, v := range r.extra {
		cov[k] = v
	}
	if len(r.samples) == 0 {
		// fall back to the identifiers of distinct non-trivial cases that were executed
		var ks []string
		for k := range r.distinct {
			ks = append(ks, k)
		}
		sort.Strings(ks)
		if len(ks) > 5 {
			ks = ks[:5]
		}
		fallback := []interface{}{}
		for _, k := range ks {
			fallback = append(fallback, map[string]interface{}{"case": k})
		}
		cov["samples"] = fallback
	}
	evd := map[string]interface{}{
		"property_id": r.Property,
		"tier":        r.Tier,
		"seed":        r.SeedVal,
		"level":       r.Level,
		"coverage":    cov,
		"assumptions": r.Assumptions,
		"wall_s":      time.Since(r.start).Seconds(),
		"violations":  len(unknownOrder),
	}
	if r.Assumptions == nil {
		evd["assumptions"] = []string{}
	}
	dir := filepath.Join(Root(), "evidence")
	_ = os.MkdirAll(dir, 0o755)
	data, _ := json.MarshalIndent(evd, "", " ")
	if err := os.WriteFile(filepath.Join(dir, r.Property+".json"), data, 0o644); err != nil {
		fmt.Fprintf(os.Stderr, "cannot write evidence: %v\n", err)
		return 2
	}

	fmt.Printf("SUMMARY property=%s tier=%s seed=%d evaluations=%d distinct_nontrivial=%d violations=%d known_findings=%d inconclusive=%d wall=%.1fs\n",
		r.Property, r.Tier, r.SeedVal, r.evaluations, len(r.distinct), len(unknownOrder), len(khKeys), len(r.inconclusive), time.Since(r.start).Seconds())

	if len(unknownOrder) > 0 {
		return 1
	}
	if r.evaluations < int64(minEvals) || len(r.distinct) < 2 {
		fmt.Printf("INCONCLUSIVE property=%s: observed too little (evaluations=%d floor=%d distinct=%d)\n",
			r.Property, r.evaluations, minEvals, len(r.distinct))
		return 2
	}
	return 0
}

func trunc(s string, n int) string {
	if len(s) <= n {
		return s
	}
	return s[:n] + "..."
}

// DropViolations discards the violations recorded so far (used when a child
// finds out afterwards that its precondition - e.g. stable membership - did
// not hold) and returns how many were dropped.
func (r *Report) DropViolations() int {
	r.mu.Lock()
	defer r.mu.Unlock()
	n := len(r.violations)
	r.violations = nil
	return n
}
