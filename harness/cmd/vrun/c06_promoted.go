package main

// C06, "promoted" batches: after the primary owner of a partition has gone, a backup owner is promoted. Its copies
// live in its own BACKUP fragment (it stays listed as backup owner while that fragment holds data), its primary
// fragment is empty or holds older versions. A Get through any member must return the newest copy, and with read
// repair the promoted owner's primary copy must equal it after that single Get.

import (
	"context"
	"fmt"
	"time"

	"github.com/olric-data/olric/internal/cluster/partitions"
	"github.com/olric-data/olric/verif/cluster"
	"github.com/olric-data/olric/verif/paths"
)

func c06Promoted(ctx *runCtx, spec string) {
	var r, rr int
	var seed int64
	fmt.Sscanf(spec, "promoted:%d:%d:%d", &r, &rr, &seed)
	c, err := cluster.Start(cluster.Config{Replicas: r, Partitions: 13, TableSize: 1 << 20, ReadRepair: rr == 1, FastFailureDetection: true}, r)
	if err != nil {
		ctx.rep.Inconclusive(spec + ": cluster start: " + err.Error())
		return
	}
	defer c.Shutdown()
	name := fmt.Sprintf("c06-promoted-%d", seed)
	router := paths.NewRouter(c, name)
	defer router.Close()
	bg := context.Background()
	s0 := router.NewSession()
	want := map[string]string{}
	for i := 0; i < 120; i++ {
		k := fmt.Sprintf("k%d", i)
		want[k] = fmt.Sprintf("v-%d", i)
		if err := s0.Via("EO").Put(bg, k, []byte(want[k]), paths.PutOpts{}); err != nil {
			ctx.rep.Inconclusive(spec + ": Put: " + err.Error())
			return
		}
	}
	s0.Close()
	// the member that is primary owner for most keys leaves
	cnt := map[*cluster.Member]int{}
	for k := range want {
		cnt[c.OwnerOf(name, k)]++
	}
	var victim *cluster.Member
	for m, x := range cnt {
		if victim == nil || x > cnt[victim] {
			victim = m
		}
	}
	var moved []string
	for k := range want {
		if c.OwnerOf(name, k) == victim {
			moved = append(moved, k)
		}
	}
	c.StopGraceful(victim)
	if err := c.WaitStable(60 * time.Second); err != nil {
		ctx.rep.Inconclusive(spec + ": " + err.Error())
		return
	}
	fp := c.Fingerprint()
	sess := router.NewSession()
	defer sess.Close()
	kinds := []string{"EO", "EN", "CC", "RO", "RN"}
	if len(c.Live()) == 1 {
		kinds = []string{"EO", "CC", "RO"}
	}
	for i, k := range moved {
		owner := c.OwnerOf(name, k)
		_, hadPrimary := owner.V.DMap.VerifEntry(partitions.PRIMARY, name, k)
		be, hadBackup := owner.V.DMap.VerifEntry(partitions.BACKUP, name, k)
		ctx.rep.Eval(1)
		layout := fmt.Sprintf("promoted-owner primary=%v own-backup=%v", hadPrimary, hadBackup)
		kind := kinds[i%len(kinds)]
		g, err := sess.Via(kind).Get(bg, k)
		if err != nil || string(g.Value) != want[k] {
			ctx.rep.Violate("c06|get|promoted-owner|newest-on=own-backup-fragment", fmt.Sprintf("%s [%s]: Get(%s) via %s = (%q,%v), want %q", spec, layout, k, kind, g.Value, err, want[k]), map[string]interface{}{"batch": spec, "key": k})
			return
		}
		ctx.rep.Distinct(fmt.Sprintf("promoted|R=%d|rr=%d|%s|via=%s", r, rr, layout, kind))
		if rr == 1 && hadBackup && !hadPrimary {
			ctx.rep.Count("read_repairs_expected_from_the_owners_own_backup_copy", 1)
			pe, ok := owner.V.DMap.VerifEntry(partitions.PRIMARY, name, k)
			if !ok || string(pe.Value) != want[k] || pe.Timestamp != be.Timestamp {
				ctx.rep.Violate("c06|repair|holder=owner|stale|newest-on=own-backup-fragment",
					fmt.Sprintf("%s [%s]: after one Get of %s via %s with read repair the promoted owner %s has primary copy (present=%v value=%q), its own backup fragment holds %q", spec, layout, k, kind, owner.Name, ok, pe.Value, be.Value),
					map[string]interface{}{"batch": spec, "key": k})
				return
			}
		}
	}
	if c.Fingerprint() != fp {
		if n := ctx.rep.DropViolations(); n > 0 {
			ctx.rep.Inconclusive(fmt.Sprintf("%s: membership changed; %d violation(s) dropped", spec, n))
		}
	}
	ctx.rep.Sample(map[string]interface{}{"config": spec, "keys_whose_owner_left": len(moved)})
}
