package main

// C16 server child: a 2-member in-process olric cluster that lives in its own
// process, because a handler panic kills the whole process (redcon has no
// recover). It prints one READY line (JSON) on stdout and exits when stdin is
// closed, so that it can never outlive its driver.

import (
	"bytes"
	"bufio"
	"encoding/hex"
	"encoding/json"
	"fmt"
	"os"
	"runtime"
	"strconv"
	"strings"
	"time"

	"github.com/olric-data/olric/internal/cluster/partitions"
	"github.com/olric-data/olric/internal/discovery"
	"github.com/olric-data/olric/internal/kvstore/entry"
	"github.com/olric-data/olric/internal/kvstore/table"
	"github.com/olric-data/olric/verif/cluster"
	"github.com/vmihailenco/msgpack/v5"
)

const c16Partitions = 7

// c16Ready is what the server child tells its driver.
type c16Ready struct {
	Addrs       []string            `json:"addrs"`
	IDs         []string            `json:"ids"`
	Coordinator string              `json:"coordinator"`
	Pid         int                 `json:"pid"`
	Payloads    []map[string]string `json:"payloads"` // per member: payload name -> hex
	Race        bool                `json:"race"`
}

// same field names as routingtable.route / dmap.fragmentPack (both unexported);
// msgpack encodes structs as maps keyed by field name.
type c16Route struct {
	Owners  []discovery.Member
	Backups []discovery.Member
}

type c16FragmentPack struct {
	PartID  uint64
	Kind    partitions.Kind
	Name    string
	Payload []byte
}

func c16MustPack(v interface{}) []byte {
	b, err := msgpack.Marshal(v)
	if err != nil {
		panic(err)
	}
	return b
}

func c16Entry(key, value string) []byte {
	e := entry.New()
	e.SetKey(key)
	e.SetValue([]byte(value))
	e.SetTimestamp(time.Now().UnixNano())
	return e.Encode()
}

// c16Payloads builds the well-formed and the hostile msgpack payloads for one target member.
func c16Payloads(c *cluster.Cluster, m *cluster.Member) map[string]string {
	res := map[string]string{}
	put := func(name string, b []byte) { res[name] = hex.EncodeToString(b) }

	// ---- INTERNAL.NODE.UPDATEROUTING
	cur := func() map[uint64]*c16Route {
		t := map[uint64]*c16Route{}
		for p := uint64(0); p < c16Partitions; p++ {
			t[p] = &c16Route{
				Owners:  append([]discovery.Member(nil), m.V.Primary.PartitionByID(p).Owners()...),
				Backups: append([]discovery.Member(nil), m.V.Backup.PartitionByID(p).Owners()...),
			}
		}
		return t
	}
	valid := c16MustPack(cur())
	put("rt_valid", valid)
	put("rt_truncated", valid[:len(valid)/2])
	put("rt_wrongtype", c16MustPack([]interface{}{1, "two", 3.0}))
	t := cur()
	t[1000] = t[c16Partitions-1]
	delete(t, c16Partitions-1)
	put("rt_badids", c16MustPack(t)) // right number of partitions, one id out of range
	t = cur()
	t[0] = nil
	put("rt_nilroute", c16MustPack(t))
	t = cur()
	t[0] = &c16Route{Owners: nil, Backups: t[0].Backups} // a partition without any owner
	put("rt_emptyowners", c16MustPack(t))
	t = cur()
	for p := uint64(3); p < c16Partitions; p++ {
		delete(t, p)
	}
	put("rt_short", c16MustPack(t))

	// ---- INTERNAL.NODE.MOVEFRAGMENT
	owned, notOwned := uint64(0), uint64(0)
	for p := uint64(0); p < c16Partitions; p++ {
		if m.V.Primary.PartitionByID(p).Owner().Name == m.Name {
			owned = p
		} else {
			notOwned = p
		}
	}
	tb := table.New(1 << 12)
	for i := 0; i < 3; i++ {
		k := "mfk" + strconv.Itoa(i)
		e := entry.New()
		e.SetKey(k)
		e.SetValue([]byte("mfv"))
		e.SetTimestamp(time.Now().UnixNano())
		if err := tb.Put(partitions.HKey("c16-mf", k), e); err != nil {
			panic(err)
		}
	}
	inner, err := table.Encode(tb)
	if err != nil {
		panic(err)
	}
	var pk table.Pack
	if err := msgpack.Unmarshal(inner, &pk); err != nil {
		panic(err)
	}
	fp := func(part uint64, kind partitions.Kind, payload []byte) []byte {
		return c16MustPack(c16FragmentPack{PartID: part, Kind: kind, Name: "c16-mf", Payload: payload})
	}
	put("mf_valid", fp(owned, partitions.PRIMARY, inner))
	put("mf_truncated", fp(owned, partitions.PRIMARY, inner)[:40])
	put("mf_wrongtype", c16MustPack("just a string"))
	put("mf_badpart", fp(1000, partitions.PRIMARY, inner))
	put("mf_notowned", fp(notOwned, partitions.PRIMARY, inner))
	put("mf_badkind", fp(owned, partitions.Kind(9), inner))
	put("mf_inner_garbage", fp(owned, partitions.PRIMARY, []byte{0xc1, 0xff, 0x00, 0x93}))
	put("mf_inner_empty", fp(owned, partitions.PRIMARY, nil))
	bad := pk
	bad.Offset = pk.Allocated + 4096 // claims more used bytes than the table has
	put("mf_inner_bad_offset", fp(owned, partitions.PRIMARY, c16MustPack(bad)))
	bad = pk
	bad.HKeys = map[uint64]uint64{}
	for hk := range pk.HKeys {
		bad.HKeys[hk] = pk.Allocated * 2 // entry offsets beyond the table memory
	}
	put("mf_inner_bad_hkey", fp(owned, partitions.PRIMARY, c16MustPack(bad)))
	bad = pk
	bad.Allocated = 1 << 60 // a table of an exabyte
	put("mf_inner_huge_allocated", fp(owned, partitions.PRIMARY, c16MustPack(bad)))
	bad = pk
	bad.OffsetIndex = []byte{1, 2, 3}
	put("mf_inner_bad_index", fp(owned, partitions.PRIMARY, c16MustPack(bad)))

	// ---- DM.PUTENTRY
	ent := c16Entry("k1", "entry-value")
	put("ent_valid", ent)
	put("ent_truncated", ent[:12])
	put("ent_short", []byte{0x05, 'a'})
	lie := append([]byte(nil), ent...)
	lie[0] = 0xff // key length larger than the whole entry
	put("ent_keylen_lie", lie)
	// the value-length field claims two tables' worth of bytes, four are present; sent alone and
	// followed by a further argument that is at least as long as the claimed value
	vl := append([]byte(nil), ent[:1+len("k1")+24]...)
	vl = append(vl, 0x00, 0x02, 0x00, 0x00) // 128 KiB, big endian; the tables of these members hold 64 KiB
	vl = append(vl, 'x', 'x', 'x', 'x')
	put("ent_vallen_lie", vl)
	put("big_trailing", bytes.Repeat([]byte{'t'}, 128<<10+64))
	return res
}

func c16Serve(ctx *runCtx) {
	c, err := cluster.Start(cluster.Config{Replicas: 2, Partitions: c16Partitions, TableSize: 1 << 16, LogTo: os.Stderr}, 2)
	if err != nil {
		fmt.Fprintln(os.Stderr, "C16-SERVE-START-FAILED:", err)
		os.Exit(4)
	}
	rd := c16Ready{Pid: os.Getpid(), Race: raceEnabled}
	for _, m := range c.Members {
		rd.Addrs = append(rd.Addrs, m.Name)
		rd.IDs = append(rd.IDs, strconv.FormatUint(m.V.RT.This().ID, 10))
		rd.Payloads = append(rd.Payloads, c16Payloads(c, m))
	}
	rd.Coordinator = strconv.FormatUint(c.Coordinator().V.RT.This().ID, 10)
	line, _ := json.Marshal(rd)
	fmt.Printf("READY %s\n", line)
	_ = os.Stdout.Sync()
	// live until the driver goes away; answer its SNAP requests
	sc := bufio.NewScanner(os.Stdin)
	for sc.Scan() {
		if strings.TrimSpace(sc.Text()) == "SNAP" {
			out, _ := json.Marshal(c16BusyGoroutines())
			fmt.Printf("SNAP %s\n", out)
			_ = os.Stdout.Sync()
		}
	}
	os.Exit(0)
}

// c16Busy is a goroutine that is running or runnable inside redcon or olric code.
type c16Busy struct {
	ID    string `json:"id"`
	State string `json:"state"`
	Top   string `json:"top"`   // innermost redcon/olric frame
	Stack string `json:"stack"` // first lines of the stack
}

// c16BusyGoroutines lists the goroutines that are not parked although they
// belong to the RESP server or to olric. With no request in flight there
// should be none; one that stays in the list over several snapshots is spinning.
func c16BusyGoroutines() []c16Busy {
	buf := make([]byte, 8<<20)
	buf = buf[:runtime.Stack(buf, true)]
	res := []c16Busy{}
	for _, b := range strings.Split(string(buf), "\n\n") {
		lines := strings.Split(b, "\n")
		if len(lines) < 2 || !strings.HasPrefix(lines[0], "goroutine ") {
			continue
		}
		head := lines[0]
		i, j := strings.IndexByte(head, '['), strings.LastIndexByte(head, ']')
		if i < 0 || j < i {
			continue
		}
		state := head[i+1 : j]
		if !strings.HasPrefix(state, "running") && !strings.HasPrefix(state, "runnable") {
			continue
		}
		if strings.Contains(b, "main.c16BusyGoroutines") {
			continue // this goroutine
		}
		top := ""
		for _, l := range lines[1:] {
			if strings.HasPrefix(l, "github.com/tidwall/redcon.") || (strings.HasPrefix(l, "github.com/olric-data/olric") && !strings.HasPrefix(l, "github.com/olric-data/olric/verif/")) {
				top = l
				if k := strings.LastIndexByte(top, '('); k > 0 {
					top = top[:k] // cut the argument list
				}
				top = top[strings.LastIndexByte(top, '/')+1:]
				break
			}
		}
		if top == "" {
			continue
		}
		if len(lines) > 14 {
			lines = lines[:14]
		}
		res = append(res, c16Busy{ID: strings.Fields(head)[1], State: state, Top: top, Stack: strings.Join(lines, "\n")})
	}
	return res
}
