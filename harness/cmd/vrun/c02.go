package main

// C02 — acknowledged writes survive the loss of up to ReplicaCount-1 members.
//
// Fault enumeration: cluster size x replica count x set of members stopped
// (at most R-1; coordinator / non-coordinator; owner / backup / bystander of
// the in-flight key) x graceful leave vs abrupt stop x instant (idle, between
// operations of a running workload, in the middle of an operation via a hook
// that stops the member at that very point). The harness keeps a per-key log
// of acknowledged operations; after re-stabilisation every key is read through
// every survivor and a fresh cluster client and must be in allowed(key).

import (
	"context"
	"fmt"
	"github.com/olric-data/olric/internal/cluster/partitions"
	"math/rand"
	"sort"
	"strings"
	"sync"
	"sync/atomic"
	"time"

	"github.com/olric-data/olric"
	"github.com/olric-data/olric/internal/verifhook"
	"github.com/olric-data/olric/verif/cluster"
	"github.com/olric-data/olric/verif/paths"
)

func init() {
	register("C02", &checkFn{level: "fault_enumeration", run: c02Run, child: c02Child})
}

type c02Case struct {
	N, R    int
	P       uint64
	Stop    []int  // member indexes to stop
	Mode    string // graceful | abrupt
	Instant string // idle | between | during:<hook point>
	RR      bool   // read repair
	Balance bool   // run the balancer after re-stabilisation and verify again
	Seed    int64
}

func (c c02Case) spec() string {
	var st []string
	for _, s := range c.Stop {
		st = append(st, fmt.Sprint(s))
	}
	return fmt.Sprintf("N=%d R=%d P=%d stop=%s mode=%s instant=%s rr=%v balance=%v seed=%d", c.N, c.R, c.P, strings.Join(st, "+"), c.Mode, c.Instant, c.RR, c.Balance, c.Seed)
}

func parseC02(s string) c02Case {
	var c c02Case
	var stop string
	fmt.Sscanf(s, "N=%d R=%d P=%d stop=%s mode=%s instant=%s rr=%t balance=%t seed=%d", &c.N, &c.R, &c.P, &stop, &c.Mode, &c.Instant, &c.RR, &c.Balance, &c.Seed)
	for _, x := range strings.Split(stop, "+") {
		var i int
		fmt.Sscanf(x, "%d", &i)
		c.Stop = append(c.Stop, i)
	}
	return c
}

// per-key acknowledgement log
type c02Key struct {
	mu        sync.Mutex
	lastAcked string          // "" = never written, "<deleted>" = deleted
	possible  map[string]bool // values / "<deleted>" of operations that were open or issued after the fault began
	preFault  bool            // whether lastAcked was acknowledged before the fault began
}

const c02Deleted = "<deleted>"

type c02World struct {
	c          *cluster.Cluster
	dmap       string
	keys       []string
	log        map[string]*c02Key
	faultBegan int32
	counter    int64
}

func (w *c02World) record(key, val string, acked bool) {
	k := w.log[key]
	k.mu.Lock()
	defer k.mu.Unlock()
	during := atomic.LoadInt32(&w.faultBegan) == 1
	if acked && !during {
		k.lastAcked = val
		k.preFault = true
		// an acknowledged pre-fault operation supersedes earlier possibilities
		k.possible = map[string]bool{}
		return
	}
	// open, failed or issued after the fault began: its effect may or may not be visible
	if k.possible == nil {
		k.possible = map[string]bool{}
	}
	k.possible[val] = true
}

func (w *c02World) allowed(key string) (vals map[string]bool) {
	k := w.log[key]
	k.mu.Lock()
	defer k.mu.Unlock()
	vals = map[string]bool{}
	if k.lastAcked == "" {
		vals[c02Deleted] = true
	} else {
		vals[k.lastAcked] = true
	}
	for v := range k.possible {
		vals[v] = true
	}
	return vals
}

// doOp performs one Put or Delete through the given client and records it.
func (w *c02World) doOp(cl paths.Client, key string, del bool, timeout time.Duration) string {
	ctx, cancel := context.WithTimeout(context.Background(), timeout)
	defer cancel()
	if del {
		_, err := cl.Delete(ctx, key)
		w.record(key, c02Deleted, err == nil)
		return paths.Class(err)
	}
	val := fmt.Sprintf("%s=v%d", key, atomic.AddInt64(&w.counter, 1))
	err := cl.Put(ctx, key, []byte(val+strings.Repeat(".", 60)), paths.PutOpts{})
	w.record(key, val, err == nil)
	return paths.Class(err)
}

func c02Strip(v []byte) string { return strings.TrimRight(string(v), ".") }

func c02Child(ctx *runCtx, spec string) {
	cs := parseC02(spec)
	c, err := cluster.Start(cluster.Config{Replicas: cs.R, Partitions: cs.P, TableSize: 2048, ReadRepair: cs.RR, FastFailureDetection: true}, cs.N)
	if err != nil {
		ctx.rep.Inconclusive(spec + ": cluster start: " + err.Error())
		return
	}
	defer c.Shutdown()
	defer func() {
		ctx.rep.Count("restabilisations_accepted_with_differing_backup_owner_lists", atomic.LoadInt64(&cluster.LooseStable))
	}()
	rng := rand.New(rand.NewSource(cs.Seed))
	w := &c02World{c: c, dmap: []string{"c02", "dmap.c02"}[cs.Seed%2], log: map[string]*c02Key{}}
	for i := 0; i < 60; i++ {
		k := fmt.Sprintf("key-%d", i)
		w.keys = append(w.keys, k)
		w.log[k] = &c02Key{}
	}
	router := paths.NewRouter(c, w.dmap)
	defer router.Close()
	victims := map[*cluster.Member]bool{}
	for _, i := range cs.Stop {
		victims[c.Members[i]] = true
	}
	var survivors []*cluster.Member
	for _, m := range c.Members {
		if !victims[m] {
			survivors = append(survivors, m)
		}
	}
	sess := router.NewSession()
	defer sess.Close()
	fpHealthy := c.Fingerprint()
	// ---- phase 1: acknowledged writes on a healthy cluster, through all members and paths
	kinds := []string{"EO", "EN", "CC", "RO", "RN"}
	for round := 0; round < 3; round++ {
		for i, k := range w.keys {
			del := round == 2 && i%4 == 0
			if r := w.doOp(sess.Via(kinds[(i+round)%len(kinds)]), k, del, 20*time.Second); r != "ok" {
				ctx.rep.Inconclusive(fmt.Sprintf("%s: pre-fault operation on %s failed: %s", spec, k, r))
				return
			}
			ctx.rep.Count("acknowledged_prefault_ops", 1)
		}
	}
	// clients that survive the fault: pinned to survivors
	_ = func(i int) paths.Client {
		m := survivors[i%len(survivors)]
		if i%2 == 0 {
			return sess.ViaMember("E", m)
		}
		return sess.ViaMember("R", m)
	}

	if c.Fingerprint() != fpHealthy {
		ctx.rep.Inconclusive(spec + ": membership/routing changed while the pre-fault writes ran (false failure suspicion): the cluster was not healthy")
		return
	}

	stopAll := func() {
		var wg sync.WaitGroup
		for m := range victims {
			wg.Add(1)
			go func(m *cluster.Member) {
				defer wg.Done()
				if cs.Mode == "graceful" {
					c.StopGraceful(m)
				} else {
					c.StopAbrupt(m)
				}
			}(m)
		}
		wg.Wait()
	}

	hookReached := false
	switch {
	case cs.Instant == "idle":
		atomic.StoreInt32(&w.faultBegan, 1)
		stopAll()
	case cs.Instant == "sequential":
		// the members stop one after the other; after each stop the cluster re-stabilises and the hand-over
		// (routing push, balancer passes) runs to completion before the next member stops
		atomic.StoreInt32(&w.faultBegan, 1)
		for n, i := range cs.Stop {
			m := c.Members[i]
			if cs.Mode == "graceful" {
				c.StopGraceful(m)
			} else {
				c.StopAbrupt(m)
			}
			if err := c.WaitStable(60 * time.Second); err != nil {
				ctx.rep.Inconclusive(spec + ": " + err.Error())
				return
			}
			for round := 0; round < 30; round++ {
				for _, l := range c.Live() {
					l.V.Balancer.BalanceEagerly()
				}
				c.PushRouting()
			}
			if err := c.WaitStable(30 * time.Second); err != nil {
				ctx.rep.Inconclusive(spec + ": " + err.Error())
				return
			}
			ctx.rep.Count("sequential_stops_with_full_handover_in_between", 1)
			_ = n
		}
	case cs.Instant == "lagging-target":
		// The first member stops. One survivor (not the coordinator) is held back before it applies the pushed routing
		// table, so that it still has the old one while the other survivors already balance: fragments sent to it are
		// rejected. Then it catches up, the hand-over is run to completion and the second member stops.
		atomic.StoreInt32(&w.faultBegan, 1)
		// the member to hold back: the one that will become a NEW backup owner for most keys of the member that
		// stops first (it is not among their backup owners now), and that is neither the coordinator nor a victim
		var lag *cluster.Member
		firstVictim := c.Members[cs.Stop[0]]
		best := -1
		for _, m := range c.Members {
			if m == c.Coordinator() || m == firstVictim {
				continue
			}
			cnt := 0
			for _, k := range w.keys {
				if c.OwnerOf(w.dmap, k) != firstVictim {
					continue
				}
				isBackup := false
				for _, b := range c.BackupsOf(w.dmap, k) {
					if b == m {
						isBackup = true
					}
				}
				if !isBackup {
					cnt++
				}
			}
			if cnt > best {
				best, lag = cnt, m
			}
		}
		ctx.rep.Count("lagging_target_keys_for_which_the_held_member_becomes_a_new_backup_owner", int64(best))
		if lag == nil {
			ctx.rep.Inconclusive(spec + ": no survivor besides the coordinator")
			return
		}
		release := make(chan struct{})
		var held int32
		verifhook.Set(lag.Name, "rt.before-update", func(member, name string) {
			atomic.AddInt32(&held, 1)
			<-release
		})
		first := c.Members[cs.Stop[0]]
		if cs.Mode == "graceful" {
			c.StopGraceful(first)
		} else {
			c.StopAbrupt(first)
		}
		// wait until every other survivor has a table without the stopped member
		updated := false
		for poll := 0; poll < 400 && !updated; poll++ {
			updated = atomic.LoadInt32(&held) > 0
			for _, m := range survivors {
				if m == lag {
					continue
				}
				v := m.View(cs.P)
				for _, owners := range v.Primary {
					for _, o := range owners {
						if o.Name == first.Name {
							updated = false
						}
					}
				}
			}
			if !updated {
				time.Sleep(50 * time.Millisecond)
			}
		}
		if !updated {
			close(release)
			verifhook.Set(lag.Name, "rt.before-update", nil)
			ctx.rep.Inconclusive(spec + ": the survivors did not get the new routing table while one member was held back")
			return
		}
		for round := 0; round < 10; round++ {
			for _, l := range c.Live() {
				if l != lag {
					l.V.Balancer.BalanceEagerly()
				}
			}
		}
		ctx.rep.Count("balancer_rounds_while_a_target_had_the_old_routing_table", 10)
		verifhook.Set(lag.Name, "rt.before-update", nil)
		close(release)
		handOver := func() bool {
			if err := c.WaitStable(60 * time.Second); err != nil {
				ctx.rep.Inconclusive(spec + ": " + err.Error())
				return false
			}
			for round := 0; round < 30; round++ {
				for _, l := range c.Live() {
					l.V.Balancer.BalanceEagerly()
				}
				c.PushRouting()
			}
			if err := c.WaitStable(30 * time.Second); err != nil {
				ctx.rep.Inconclusive(spec + ": " + err.Error())
				return false
			}
			return true
		}
		if !handOver() {
			return
		}
		second := c.Members[cs.Stop[1]]
		// adversarial choice of the second member to stop: the one that holds a copy of the key with the fewest
		// copies (on a correct tree every key has its full set of copies again and the choice does not matter)
		fewest := 1 << 30
		for _, k := range w.keys {
			var holders []*cluster.Member
			for _, m := range c.Live() {
				_, p := m.V.DMap.VerifEntry(partitions.PRIMARY, w.dmap, k)
				_, b := m.V.DMap.VerifEntry(partitions.BACKUP, w.dmap, k)
				if p || b {
					holders = append(holders, m)
				}
			}
			ctx.rep.Count(fmt.Sprintf("lagging_target_keys_with_%d_holders", len(holders)), 1)
			if len(holders) > 0 && len(holders) < fewest {
				fewest = len(holders)
				second = holders[0]
			}
		}
		ctx.rep.Count(fmt.Sprintf("lagging_target_second_stop_chosen_with_fewest_copies_%d", fewest), 1)
		delete(victims, c.Members[cs.Stop[1]])
		victims[second] = true
		survivors = nil
		for _, m := range c.Members {
			if !victims[m] {
				survivors = append(survivors, m)
			}
		}
		if cs.Mode == "graceful" {
			c.StopGraceful(second)
		} else {
			c.StopAbrupt(second)
		}
		if !handOver() {
			return
		}
	case cs.Instant == "between":
		// a workload keeps running on the survivors while the members stop
		stopWl := make(chan struct{})
		var wl sync.WaitGroup
		for g := 0; g < 4; g++ {
			wl.Add(1)
			go func(g int) {
				defer wl.Done()
				s2 := router.NewSession()
				defer s2.Close()
				r2 := rand.New(rand.NewSource(cs.Seed*10 + int64(g)))
				for {
					select {
					case <-stopWl:
						return
					default:
					}
					k := w.keys[(g*15+r2.Intn(15))%len(w.keys)] // disjoint key ranges per writer: sequential per key
					m := survivors[r2.Intn(len(survivors))]
					cl := s2.ViaMember([]string{"E", "R"}[r2.Intn(2)], m)
					w.doOp(cl, k, r2.Intn(5) == 0, 5*time.Second)
					ctx.rep.Count("ops_during_fault_window", 1)
				}
			}(g)
		}
		time.Sleep(time.Duration(20+rng.Intn(60)) * time.Millisecond)
		atomic.StoreInt32(&w.faultBegan, 1)
		stopAll()
		time.Sleep(300 * time.Millisecond)
		close(stopWl)
		wl.Wait()
	case strings.HasPrefix(cs.Instant, "during:"):
		point := strings.TrimPrefix(cs.Instant, "during:")
		victim := c.Members[cs.Stop[0]]
		// a key owned by the victim, so that the victim executes the operation
		var key string
		for _, k := range w.keys {
			if c.OwnerOf(w.dmap, k) == victim && w.log[k].lastAcked != c02Deleted {
				key = k
				break
			}
		}
		if key == "" {
			ctx.rep.Inconclusive(spec + ": the member to stop owns none of the keys")
			return
		}
		var once sync.Once
		reached := make(chan struct{})
		verifhook.Set(victim.Name, point, func(member, name string) {
			fire := false
			once.Do(func() { fire = true })
			if !fire {
				return
			}
			atomic.StoreInt32(&w.faultBegan, 1)
			close(reached)
			// crash right here: the member vanishes, this goroutine never continues
			go stopAll()
			select {}
		})
		del := strings.HasPrefix(point, "del.")
		done := make(chan string, 1)
		go func() {
			s2 := router.NewSession()
			defer s2.Close()
			// through a survivor: the caller outlives the crash
			done <- w.doOp(s2.ViaMember("R", survivors[0]), key, del, 8*time.Second)
		}()
		select {
		case <-reached:
			hookReached = true
		case r := <-done:
			ctx.rep.Inconclusive(fmt.Sprintf("%s: the operation finished (%s) without reaching the hook", spec, r))
			return
		case <-time.After(10 * time.Second):
			ctx.rep.Inconclusive(spec + ": hook not reached in 10 s")
			return
		}
		select {
		case <-done:
		case <-time.After(15 * time.Second):
		}
		// make sure every victim is really gone
		time.Sleep(200 * time.Millisecond)
		for m := range victims {
			c.StopAbrupt(m)
		}
	}
	ctx.rep.Eval(1)
	if err := c.WaitStable(60 * time.Second); err != nil {
		ctx.rep.Inconclusive(spec + ": " + err.Error())
		return
	}
	label := fmt.Sprintf("N=%d|R=%d|stopped=%d|coordinator-stopped=%v|mode=%s|instant=%s|rr=%v", cs.N, cs.R, len(cs.Stop), victims[c.Members[0]], cs.Mode, cs.Instant, cs.RR)
	if cs.Instant != "idle" || true {
		ctx.rep.Distinct(label)
	}
	ctx.rep.Count("faults_injected_"+cs.Mode, int64(len(cs.Stop)))
	if hookReached {
		ctx.rep.Count("hook_instants_reached_"+strings.TrimPrefix(cs.Instant, "during:"), 1)
	}

	verify := func(phase string) bool {
		cc, err := c.NewClusterClient()
		if err != nil {
			ctx.rep.Inconclusive(spec + ": cluster client after the fault: " + err.Error())
			return false
		}
		defer cc.Close(context.Background())
		ccdm, _ := cc.NewDMap(w.dmap)
		readers := map[string]olric.DMap{"cluster-client": ccdm}
		for _, m := range survivors {
			d, err := m.Emb.NewDMap(w.dmap)
			if err != nil {
				ctx.rep.Inconclusive(spec + ": NewDMap on a survivor: " + err.Error())
				return false
			}
			readers["embedded@"+m.Name] = d
		}
		var names []string
		for n := range readers {
			names = append(names, n)
		}
		sort.Strings(names)
		ok := true
		for _, k := range w.keys {
			allowed := w.allowed(k)
			for _, rn := range names {
				g, err := readers[rn].Get(context.Background(), k)
				got := c02Deleted
				if err == nil {
					b, _ := g.Byte()
					got = c02Strip(b)
				} else if paths.Class(err) != "key not found" {
					ctx.rep.Violate(fmt.Sprintf("c02|read-error|%s|mode=%s|instant=%s", phase, cs.Mode, cs.Instant),
						fmt.Sprintf("%s: after re-stabilisation Get(%s) via %s fails: %v", spec, k, strings.Split(rn, "@")[0], err), map[string]interface{}{"case": spec, "key": k})
					ok = false
					continue
				}
				ctx.rep.Count("keys_verified_x_readers", 1)
				if !allowed[got] {
					var al []string
					for a := range allowed {
						al = append(al, a)
					}
					sort.Strings(al)
					clause := "lost-or-rolled-back"
					if got != c02Deleted && allowed[c02Deleted] && len(allowed) == 1 {
						clause = "resurrected-delete"
					} else if got == c02Deleted {
						clause = "lost"
					}
					role := "bystander"
					// role of the stopped members for this key before the fault is not known any more; use the instant
					ctx.rep.Violate(fmt.Sprintf("c02|%s|%s|mode=%s|instant=%s|stopped=%d|R=%d", clause, phase, cs.Mode, cs.Instant, len(cs.Stop), cs.R),
						fmt.Sprintf("%s: after re-stabilisation Get(%s) via %s returns %q, allowed: %v (%s) :: %s", spec, k, rn, got, al, role, whereIs(c, w.dmap, k)),
						map[string]interface{}{"case": spec, "key": k, "reader": rn, "got": got, "allowed": al, "phase": phase})
					ok = false
					break
				}
			}
			if !ok {
				break
			}
		}
		return ok
	}
	fpAfter := c.Fingerprint()
	defer func() {
		// a membership change after re-stabilisation (other than the injected fault) invalidates the verdicts
		if c.Fingerprint() != fpAfter {
			if n := ctx.rep.DropViolations(); n > 0 {
				ctx.rep.Inconclusive(fmt.Sprintf("%s: membership changed again after re-stabilisation; %d violation(s) dropped", spec, n))
			}
		}
	}()
	if !verify("after-stabilisation") {
		return
	}
	if cs.Balance {
		for round := 0; round < 30; round++ {
			for _, m := range survivors {
				m.V.Balancer.BalanceEagerly()
			}
			c.PushRouting()
		}
		_ = c.WaitStable(30 * time.Second)
		fpAfter = c.Fingerprint()
		if !verify("after-balancing") {
			return
		}
	}
	// ---- post-fault phase: plain Put / Get / Delete must behave as in a healthy cluster
	s3 := router.NewSession()
	defer s3.Close()
	for i, k := range w.keys {
		if i%3 != 0 {
			continue
		}
		cl := s3.ViaMember([]string{"E", "R"}[i%2], survivors[i%len(survivors)])
		rd := s3.ViaMember("E", survivors[(i+1)%len(survivors)])
		bg := context.Background()
		step := func(op string, want string) bool {
			g, err := rd.Get(bg, k)
			got := c02Deleted
			if err == nil {
				got = c02Strip(g.Value)
			}
			ctx.rep.Count("postfault_checks", 1)
			if got != want {
				ctx.rep.Violate(fmt.Sprintf("c02|postfault|%s-ineffective|mode=%s", op, cs.Mode),
					fmt.Sprintf("%s: after the failure, %s(%s) was acknowledged but Get returns %q, want %q", spec, op, k, got, want), map[string]interface{}{"case": spec, "key": k, "op": op})
				return false
			}
			return true
		}
		if _, err := cl.Delete(bg, k); err != nil {
			ctx.rep.Violate("c02|postfault|Delete-failed|mode="+cs.Mode, fmt.Sprintf("%s: Delete(%s) after the failure: %v", spec, k, err), map[string]interface{}{"case": spec})
			return
		}
		if !step("Delete", c02Deleted) {
			return
		}
		if err := cl.Put(bg, k, []byte("post-1"), paths.PutOpts{}); err != nil {
			ctx.rep.Violate("c02|postfault|Put-failed|mode="+cs.Mode, fmt.Sprintf("%s: Put(%s) after the failure: %v", spec, k, err), map[string]interface{}{"case": spec})
			return
		}
		if !step("Put", "post-1") {
			return
		}
		if err := cl.Put(bg, k, []byte("post-2"), paths.PutOpts{}); err != nil || !step("Put", "post-2") {
			return
		}
		if _, err := cl.Delete(bg, k); err != nil || !step("Delete", c02Deleted) {
			return
		}
	}
	if cs.Seed%5 == 0 {
		ctx.rep.Sample(map[string]interface{}{"case": spec, "keys": len(w.keys), "survivors": len(survivors)})
	}
}

func c02Cases(tier string, seed int64) []c02Case {
	var cs []c02Case
	i := int64(0)
	add := func(c c02Case) {
		i++
		c.Seed = seed*1000 + i
		cs = append(cs, c)
	}
	duringPoints := []string{"put.before-backup", "put.before-local", "del.backups", "del.local"}
	if tier == "quick" {
		for _, stop := range []int{0, 1, 2} {
			for _, mode := range []string{"graceful", "abrupt"} {
				for _, inst := range []string{"idle", "between"} {
					add(c02Case{N: 3, R: 2, P: 7, Stop: []int{stop}, Mode: mode, Instant: inst, Balance: stop == 1})
				}
			}
		}
		for k, p := range duringPoints {
			add(c02Case{N: 3, R: 2, P: 7, Stop: []int{k % 2}, Mode: "abrupt", Instant: "during:" + p})
		}
		add(c02Case{N: 4, R: 3, P: 7, Stop: []int{0, 2}, Mode: "abrupt", Instant: "between", RR: true})
		add(c02Case{N: 4, R: 3, P: 7, Stop: []int{1, 3}, Mode: "graceful", Instant: "idle", Balance: true})
		// no spare member: the promoted members keep what they have; two failures one after the other
		for k, st := range [][]int{{2, 0}, {1, 2}, {0, 1}, {2, 1}, {1, 0}, {0, 2}} {
			add(c02Case{N: 3, R: 3, P: []uint64{7, 23, 31}[k%3], Stop: st, Mode: []string{"graceful", "abrupt"}[k%2], Instant: "sequential", Balance: k%2 == 1})
		}
		add(c02Case{N: 3, R: 3, P: 7, Stop: []int{2}, Mode: "graceful", Instant: "idle", Balance: true})
		add(c02Case{N: 4, R: 3, P: 23, Stop: []int{3, 0}, Mode: "abrupt", Instant: "sequential", RR: true})
		for k, st := range [][]int{{3, 1}, {1, 3}, {2, 1}, {0, 2}, {3, 2}, {1, 2}, {2, 3}, {0, 1}} {
			// (the second member to stop is chosen by the case itself, see there)
			add(c02Case{N: 4, R: 3, P: []uint64{61, 271}[(k/4)%2], Stop: st, Mode: []string{"abrupt", "graceful"}[k%2], Instant: "lagging-target"})
		}
		return cs
	}
	for _, n := range []int{3, 4, 5} {
		for _, r := range []int{2, 3} {
			if r > n {
				continue
			}
			// subsets of at most r-1 members; member 0 is the coordinator
			var subsets [][]int
			for a := 0; a < n; a++ {
				subsets = append(subsets, []int{a})
				if r == 3 {
					for b := a + 1; b < n; b++ {
						subsets = append(subsets, []int{a, b})
					}
				}
			}
			for si, st := range subsets {
				for mi, mode := range []string{"graceful", "abrupt"} {
					for ii, inst := range []string{"idle", "between"} {
						add(c02Case{N: n, R: r, P: []uint64{7, 23}[(si+mi)%2], Stop: st, Mode: mode, Instant: inst, RR: (si+ii)%2 == 0, Balance: (si+mi+ii)%2 == 0})
					}
				}
				if r == 3 && len(st) == 2 && n >= 4 {
					add(c02Case{N: n, R: r, P: []uint64{23, 31}[si%2], Stop: st, Mode: []string{"abrupt", "graceful"}[si%2], Instant: "lagging-target", RR: false, Balance: si%2 == 0})
				}
				if r == 3 && len(st) == 2 {
					add(c02Case{N: n, R: r, P: []uint64{7, 23}[si%2], Stop: st, Mode: []string{"graceful", "abrupt"}[si%2], Instant: "sequential", RR: si%3 == 0, Balance: si%2 == 0})
					add(c02Case{N: n, R: r, P: []uint64{23, 7}[si%2], Stop: []int{st[1], st[0]}, Mode: []string{"abrupt", "graceful"}[si%2], Instant: "sequential", RR: si%3 == 1, Balance: si%2 == 1})
				}
				if len(st) == 1 && st[0] < 3 {
					for k, p := range duringPoints {
						add(c02Case{N: n, R: r, P: 7, Stop: st, Mode: "abrupt", Instant: "during:" + p, RR: k%2 == 0, Balance: k%2 == 1})
					}
				}
			}
		}
	}
	return cs
}

func c02Run(ctx *runCtx) int {
	ctx.rep.Rule = "fault cases = (N members, ReplicaCount R, set of <= R-1 members stopped incl. the coordinator, graceful leave | abrupt stop, instant: idle | between operations of a running workload | during an operation: the owner is stopped by a hook exactly at put.before-backup / put.before-local / del.backups / del.local, read-repair, balancing afterwards); 180 acknowledged pre-fault operations on 60 keys through all paths; after re-stabilisation every key is read through every survivor and a fresh cluster client and must be the last pre-fault acknowledged value or a value of an operation that was open or issued after the fault began (absent only if a Delete qualifies); then Put/Get/Delete scripts on the survivors are checked against a map; distinct_nontrivial = distinct (N,R,|stopped|,coordinator stopped,mode,instant,read-repair) tuples whose fault was injected and verified"
	ctx.rep.Assumptions = []string{
		"memberlist is tuned for fast failure detection (probe 100 ms); stabilisation is detected white-box and a 60 s timeout makes the case inconclusive",
		"operations acknowledged after the fault began are not required to survive (the statement covers writes acknowledged on a healthy cluster); they only widen allowed(key)",
	}
	cases := c02Cases(ctx.tier, ctx.seed)
	var batches []batch
	for _, c := range cases {
		batches = append(batches, batch{Spec: c.spec(), Timeout: 4 * time.Minute})
	}
	par := 8
	runBatches(ctx, batches, par, func(b batch, res batchResult, tail string) {
		if res.TimedOut {
			ctx.rep.Inconclusive("child timed out: " + b.Spec)
			return
		}
		ctx.rep.Violate("c02|member-crashed|"+strings.Split(b.Spec, " seed=")[0], fmt.Sprintf("child %s died (exit %d): %s", b.Spec, res.ExitCode, lastLines(tail, 15)), map[string]interface{}{"case": b.Spec, "log": res.LogPath})
	})
	return ctx.rep.Finish(10)
}
