package main

// C16 raw byte streams: what is written to the socket is not necessarily RESP.

import (
	"fmt"
	"math/rand"
	"strings"

	"github.com/olric-data/olric/verif/respc"
)

// c16ValidCommand returns a well-formed argument vector of a registered command that never blocks.
func c16ValidCommand(rng *rand.Rand) []string {
	k := fmt.Sprintf("rk%d", rng.Intn(4))
	cmds := [][]string{
		{"PING"}, {"PING", "hi"}, {"DM.PUT", "c16-raw", k, "v"}, {"DM.GET", "c16-raw", k}, {"DM.DEL", "c16-raw", k},
		{"DM.PUT", "c16-raw", k, "v", "PX", "100000"}, {"DM.INCR", "c16-rawi", k, "1"}, {"DM.EXPIRE", "c16-raw", k, "100"},
		{"DM.SCAN", "3", "c16-raw", "0"}, {"DM.SCAN", "2", "c16-raw", "0", "MATCH", "rk.*", "COUNT", "2"},
		{"STATS"}, {"CLUSTER.MEMBERS"}, {"CLUSTER.ROUTINGTABLE"}, {"PUBLISH", "c16ch", "m"}, {"PUBSUB", "channels"},
		{"PUBSUB", "numsub", "c16ch"}, {"DM.GETPUT", "c16-raw", k, "w"}, {"DM.DESTROY", "c16-raw-d"},
		{"INTERNAL.NODE.LENGTHOFPART", "3"}, {"DM.UNLOCK", "c16-raw", k, "00ff"}, {"NOSUCH", "a"},
	}
	return cmds[rng.Intn(len(cmds))]
}

// every one of these is sent to both members in every run (phase "raw", deterministic part)
var c16HostileLengths = []string{"$999999999999\r\n", "$-5\r\nabc\r\n", "*-1\r\n", "*0\r\n", "*99999999999999999999\r\n", "*2147483648\r\n", "*9223372036854775807\r\n", "*4611686018427387904\r\n$4\r\nPING\r\n", "*-9223372036854775808\r\n", "$2147483648\r\n",
	"*1\r\n$-1\r\n", "*1\r\n$0\r\n\r\n", "*2\r\n$4\r\nPING\r\n$99999999\r\nx\r\n", "*1\r\n:5\r\n", "*1\r\n+PING\r\n", "*1\r\n*1\r\n$4\r\nPING\r\n",
	"$4\r\nPING\r\n", "*1\r\n$4\r\nPINGxx", "*1\n$4\nPING\n", "*1\r$4\rPING\r", "*+1\r\n$4\r\nPING\r\n", "* 1\r\n", "*1\r\n$ 4\r\nPING\r\n", "*1\r\n$04\r\nPING\r\n",
	"*1\r\n$4\r\nPIN\r\n\r\n", "*3\r\n$6\r\nDM.PUT\r\n", "\r\n", "\n", "\r\n\r\n\r\n", "\x00", "*", "$", "*1\r\n$", "*1\r\n$4", "-ERR\r\n", ":1\r\n", "+OK\r\n"}

var c16BrokenQuoting = []string{"PING \"unterminated\r\n", "PING 'unterminated\r\n", "PING \"a\"b\r\n", "PING \"\\", "PING \"\\x\r\n", "PING \"\\xZZ\"\r\n", "\"\r\n", "'\r\n", " \r\n", "PING \\\r\n",
	"DM.PUT \"a b\" 'c d' \"\\x00\\xff\"\r\n", "ping\tx\r\n", "   PING   \r\n", "PING\n", "PING\r", "GET / HTTP/1.1\r\nHost: localhost\r\n\r\n", "\x16\x03\x01\x02\x00\x01\x00\x01\xfc\x03\x03"}

func randBytes(rng *rand.Rand, n int, alphabet string) string {
	b := make([]byte, n)
	for i := range b {
		if alphabet == "" {
			b[i] = byte(rng.Intn(256))
		} else {
			b[i] = alphabet[rng.Intn(len(alphabet))]
		}
	}
	return string(b)
}

// c16RawStream returns (bytes, kind, complete). complete = the stream ends on a
// command boundary and holds at least one well-formed command, so a reply (or
// a close) is due.
func c16RawStream(rng *rand.Rand, specs []c16Spec) (string, string, bool) {
	enc := func(args []string) string { return string(respc.EncodeStrings(args...)) }
	switch rng.Intn(14) {
	case 0:
		return randBytes(rng, 1+rng.Intn(200), ""), "random-bytes", false
	case 1:
		return randBytes(rng, 1+rng.Intn(120), "*$+-:\r\n0123456789 \"'ab"), "resp-alphabet", false
	case 2: // truncated valid command
		s := enc(c16ValidCommand(rng))
		return s[:rng.Intn(len(s))], "truncated", false
	case 3: // one byte flipped
		b := []byte(enc(c16ValidCommand(rng)))
		b[rng.Intn(len(b))] = byte(rng.Intn(256))
		return string(b), "byte-flip", false
	case 4: // hostile lengths
		return c16HostileLengths[rng.Intn(len(c16HostileLengths))], "hostile-length", false
	case 5: // inline commands with random tokens
		s := specs[rng.Intn(len(specs))]
		name := s.Name
		if name == "dm.lock" || strings.ContainsAny(name, "\r\n\x00") || name == "" {
			name = "dm.get"
		}
		var parts []string
		parts = append(parts, caseVariant(name, rng.Intn(3)))
		toks := []string{"a", "c16-raw", "k", "0", "1", "-1", "PX", "ex", "NX", "MATCH", "COUNT", "RC", "NaN", "1e400", c16Huge, `"quoted arg"`, `'single'`, `"x\x41\n"`, "", "\t"}
		for i, n := 0, rng.Intn(6); i < n; i++ {
			parts = append(parts, toks[rng.Intn(len(toks))])
		}
		return strings.Join(parts, " ") + "\r\n", "inline", true
	case 6: // broken inline quoting
		return c16BrokenQuoting[rng.Intn(len(c16BrokenQuoting))], "inline-quoting", false
	case 7: // long line without newline / with newline
		n := 1000 + rng.Intn(70000)
		s := "PING " + strings.Repeat("x", n)
		if rng.Intn(2) == 0 {
			return s + "\r\n", "long-inline", true
		}
		return s, "long-inline-open", false
	case 8: // pipeline of well-formed commands
		var sb strings.Builder
		for i, n := 0, 1+rng.Intn(30); i < n; i++ {
			sb.WriteString(enc(c16ValidCommand(rng)))
		}
		return sb.String(), "pipeline", true
	case 9: // subscribe in the middle of a pipeline: the detached connection inherits the rest
		var sb strings.Builder
		for i, n := 0, rng.Intn(4); i < n; i++ {
			sb.WriteString(enc(c16ValidCommand(rng)))
		}
		if rng.Intn(2) == 0 {
			sb.WriteString(enc([]string{"SUBSCRIBE", "c16raw", "c16raw2"}))
		} else {
			sb.WriteString(enc([]string{"PSUBSCRIBE", "c16raw*"}))
		}
		for i, n := 0, 1+rng.Intn(6); i < n; i++ {
			switch rng.Intn(5) {
			case 0:
				sb.WriteString(enc(c16ValidCommand(rng)))
			case 1:
				sb.WriteString(enc([]string{"UNSUBSCRIBE"}))
			case 2:
				sb.WriteString(enc([]string{"PUNSUBSCRIBE", "nope"}))
			case 3:
				sb.WriteString(enc([]string{"PING", "x"}))
			case 4:
				sb.WriteString(enc([]string{"SUBSCRIBE"}))
			}
		}
		if rng.Intn(3) == 0 {
			sb.WriteString(enc([]string{"QUIT"}))
		}
		return sb.String(), "pipeline-subscribe", true
	case 10: // pipeline followed by garbage
		var sb strings.Builder
		for i, n := 0, 1+rng.Intn(5); i < n; i++ {
			sb.WriteString(enc(c16ValidCommand(rng)))
		}
		sb.WriteString(randBytes(rng, 1+rng.Intn(40), ""))
		return sb.String(), "pipeline+garbage", true
	case 11: // well-formed RESP of hostile argument vectors, several in one write
		var sb strings.Builder
		for i, n := 0, 1+rng.Intn(5); i < n; i++ {
			s := specs[rng.Intn(len(specs))]
			if s.Name == "dm.lock" || s.Name == "subscribe" || s.Name == "psubscribe" {
				continue
			}
			args := []string{s.Name}
			for j, m := 0, rng.Intn(6); j < m; j++ {
				al := s.tailAlphabet()
				t := al[rng.Intn(len(al))]
				args = append(args, t.B)
			}
			sb.WriteString(enc(args))
		}
		sb.WriteString(enc([]string{"PING"}))
		return sb.String(), "pipeline-hostile-args", true
	case 12: // mixed inline and RESP
		return "PING\r\n" + enc([]string{"PING", "a"}) + "PING b\r\n" + enc([]string{"DM.GET", "c16-raw", "k"}), "mixed-inline-resp", true
	default: // empty array then command, nulls inside arrays
		ls := []string{"*0\r\n*1\r\n$4\r\nPING\r\n", "*2\r\n$4\r\nPING\r\n$-1\r\n*1\r\n$4\r\nPING\r\n", "*1\r\n$0\r\n\r\n*1\r\n$4\r\nPING\r\n"}
		return ls[rng.Intn(len(ls))], "empty-and-null", true
	}
}
