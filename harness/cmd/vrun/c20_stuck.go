package main

// C20, "worker" batches: does the compaction worker keep working? The real compaction worker (20 ms) and the real
// janitor (1 ms) run while a DMap is filled over many tables and emptied again, several times: compaction then works
// through fragments that hold nothing but garbage, table by table, while the janitor removes the same fragments as
// soon as they are empty. Afterwards an overwrite churn produces garbage above the threshold; it has to go away
// ("compaction keeps making progress until the garbage ratio is below its threshold").

import (
	"context"
	"fmt"
	"time"

	"github.com/olric-data/olric/internal/cluster/partitions"
	"github.com/olric-data/olric/internal/kvstore/table"
	"github.com/olric-data/olric/verif/cluster"
)

func c20WorkerChild(ctx *runCtx, spec string) {
	var n, r, cycles int
	var seed int64
	fmt.Sscanf(spec, "worker N=%d R=%d cycles=%d seed=%d", &n, &r, &cycles, &seed)
	const parts = 3
	c, err := cluster.Start(cluster.Config{Replicas: r, Partitions: parts, TableSize: 2048, CompactionInterval: 20 * time.Millisecond, JanitorInterval: time.Millisecond}, n)
	if err != nil {
		ctx.rep.Inconclusive(spec + ": cluster start: " + err.Error())
		return
	}
	defer c.Shutdown()
	fp := c.Fingerprint()
	bg := context.Background()
	name := fmt.Sprintf("c20-worker-%d", seed)
	d, err := c.Live()[0].Emb.NewDMap(name)
	if err != nil {
		ctx.rep.Inconclusive(spec + ": NewDMap: " + err.Error())
		return
	}
	val := make([]byte, 100)
	for cy := 0; cy < cycles; cy++ {
		for i := 0; i < 300; i++ {
			if err := d.Put(bg, fmt.Sprintf("k%d", i), val); err != nil {
				ctx.rep.Inconclusive(spec + ": Put: " + err.Error())
				return
			}
		}
		for i := 0; i < 300; i++ {
			if _, err := d.Delete(bg, fmt.Sprintf("k%d", i)); err != nil {
				ctx.rep.Inconclusive(spec + ": Delete: " + err.Error())
				return
			}
		}
		time.Sleep(60 * time.Millisecond)
		ctx.rep.Count("fill_and_empty_cycles_under_worker_and_janitor", 1)
	}
	// probe: garbage above the threshold in read-only tables
	for round := 0; round < 6; round++ {
		for i := 0; i < 200; i++ {
			if err := d.Put(bg, fmt.Sprintf("p%d", i), val); err != nil {
				ctx.rep.Inconclusive(spec + ": Put: " + err.Error())
				return
			}
		}
	}
	ctx.rep.Eval(1)
	state := func() (above int, garbage uint64, example string) {
		for _, m := range c.Live() {
			for p := uint64(0); p < parts; p++ {
				for _, kind := range []partitions.Kind{partitions.PRIMARY, partitions.BACKUP} {
					_, tabs, ok := m.V.DMap.VerifStats(kind, p, name)
					if !ok {
						continue
					}
					for _, t := range tabs {
						garbage += t.Garbage
						if t.State == table.ReadOnlyState && c20AboveThreshold(t) {
							above++
							if example == "" {
								example = fmt.Sprintf("%s %s partition %d: read-only table with %d garbage of %d written bytes", m.Name, kind, p, t.Garbage, t.Inuse+t.Garbage)
							}
						}
					}
				}
			}
		}
		return
	}
	above0, garbage0, _ := state()
	ctx.rep.Count("tables_above_threshold_after_the_churn", int64(above0))
	var above int
	var garbage uint64
	var example string
	for poll := 0; poll < 300; poll++ { // 750 compaction cadences
		above, garbage, example = state()
		if above == 0 {
			break
		}
		time.Sleep(50 * time.Millisecond)
	}
	ctx.rep.Distinct(fmt.Sprintf("worker|N=%d|R=%d|cycles=%d", n, r, cycles))
	if c.Fingerprint() != fp {
		ctx.rep.Inconclusive(spec + ": membership/routing changed during the run")
		return
	}
	if above > 0 {
		if garbage < garbage0 {
			// the worker is alive but slow (starved machine)
			ctx.rep.Inconclusive(fmt.Sprintf("%s: %d tables still above the threshold after 15 s, garbage went from %d to %d: worker alive, machine too slow", spec, above, garbage0, garbage))
			return
		}
		ctx.rep.Violate("c20|compaction-stopped|worker|after-fragments-were-emptied-and-removed",
			fmt.Sprintf("%s: after %d fill-and-empty cycles with the janitor removing the emptied fragments, the compaction worker (20 ms) no longer works: 15 s without writes and %d read-only tables stay above the garbage threshold, total garbage unchanged at %d; e.g. %s", spec, cycles, above, garbage, example),
			map[string]interface{}{"batch": spec})
	}
	ctx.rep.Sample(map[string]interface{}{"config": spec, "tables_above_threshold_before_waiting": above0, "after": above})
}
