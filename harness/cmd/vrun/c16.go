package main

// C16 — no request can crash or wedge a member.
//
// Layout: the parent (c16Run) starts N driver children through runBatches. A
// driver (c16_drive.go) owns a server grandchild (c16_serve.go: 2-member
// in-process cluster, optionally the -race binary), sends its share of the
// deterministic request list over real TCP and applies the liveness protocol.
// When the server dies or wedges, the driver attributes it to the request it
// logged last, swaps in a pre-started spare server and goes on with the next
// request. Findings are written to findings-<shard>.jsonl; the parent groups
// them by (clause, command, panic, call site) and reports one violation per
// group with the smallest shape as the canonical witness.

import (
	"bufio"
	"encoding/json"
	"fmt"
	"math/rand"
	"os"
	"path/filepath"
	"sort"
	"strings"
	"time"
)

func init() {
	register("C16", &checkFn{level: "exploration", run: c16Run, child: c16Child, replay: c16Replay})
}

// ---------------------------------------------------------------- tokens

// c16Tok is one argument: concrete bytes plus the class used in shapes.
type c16Tok struct {
	B   string `json:"b"`             // concrete bytes (may be binary)
	Cls string `json:"cls"`           // class label for the shape
	Dyn string `json:"dyn,omitempty"` // "payload:<name>" | "coord" | "fresh": resolved per target at send time
}

func lit(s string) c16Tok { return c16Tok{B: s, Cls: s} }

var (
	tokE = c16Tok{B: "", Cls: "E"}
	tokB = c16Tok{B: "\x00\xff\r\n\x80$-1*", Cls: "B"}
)

const (
	c16Huge  = "9223372036854775808"  // MaxInt64+1
	c16UHuge = "18446744073709551615" // MaxUint64
)

func numAlphabet() []c16Tok {
	return []c16Tok{lit("0"), lit("1"), lit("-1"), {B: c16Huge, Cls: "huge"}, lit("1e400"), lit("NaN"), lit("abc")}
}

func kwBothCases(kws []string) []c16Tok {
	var res []c16Tok
	for _, k := range kws {
		res = append(res, c16Tok{B: strings.ToUpper(k), Cls: strings.ToUpper(k)})
		res = append(res, c16Tok{B: strings.ToLower(k), Cls: strings.ToUpper(k) + "~lc"})
	}
	return res
}

// every option keyword of the protocol, for the random phase
var c16AllKeywords = []string{"NX", "XX", "EX", "PX", "EXAT", "PXAT", "MATCH", "COUNT", "RC", "RW", "LC", "CR"}

func payloadToks(names ...string) []c16Tok {
	var res []c16Tok
	for _, n := range names {
		res = append(res, c16Tok{Cls: n, Dyn: "payload:" + n})
	}
	return res
}

// alphabet of a fixed position kind; dmapName is the valid DMap token for the command.
func kindAlphabet(kind, dmapName string) []c16Tok {
	switch kind {
	case "D":
		return []c16Tok{{B: dmapName, Cls: "d"}, tokE, tokB}
	case "K":
		// the key length is stored in one byte: 255 is the longest legal key
		return []c16Tok{{B: "k1", Cls: "k"}, tokE, tokB, {B: strings.Repeat("K", 255), Cls: "k255"}, {B: strings.Repeat("L", 256), Cls: "k256"}, {B: strings.Repeat("M", 70000), Cls: "k70000"}}
	case "V":
		return []c16Tok{{B: "value-1", Cls: "v"}, tokE, tokB}
	case "NUM":
		return append(numAlphabet(), tokE, tokB)
	case "TOKEN":
		return []c16Tok{{B: "000102030405060708090a0b0c0d0e0f", Cls: "tok"}, tokE, tokB, lit("abc"), {B: "zz", Cls: "nothex"}}
	case "PART":
		return []c16Tok{{B: "3", Cls: "p"}, {B: fmt.Sprint(c16Partitions), Cls: "p=count"}, {B: "1000000", Cls: "p>count"}, {B: c16UHuge, Cls: "p=maxuint"}, lit("-1"), lit("abc"), tokE}
	case "CURSOR":
		return []c16Tok{{B: "0", Cls: "c"}, {B: "1", Cls: "c1"}, {B: c16UHuge, Cls: "c=maxuint"}, lit("-1"), lit("abc"), tokE}
	case "ENTRY":
		return append(payloadToks("ent_valid", "ent_truncated", "ent_short", "ent_keylen_lie"), tokE)
	case "MFPAYLOAD":
		return append(payloadToks("mf_valid", "mf_truncated", "mf_wrongtype", "mf_badpart", "mf_notowned", "mf_badkind",
			"mf_inner_garbage", "mf_inner_empty", "mf_inner_bad_offset", "mf_inner_bad_hkey", "mf_inner_bad_index", "mf_inner_huge_allocated"), tokE, tokB)
	case "RTPAYLOAD":
		return append(payloadToks("rt_valid", "rt_truncated", "rt_wrongtype", "rt_badids", "rt_nilroute", "rt_emptyowners", "rt_short"), tokE, tokB)
	case "COORD":
		return []c16Tok{{Cls: "coord", Dyn: "coord"}, {B: "12345", Cls: "nomember"}, lit("0"), lit("-1"), lit("abc"), tokE, {B: c16UHuge, Cls: "maxuint"}}
	case "CHAN":
		return []c16Tok{{B: "c16ch", Cls: "ch"}, tokE, tokB, lit("*"), {B: "c16*", Cls: "glob"}, lit("["), {B: "\\", Cls: "backslash"}}
	case "MSG":
		return []c16Tok{{B: "hello", Cls: "m"}, tokE, tokB}
	case "SUBCMD":
		return []c16Tok{lit("channels"), lit("numpat"), lit("numsub"), lit("CHANNELS"), lit("abc"), tokE, tokB}
	}
	panic("kind " + kind)
}

// ---------------------------------------------------------------- command specs

type c16Spec struct {
	Name      string   // canonical lower-case command name
	Pos       []string // kinds of the fixed positions
	Kw        []string // option keywords the parser knows
	Extra     []c16Tok // further tail tokens
	Opt       bool     // option-bearing parser: deeper tails
	NoSubmode bool
}

func c16Specs() []c16Spec {
	return []c16Spec{
		{Name: "dm.put", Pos: []string{"D", "K", "V"}, Kw: []string{"NX", "XX", "EX", "PX", "EXAT", "PXAT"}, Opt: true},
		{Name: "dm.putentry", Pos: []string{"D", "K", "ENTRY"}},
		{Name: "dm.get", Pos: []string{"D", "K"}, Kw: []string{"RW"}},
		{Name: "dm.getentry", Pos: []string{"D", "K"}, Kw: []string{"RC"}},
		{Name: "dm.del", Pos: []string{"D", "K"}, Extra: []c16Tok{{B: "k2", Cls: "k"}}},
		{Name: "dm.delentry", Pos: []string{"D", "K"}, Kw: []string{"RC"}},
		{Name: "dm.expire", Pos: []string{"D", "K", "NUM"}},
		{Name: "dm.pexpire", Pos: []string{"D", "K", "NUM"}},
		{Name: "dm.destroy", Pos: []string{"D"}, Kw: []string{"LC"}},
		{Name: "dm.incr", Pos: []string{"D", "K", "NUM"}},
		{Name: "dm.decr", Pos: []string{"D", "K", "NUM"}},
		{Name: "dm.getput", Pos: []string{"D", "K", "V"}, Kw: []string{"RW"}},
		{Name: "dm.incrbyfloat", Pos: []string{"D", "K", "NUM"}},
		{Name: "dm.lock", Pos: []string{"D", "K", "NUM"}, Kw: []string{"EX", "PX"}, Opt: true},
		{Name: "dm.unlock", Pos: []string{"D", "K", "TOKEN"}},
		{Name: "dm.locklease", Pos: []string{"D", "K", "TOKEN", "NUM"}},
		{Name: "dm.plocklease", Pos: []string{"D", "K", "TOKEN", "NUM"}},
		{Name: "dm.scan", Pos: []string{"PART", "D", "CURSOR"}, Kw: []string{"MATCH", "COUNT", "RC"},
			Extra: []c16Tok{{B: "k.*", Cls: "re"}, {B: "(", Cls: "badre"}}, Opt: true},
		{Name: "internal.node.movefragment", Pos: []string{"MFPAYLOAD"}},
		{Name: "internal.node.updaterouting", Pos: []string{"RTPAYLOAD", "COORD"}},
		{Name: "internal.node.lengthofpart", Pos: []string{"PART"}, Kw: []string{"RC"}},
		{Name: "publish", Pos: []string{"CHAN", "MSG"}},
		{Name: "publish.internal", Pos: []string{"CHAN", "MSG"}},
		{Name: "subscribe", Pos: []string{"CHAN"}, Extra: []c16Tok{{B: "c16ch2", Cls: "ch"}}},
		{Name: "psubscribe", Pos: []string{"CHAN"}, Extra: []c16Tok{{B: "c16ch2", Cls: "ch"}}},
		{Name: "pubsub", Pos: []string{"SUBCMD"}, Extra: []c16Tok{{B: "c16ch", Cls: "ch"}, {B: "c16*", Cls: "glob"}, lit("[")}},
		{Name: "ping", Extra: []c16Tok{{B: "hello", Cls: "m"}}},
		{Name: "stats", Kw: []string{"CR"}},
		{Name: "cluster.routingtable"},
		{Name: "cluster.members"},
		// not registered anywhere: the mux's "unknown command" path and the pub/sub verbs outside subscribed mode
		{Name: "unsubscribe", Pos: []string{"CHAN"}},
		{Name: "punsubscribe", Pos: []string{"CHAN"}},
		{Name: "quit"},
		{Name: "nosuchcommand"},
		{Name: "", NoSubmode: true},
		{Name: tokB.B, NoSubmode: true},
		{Name: "dm.", NoSubmode: true},
		{Name: "dm.query", NoSubmode: true},
	}
}

func (s c16Spec) label() string {
	switch s.Name {
	case "":
		return "<empty-name>"
	case tokB.B:
		return "<binary-name>"
	}
	return s.Name
}

func (s c16Spec) dmapName() string { return "c16-" + s.Name }

func (s c16Spec) tailAlphabet() []c16Tok {
	t := append(numAlphabet(), tokE, tokB)
	t = append(t, kwBothCases(s.Kw)...)
	t = append(t, s.Extra...)
	t = append(t, c16Tok{B: "value-2", Cls: "v"})
	return t
}

// coreTailAlphabet: upper-case keywords, four numerics and one plain value; used for
// the deepest tail level of the option parsers.
func (s c16Spec) coreTailAlphabet() []c16Tok {
	t := []c16Tok{lit("1"), lit("-1"), lit("abc"), tokE}
	for _, k := range s.Kw {
		t = append(t, c16Tok{B: k, Cls: k})
	}
	t = append(t, s.Extra...)
	return append(t, c16Tok{B: "value-2", Cls: "v"})
}

// ---------------------------------------------------------------- requests

type c16Req struct {
	N      int      `json:"n"`
	Unit   int      `json:"unit"`  // requests of one unit run on the same driver, in order
	Phase  string   `json:"phase"` // grid | tail | dev | seq | submode | random | raw
	Cmd    string   `json:"cmd"`   // spec label
	Name   string   `json:"name"`  // command name as sent
	Toks   []c16Tok `json:"toks"`
	Target int      `json:"target"`
	Ctx    string   `json:"ctx,omitempty"`
	Sub    bool     `json:"sub,omitempty"` // send on a connection that is in subscribed mode
	// raw phase
	Raw         string `json:"raw,omitempty"`
	RawKind     string `json:"raw_kind,omitempty"`
	RawComplete bool   `json:"raw_complete,omitempty"`
}

func (r *c16Req) shape() string {
	if r.Phase == "raw" {
		return "[" + r.RawKind + "]"
	}
	cl := make([]string, len(r.Toks))
	for i, t := range r.Toks {
		cl[i] = strings.TrimSuffix(t.Cls, "~lc")
	}
	return "[" + strings.Join(cl, ",") + "]"
}

// caseVariant returns the command name in lower, upper or mixed case.
func caseVariant(name string, v int) string {
	switch v % 3 {
	case 0:
		return name
	case 1:
		return strings.ToUpper(name)
	}
	b := []byte(name)
	for i := range b {
		if i%2 == 0 && b[i] >= 'a' && b[i] <= 'z' {
			b[i] -= 32
		}
	}
	return string(b)
}

// product calls f with every vector over the given per-position alphabets.
func product(alph [][]c16Tok, f func([]c16Tok)) {
	cur := make([]c16Tok, len(alph))
	var rec func(i int)
	rec = func(i int) {
		if i == len(alph) {
			f(append([]c16Tok(nil), cur...))
			return
		}
		for _, t := range alph[i] {
			cur[i] = t
			rec(i + 1)
		}
	}
	rec(0)
}

type c16Plan struct {
	Reqs       []c16Req
	ByPhase    map[string]int
	Exhaustive string
}

// c16BuildPlan is a pure function of (seed, tier).
func c16BuildPlan(seed int64, tier string) *c16Plan {
	thorough := tier == "thorough"
	p := &c16Plan{ByPhase: map[string]int{}}
	unit := 0
	sameUnit := false // true while a multi-request sequence is being emitted
	add := func(r c16Req) {
		r.N = len(p.Reqs)
		if !sameUnit {
			unit++
		}
		r.Unit = unit
		p.Reqs = append(p.Reqs, r)
		p.ByPhase[r.Phase]++
	}
	specs := c16Specs()
	variant := 0
	nextName := func(s c16Spec) string {
		variant++
		// mostly the canonical lower-case name; every 4th/5th request upper or mixed case
		switch variant % 5 {
		case 3:
			return caseVariant(s.Name, 1)
		case 4:
			return caseVariant(s.Name, 2)
		}
		return s.Name
	}
	targets := []int{0}
	if thorough {
		targets = []int{0, 1}
	}
	tg := 0
	emit := func(phase string, s c16Spec, toks []c16Tok, ctx string, sub bool) {
		if thorough {
			name := nextName(s)
			for _, t := range targets {
				add(c16Req{Phase: phase, Cmd: s.label(), Name: name, Toks: toks, Target: t, Ctx: ctx, Sub: sub})
			}
			return
		}
		tg++
		add(c16Req{Phase: phase, Cmd: s.label(), Name: nextName(s), Toks: toks, Target: tg % 2, Ctx: ctx, Sub: sub})
	}

	for _, s := range specs {
		// (a) grid: every vector of length 0..len(Pos) over the per-kind alphabets
		var alph [][]c16Tok
		for _, k := range s.Pos {
			alph = append(alph, kindAlphabet(k, s.dmapName()))
		}
		for l := 0; l <= len(alph); l++ {
			product(alph[:l], func(v []c16Tok) { emit("grid", s, v, "", false) })
		}
		// (b) tails: valid fixed positions followed by every tail over the tail alphabet
		valid := make([]c16Tok, len(alph))
		for i := range alph {
			valid[i] = alph[i][0]
		}
		maxTail := 2
		if s.Opt {
			maxTail = 3
		}
		if thorough {
			maxTail++
		}
		ta := s.tailAlphabet()
		for l := 1; l <= maxTail; l++ {
			tl := make([][]c16Tok, l)
			for i := range tl {
				tl[i] = ta
				if s.Opt && l == maxTail {
					tl[i] = s.coreTailAlphabet()
				}
			}
			product(tl, func(v []c16Tok) { emit("tail", s, append(append([]c16Tok(nil), valid...), v...), "", false) })
		}
		// (c) deviations: one fixed position replaced by "" / binary, tails up to 2 (thorough) or 1 (quick)
		devTail := 1
		if thorough {
			devTail = 2
		}
		for i := range alph {
			for _, dv := range []c16Tok{tokE, tokB} {
				pre := append([]c16Tok(nil), valid...)
				pre[i] = dv
				for l := 1; l <= devTail; l++ {
					tl := make([][]c16Tok, l)
					for j := range tl {
						tl[j] = ta
					}
					product(tl, func(v []c16Tok) { emit("dev", s, append(append([]c16Tok(nil), pre...), v...), "", false) })
				}
			}
		}
	}

	// (d) two-step sequences: what DM.PUTENTRY / MOVEFRAGMENT stored is read back through every reader
	seqID := 0
	var putentry, getentry, delentry, scan, get, mf, lockSpec, delSpec c16Spec
	for _, s := range specs {
		switch s.Name {
		case "dm.putentry":
			putentry = s
		case "dm.getentry":
			getentry = s
		case "dm.delentry":
			delentry = s
		case "dm.scan":
			scan = s
		case "dm.get":
			get = s
		case "dm.lock":
			lockSpec = s
		case "dm.del":
			delSpec = s
		case "internal.node.movefragment":
			mf = s
		}
	}
	for _, target := range []int{0, 1} {
		for _, pl := range []string{"ent_valid", "ent_truncated", "ent_short", "ent_keylen_lie", "E", "ent_vallen_lie", "ent_vallen_lie+trailing", "ent_truncated+trailing"} {
			for _, key := range []c16Tok{{B: "k1", Cls: "k"}, tokE} {
				seqID++
				d := c16Tok{B: fmt.Sprintf("c16-seq%d", seqID), Cls: "d"}
				trailing := strings.HasSuffix(pl, "+trailing")
				pl := strings.TrimSuffix(pl, "+trailing")
				val := c16Tok{Cls: pl, Dyn: "payload:" + pl}
				if pl == "E" {
					val = tokE
				}
				if trailing {
					// a further argument behind the entry: the parser ignores it, the entry decoder must not read into it
					pl += "+trailing"
				}
				ctx := "after=dm.putentry[d," + key.Cls + "," + pl + "]"
				seq := func(s c16Spec, toks ...c16Tok) {
					add(c16Req{Phase: "seq", Cmd: s.label(), Name: s.Name, Toks: toks, Target: target, Ctx: ctx})
				}
				sameUnit = false
				ptoks := []c16Tok{d, key, val}
				if trailing {
					ptoks = append(ptoks, c16Tok{Cls: "big", Dyn: "payload:big_trailing"})
				}
				add(c16Req{Phase: "seq", Cmd: putentry.label(), Name: putentry.Name, Toks: ptoks, Target: target})
				sameUnit = true
				rc := c16Tok{B: "RC", Cls: "RC"}
				seq(getentry, d, key, rc)
				for part := 0; part < c16Partitions; part++ {
					seq(scan, c16Tok{B: fmt.Sprint(part), Cls: "p"}, d, c16Tok{B: "0", Cls: "c"}, rc)
				}
				seq(scan, c16Tok{B: "3", Cls: "p"}, d, c16Tok{B: "0", Cls: "c"}, rc, c16Tok{B: "MATCH", Cls: "MATCH"}, c16Tok{B: "k.*", Cls: "re"})
				seq(get, d, key)
				seq(delentry, d, key, rc)
				seq(getentry, d, key, rc)
				sameUnit = false
			}
		}
		// a lock that is HELD (no timeout): every deadline that is zero, negative, tiny or not a number must be
		// answered at once (lock not acquired / error), with and without a timeout option
		{
			seqID++
			d := c16Tok{B: fmt.Sprintf("c16-held%d", seqID), Cls: "d"}
			key := c16Tok{B: "lk", Cls: "k"}
			sameUnit = false
			add(c16Req{Phase: "seq", Cmd: lockSpec.label(), Name: lockSpec.Name, Toks: []c16Tok{d, key, lit("5")}, Target: target})
			sameUnit = true
			for _, num := range []c16Tok{lit("0"), lit("-1"), lit("0.0"), lit("-0"), lit("1e-12"), lit("0.05"), lit("NaN"), lit("abc"), tokE, lit("1e400"), lit("-1e400")} {
				for _, opt := range [][]c16Tok{nil, {lit("PX"), lit("100")}, {lit("EX"), lit("0")}, {lit("ex"), lit("1")}} {
					toks := append([]c16Tok{d, key, num}, opt...)
					add(c16Req{Phase: "seq", Cmd: lockSpec.label(), Name: lockSpec.Name, Toks: toks, Target: target, Ctx: "held-lock"})
				}
			}
			add(c16Req{Phase: "seq", Cmd: delSpec.label(), Name: delSpec.Name, Toks: []c16Tok{d, key}, Target: target, Ctx: "held-lock"})
			sameUnit = false
		}
		for _, pl := range []string{"mf_valid", "mf_inner_bad_hkey", "mf_inner_bad_offset", "mf_inner_bad_index", "mf_inner_empty", "mf_inner_huge_allocated"} {
			ctx := "after=internal.node.movefragment[" + pl + "]"
			sameUnit = false
			add(c16Req{Phase: "seq", Cmd: mf.label(), Name: mf.Name, Toks: []c16Tok{{Cls: pl, Dyn: "payload:" + pl}}, Target: target})
			sameUnit = true
			d := c16Tok{B: "c16-mf", Cls: "d"}
			for part := 0; part < c16Partitions; part++ {
				add(c16Req{Phase: "seq", Cmd: scan.label(), Name: scan.Name, Toks: []c16Tok{{B: fmt.Sprint(part), Cls: "p"}, d, {B: "0", Cls: "c"}}, Target: target, Ctx: ctx})
			}
			for i := 0; i < 3; i++ {
				add(c16Req{Phase: "seq", Cmd: get.label(), Name: get.Name, Toks: []c16Tok{d, {B: fmt.Sprintf("mfk%d", i), Cls: "k"}}, Target: target, Ctx: ctx})
			}
			add(c16Req{Phase: "seq", Cmd: "dm.destroy", Name: "dm.destroy", Toks: []c16Tok{d}, Target: target, Ctx: ctx})
			sameUnit = false
		}
	}

	// (e) subscribed mode: every verb of the detached-connection loop and every registered command
	subLen := 2
	if thorough {
		subLen = 3
	}
	chans := kindAlphabet("CHAN", "")
	for _, s := range specs {
		if s.NoSubmode {
			continue
		}
		for l := 0; l <= subLen; l++ {
			al := make([][]c16Tok, l)
			for i := range al {
				al[i] = chans
			}
			product(al, func(v []c16Tok) {
				tg++
				add(c16Req{Phase: "submode", Cmd: s.label(), Name: nextName(s), Toks: v, Target: tg % 2, Ctx: "subscribed", Sub: true})
			})
		}
	}

	// (f) seeded random vectors over the union alphabet, shared DMap and keys
	rng := rand.New(rand.NewSource(seed*7919 + 16))
	nRandom := 8000
	if thorough {
		nRandom = 60000
	}
	var union []c16Tok
	union = append(union, numAlphabet()...)
	union = append(union, tokE, tokB)
	union = append(union, kwBothCases(c16AllKeywords)...)
	union = append(union, c16Tok{B: "c16-shared", Cls: "d"}, c16Tok{B: "k1", Cls: "k"}, c16Tok{B: "k2", Cls: "k"}, c16Tok{B: "k3", Cls: "k"},
		c16Tok{B: "value-3", Cls: "v"}, c16Tok{B: "3", Cls: "p"}, c16Tok{B: "7", Cls: "p=count"}, c16Tok{B: "c16ch", Cls: "ch"},
		c16Tok{B: "000102030405060708090a0b0c0d0e0f", Cls: "tok"}, c16Tok{B: strings.Repeat("x", 300), Cls: "long300"},
		c16Tok{B: strings.Repeat("y", 70000), Cls: "long70k"}, c16Tok{Cls: "coord", Dyn: "coord"})
	union = append(union, payloadToks("ent_valid", "ent_short", "rt_valid", "rt_badids", "mf_valid", "mf_inner_bad_hkey")...)
	for i := 0; i < nRandom; i++ {
		s := specs[rng.Intn(len(specs))]
		n := rng.Intn(len(s.Pos) + 5)
		toks := make([]c16Tok, n)
		for j := range toks {
			var al []c16Tok
			if j < len(s.Pos) && rng.Intn(10) < 7 {
				al = kindAlphabet(s.Pos[j], "c16-shared")
			} else if rng.Intn(10) < 6 {
				al = s.tailAlphabet()
			} else {
				al = union
			}
			toks[j] = al[rng.Intn(len(al))]
		}
		add(c16Req{Phase: "random", Cmd: s.label(), Name: caseVariant(s.Name, rng.Intn(3)), Toks: toks, Target: rng.Intn(2), Sub: !s.NoSubmode && rng.Intn(12) == 0})
		if p.Reqs[len(p.Reqs)-1].Sub {
			p.Reqs[len(p.Reqs)-1].Ctx = "subscribed"
		}
	}

	// (g) raw byte streams
	nRaw := 2000
	if thorough {
		nRaw = 10000
	}
	for target := 0; target < 2; target++ {
		for _, x := range c16HostileLengths {
			add(c16Req{Phase: "raw", Cmd: "raw", Raw: x, RawKind: "hostile-length", Target: target})
		}
		for _, x := range c16BrokenQuoting {
			add(c16Req{Phase: "raw", Cmd: "raw", Raw: x, RawKind: "inline-quoting", Target: target})
		}
	}
	for i := 0; i < nRaw; i++ {
		raw, kind, complete := c16RawStream(rng, specs)
		add(c16Req{Phase: "raw", Cmd: "raw", Raw: raw, RawKind: kind, RawComplete: complete, Target: rng.Intn(2)})
	}
	p.Exhaustive = fmt.Sprintf("grid: all vectors of length 0..arity over per-position alphabets; tail: valid prefix + all tails of length 1..%d (option parsers 1..%d, their deepest level over the core alphabet = upper-case keywords, 1, -1, abc, \"\", a value) over the command's tail alphabet; dev: one fixed position replaced by \"\"/binary + all tails of length 1..%d; submode: all vectors of length 0..%d over the channel alphabet for every verb",
		map[bool]int{false: 2, true: 3}[thorough], map[bool]int{false: 3, true: 4}[thorough], devTail(thorough), subLen)
	return p
}

func devTail(thorough bool) int {
	if thorough {
		return 2
	}
	return 1
}

// ---------------------------------------------------------------- findings

type c16LoggedReq struct {
	N      int      `json:"n"`
	Target int      `json:"target"`
	Sub    bool     `json:"sub,omitempty"`
	Args   []string `json:"args,omitempty"` // Go-quoted concrete arguments, command name first
	Raw    string   `json:"raw,omitempty"`  // Go-quoted raw bytes
	Reply  string   `json:"reply,omitempty"`
}

type c16Finding struct {
	Clause  string         `json:"clause"` // crash | wedge | noping | closed | ctl-dead | spin
	Cmd     string         `json:"cmd"`
	Shape   string         `json:"shape"`
	Ctx     string         `json:"ctx,omitempty"`
	Panic   string         `json:"panic,omitempty"`
	Site    string         `json:"site,omitempty"`
	Race    bool           `json:"race_server"`
	Phase   string         `json:"phase"`
	Detail  string         `json:"detail"`
	Req     c16LoggedReq   `json:"request"`
	Prev    []c16LoggedReq `json:"previous_requests"`
	LogPath string         `json:"server_log"`
	LogTail string         `json:"server_log_excerpt"`
}

// group: crashes are the same defect when the same command panics with the same
// message at the same call site; for wedges the call site is where the dump
// happened to catch the goroutine (or unavailable), so it is not part of the identity.
func (f *c16Finding) group() string {
	if f.Clause == "spin" {
		return f.Clause + "|" + f.Cmd + "|" + f.Site // the site comes from repeated snapshots of one goroutine
	}
	if f.Clause != "crash" {
		return f.Clause + "|" + f.Cmd
	}
	return f.Clause + "|" + f.Cmd + "|" + f.Panic + "|" + f.Site
}

func (f *c16Finding) key() string {
	k := "c16|" + f.Clause + "|" + f.Cmd + "|shape=" + f.Shape
	if f.Ctx != "" {
		k += "|" + f.Ctx
	}
	if f.Panic != "" {
		k += "|panic=" + f.Panic
	}
	if f.Site != "" && (f.Clause == "crash" || f.Clause == "spin") {
		k += "|" + f.Site
	}
	return k
}

func phaseRank(p string) int {
	for i, x := range []string{"grid", "tail", "dev", "seq", "submode", "random", "raw"} {
		if x == p {
			return i
		}
	}
	return 9
}

func shapeLen(s string) int {
	if s == "[]" {
		return 0
	}
	return strings.Count(s, ",") + 1
}

// ---------------------------------------------------------------- parent

func c16Child(ctx *runCtx, spec string) {
	if strings.HasPrefix(spec, "serve") {
		c16Serve(ctx)
		return
	}
	if strings.HasPrefix(spec, "storm:") {
		c16Storm(ctx, spec)
		return
	}
	c16Drive(ctx, spec)
}

func c16Shards(tier string) (n int, raceShard func(i int) bool) {
	// Every request is executed exactly once. In the quick tier 3 of 8 drivers
	// run the -race server (checkptr), in the thorough tier 8 of 16.
	if tier == "thorough" {
		return 16, func(i int) bool { return i%2 == 1 }
	}
	return 8, func(i int) bool { return i%8 >= 5 }
}

func c16Run(ctx *runCtx) int {
	plan := c16BuildPlan(ctx.seed, ctx.tier)
	ctx.rep.Rule = "requests = " + plan.Exhaustive + "; plus two-step sequences (PUTENTRY / MOVEFRAGMENT payloads read back through every reader), seeded random vectors over the union alphabet, a fixed list of hostile RESP lengths and broken inline quoting sent to both members, and seeded raw byte streams. " +
		"Each request is logged, sent over TCP to a 2-member cluster living in its own process, must get a RESP reply, then PING <nonce> on the same connection must be answered (in subscribed mode: pong push); every 200 requests a fresh connection per member must serve PING and a DM.PUT/DM.GET. " +
		"distinct_nontrivial = distinct (command, subscribed?, shape) where shape replaces every argument by its class"
	ctx.rep.Assumptions = []string{
		"a request counts as unanswered only after 25 s (3 s once a wedge of the same command has been confirmed in this driver) during which every one of 7 (2) fresh control connections to the same member answered PING within 2 s and the driver saw no scheduling stall > 2 s; otherwise the case is re-run once and then recorded as inconclusive",
		"DM.LOCK is preceded by DM.DEL of the same key so that the lock is free and the deadline argument is never legitimately waited on; the 'held-lock' sequences keep the lock held and only send deadlines of at most 50 ms (or unparsable ones)",
		"raw streams that do not end on a command boundary are judged by process liveness, a fresh-connection PING and the busy-goroutine probe: after the client closed the connection no goroutine of redcon/olric may stay running/runnable in the same function over 4 snapshots in 1.5 s (also applied after every 200 requests)",
		"UPDATEROUTING payloads with an empty owner list for a partition are sent too (they used to crash the member on the next request for that partition; verifyRoutingTable rejects them since fix 0ab7341)",
	}
	ctx.rep.Exhaustive = true
	ctx.rep.Extra("planned_requests", len(plan.Reqs))
	ctx.rep.Extra("planned_by_phase", plan.ByPhase)
	if os.Getenv("C16_PLAN") != "" {
		fmt.Println("planned", len(plan.Reqs), plan.ByPhase)
		return 0
	}

	old, _ := filepath.Glob(filepath.Join(ctx.outDir, "findings-*.jsonl"))
	for _, f := range old {
		_ = os.Remove(f)
	}
	n, isRace := c16Shards(ctx.tier)
	var batches []batch
	for i := 0; i < n; i++ {
		r := 0
		if isRace(i) {
			r = 1
		}
		batches = append(batches, batch{Spec: fmt.Sprintf("drive:shard=%d/%d:race=%d", i, n, r), Timeout: 40 * time.Minute})
	}
	sl := 3000
	if ctx.tier == "thorough" {
		sl = 30000
	}
	batches = append(batches, batch{Spec: fmt.Sprintf("storm:churners=6:askers=8:loops=%d:seed=%d", sl, ctx.seed), Timeout: 20 * time.Minute})
	runBatches(ctx, batches, n+1, func(b batch, res batchResult, tail string) {
		ctx.rep.Inconclusive(fmt.Sprintf("driver %s died (exit %d timeout=%v): %s", b.Spec, res.ExitCode, res.TimedOut, lastLines(tail, 8)))
	})

	// group the findings of all drivers
	var all []c16Finding
	files, _ := filepath.Glob(filepath.Join(ctx.outDir, "findings-*.jsonl"))
	sort.Strings(files)
	for _, fn := range files {
		f, err := os.Open(fn)
		if err != nil {
			continue
		}
		sc := bufio.NewScanner(f)
		sc.Buffer(make([]byte, 1<<20), 64<<20)
		for sc.Scan() {
			var fd c16Finding
			if json.Unmarshal(sc.Bytes(), &fd) == nil && fd.Clause != "" {
				all = append(all, fd)
			}
		}
		f.Close()
	}
	c16Report(ctx, all)
	floor := len(plan.Reqs) * 9 / 10
	return ctx.rep.Finish(floor)
}

func c16Report(ctx *runCtx, all []c16Finding) {
	groups := map[string][]c16Finding{}
	for _, f := range all {
		groups[f.group()] = append(groups[f.group()], f)
	}
	var gks []string
	for g := range groups {
		gks = append(gks, g)
	}
	sort.Strings(gks)
	for _, g := range gks {
		fs := groups[g]
		sort.SliceStable(fs, func(i, j int) bool {
			a, b := fs[i], fs[j]
			if ra, rb := phaseRank(a.Phase), phaseRank(b.Phase); ra != rb {
				return ra < rb // prefer witnesses from the seed-independent phases
			}
			if (a.Ctx == "") != (b.Ctx == "") {
				return a.Ctx == ""
			}
			if la, lb := shapeLen(a.Shape), shapeLen(b.Shape); la != lb {
				return la < lb
			}
			if a.Shape != b.Shape {
				return a.Shape < b.Shape
			}
			return a.Ctx < b.Ctx
		})
		canon := fs[0]
		shapes := map[string]bool{}
		var others []string
		for _, f := range fs {
			s := f.Shape
			if f.Ctx != "" {
				s += " " + f.Ctx
			}
			if !shapes[s] {
				shapes[s] = true
				if len(others) < 12 {
					others = append(others, s)
				}
			}
		}
		detail := fmt.Sprintf("%s; observed %d times through %d distinct shapes, e.g. %s", canon.Detail, len(fs), len(shapes), strings.Join(others, " "))
		ctx.rep.Violate(canon.key(), detail, map[string]interface{}{
			"finding":         canon,
			"observations":    len(fs),
			"distinct_shapes": len(shapes),
			"shapes_head":     others,
		})
	}
	ctx.rep.Extra("raw_findings", len(all))
	ctx.rep.Extra("finding_groups", len(gks))
}
