package main

// C18 — returned values are private snapshots.
//
// Snapshot-and-compare monitor: every []byte / string handed back by Get,
// GetPut or an iterator is registered together with a private copy taken at
// return time; after each follow-up phase (overwrite, delete, churn that fills
// and recycles storage tables, compaction, migration to a new member) a sweeper
// re-compares all registered values. Scribble tests flip every byte of a
// returned slice / of a buffer passed to Put and re-read the stored value on
// every path and white-box on primary and backups. The -race binary runs the
// same script with a reader goroutine looping over the registered values.

import (
	"bytes"
	"context"
	"fmt"
	"math/rand"
	"path/filepath"
	"strings"
	"sync"
	"sync/atomic"
	"time"

	"github.com/olric-data/olric"
	"github.com/olric-data/olric/internal/cluster/partitions"
	"github.com/olric-data/olric/verif/cluster"
)

func init() {
	register("C18", &checkFn{level: "exploration", run: c18Run, child: c18Child})
}

type c18Reg struct {
	Src   string // how it was obtained
	Key   string
	live  []byte // the slice the API returned (or nil)
	liveS string // the string the API returned
	isStr bool
	copy  []byte // private copy taken at return time
}

type c18State struct {
	mu   sync.Mutex
	regs []*c18Reg
}

func (s *c18State) addBytes(src, key string, b []byte) {
	cp := append([]byte(nil), b...)
	s.mu.Lock()
	s.regs = append(s.regs, &c18Reg{Src: src, Key: key, live: b, copy: cp})
	s.mu.Unlock()
}

func (s *c18State) addString(src, key, v string) {
	cp := []byte(strings.Clone(v))
	s.mu.Lock()
	s.regs = append(s.regs, &c18Reg{Src: src, Key: key, liveS: v, isStr: true, copy: cp})
	s.mu.Unlock()
}

// sweep compares every registered value with its private copy.
func (s *c18State) sweep() (bad *c18Reg, n int) {
	s.mu.Lock()
	defer s.mu.Unlock()
	for _, r := range s.regs {
		n++
		if r.isStr {
			if r.liveS != string(r.copy) {
				return r, n
			}
		} else if !bytes.Equal(r.live, r.copy) {
			return r, n
		}
	}
	return nil, n
}

func c18Child(ctx *runCtx, spec string) {
	var values, replicas int
	var seed int64
	fmt.Sscanf(spec, "R=%d values=%d seed=%d", &replicas, &values, &seed)
	c, err := cluster.Start(cluster.Config{Replicas: replicas, Partitions: 3, TableSize: 1024}, 2)
	if err != nil {
		ctx.rep.Inconclusive("cluster start: " + err.Error())
		return
	}
	defer c.Shutdown()
	rng := rand.New(rand.NewSource(seed))
	bg := context.Background()
	name := fmt.Sprintf("c18-%d", seed)
	st := &c18State{}

	cc, err := c.NewClusterClient()
	if err != nil {
		ctx.rep.Inconclusive("cluster client: " + err.Error())
		return
	}
	defer cc.Close(bg)
	ccdm, _ := cc.NewDMap(name)
	embFor := func(key string, owner bool) olric.DMap {
		m := c.OwnerOf(name, key)
		if !owner {
			m = c.NonOwner(name, key)
		}
		d, _ := m.Emb.NewDMap(name)
		return d
	}
	val := func(i int) []byte {
		return []byte(fmt.Sprintf("value-%04d-%s", i, strings.Repeat(string(rune('a'+i%26)), 40+rng.Intn(40))))
	}

	// reader goroutine for the race detector: keeps reading every registered value
	stopReader := make(chan struct{})
	var readerLoops int64
	var sink int
	go func() {
		for {
			select {
			case <-stopReader:
				return
			default:
			}
			st.mu.Lock()
			regs := append([]*c18Reg(nil), st.regs...)
			st.mu.Unlock()
			for _, r := range regs {
				if r.isStr {
					for i := 0; i < len(r.liveS); i++ {
						sink += int(r.liveS[i])
					}
				} else {
					for _, b := range r.live {
						sink += int(b)
					}
				}
			}
			atomic.AddInt64(&readerLoops, 1)
			time.Sleep(200 * time.Microsecond)
		}
	}()
	defer close(stopReader)

	violate := func(clause, after string, r *c18Reg) {
		cur := r.live
		if r.isStr {
			cur = []byte(r.liveS)
		}
		ctx.rep.Violate(fmt.Sprintf("c18|%s|after=%s|src=%s", clause, after, r.Src),
			fmt.Sprintf("value obtained by %s for key %s was %q at return time and reads %q after %s", r.Src, r.Key, short(string(r.copy)), short(string(cur)), after),
			map[string]interface{}{"src": r.Src, "key": r.Key, "at_return": string(r.copy), "now": string(cur), "after": after, "seed": seed})
	}
	sweep := func(after string) bool {
		bad, n := st.sweep()
		ctx.rep.Count("registered_values_swept", int64(n))
		ctx.rep.Count("sweeps_after_"+after, 1)
		if bad != nil {
			violate("returned-value-changed", after, bad)
			return false
		}
		return true
	}

	keys := make([]string, values)
	for i := range keys {
		keys[i] = fmt.Sprintf("key-%d", i)
		if err := embFor(keys[i], true).Put(bg, keys[i], val(i)); err != nil {
			ctx.rep.Inconclusive("setup put: " + err.Error())
			return
		}
	}
	// ---- read through every reader and register
	for i, k := range keys {
		for _, rd := range []struct {
			src string
			dm  olric.DMap
		}{{"EO", embFor(k, true)}, {"EN", embFor(k, false)}, {"CC", ccdm}} {
			g, err := rd.dm.Get(bg, k)
			if err != nil {
				ctx.rep.Inconclusive(fmt.Sprintf("get %s via %s: %v", k, rd.src, err))
				continue
			}
			if i%2 == 0 {
				b, _ := g.Byte()
				st.addBytes("Get/"+rd.src+"/Byte", k, b)
			} else {
				s, _ := g.String()
				st.addString("Get/"+rd.src+"/String", k, s)
			}
			ctx.rep.Count("values_registered_via_"+rd.src, 1)
		}
	}
	ctx.rep.Eval(len(keys))
	if !sweep("read") {
		return
	}
	// ---- GetPut old values
	for i, k := range keys {
		if i%3 != 0 {
			continue
		}
		dm := embFor(k, i%2 == 0)
		src := "GetPut/EO"
		if i%2 != 0 {
			src = "GetPut/EN"
		}
		if i%6 == 3 {
			dm, src = ccdm, "GetPut/CC"
		}
		g, err := dm.GetPut(bg, k, val(1000+i))
		if err == nil && g != nil {
			if b, err := g.Byte(); err == nil {
				st.addBytes(src, k, b)
				ctx.rep.Count("values_registered_via_GetPut", 1)
			}
		}
	}
	// ---- iterator keys
	for _, dm := range []olric.DMap{embFor(keys[0], true), ccdm} {
		it, err := dm.Scan(bg)
		if err == nil {
			n := 0
			for it.Next() && n < 200 {
				k := it.Key()
				st.addString("Iterator.Key", k, k)
				n++
			}
			it.Close()
			ctx.rep.Count("values_registered_via_iterator", int64(n))
		}
	}
	// ---- follow-up 1: overwrite every key
	for i, k := range keys {
		_ = embFor(k, true).Put(bg, k, val(2000+i))
	}
	if !sweep("overwrite") {
		return
	}
	ctx.rep.Distinct(fmt.Sprintf("R=%d|followup=overwrite", replicas))
	// ---- follow-up 2: delete half
	for i, k := range keys {
		if i%2 == 0 {
			_, _ = ccdm.Delete(bg, k)
		}
	}
	if !sweep("delete") {
		return
	}
	ctx.rep.Distinct(fmt.Sprintf("R=%d|followup=delete", replicas))
	// ---- follow-up 3: churn until the tables the values lived in have been recycled and reused
	recycled := 0
	for round := 0; round < 12; round++ {
		for j := 0; j < 120; j++ {
			k := fmt.Sprintf("churn-%d", j)
			_ = embFor(k, true).Put(bg, k, val(3000+round*200+j))
		}
		for _, m := range c.Live() {
			steps, _ := m.V.DMap.VerifCompactAll(500)
			ctx.rep.Count("compaction_steps", int64(steps))
		}
		for _, m := range c.Live() {
			for p := uint64(0); p < 3; p++ {
				if _, tables, ok := m.V.DMap.VerifStats(partitions.PRIMARY, p, name); ok {
					for _, t := range tables {
						if t.RecycledAt != 0 {
							recycled++
						}
					}
				}
			}
		}
		if !sweep("churn+compaction") {
			return
		}
	}
	ctx.rep.Count("recycled_table_observations", int64(recycled))
	if recycled > 0 {
		ctx.rep.Distinct(fmt.Sprintf("R=%d|followup=table-recycled-and-reused", replicas))
	}
	// ---- scribble over returned slices: the stored value must not change
	for i := 0; i < 20 && i < len(keys); i++ {
		k := fmt.Sprintf("scribble-%d", i)
		want := val(5000 + i)
		_ = embFor(k, true).Put(bg, k, want)
		for _, rd := range []struct {
			src string
			dm  olric.DMap
		}{{"EO", embFor(k, true)}, {"EN", embFor(k, false)}, {"CC", ccdm}} {
			g, err := rd.dm.Get(bg, k)
			if err != nil {
				continue
			}
			b, _ := g.Byte()
			for j := range b {
				b[j] ^= 0xff
			}
			ctx.rep.Count("scribbled_returned_slices", 1)
			// every path and white-box on primary and backups must still see the original
			for _, chk := range []struct {
				src string
				dm  olric.DMap
			}{{"EO", embFor(k, true)}, {"EN", embFor(k, false)}, {"CC", ccdm}} {
				g2, err := chk.dm.Get(bg, k)
				if err != nil {
					continue
				}
				b2, _ := g2.Byte()
				if !bytes.Equal(b2, want) {
					ctx.rep.Violate(fmt.Sprintf("c18|store-changed-by-caller|read=%s|seen-by=%s", rd.src, chk.src),
						fmt.Sprintf("after flipping the bytes returned by Get via %s, Get via %s returns %q instead of %q", rd.src, chk.src, short(string(b2)), short(string(want))),
						map[string]interface{}{"key": k, "read_via": rd.src, "seen_via": chk.src})
					return
				}
			}
			if e, ok := c.OwnerOf(name, k).V.DMap.VerifEntry(partitions.PRIMARY, name, k); !ok || !bytes.Equal(e.Value, want) {
				ctx.rep.Violate("c18|store-changed-by-caller|read="+rd.src+"|seen-by=whitebox-primary", "primary copy changed after the caller modified returned bytes", map[string]interface{}{"key": k})
				return
			}
			for _, bm := range c.BackupsOf(name, k) {
				if e, ok := bm.V.DMap.VerifEntry(partitions.BACKUP, name, k); !ok || !bytes.Equal(e.Value, want) {
					ctx.rep.Violate("c18|store-changed-by-caller|read="+rd.src+"|seen-by=whitebox-backup", "backup copy changed after the caller modified returned bytes", map[string]interface{}{"key": k})
					return
				}
			}
		}
		// buffers passed to Put may be reused as soon as Put returns
		for _, wr := range []struct {
			src string
			dm  olric.DMap
		}{{"EO", embFor(k, true)}, {"EN", embFor(k, false)}, {"CC", ccdm}} {
			buf := append([]byte(nil), val(6000+i)...)
			orig := append([]byte(nil), buf...)
			if err := wr.dm.Put(bg, k, buf); err != nil {
				continue
			}
			for j := range buf {
				buf[j] = 'Z'
			}
			ctx.rep.Count("scribbled_put_buffers", 1)
			g, err := ccdm.Get(bg, k)
			if err == nil {
				b, _ := g.Byte()
				if !bytes.Equal(b, orig) {
					ctx.rep.Violate("c18|put-buffer-aliased|path="+wr.src, fmt.Sprintf("after reusing the buffer passed to Put via %s the stored value reads %q", wr.src, short(string(b))), map[string]interface{}{"key": k})
					return
				}
			}
			for _, bm := range c.BackupsOf(name, k) {
				if e, ok := bm.V.DMap.VerifEntry(partitions.BACKUP, name, k); ok && !bytes.Equal(e.Value, orig) {
					ctx.rep.Violate("c18|put-buffer-aliased|path="+wr.src+"|backup", "backup copy changed after the Put buffer was reused", map[string]interface{}{"key": k})
					return
				}
			}
		}
	}
	ctx.rep.Distinct(fmt.Sprintf("R=%d|followup=scribble", replicas))
	// ---- follow-up 4: migration — a third member joins and the partitions are balanced
	if _, err := c.AddMember(); err == nil {
		_ = c.WaitStable(20 * time.Second)
		for round := 0; round < 40; round++ {
			for _, m := range c.Live() {
				m.V.Balancer.BalanceEagerly()
			}
			c.PushRouting()
		}
		if !sweep("migration") {
			return
		}
		ctx.rep.Distinct(fmt.Sprintf("R=%d|followup=migration", replicas))
		for j := 0; j < 200; j++ {
			k := fmt.Sprintf("churn-%d", j)
			_ = embFor(k, true).Put(bg, k, val(8000+j))
		}
		for _, m := range c.Live() {
			m.V.DMap.VerifCompactAll(500)
		}
		sweep("post-migration-churn")
	}
	ctx.rep.Count("reader_goroutine_loops", atomic.LoadInt64(&readerLoops))
	st.mu.Lock()
	if len(st.regs) > 0 {
		r := st.regs[0]
		ctx.rep.Sample(map[string]interface{}{"src": r.Src, "key": r.Key, "value_at_return": short(string(r.copy)), "registered_total": len(st.regs)})
	}
	st.mu.Unlock()
	_ = sink
}

func c18Run(ctx *runCtx) int {
	ctx.rep.Rule = "one evaluation = one key whose value is read through EO/EN/CC (Byte and String accessors), GetPut and iterators and registered with a private copy; follow-ups: overwrite, delete, 12 rounds of churn + compaction to completion on 1 KiB tables (recycled tables observed white-box), scribbling over returned slices and Put buffers (stored value re-read on every path and white-box on primary and backups), migration to a third member + churn; distinct_nontrivial = distinct follow-up kinds actually exercised"
	ctx.rep.Assumptions = []string{"a data race between the harness reader goroutine and olric code is a violation (race binary); other race reports are diagnostics"}
	values := 60
	if ctx.tier == "thorough" {
		values = 400
	}
	batches := []batch{
		{Spec: fmt.Sprintf("R=1 values=%d seed=%d", values, ctx.seed*10+1), Timeout: 10 * time.Minute},
		{Spec: fmt.Sprintf("R=2 values=%d seed=%d", values, ctx.seed*10+2), Timeout: 10 * time.Minute},
		{Spec: fmt.Sprintf("R=1 values=%d seed=%d", values/2, ctx.seed*10+3), Timeout: 15 * time.Minute, Race: true},
		{Spec: fmt.Sprintf("R=2 values=%d seed=%d", values/2, ctx.seed*10+4), Timeout: 15 * time.Minute, Race: true},
	}
	if ctx.tier == "thorough" {
		// more seeds: other key placements, other table roll-over points
		for k := int64(0); k < 8; k++ {
			batches = append(batches, batch{Spec: fmt.Sprintf("R=%d values=%d seed=%d", 1+k%2, values, ctx.seed*1000+10+k), Timeout: 10 * time.Minute})
		}
	}
	runBatches(ctx, batches, 4, func(b batch, res batchResult, tail string) {
		ctx.rep.Violate("c18|member-crashed-or-hung", fmt.Sprintf("child %s died (exit %d timeout=%v): %s", b.Spec, res.ExitCode, res.TimedOut, lastLines(tail, 12)), map[string]interface{}{"batch": b.Spec})
	})
	reports, total := parseRaceLogs(filepath.Join(ctx.outDir, "b"))
	ctx.rep.Extra("race_reports_total", total)
	var diag []string
	for _, r := range reports {
		reader := func(i int) bool { return r.sideHas(i, "main.c18Child") }
		if reader(0) != reader(1) {
			ctx.rep.Violate("c18|race|reader|"+r.Key(), "the harness reads a value the API returned while olric writes the same memory: "+r.Key(), map[string]interface{}{"report": r})
		} else {
			diag = append(diag, r.Key())
		}
	}
	ctx.rep.Extra("race_reports_other_diagnostics", diag)
	return ctx.rep.Finish(50)
}
