package main

// C18 — returned values are private snapshots.
//
// Snapshot-and-compare monitor: every []byte / string handed back by Get,
// GetPut or an iterator is registered together with a private copy taken at
// return time; after each follow-up phase (overwrite, delete, churn that fills
// and recycles storage tables, compaction, migration to a new member) a sweeper
// re-compares all registered values. Scribble tests flip every byte of a
// returned slice / of a buffer passed to Put and re-read the stored value on
// every path and white-box on primary and backups. The -race binary runs the
// same script with a reader goroutine looping over the registered values.

import (
	"bytes"
	"context"
	"fmt"
	"math/rand"
	"path/filepath"
	"strings"
	"sync"
	"sync/atomic"
	"time"

	"github.com/olric-data/olric"
	"github.com/olric-data/olric/internal/cluster/partitions"
	"github.com/olric-data/olric/verif/cluster"
)

func init() {
	register("C18", &checkFn{level: "exploration", run: c18Run, child: c18Child})
}

type c18Reg struct {
	Src   string // how it was obtained
	Key   string
	live  []byte // the slice the API returned (or nil)
	liveS string // the string the API returned
	isStr bool
	copy  []byte // private copy taken at return time
}

// c18Kept is a GetResponse the harness keeps and only asks for its value later.
type c18Kept struct {
	Src  string
	Key  string
	g    *olric.GetResponse
	want []byte
}

type c18State struct {
	mu   sync.Mutex
	regs []*c18Reg
	kept []*c18Kept
}

// sweepKept calls the accessors of every retained GetResponse now and compares
// the result with the value that was stored when the Get was answered.
func (s *c18State) sweepKept() (bad *c18Kept, got []byte, n int) {
	s.mu.Lock()
	defer s.mu.Unlock()
	for _, k := range s.kept {
		n++
		b, err := k.g.Byte()
		if err != nil || !bytes.Equal(b, k.want) {
			return k, b, n
		}
		str, err := k.g.String()
		if err != nil || str != string(k.want) {
			return k, []byte(str), n
		}
	}
	return nil, nil, n
}

func (s *c18State) addBytes(src, key string, b []byte) {
	cp := append([]byte(nil), b...)
	s.mu.Lock()
	s.regs = append(s.regs, &c18Reg{Src: src, Key: key, live: b, copy: cp})
	s.mu.Unlock()
}

func (s *c18State) addString(src, key, v string) {
	cp := []byte(strings.Clone(v))
	s.mu.Lock()
	s.regs = append(s.regs, &c18Reg{Src: src, Key: key, liveS: v, isStr: true, copy: cp})
	s.mu.Unlock()
}

// sweep compares every registered value with its private copy.
func (s *c18State) sweep() (bad *c18Reg, n int) {
	s.mu.Lock()
	defer s.mu.Unlock()
	for _, r := range s.regs {
		n++
		if r.isStr {
			if r.liveS != string(r.copy) {
				return r, n
			}
		} else if !bytes.Equal(r.live, r.copy) {
			return r, n
		}
	}
	return nil, n
}

func c18Child(ctx *runCtx, spec string) {
	var values, replicas int
	var seed int64
	fmt.Sscanf(spec, "R=%d values=%d seed=%d", &replicas, &values, &seed)
	async := strings.Contains(spec, "async")
	c, err := cluster.Start(cluster.Config{Replicas: replicas, Partitions: 3, TableSize: 1024, Async: async}, 2)
	if err != nil {
		ctx.rep.Inconclusive("cluster start: " + err.Error())
		return
	}
	defer c.Shutdown()
	rng := rand.New(rand.NewSource(seed))
	bg := context.Background()
	name := fmt.Sprintf("c18-%d", seed)
	st := &c18State{}

	cc, err := c.NewClusterClient()
	if err != nil {
		ctx.rep.Inconclusive("cluster client: " + err.Error())
		return
	}
	defer cc.Close(bg)
	ccdm, _ := cc.NewDMap(name)
	embFor := func(key string, owner bool) olric.DMap {
		m := c.OwnerOf(name, key)
		if !owner {
			m = c.NonOwner(name, key)
		}
		d, _ := m.Emb.NewDMap(name)
		return d
	}
	val := func(i int) []byte {
		return []byte(fmt.Sprintf("value-%04d-%s", i, strings.Repeat(string(rune('a'+i%26)), 40+rng.Intn(40))))
	}

	// reader goroutine for the race detector: keeps reading every registered value
	stopReader := make(chan struct{})
	var readerLoops int64
	var sink int
	go func() {
		for {
			select {
			case <-stopReader:
				return
			default:
			}
			st.mu.Lock()
			regs := append([]*c18Reg(nil), st.regs...)
			st.mu.Unlock()
			for _, r := range regs {
				if r.isStr {
					for i := 0; i < len(r.liveS); i++ {
						sink += int(r.liveS[i])
					}
				} else {
					for _, b := range r.live {
						sink += int(b)
					}
				}
			}
			atomic.AddInt64(&readerLoops, 1)
			time.Sleep(200 * time.Microsecond)
		}
	}()
	defer close(stopReader)

	violate := func(clause, after string, r *c18Reg) {
		cur := r.live
		if r.isStr {
			cur = []byte(r.liveS)
		}
		ctx.rep.Violate(fmt.Sprintf("c18|%s|after=%s|src=%s", clause, after, r.Src),
			fmt.Sprintf("value obtained by %s for key %s was %q at return time and reads %q after %s", r.Src, r.Key, short(string(r.copy)), short(string(cur)), after),
			map[string]interface{}{"src": r.Src, "key": r.Key, "at_return": string(r.copy), "now": string(cur), "after": after, "seed": seed})
	}
	sweep := func(after string) bool {
		bad, n := st.sweep()
		ctx.rep.Count("registered_values_swept", int64(n))
		ctx.rep.Count("sweeps_after_"+after, 1)
		if bad != nil {
			violate("returned-value-changed", after, bad)
			return false
		}
		kb, got, kn := st.sweepKept()
		ctx.rep.Count("retained_responses_swept", int64(kn))
		if kb != nil {
			ctx.rep.Violate(fmt.Sprintf("c18|retained-response-changed|after=%s|src=%s", after, kb.Src),
				fmt.Sprintf("the GetResponse obtained by %s for key %s was kept; its accessors return %q after %s, the value at Get time was %q", kb.Src, kb.Key, short(string(got)), after, short(string(kb.want))),
				map[string]interface{}{"src": kb.Src, "key": kb.Key, "at_get": string(kb.want), "now": string(got), "after": after, "seed": seed})
			return false
		}
		return true
	}

	keys := make([]string, values)
	written := map[string][]byte{}
	for i := range keys {
		keys[i] = fmt.Sprintf("key-%d", i)
		written[keys[i]] = val(i)
		if err := embFor(keys[i], true).Put(bg, keys[i], append([]byte(nil), written[keys[i]]...)); err != nil {
			ctx.rep.Inconclusive("setup put: " + err.Error())
			return
		}
	}
	// ---- read through every reader and register
	for i, k := range keys {
		for _, rd := range []struct {
			src string
			dm  olric.DMap
		}{{"EO", embFor(k, true)}, {"EN", embFor(k, false)}, {"CC", ccdm}} {
			g, err := rd.dm.Get(bg, k)
			if err != nil {
				ctx.rep.Inconclusive(fmt.Sprintf("get %s via %s: %v", k, rd.src, err))
				continue
			}
			if i%2 == 0 {
				b, _ := g.Byte()
				st.addBytes("Get/"+rd.src+"/Byte", k, b)
			} else {
				s, _ := g.String()
				st.addString("Get/"+rd.src+"/String", k, s)
			}
			ctx.rep.Count("values_registered_via_"+rd.src, 1)
			// a second, independent Get whose response object is kept and only read at sweep time
			if g2, err := rd.dm.Get(bg, k); err == nil {
				st.mu.Lock()
				st.kept = append(st.kept, &c18Kept{Src: "Get/" + rd.src + "/kept-response", Key: k, g: g2, want: written[k]})
				st.mu.Unlock()
				ctx.rep.Count("responses_retained_via_"+rd.src, 1)
			}
		}
	}
	// ---- pipelined Gets of the cluster client: values registered, responses kept
	if cdm, ok := ccdm.(*olric.ClusterDMap); ok {
		if pipe, err := cdm.Pipeline(); err == nil {
			futs := map[string]*olric.FutureGet{}
			for _, k := range keys {
				futs[k] = pipe.Get(bg, k)
			}
			if err := pipe.Exec(bg); err == nil {
				for _, k := range keys {
					g, err := futs[k].Result()
					if err != nil {
						continue
					}
					b, _ := g.Byte()
					st.addBytes("Get/PL/Byte", k, b)
					if g2, err := futs[k].Result(); err == nil {
						st.mu.Lock()
						st.kept = append(st.kept, &c18Kept{Src: "Get/PL/kept-response", Key: k, g: g2, want: written[k]})
						st.mu.Unlock()
					}
					ctx.rep.Count("values_registered_via_PL", 1)
				}
			} else {
				ctx.rep.Inconclusive("pipeline Exec: " + err.Error())
			}
			pipe.Close()
		}
	}
	ctx.rep.Eval(len(keys))
	if !sweep("read") {
		return
	}
	// ---- GetPut old values
	for i, k := range keys {
		if i%3 != 0 {
			continue
		}
		dm := embFor(k, i%2 == 0)
		src := "GetPut/EO"
		if i%2 != 0 {
			src = "GetPut/EN"
		}
		if i%6 == 3 {
			dm, src = ccdm, "GetPut/CC"
		}
		g, err := dm.GetPut(bg, k, val(1000+i))
		if err == nil && g != nil {
			if b, err := g.Byte(); err == nil {
				st.addBytes(src, k, b)
				ctx.rep.Count("values_registered_via_GetPut", 1)
			}
		}
	}
	// ---- iterator keys
	for _, dm := range []olric.DMap{embFor(keys[0], true), ccdm} {
		it, err := dm.Scan(bg)
		if err == nil {
			n := 0
			for it.Next() && n < 200 {
				k := it.Key()
				st.addString("Iterator.Key", k, k)
				n++
			}
			it.Close()
			ctx.rep.Count("values_registered_via_iterator", int64(n))
		}
	}
	// ---- follow-up 1: overwrite every key
	for i, k := range keys {
		_ = embFor(k, true).Put(bg, k, val(2000+i))
	}
	if !sweep("overwrite") {
		return
	}
	ctx.rep.Distinct(fmt.Sprintf("R=%d|followup=overwrite", replicas))
	// ---- follow-up 2: delete half
	for i, k := range keys {
		if i%2 == 0 {
			_, _ = ccdm.Delete(bg, k)
		}
	}
	if !sweep("delete") {
		return
	}
	ctx.rep.Distinct(fmt.Sprintf("R=%d|followup=delete", replicas))
	// ---- follow-up 3: churn until the tables the values lived in have been recycled and reused
	recycled := 0
	for round := 0; round < 12; round++ {
		for j := 0; j < 120; j++ {
			k := fmt.Sprintf("churn-%d", j)
			_ = embFor(k, true).Put(bg, k, val(3000+round*200+j))
		}
		for _, m := range c.Live() {
			steps, _ := m.V.DMap.VerifCompactAll(500)
			ctx.rep.Count("compaction_steps", int64(steps))
		}
		for _, m := range c.Live() {
			for p := uint64(0); p < 3; p++ {
				if _, tables, ok := m.V.DMap.VerifStats(partitions.PRIMARY, p, name); ok {
					for _, t := range tables {
						if t.RecycledAt != 0 {
							recycled++
						}
					}
				}
			}
		}
		if !sweep("churn+compaction") {
			return
		}
	}
	ctx.rep.Count("recycled_table_observations", int64(recycled))
	if recycled > 0 {
		ctx.rep.Distinct(fmt.Sprintf("R=%d|followup=table-recycled-and-reused", replicas))
	}
	// ---- scribble over returned slices: the stored value must not change
	for i := 0; i < 20 && i < len(keys); i++ {
		k := fmt.Sprintf("scribble-%d", i)
		want := val(5000 + i)
		_ = embFor(k, true).Put(bg, k, want)
		backupsReady := true
		if async {
			// the backups are written in the background: wait until they hold the value
			backupsReady = false
			for try := 0; try < 100; try++ {
				have := 0
				bms := c.BackupsOf(name, k)
				for _, bm := range bms {
					if e, ok := bm.V.DMap.VerifEntry(partitions.BACKUP, name, k); ok && bytes.Equal(e.Value, want) {
						have++
					}
				}
				if have == len(bms) {
					backupsReady = true
					break
				}
				time.Sleep(30 * time.Millisecond)
			}
		}
		for _, rd := range []struct {
			src string
			dm  olric.DMap
		}{{"EO", embFor(k, true)}, {"EN", embFor(k, false)}, {"CC", ccdm}} {
			g, err := rd.dm.Get(bg, k)
			if err != nil {
				continue
			}
			// a second caller reads the same key before the first one modifies its bytes
			gTwin, errTwin := rd.dm.Get(bg, k)
			b, _ := g.Byte()
			for j := range b {
				b[j] ^= 0xff
			}
			ctx.rep.Count("scribbled_returned_slices", 1)
			if errTwin == nil {
				if bt, _ := gTwin.Byte(); !bytes.Equal(bt, want) {
					ctx.rep.Violate(fmt.Sprintf("c18|other-caller-sees-modification|read=%s", rd.src),
						fmt.Sprintf("two Gets of %s via %s; after flipping the bytes of the first result the second result reads %q instead of %q", k, rd.src, short(string(bt)), short(string(want))),
						map[string]interface{}{"key": k, "read_via": rd.src})
					return
				}
				ctx.rep.Count("twin_reads_compared", 1)
			}
			// every path and white-box on primary and backups must still see the original
			for _, chk := range []struct {
				src string
				dm  olric.DMap
			}{{"EO", embFor(k, true)}, {"EN", embFor(k, false)}, {"CC", ccdm}} {
				g2, err := chk.dm.Get(bg, k)
				if err != nil {
					continue
				}
				b2, _ := g2.Byte()
				if !bytes.Equal(b2, want) {
					ctx.rep.Violate(fmt.Sprintf("c18|store-changed-by-caller|read=%s|seen-by=%s", rd.src, chk.src),
						fmt.Sprintf("after flipping the bytes returned by Get via %s, Get via %s returns %q instead of %q", rd.src, chk.src, short(string(b2)), short(string(want))),
						map[string]interface{}{"key": k, "read_via": rd.src, "seen_via": chk.src})
					return
				}
			}
			if e, ok := c.OwnerOf(name, k).V.DMap.VerifEntry(partitions.PRIMARY, name, k); !ok || !bytes.Equal(e.Value, want) {
				ctx.rep.Violate("c18|store-changed-by-caller|read="+rd.src+"|seen-by=whitebox-primary", "primary copy changed after the caller modified returned bytes", map[string]interface{}{"key": k})
				return
			}
			for _, bm := range c.BackupsOf(name, k) {
				if !backupsReady {
					break
				}
				if e, ok := bm.V.DMap.VerifEntry(partitions.BACKUP, name, k); !ok || !bytes.Equal(e.Value, want) {
					ctx.rep.Violate("c18|store-changed-by-caller|read="+rd.src+"|seen-by=whitebox-backup", "backup copy changed after the caller modified returned bytes", map[string]interface{}{"key": k})
					return
				}
			}
		}
		// buffers passed to Put / GetPut (plain and pipelined) may be reused as soon as the call returns
		cdm, _ := ccdm.(*olric.ClusterDMap)
		for _, wr := range []struct {
			src string
			dm  olric.DMap
			op  string
		}{{"EO", nil, "Put"}, {"EN", nil, "Put"}, {"CC", ccdm, "Put"},
			{"EO", nil, "GetPut"}, {"EN", nil, "GetPut"}, {"CC", ccdm, "GetPut"},
			{"PL", nil, "Put"}, {"PL", nil, "GetPut"}} {
			// a fresh key per write: a copy of it is either absent or must equal what was passed
			wk := fmt.Sprintf("%s-%s-%s", k, wr.src, wr.op)
			buf := append([]byte(nil), val(6000+i)...)
			orig := append([]byte(nil), buf...)
			switch wr.src {
			case "EO":
				wr.dm = embFor(wk, true)
			case "EN":
				wr.dm = embFor(wk, false)
			}
			var werr error
			switch {
			case wr.src == "PL":
				if cdm == nil {
					continue
				}
				pipe, err := cdm.Pipeline()
				if err != nil {
					continue
				}
				if wr.op == "Put" {
					_, werr = pipe.Put(bg, wk, buf)
				} else {
					_, werr = pipe.GetPut(bg, wk, buf)
				}
				if werr == nil {
					// pipe.Put has returned: the buffer is the caller's again, before Exec
					for j := range buf {
						buf[j] = 'Z'
					}
					werr = pipe.Exec(bg)
				}
				pipe.Close()
			case wr.op == "Put":
				werr = wr.dm.Put(bg, wk, buf)
			default:
				_, werr = wr.dm.GetPut(bg, wk, buf)
			}
			if werr != nil {
				continue
			}
			for j := range buf {
				buf[j] = 'Z'
			}
			ctx.rep.Count("scribbled_"+wr.op+"_buffers_via_"+wr.src, 1)
			tag := "path=" + wr.src
			if wr.op != "Put" {
				tag += "|op=" + wr.op
			}
			if async {
				tag += "|async"
			}
			g, err := ccdm.Get(bg, wk)
			if err == nil {
				b, _ := g.Byte()
				if !bytes.Equal(b, orig) {
					ctx.rep.Violate("c18|put-buffer-aliased|"+tag, fmt.Sprintf("after reusing the buffer passed to %s via %s the stored value reads %q", wr.op, wr.src, short(string(b))), map[string]interface{}{"key": wk})
					return
				}
			}
			for _, bm := range c.BackupsOf(name, wk) {
				// asynchronous replication: the copy may arrive later; it must still be the value that was passed
				deadline := 60
				if !async {
					deadline = 1
				}
				for try := 0; try < deadline; try++ {
					e, ok := bm.V.DMap.VerifEntry(partitions.BACKUP, name, wk)
					if ok && bytes.Equal(e.Value, orig) {
						ctx.rep.Count("backup_copies_compared_after_buffer_reuse", 1)
						break
					}
					if ok {
						ctx.rep.Violate("c18|put-buffer-aliased|"+tag+"|backup", fmt.Sprintf("backup copy reads %q after the buffer passed to %s via %s was reused", short(string(e.Value)), wr.op, wr.src), map[string]interface{}{"key": wk})
						return
					}
					time.Sleep(50 * time.Millisecond)
				}
			}
		}
	}
	ctx.rep.Distinct(fmt.Sprintf("R=%d|followup=scribble|async=%v", replicas, async))
	// ---- follow-up 4: migration — a third member joins and the partitions are balanced
	if _, err := c.AddMember(); err == nil {
		_ = c.WaitStable(20 * time.Second)
		for round := 0; round < 40; round++ {
			for _, m := range c.Live() {
				m.V.Balancer.BalanceEagerly()
			}
			c.PushRouting()
		}
		if !sweep("migration") {
			return
		}
		ctx.rep.Distinct(fmt.Sprintf("R=%d|followup=migration", replicas))
		for j := 0; j < 200; j++ {
			k := fmt.Sprintf("churn-%d", j)
			_ = embFor(k, true).Put(bg, k, val(8000+j))
		}
		for _, m := range c.Live() {
			m.V.DMap.VerifCompactAll(500)
		}
		sweep("post-migration-churn")
	}
	ctx.rep.Count("reader_goroutine_loops", atomic.LoadInt64(&readerLoops))
	st.mu.Lock()
	if len(st.regs) > 0 {
		r := st.regs[0]
		ctx.rep.Sample(map[string]interface{}{"src": r.Src, "key": r.Key, "value_at_return": short(string(r.copy)), "registered_total": len(st.regs)})
	}
	st.mu.Unlock()
	_ = sink
}

func c18Run(ctx *runCtx) int {
	ctx.rep.Rule = "one evaluation = one key whose value is read through EO/EN/CC (Byte and String accessors), GetPut and iterators and registered with a private copy; follow-ups: overwrite, delete, 12 rounds of churn + compaction to completion on 1 KiB tables (recycled tables observed white-box), GetResponse objects that are kept and only asked for their value at every sweep (EO/EN/CC and pipelined Gets), scribbling over returned slices (stored value re-read on every path and white-box on primary and backups; a second caller's result of the same key must not change) and over buffers passed to Put / GetPut, plain and pipelined, with synchronous and asynchronous replication, migration to a third member + churn; distinct_nontrivial = distinct follow-up kinds actually exercised"
	ctx.rep.Assumptions = []string{"a data race between the harness reader goroutine and olric code is a violation (race binary); other race reports are diagnostics"}
	values := 60
	if ctx.tier == "thorough" {
		values = 400
	}
	batches := []batch{
		{Spec: fmt.Sprintf("R=1 values=%d seed=%d", values, ctx.seed*10+1), Timeout: 10 * time.Minute},
		{Spec: fmt.Sprintf("R=2 values=%d seed=%d", values, ctx.seed*10+2), Timeout: 10 * time.Minute},
		{Spec: fmt.Sprintf("R=1 values=%d seed=%d", values/2, ctx.seed*10+3), Timeout: 15 * time.Minute, Race: true},
		{Spec: fmt.Sprintf("R=2 values=%d seed=%d", values/2, ctx.seed*10+4), Timeout: 15 * time.Minute, Race: true},
		{Spec: fmt.Sprintf("R=2 values=%d seed=%d async", values/2, ctx.seed*10+5), Timeout: 10 * time.Minute},
	}
	if ctx.tier == "thorough" {
		// more seeds: other key placements, other table roll-over points
		for k := int64(0); k < 8; k++ {
			batches = append(batches, batch{Spec: fmt.Sprintf("R=%d values=%d seed=%d", 1+k%2, values, ctx.seed*1000+10+k), Timeout: 10 * time.Minute})
		}
	}
	runBatches(ctx, batches, 4, func(b batch, res batchResult, tail string) {
		ctx.rep.Violate("c18|member-crashed-or-hung", fmt.Sprintf("child %s died (exit %d timeout=%v): %s", b.Spec, res.ExitCode, res.TimedOut, lastLines(tail, 12)), map[string]interface{}{"batch": b.Spec})
	})
	reports, total := parseRaceLogs(filepath.Join(ctx.outDir, "b"))
	ctx.rep.Extra("race_reports_total", total)
	var diag []string
	for _, r := range reports {
		reader := func(i int) bool { return r.sideHas(i, "main.c18Child") }
		if reader(0) != reader(1) {
			ctx.rep.Violate("c18|race|reader|"+r.Key(), "the harness reads a value the API returned while olric writes the same memory: "+r.Key(), map[string]interface{}{"report": r})
		} else {
			diag = append(diag, r.Key())
		}
	}
	ctx.rep.Extra("race_reports_other_diagnostics", diag)
	return ctx.rep.Finish(50)
}
