package main

import (
	"context"
	"fmt"
	"time"

	"github.com/olric-data/olric/verif/cluster"
)

func init() {
	register("PROBE", &checkFn{level: "other", run: func(ctx *runCtx) int {
		t0 := time.Now()
		c, err := cluster.Start(cluster.Config{Replicas: 2, Partitions: 7, TableSize: 2048, FastFailureDetection: true}, 3)
		if err != nil {
			fmt.Println("start:", err)
			return 2
		}
		fmt.Println("cluster up in", time.Since(t0))
		defer c.Shutdown()
		bg := context.Background()
		dm, _ := c.Members[0].Emb.NewDMap("probe")
		for i := 0; i < 20; i++ {
			if err := dm.Put(bg, fmt.Sprintf("k%d", i), fmt.Sprintf("v%d", i)); err != nil {
				fmt.Println("put:", err)
			}
		}
		cc, err := c.NewClusterClient()
		if err != nil {
			fmt.Println("cc:", err)
			return 2
		}
		cdm, _ := cc.NewDMap("probe")
		for i := 0; i < 20; i++ {
			g, err := cdm.Get(bg, fmt.Sprintf("k%d", i))
			if err != nil {
				fmt.Println("get:", err)
				continue
			}
			s, _ := g.String()
			if s != fmt.Sprintf("v%d", i) {
				fmt.Println("mismatch", s)
			}
		}
		t1 := time.Now()
		c.StopAbrupt(c.Members[2])
		err = c.WaitStable(20 * time.Second)
		fmt.Println("abrupt stop detected+stable in", time.Since(t1), err)
		t1 = time.Now()
		_, err = c.AddMember()
		fmt.Println("add member", time.Since(t1), err)
		fmt.Println("stable:", c.WaitStable(20*time.Second), time.Since(t1))
		return 0
	}})
}
