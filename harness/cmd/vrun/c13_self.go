package main

// C13, "self" batches: the cluster drives itself. The cases of c13.go disable the periodic routing push and the
// periodic balancer and call both by hand, which is what makes them deterministic - and blind to a member that stops
// pushing or balancing on its own. Here both run on short timers (push 200 ms, balancer 100 ms); the coordinator
// leaves, its successor takes over, another member joins while the partitions hold data, and the table every member
// ends up with must become a valid one by the system's own doing: the same everywhere, one live primary owner,
// every further listed owner a live member that still holds data, no departed member anywhere.

import (
	"context"
	"fmt"
	"time"

	"github.com/olric-data/olric/verif/cluster"
)

// c13SelfValid returns "" if the routing tables are valid right now, otherwise what is wrong.
func c13SelfValid(c *cluster.Cluster, parts uint64) string {
	live := c.Live()
	ids := map[uint64]*cluster.Member{}
	for _, m := range live {
		ids[m.V.RT.This().ID] = m
	}
	ref := live[0].View(parts)
	for _, m := range live[1:] {
		v := m.View(parts)
		for p := range ref.Primary {
			if len(v.Primary[p]) != len(ref.Primary[p]) || len(v.Backup[p]) != len(ref.Backup[p]) {
				return fmt.Sprintf("%s and %s list different owners for partition %d", live[0].Name, m.Name, p)
			}
			for i := range v.Primary[p] {
				if v.Primary[p][i].ID != ref.Primary[p][i].ID {
					return fmt.Sprintf("%s and %s list different primary owners for partition %d", live[0].Name, m.Name, p)
				}
			}
		}
	}
	for p, owners := range ref.Primary {
		if len(owners) == 0 {
			return fmt.Sprintf("partition %d has no owner", p)
		}
		for i, o := range owners {
			m := ids[o.ID]
			if m == nil {
				return fmt.Sprintf("partition %d lists %s, which is not a live member", p, o.Name)
			}
			if i < len(owners)-1 && m.V.Primary.PartitionByID(uint64(p)).Length() == 0 {
				return fmt.Sprintf("partition %d still lists the previous owner %s, which holds no data for it", p, o.Name)
			}
		}
		for _, o := range ref.Backup[p] {
			if ids[o.ID] == nil {
				return fmt.Sprintf("backup partition %d lists %s, which is not a live member", p, o.Name)
			}
		}
	}
	return ""
}

func c13SelfChild(ctx *runCtx, spec string) {
	var r int
	var parts uint64
	var seed int64
	fmt.Sscanf(spec, "self R=%d P=%d seed=%d", &r, &parts, &seed)
	c, err := cluster.Start(cluster.Config{Replicas: r, Partitions: parts, TableSize: 1 << 20, FastFailureDetection: true,
		RoutingPush: 200 * time.Millisecond, BalancerInterval: 100 * time.Millisecond}, 3)
	if err != nil {
		ctx.rep.Inconclusive(spec + ": cluster start: " + err.Error())
		return
	}
	defer c.Shutdown()
	bg := context.Background()
	d, err := c.Live()[1].Emb.NewDMap(fmt.Sprintf("c13-self-%d", seed))
	if err != nil {
		ctx.rep.Inconclusive(spec + ": NewDMap: " + err.Error())
		return
	}
	for i := 0; i < 400; i++ {
		if err := d.Put(bg, fmt.Sprintf("k%d", i), i); err != nil {
			ctx.rep.Inconclusive(spec + ": Put: " + err.Error())
			return
		}
	}
	converge := func(after string) bool {
		// the system has 150 push periods; the verdict is about what it reaches, not about how fast
		why := ""
		okRun := 0
		for poll := 0; poll < 600; poll++ {
			why = c13SelfValid(c, parts)
			if why == "" {
				okRun++
				if okRun >= 3 {
					return true
				}
			} else {
				okRun = 0
			}
			time.Sleep(50 * time.Millisecond)
		}
		if c.Flapped() {
			ctx.rep.Inconclusive(spec + ": a false failure suspicion changed the membership: " + c.LeaveAccounting())
			return false
		}
		ctx.rep.Violate("c13|never-valid-by-itself|after="+after,
			fmt.Sprintf("%s: periodic push every 200 ms and balancer every 100 ms, nothing driven by hand; 30 s after %s the routing tables are still not valid: %s", spec, after, why),
			map[string]interface{}{"batch": spec, "after": after})
		return false
	}
	ctx.rep.Eval(1)
	if !converge("start") {
		return
	}
	co := c.Coordinator()
	c.StopGraceful(co)
	ctx.rep.Eval(1)
	if !converge("coordinator-leave") {
		return
	}
	ctx.rep.Distinct(fmt.Sprintf("self|R=%d|P=%d|after=coordinator-leave", r, parts))
	if _, err := c.AddMember(); err != nil {
		ctx.rep.Inconclusive(spec + ": join: " + err.Error())
		return
	}
	ctx.rep.Eval(1)
	if !converge("coordinator-leave+join") {
		return
	}
	ctx.rep.Distinct(fmt.Sprintf("self|R=%d|P=%d|after=coordinator-leave+join", r, parts))
	if _, err := c.AddMember(); err != nil {
		ctx.rep.Inconclusive(spec + ": join: " + err.Error())
		return
	}
	ctx.rep.Eval(1)
	if !converge("coordinator-leave+join+join") {
		return
	}
	ctx.rep.Distinct(fmt.Sprintf("self|R=%d|P=%d|after=coordinator-leave+join+join", r, parts))
	ctx.rep.Count("self_driven_convergences", 4)
	ctx.rep.Sample(map[string]interface{}{"config": spec, "members_at_end": len(c.Live())})
}
