package main

// Parsing of Go race detector logs (GORACE=log_path=...), de-duplication and
// classification helpers shared by the monitors that run -race children.

import (
	"os"
	"path/filepath"
	"sort"
	"strings"
)

type raceReport struct {
	Stacks [2][]string `json:"stacks"` // function names, innermost first, of the two conflicting accesses
	Kinds  [2]string   `json:"kinds"`  // "Write at", "Previous read at", ...
	Raw    string      `json:"raw"`
}

// Key de-duplicates by the innermost olric/harness frame of each side (line numbers are not part of it).
func (r raceReport) Key() string {
	pick := func(st []string) string {
		for _, f := range st {
			if strings.Contains(f, "olric-data/olric") || strings.HasPrefix(f, "main.") {
				return f
			}
		}
		if len(st) > 0 {
			return st[0]
		}
		return "?"
	}
	a, b := pick(r.Stacks[0]), pick(r.Stacks[1])
	if a > b {
		a, b = b, a
	}
	return a + " <-> " + b
}

func (r raceReport) sideHas(i int, substr ...string) bool {
	for _, f := range r.Stacks[i] {
		for _, s := range substr {
			if strings.Contains(f, s) {
				return true
			}
		}
	}
	return false
}

// parseRaceLogs reads every file matching prefix* and returns the de-duplicated reports.
func parseRaceLogs(prefix string) (reports []raceReport, total int) {
	files, _ := filepath.Glob(prefix + "*")
	sort.Strings(files)
	seen := map[string]bool{}
	for _, f := range files {
		data, err := os.ReadFile(f)
		if err != nil {
			continue
		}
		for _, blk := range strings.Split(string(data), "==================") {
			if !strings.Contains(blk, "WARNING: DATA RACE") {
				continue
			}
			total++
			var r raceReport
			r.Raw = blk
			if len(r.Raw) > 6000 {
				r.Raw = r.Raw[:6000]
			}
			side := -1
			for _, line := range strings.Split(blk, "\n") {
				t := strings.TrimSpace(line)
				switch {
				case strings.HasPrefix(t, "Write at"), strings.HasPrefix(t, "Read at"),
					strings.HasPrefix(t, "Previous write at"), strings.HasPrefix(t, "Previous read at"):
					side++
					if side < 2 {
						r.Kinds[side] = strings.SplitN(t, " at ", 2)[0]
					}
				case strings.HasPrefix(t, "Goroutine "):
					side = 2
				case t == "":
				default:
					if side >= 0 && side < 2 && strings.HasPrefix(line, "  ") && !strings.HasPrefix(line, "      ") {
						fn := t
						if i := strings.Index(fn, "("); i > 0 {
							// keep method receivers like pkg.(*T).M: cut only the trailing argument list
							if j := strings.LastIndex(fn, "("); j > 0 {
								fn = fn[:j]
							}
						}
						r.Stacks[side] = append(r.Stacks[side], fn)
					}
				}
			}
			k := r.Key()
			if !seen[k] {
				seen[k] = true
				reports = append(reports, r)
			}
		}
	}
	return reports, total
}
