package main

// C19 — Destroy removes one DMap everywhere and DMaps never interfere.
//
// One evaluation = one seeded operation script (30..80 steps) over two or
// three DMaps whose names and keys are chosen so that name+key concatenations
// (and therefore hashed keys and the per-key mutex names) coincide, executed
// on a fresh 1..3 member cluster with ReplicaCount 1..2 through rotating entry
// paths. Oracle, after EVERY step on DMap X:
//
//   - white box: the decoded content of every primary and backup fragment of
//     every OTHER DMap on every member is compared with the snapshot taken
//     right before the step (value, expiry, timestamp): any change, removal or
//     addition refutes isolation (a removal is legitimate only if the entry's
//     own expiry has passed or that DMap itself has a MaxIdleDuration);
//   - black box: every key of every OTHER DMap is re-read through a rotating
//     path and compared with that DMap's reference map (value and expiry);
//   - values returned by the operation on X (and values stored in X's
//     fragments) must not carry another DMap's tag ("reveal").
//
// Destroy(X): every key of X reads not-found from every member (embedded and
// raw RESP) and the cluster client, scans of X are empty, no member keeps a
// fragment of X with entries (primary or backup), X accepts new writes, and
// the other DMaps are untouched (white box, black box and their scan).

import (
	"context"
	"fmt"
	"math/rand"
	"os"
	"sort"
	"strconv"
	"strings"
	"sync"
	"sync/atomic"
	"time"

	"github.com/olric-data/olric"
	"github.com/olric-data/olric/config"
	"github.com/olric-data/olric/internal/cluster/partitions"
	"github.com/olric-data/olric/verif/cluster"
	"github.com/olric-data/olric/verif/ev"
	"github.com/olric-data/olric/verif/paths"
	"github.com/olric-data/olric/verif/respc"
)

func init() {
	register("C19", &checkFn{level: "exploration", run: c19Run, child: c19Child, replay: c19Replay})
}

// ---------------------------------------------------------------- cases

type c19DM struct {
	Name string   `json:"name"`
	Keys []string `json:"keys"`
	Cfg  string   `json:"cfg,omitempty"` // "", "lru", "idle", "ttl" (ttl = this DMap receives short-lived keys)
}

type c19Step struct {
	D    int    `json:"d"`  // index of the DMap operated on
	Op   string `json:"op"` // Put PutTTL PutNum PutShort Get Delete Expire Incr GetPut Lock Unlock Scan Destroy Conc EvictScan
	Key  string `json:"key,omitempty"`
	Key2 string `json:"key2,omitempty"`
	Path string `json:"path,omitempty"`
	Arg  int    `json:"arg,omitempty"`
}

func (s c19Step) String() string {
	r := fmt.Sprintf("%s(%c", s.Op, 'A'+s.D)
	if s.Key != "" || s.Op == "Put" || s.Op == "Get" {
		r += "," + strconv.Quote(s.Key)
	}
	if s.Key2 != "" {
		r += "," + strconv.Quote(s.Key2)
	}
	return r + ")@" + s.Path
}

type c19Case struct {
	Idx        int        `json:"idx"`
	Pair       string     `json:"pair"`
	Scenario   string     `json:"scenario"`
	N          int        `json:"members"`
	R          int        `json:"replicas"`
	Partitions uint64     `json:"partitions"`
	DMaps      []c19DM    `json:"dmaps"`
	Collide    [][]string `json:"collide"` // Collide[i][d] = key of DMap d in the i-th colliding tuple
	Steps      []c19Step  `json:"steps"`
}

func (c c19Case) ID() string {
	return fmt.Sprintf("#%d pair=%s scen=%s N=%d R=%d P=%d steps=%d", c.Idx, c.Pair, c.Scenario, c.N, c.R, c.Partitions, len(c.Steps))
}

const (
	c19IdleDur  = 150 * time.Millisecond
	c19ShortTTL = 120 * time.Millisecond
	c19LongTTL  = time.Hour
	c19MaxKeys  = 3
)

var c19Pairs = []string{"concat", "empty", "prefix", "dmapprefix", "dots", "dmap3", "chain3", "dmapdot"}
var c19Scenarios = []string{"plain", "plain2", "lru0", "lru1", "ttl0", "ttl1", "idle1"}

// c19Names returns the DMap names and key universes of a pair type.
// Every universe consists of colliding keys (name+key equal across the DMaps),
// keys that are identical in all DMaps and one exclusive key per DMap.
func c19Names(pair string, emptyKeyOK bool) (dms []c19DM, collide [][]string) {
	suffixes := []string{"1", "2", "3", "4"}
	var names []string
	var pre []string // pre[d] + suffix = colliding key of DMap d; "\x00" = no colliding keys for that DMap
	switch pair {
	case "concat": // ("ab","c") vs ("a","bc")
		names, pre = []string{"ab", "a"}, []string{"c", "bc"}
	case "empty": // ("","x") vs ("x","")
		names, pre = []string{"", "x"}, []string{"x", ""}
	case "prefix":
		names, pre = []string{"users", "users2"}, []string{"2k", "k"}
	case "dmapprefix": // D15: fragment name of "x" is the DMap name "dmap.x"
		names, pre = []string{"x", "dmap.x"}, nil
	case "dots":
		names, pre = []string{"a.b", "a"}, []string{"c", ".bc"}
	case "dmap3":
		names, pre = []string{"x", "dmap.x", "d"}, []string{"\x00", "k", "map.xk"}
	case "chain3":
		names, pre = []string{"a", "ab", "abc"}, []string{"bcd", "cd", "d"}
	case "dmapdot":
		names, pre = []string{"dmap.", "dmap"}, []string{"k", ".k"}
	default:
		panic("pair " + pair)
	}
	dms = make([]c19DM, len(names))
	for d := range names {
		dms[d].Name = names[d]
	}
	if pre != nil {
		sfx := append([]string(nil), suffixes...)
		if pair == "empty" && emptyKeyOK {
			sfx = append(sfx, "") // ("","x") vs ("x","")
		}
		for _, s := range sfx {
			tuple := make([]string, len(names))
			for d := range names {
				if pre[d] == "\x00" {
					tuple[d] = ""
					continue
				}
				tuple[d] = pre[d] + s
				dms[d].Keys = append(dms[d].Keys, tuple[d])
			}
			collide = append(collide, tuple)
		}
	}
	same := []string{"same1", "same2", "same3"}
	if pre == nil {
		same = []string{"same1", "same2", "same3", "same4", "same5", "same6", "same7", "same8"}
	}
	for d := range names {
		dms[d].Keys = append(dms[d].Keys, same...)
		dms[d].Keys = append(dms[d].Keys, fmt.Sprintf("only%c", 'A'+d))
	}
	if pre == nil {
		for _, s := range same[:4] {
			tuple := make([]string, len(names))
			for d := range names {
				tuple[d] = s
			}
			collide = append(collide, tuple)
		}
	}
	return dms, collide
}

type c19Combo struct {
	Pair, Scenario string
	N, R           int
}

// c19Combos returns the (pair, scenario, N, R) grid in the order the cases walk
// it: a fixed head of combinations every quick run must contain, then the rest
// of the grid shuffled by the seed.
func c19Combos(seed int64) []c19Combo {
	head := []c19Combo{
		{"dmapprefix", "ttl0", 2, 2}, {"dmapprefix", "idle1", 1, 1}, {"dmapprefix", "ttl0", 3, 2}, {"dmap3", "ttl0", 3, 2},
		{"concat", "plain", 3, 2}, {"empty", "plain", 2, 2}, {"concat", "lru0", 1, 1}, {"chain3", "lru1", 3, 2},
		{"dmapprefix", "idle1", 3, 2}, {"dmapdot", "plain", 2, 1}, {"dots", "ttl1", 2, 2}, {"prefix", "plain2", 3, 1},
		{"dmapprefix", "ttl1", 2, 2}, {"dmap3", "idle1", 2, 2}, {"empty", "lru1", 3, 2}, {"concat", "plain2", 1, 2},
	}
	seen := map[c19Combo]bool{}
	for _, h := range head {
		seen[h] = true
	}
	var rest []c19Combo
	for _, p := range c19Pairs {
		for _, s := range c19Scenarios {
			for n := 1; n <= 3; n++ {
				for r := 1; r <= 2; r++ {
					c := c19Combo{p, s, n, r}
					if !seen[c] {
						rest = append(rest, c)
					}
				}
			}
		}
	}
	rng := rand.New(rand.NewSource(seed*7919 + 19))
	rng.Shuffle(len(rest), func(i, j int) { rest[i], rest[j] = rest[j], rest[i] })
	return append(head, rest...)
}

func c19NumCases(tier string) int {
	if tier == "thorough" {
		return 2500
	}
	return 168
}

var c19OpKinds = []string{"EO", "EN", "CC", "RO", "RN", "PL"}

// c19GenCase is a pure function of (seed, idx).
func c19GenCase(seed int64, idx int) c19Case {
	combos := c19Combos(seed)
	cb := combos[idx%len(combos)]
	rng := rand.New(rand.NewSource(seed*1_000_003 + int64(idx)*104729 + 7))
	c := c19Case{Idx: idx, Pair: cb.Pair, Scenario: cb.Scenario, N: cb.N, R: cb.R, Partitions: 7}
	switch rng.Intn(4) {
	case 0:
		c.Partitions = 3
	case 1:
		c.Partitions = 13
	}
	c.DMaps, c.Collide = c19Names(cb.Pair, true)
	special := -1 // DMap with the scenario's special configuration
	switch cb.Scenario {
	case "lru0":
		c.DMaps[0].Cfg, special = "lru", 0
		c.Partitions = 3
	case "lru1":
		c.DMaps[1].Cfg, special = "lru", 1
		c.Partitions = 3
	case "ttl0":
		c.DMaps[0].Cfg, special = "ttl", 0
	case "ttl1":
		c.DMaps[1].Cfg, special = "ttl", 1
	case "idle1":
		c.DMaps[1].Cfg, special = "idle", 1
	}
	n := 30 + rng.Intn(51)
	type w struct {
		op string
		w  int
	}
	ws := []w{{"Put", 22}, {"PutTTL", 6}, {"PutNum", 7}, {"Get", 8}, {"Delete", 8}, {"Expire", 6}, {"Incr", 9}, {"GetPut", 6},
		{"Lock", 7}, {"Unlock", 5}, {"Scan", 5}, {"Destroy", 3}, {"Conc", 2}, {"LockAll", 3}}
	total := 0
	for _, x := range ws {
		total += x.w
	}
	pick := func() string {
		r := rng.Intn(total)
		for _, x := range ws {
			if r < x.w {
				return x.op
			}
			r -= x.w
		}
		return "Put"
	}
	destroyAt := n/2 + rng.Intn(n/3+1)
	conc := 0
	for i := 0; i < n; i++ {
		d := rng.Intn(len(c.DMaps))
		st := c19Step{D: d, Op: pick()}
		if i < 8 {
			// populate first so that there is something to disturb
			st.Op = []string{"Put", "PutNum", "PutTTL", "Put"}[i%4]
			st.D = i % len(c.DMaps)
			d = st.D
		}
		if i == destroyAt {
			st.Op = "Destroy"
		}
		if special >= 0 && i >= 6 {
			switch c.DMaps[special].Cfg {
			case "ttl":
				if r := rng.Intn(100); r < 14 {
					st.Op, st.D, d = "PutShort", special, special
				} else if r < 21 {
					st.Op, st.D, d = "EvictScan", special, special
				}
			case "idle":
				if r := rng.Intn(100); r < 10 {
					st.Op, st.D, d = "Put", special, special
				} else if r < 17 {
					st.Op, st.D, d = "EvictScan", special, special
				}
			}
		}
		if st.Op == "Conc" {
			if conc >= 1 {
				st.Op = "Incr"
			} else {
				conc++
			}
		}
		if st.Op == "LockAll" {
			// lock the keys of one colliding tuple in every DMap at the same time: Delete*, Lock*, an atomic
			// operation next to the held locks, Unlock* - as ordinary steps, so the oracle runs after each
			t := c.Collide[rng.Intn(len(c.Collide))]
			var ds []int
			for dd := range c.DMaps {
				if !(cb.Pair == "dmap3" && dd == 0 && t[dd] == "") {
					ds = append(ds, dd)
				}
			}
			rng.Shuffle(len(ds), func(a, b int) { ds[a], ds[b] = ds[b], ds[a] })
			for _, dd := range ds {
				c.Steps = append(c.Steps, c19Step{D: dd, Op: "Delete", Key: t[dd], Path: c19OpKinds[rng.Intn(6)]})
			}
			for _, dd := range ds {
				c.Steps = append(c.Steps, c19Step{D: dd, Op: "Lock", Key: t[dd], Path: c19OpKinds[rng.Intn(5)], Arg: 1})
			}
			other := c.Collide[rng.Intn(len(c.Collide))]
			c.Steps = append(c.Steps, c19Step{D: ds[0], Op: "Incr", Key: other[ds[0]], Path: c19OpKinds[rng.Intn(6)], Arg: 1 + rng.Intn(9)})
			rng.Shuffle(len(ds), func(a, b int) { ds[a], ds[b] = ds[b], ds[a] })
			for _, dd := range ds {
				c.Steps = append(c.Steps, c19Step{D: dd, Op: "Unlock", Key: t[dd], Path: c19OpKinds[rng.Intn(5)], Arg: 1})
			}
			continue
		}
		keys := c.DMaps[d].Keys
		st.Key = keys[rng.Intn(len(keys))]
		st.Arg = 1 + rng.Intn(9)
		st.Path = c19OpKinds[rng.Intn(len(c19OpKinds))]
		switch st.Op {
		case "Delete":
			if rng.Intn(3) == 0 {
				st.Key2 = keys[rng.Intn(len(keys))]
				if st.Key2 == st.Key {
					st.Key2 = ""
				}
			}
		case "Lock", "Unlock":
			st.Path = c19OpKinds[rng.Intn(5)] // no locks on pipelines
		case "Scan", "Destroy":
			st.Path = []string{"E", "CC", "R"}[rng.Intn(3)]
			st.Key = ""
			st.Arg = rng.Intn(2) // Destroy: 1 = the other DMaps are written to while Destroy runs
		case "Conc":
			st.Arg = rng.Intn(len(c.Collide))
			st.Key, st.Path = "", c19OpKinds[rng.Intn(5)]
		case "EvictScan":
			st.Key, st.Path = "", "WB"
		}
		c.Steps = append(c.Steps, st)
	}
	// every script ends with destroying one DMap while the others are populated
	last := rng.Intn(len(c.DMaps))
	for d := range c.DMaps {
		if d != last {
			c.Steps = append(c.Steps, c19Step{D: d, Op: "Put", Key: c.DMaps[d].Keys[0], Path: "EO"})
		}
	}
	c.Steps = append(c.Steps, c19Step{D: last, Op: "Destroy", Path: []string{"E", "CC", "R"}[rng.Intn(3)], Arg: rng.Intn(2)})
	return c
}

// ---------------------------------------------------------------- environment

type c19WB struct {
	Val string
	TTL int64
	TS  int64
}

type c19Ent struct {
	Val string
	TTL int64
}

type c19Viol struct {
	Key    string
	Detail string
	Step   int
	Extra  map[string]interface{}
}

type c19Env struct {
	c      *cluster.Cluster
	cs     c19Case
	rep    *ev.Report
	rt     []*paths.Router
	sess   []*paths.Session
	cc     *olric.ClusterClient
	ccdm   []olric.DMap
	model  []map[string]c19Ent
	held   []map[string]paths.Lock
	raws   map[string]*respc.Conn
	seq    int
	rot    int
	stepNo int
	viols  []c19Viol
	seenV  map[string]bool
	abort  bool // the cluster is unusable (deadlock witness), stop the script
	evict  int64
	// tainted[y]: a white-box violation on y was already reported in this script; the
	// black-box consequences of the same defect are counted, not reported again
	tainted  map[int]bool
	sig0     string
	unstable bool
	// ign[y]: keys of y written by the harness itself during the current step (Destroy with concurrent writers)
	ign map[int]map[string]bool
}

// routingSig summarises membership and routing of every member; periodic routing pushes are disabled, so it
// changes only when memberlist reports a join/leave (under heavy machine load a live member can be declared dead
// and come back; meanwhile its partitions are served, empty, by other members).
func (e *c19Env) routingSig() string {
	var b strings.Builder
	for _, m := range e.c.Live() {
		fmt.Fprintf(&b, "m%d:%d/%d/%d;", m.Idx, m.V.RT.Signature(), m.V.RT.NumMembers(), len(m.V.RT.Discovery().GetMembers()))
		for p := uint64(0); p < e.cs.Partitions; p++ {
			fmt.Fprintf(&b, "%d,", m.V.Primary.PartitionByID(p).Owner().ID)
		}
	}
	return b.String()
}

// stable reports whether membership and routing are still what they were when the script started.
func (e *c19Env) stable() bool {
	if e.unstable {
		return false
	}
	if e.routingSig() != e.sig0 {
		e.unstable = true
		e.abort = true
		e.rep.Inconclusive(fmt.Sprintf("%s: membership or routing changed during step %d (no member was stopped by the harness: failure detector false positive under load); script abandoned", e.cs.ID(), e.stepNo))
	}
	return !e.unstable
}

func (e *c19Env) violate(key, detail string, extra map[string]interface{}) {
	if !e.stable() {
		return
	}
	if strings.Contains(key, ".read-differs") {
		for y := range e.tainted {
			if strings.Contains(key, "|"+c19Role(y)+".read-differs") {
				e.rep.Count("blackbox_consequences_of_reported_whitebox_violation", 1)
				return
			}
		}
	}
	if e.seenV[key] {
		return
	}
	e.seenV[key] = true
	e.viols = append(e.viols, c19Viol{Key: key, Detail: detail, Step: e.stepNo, Extra: extra})
}

func c19Tag(d int) string { return fmt.Sprintf("D%d|", d) }

// foreignTag reports whether a value was written into a DMap other than d:
// "D<j>|..." strings and numbers in [(j+1)*1e6, (j+2)*1e6) belong to DMap j.
func (e *c19Env) foreignTag(d int, val string) (int, bool) {
	for j := range e.cs.DMaps {
		if j == d {
			continue
		}
		if strings.HasPrefix(val, c19Tag(j)) {
			return j, true
		}
	}
	if n, err := strconv.ParseInt(val, 10, 64); err == nil && n >= 1_000_000 {
		j := int(n/1_000_000) - 1
		if j != d && j < len(e.cs.DMaps) {
			return j, true
		}
	}
	return 0, false
}

func c19Role(d int) string { return string(rune('A' + d)) }

func c19Start(cs c19Case, rep *ev.Report) (*c19Env, error) {
	cfg := cluster.Config{
		Replicas:   cs.R,
		Partitions: cs.Partitions,
		DMaps: func(d *config.DMaps) {
			d.Custom = map[string]config.DMap{}
			for _, dm := range cs.DMaps {
				switch dm.Cfg {
				case "lru":
					d.Custom[dm.Name] = config.DMap{EvictionPolicy: config.LRUEviction, MaxKeys: c19MaxKeys}
				case "idle":
					d.Custom[dm.Name] = config.DMap{MaxIdleDuration: c19IdleDur}
				}
			}
		},
	}
	c, err := cluster.Start(cfg, cs.N)
	if err != nil {
		return nil, err
	}
	e := &c19Env{c: c, cs: cs, rep: rep, raws: map[string]*respc.Conn{}, seenV: map[string]bool{}, tainted: map[int]bool{}}
	for d, dm := range cs.DMaps {
		r := paths.NewRouter(c, dm.Name)
		e.rt = append(e.rt, r)
		e.sess = append(e.sess, r.NewSession())
		e.model = append(e.model, map[string]c19Ent{})
		e.held = append(e.held, map[string]paths.Lock{})
		_ = d
	}
	e.sig0 = e.routingSig()
	cc, err := c.NewClusterClient()
	if err != nil {
		e.close()
		return nil, err
	}
	e.cc = cc
	for _, dm := range cs.DMaps {
		h, err := cc.NewDMap(dm.Name)
		if err != nil {
			e.close()
			return nil, err
		}
		e.ccdm = append(e.ccdm, h)
	}
	return e, nil
}

func (e *c19Env) close() {
	for _, s := range e.sess {
		s.Close()
	}
	for _, r := range e.rt {
		r.Close()
	}
	for _, c := range e.raws {
		_ = c.Close()
	}
	if e.cc != nil {
		ctx, cancel := context.WithTimeout(context.Background(), 2*time.Second)
		_ = e.cc.Close(ctx)
		cancel()
	}
	if !e.abort {
		e.c.Shutdown()
	} else {
		// members may be wedged: do not wait for them
		go e.c.Shutdown()
	}
}

// snapshot reads every fragment (primary and backup, every member) of every DMap.
// Key of the inner map: member|kind|part|key.
func (e *c19Env) snapshot() []map[string]c19WB {
	res := make([]map[string]c19WB, len(e.cs.DMaps))
	for d, dm := range e.cs.DMaps {
		res[d] = map[string]c19WB{}
		for _, m := range e.c.Live() {
			for _, kind := range []partitions.Kind{partitions.PRIMARY, partitions.BACKUP} {
				kn := "P"
				if kind == partitions.BACKUP {
					kn = "B"
				}
				for p := uint64(0); p < e.cs.Partitions; p++ {
					ents, ok := m.V.DMap.VerifEntries(kind, p, dm.Name)
					if !ok {
						continue
					}
					for _, en := range ents {
						res[d][fmt.Sprintf("m%d|%s|%d|%s", m.Idx, kn, p, en.Key)] = c19WB{Val: string(en.Value), TTL: en.TTL, TS: en.Timestamp}
					}
				}
			}
		}
	}
	return res
}

func c19LocKind(loc string) string {
	f := strings.SplitN(loc, "|", 4)
	if len(f) >= 2 && f[1] == "B" {
		return "BACKUP"
	}
	return "PRIMARY"
}

func c19LocKey(loc string) string {
	f := strings.SplitN(loc, "|", 4)
	if len(f) == 4 {
		return f[3]
	}
	return ""
}

type c19Change struct {
	Loc    string `json:"loc"`
	What   string `json:"what"` // removed changed added
	Before string `json:"before,omitempty"`
	After  string `json:"after,omitempty"`
}

func (w c19WB) String() string {
	return fmt.Sprintf("{val=%q ttl=%d ts=%d}", short(w.Val), w.TTL, w.TS)
}

// diff lists the changes of one DMap between two snapshots that are not explained by the DMap's own expiry rules.
func (e *c19Env) diff(d int, pre, post map[string]c19WB, nowMs int64) []c19Change {
	var res []c19Change
	volatile := e.cs.DMaps[d].Cfg == "idle"
	ign := e.ign[d]
	for loc, b := range pre {
		if ign[c19LocKey(loc)] {
			continue
		}
		a, ok := post[loc]
		if !ok {
			if volatile || (b.TTL != 0 && b.TTL <= nowMs) {
				continue
			}
			res = append(res, c19Change{Loc: loc, What: "removed", Before: b.String()})
			continue
		}
		if a != b {
			res = append(res, c19Change{Loc: loc, What: "changed", Before: b.String(), After: a.String()})
		}
	}
	for loc, a := range post {
		if ign[c19LocKey(loc)] {
			continue
		}
		if _, ok := pre[loc]; !ok {
			res = append(res, c19Change{Loc: loc, What: "added", After: a.String()})
		}
	}
	sort.Slice(res, func(i, j int) bool { return res[i].Loc < res[j].Loc })
	return res
}

// primaryTruth extracts key -> entry from the primary fragments of a snapshot.
func c19PrimaryTruth(snap map[string]c19WB) map[string]c19Ent {
	res := map[string]c19Ent{}
	for loc, w := range snap {
		if c19LocKind(loc) == "PRIMARY" {
			res[c19LocKey(loc)] = c19Ent{Val: w.Val, TTL: w.TTL}
		}
	}
	return res
}

func (e *c19Env) ctx() (context.Context, context.CancelFunc) {
	return context.WithTimeout(context.Background(), 20*time.Second)
}

func (e *c19Env) nextVal(d int, key string) string {
	e.seq++
	return fmt.Sprintf("%s%s|%d", c19Tag(d), key, e.seq)
}

func (e *c19Env) raw(m *cluster.Member) (*respc.Conn, error) {
	if c, ok := e.raws[m.Name]; ok {
		return c, nil
	}
	c, err := respc.Dial(m.Name)
	if err != nil {
		return nil, err
	}
	e.raws[m.Name] = c
	return c, nil
}

func (e *c19Env) rawDo(m *cluster.Member, args ...string) (respc.Reply, error) {
	c, err := e.raw(m)
	if err != nil {
		return respc.Reply{}, err
	}
	rep, err := c.Do(15*time.Second, args...)
	if err != nil {
		_ = c.Close()
		delete(e.raws, m.Name)
		return rep, err
	}
	if rep.IsErr() {
		return rep, &paths.RespError{Msg: rep.Str}
	}
	return rep, nil
}

// rawScan scans one DMap with DM.SCAN on every member and partition.
func (e *c19Env) rawScan(name string, replica bool) (map[string]bool, error) {
	res := map[string]bool{}
	for _, m := range e.c.Live() {
		for p := uint64(0); p < e.cs.Partitions; p++ {
			cursor := "0"
			for i := 0; i < 1000; i++ {
				args := []string{"DM.SCAN", strconv.FormatUint(p, 10), name, cursor, "COUNT", "3"}
				if replica {
					args = append(args, "RC")
				}
				rep, err := e.rawDo(m, args...)
				if err != nil {
					return res, err
				}
				if len(rep.Array) != 2 {
					return res, fmt.Errorf("DM.SCAN: unexpected reply %s", rep.String())
				}
				for _, k := range rep.Array[1].Array {
					res[k.Str] = true
				}
				cursor = rep.Array[0].Str
				if cursor == "0" || cursor == "" {
					break
				}
			}
		}
	}
	return res, nil
}

func c19Iterate(it olric.Iterator) map[string]bool {
	res := map[string]bool{}
	for it.Next() {
		res[it.Key()] = true
	}
	it.Close()
	return res
}

// scan reads the key set of a DMap through an embedded client ("E", member chosen by rot), the cluster client or raw RESP.
func (e *c19Env) scan(d int, path string, rot int) (map[string]bool, string, error) {
	name := e.cs.DMaps[d].Name
	ctx, cancel := e.ctx()
	defer cancel()
	switch path {
	case "E":
		live := e.c.Live()
		m := live[rot%len(live)]
		h, err := m.Emb.NewDMap(name)
		if err != nil {
			return nil, "E", err
		}
		it, err := h.Scan(ctx)
		if err != nil {
			return nil, "E", err
		}
		return c19Iterate(it), fmt.Sprintf("E@m%d", m.Idx), nil
	case "CC":
		it, err := e.ccdm[d].Scan(ctx)
		if err != nil {
			return nil, "CC", err
		}
		return c19Iterate(it), "CC", nil
	default:
		ks, err := e.rawScan(name, false)
		if err != nil {
			return ks, "R", err
		}
		bs, err := e.rawScan(name, true)
		for k := range bs {
			ks[k] = true
		}
		return ks, "R", err
	}
}

func (e *c19Env) destroy(d int, path string, rot int) (string, error) {
	name := e.cs.DMaps[d].Name
	ctx, cancel := e.ctx()
	defer cancel()
	live := e.c.Live()
	m := live[rot%len(live)]
	switch path {
	case "E":
		h, err := m.Emb.NewDMap(name)
		if err != nil {
			return "E", err
		}
		return fmt.Sprintf("E@m%d", m.Idx), h.Destroy(ctx)
	case "CC":
		return "CC", e.ccdm[d].Destroy(ctx)
	default:
		_, err := e.rawDo(m, "DM.DESTROY", name)
		return fmt.Sprintf("R@m%d", m.Idx), err
	}
}

func keysOf(m map[string]bool) []string {
	var ks []string
	for k := range m {
		ks = append(ks, k)
	}
	sort.Strings(ks)
	return ks
}

func (e *c19Env) pairTag() string { return "pair=" + e.cs.Pair }

// checkOthers is the oracle applied after a step on DMap x.
func (e *c19Env) checkOthers(x int, st c19Step, pre, post []map[string]c19WB) {
	nowMs := time.Now().UnixMilli()
	opName := st.Op + "(" + c19Role(x) + ")"
	for y := range e.cs.DMaps {
		// foreign entries inside a fragment (any DMap, also x itself)
		for loc, w := range post[y] {
			if j, bad := e.foreignTag(y, w.Val); bad {
				e.violate(fmt.Sprintf("c19|isolation|foreign-entry-in-fragment|of=%s|from=%s|%s", c19Role(y), c19Role(j), e.pairTag()),
					fmt.Sprintf("%s: after step %d %s a fragment of DMap %q holds an entry written to DMap %q: %s = %s", e.cs.ID(), e.stepNo, st, e.cs.DMaps[y].Name, e.cs.DMaps[j].Name, loc, w),
					map[string]interface{}{"loc": loc})
			}
		}
		if y == x {
			continue
		}
		// white box: nothing of y may have changed
		chs := e.diff(y, pre[y], post[y], nowMs)
		e.rep.Count("whitebox_other_dmap_comparisons", 1)
		e.rep.Count("whitebox_other_dmap_entries_compared", int64(len(pre[y])))
		if len(chs) > 0 {
			ch := chs[0]
			var key string
			if st.Op == "EvictScan" || ((st.Op == "PutShort" || e.cs.DMaps[x].Cfg == "idle") && ch.What == "removed" && st.Op != "Destroy") {
				key = fmt.Sprintf("c19|eviction|evicted-from=%s|by=%s(%s)|copy=%s|what=%s|%s", c19Role(y), c19Role(x), e.cs.DMaps[x].Cfg, c19LocKind(ch.Loc), ch.What, e.pairTag())
			} else {
				key = fmt.Sprintf("c19|interference|op=%s|%s.%s|copy=%s|%s", opName, c19Role(y), ch.What, c19LocKind(ch.Loc), e.pairTag())
			}
			e.violate(key, fmt.Sprintf("%s: step %d %s on DMap %q changed DMap %q: %s %s before=%s after=%s (%d changes in total)",
				e.cs.ID(), e.stepNo, st, e.cs.DMaps[x].Name, e.cs.DMaps[y].Name, ch.Loc, ch.What, ch.Before, ch.After, len(chs)),
				map[string]interface{}{"changes": chs})
			// the reference follows the store so that one defect is reported once
			e.model[y] = c19PrimaryTruth(post[y])
			e.tainted[y] = true
		}
		// black box: re-read y completely through a rotating path
		e.reread(y, opName, st)
	}
}

// reread reads every key of DMap y through a rotating path and compares it with y's reference map.
func (e *c19Env) reread(y int, opName string, st c19Step) {
	kinds := c19OpKinds
	volatile := e.cs.DMaps[y].Cfg == "idle"
	for _, k := range e.cs.DMaps[y].Keys {
		e.rot++
		kind := kinds[e.rot%len(kinds)]
		ctx, cancel := e.ctx()
		g, err := e.sess[y].Via(kind).Get(ctx, k)
		cancel()
		cls := paths.Class(err)
		e.rep.Count("blackbox_other_dmap_reads", 1)
		e.rep.Count("blackbox_reads_path_"+kind, 1)
		want, present := e.model[y][k]
		nowMs := time.Now().UnixMilli()
		switch {
		case cls == "ok":
			if j, bad := e.foreignTag(y, string(g.Value)); bad {
				e.violate(fmt.Sprintf("c19|reveal|Get(%s)-returned-entry-of=%s|%s", c19Role(y), c19Role(j), e.pairTag()),
					fmt.Sprintf("%s: after step %d %s Get(%q,%q) via %s returned %q, a value written to DMap %q", e.cs.ID(), e.stepNo, st, e.cs.DMaps[y].Name, k, kind, short(string(g.Value)), e.cs.DMaps[j].Name), nil)
				continue
			}
			if !present {
				e.violate(fmt.Sprintf("c19|interference|op=%s|%s.read-differs|absent-key-readable|%s", opName, c19Role(y), e.pairTag()),
					fmt.Sprintf("%s: after step %d %s Get(%q,%q) via %s returned %q but the key is absent from the reference map and from the primary fragment", e.cs.ID(), e.stepNo, st, e.cs.DMaps[y].Name, k, kind, short(string(g.Value))), nil)
				continue
			}
			if string(g.Value) != want.Val || g.TTL != want.TTL {
				e.violate(fmt.Sprintf("c19|interference|op=%s|%s.read-differs|%s", opName, c19Role(y), e.pairTag()),
					fmt.Sprintf("%s: after step %d %s Get(%q,%q) via %s returned value=%q ttl=%d, reference has value=%q ttl=%d", e.cs.ID(), e.stepNo, st, e.cs.DMaps[y].Name, k, kind, short(string(g.Value)), g.TTL, short(want.Val), want.TTL), nil)
			}
		case cls == "key not found":
			if !present || volatile || (want.TTL != 0 && want.TTL <= nowMs) {
				continue
			}
			e.violate(fmt.Sprintf("c19|interference|op=%s|%s.read-differs|key-not-found|%s", opName, c19Role(y), e.pairTag()),
				fmt.Sprintf("%s: after step %d %s Get(%q,%q) via %s says key not found, reference has value=%q ttl=%d; %s", e.cs.ID(), e.stepNo, st, e.cs.DMaps[y].Name, k, kind, short(want.Val), want.TTL, e.diagnose(y, k)), nil)
		default:
			e.rep.Inconclusive(fmt.Sprintf("%s step %d: re-read of %q/%q via %s failed: %s", e.cs.ID(), e.stepNo, e.cs.DMaps[y].Name, k, kind, cls))
		}
	}
}

// diagnose re-reads one key through every path and white box (detail of a black-box violation).
func (e *c19Env) diagnose(y int, k string) string {
	var parts []string
	name := e.cs.DMaps[y].Name
	owner := e.c.OwnerOf(name, k)
	parts = append(parts, fmt.Sprintf("owner=m%d part=%d", owner.Idx, e.c.PartOf(name, k)))
	for _, kind := range c19OpKinds {
		ctx, cancel := e.ctx()
		g, err := e.sess[y].Via(kind).Get(ctx, k)
		cancel()
		parts = append(parts, fmt.Sprintf("%s:%s/%q", kind, paths.Class(err), short(string(g.Value))))
	}
	for _, m := range e.c.Live() {
		ctx, cancel := e.ctx()
		g, err := e.sess[y].ViaMember("E", m).Get(ctx, k)
		cancel()
		parts = append(parts, fmt.Sprintf("E@m%d:%s/%q", m.Idx, paths.Class(err), short(string(g.Value))))
		for _, kind := range []partitions.Kind{partitions.PRIMARY, partitions.BACKUP} {
			if en, ok := m.V.DMap.VerifEntry(kind, name, k); ok {
				parts = append(parts, fmt.Sprintf("wb@m%d/%v=%q ttl=%d", m.Idx, kind, short(string(en.Value)), en.TTL))
			}
		}
	}
	parts = append(parts, fmt.Sprintf("routing-unchanged=%v", e.routingSig() == e.sig0))
	return "diagnosis: " + strings.Join(parts, " ")
}

// ownMismatch counts a result of an operation on its own DMap that the light reference model did not expect (evidence only).
func (e *c19Env) ownMismatch(st c19Step) {
	e.rep.Count("own_result_mismatch", 1)
	e.rep.SetAdd("own_result_mismatch_by_op_and_dmap_config", fmt.Sprintf("%s|cfg=%s", st.Op, e.cs.DMaps[st.D].Cfg))
}

// checkRet checks a value returned by an operation on DMap x for another DMap's tag.
func (e *c19Env) checkRet(x int, st c19Step, what, val string) {
	if j, bad := e.foreignTag(x, val); bad {
		e.violate(fmt.Sprintf("c19|reveal|%s(%s)-returned-entry-of=%s|%s", st.Op, c19Role(x), c19Role(j), e.pairTag()),
			fmt.Sprintf("%s: step %d %s on DMap %q returned %s=%q, a value written to DMap %q", e.cs.ID(), e.stepNo, st, e.cs.DMaps[x].Name, what, short(val), e.cs.DMaps[j].Name), nil)
	}
}

// expectation of the light semantic model for the touched key: "" = no opinion
type c19Expect struct {
	key    string
	absent bool
	val    string
	anyVal bool
	has    bool
}

// step executes one step and applies the oracle.
func (e *c19Env) step(i int, st c19Step) {
	e.stepNo = i
	x := st.D
	name := e.cs.DMaps[x].Name
	pre := e.snapshot()
	sess := e.sess[x]
	ctx, cancel := e.ctx()
	defer cancel()
	var exp c19Expect
	var opErr error
	e.rep.Count("ops_"+st.Op, 1)
	e.rep.Count("ops_path_"+st.Path, 1)
	switch st.Op {
	case "Put", "PutTTL", "PutNum", "PutShort", "Delete", "Expire", "Incr", "GetPut":
		// a key on which the script holds a lock is left alone (its entry is the lock)
		if _, h := e.held[x][st.Key]; h {
			for _, k := range e.cs.DMaps[x].Keys {
				if _, h := e.held[x][k]; !h && k != st.Key2 {
					st.Key = k
					break
				}
			}
		}
		if _, h := e.held[x][st.Key2]; h {
			st.Key2 = ""
		}
	}
	before, had := e.model[x][st.Key]
	switch st.Op {
	case "Put", "PutTTL", "PutNum", "PutShort":
		v := e.nextVal(x, st.Key)
		if st.Op == "PutNum" {
			v = strconv.Itoa((x+1)*1_000_000 + e.seq%1000)
		}
		o := paths.PutOpts{}
		if st.Op == "PutTTL" {
			o.PX = c19LongTTL
		}
		if st.Op == "PutShort" {
			o.PX = c19ShortTTL
		}
		opErr = sess.Via(st.Path).Put(ctx, st.Key, []byte(v), o)
		exp = c19Expect{key: st.Key, val: v, has: st.Op != "PutShort"}
	case "Get":
		var g paths.GetResult
		g, opErr = sess.Via(st.Path).Get(ctx, st.Key)
		if opErr == nil {
			e.checkRet(x, st, "value", string(g.Value))
			if !had {
				e.ownMismatch(st)
			}
		} else if paths.Class(opErr) == "key not found" {
			opErr = nil
		}
	case "Delete":
		ks := []string{st.Key}
		if st.Key2 != "" {
			ks = append(ks, st.Key2)
		}
		_, opErr = sess.Via(st.Path).Delete(ctx, ks...)
		for _, k := range ks {
			delete(e.held[x], k)
		}
		exp = c19Expect{key: st.Key, absent: true, has: true}
	case "Expire":
		opErr = sess.Via(st.Path).Expire(ctx, st.Key, c19LongTTL+time.Duration(st.Arg)*time.Second)
		if paths.Class(opErr) == "key not found" {
			if had && (before.TTL == 0 || before.TTL > time.Now().UnixMilli()) && e.cs.DMaps[x].Cfg != "idle" {
				e.ownMismatch(st)
			}
			opErr = nil
		}
	case "Incr":
		var n int
		n, opErr = sess.Via(st.Path).Incr(ctx, st.Key, st.Arg)
		if opErr == nil {
			e.checkRet(x, st, "result", strconv.Itoa(n))
			base := 0
			if had {
				if b, err := strconv.Atoi(before.Val); err == nil {
					base = b
				}
			}
			exp = c19Expect{key: st.Key, val: strconv.Itoa(base + st.Arg), has: true}
			if n != base+st.Arg {
				e.ownMismatch(st)
			}
		}
	case "GetPut":
		v := e.nextVal(x, st.Key)
		var old []byte
		var hadOld bool
		old, hadOld, opErr = sess.Via(st.Path).GetPut(ctx, st.Key, []byte(v))
		if opErr == nil {
			if hadOld {
				e.checkRet(x, st, "previous value", string(old))
			}
			if hadOld != had || (had && string(old) != before.Val) {
				e.ownMismatch(st)
			}
			exp = c19Expect{key: st.Key, val: v, has: true}
		}
	case "Lock":
		if _, mine := e.held[x][st.Key]; mine {
			e.rep.Count("ops_skipped", 1)
			break
		}
		lk, err := sess.Via(st.Path).Lock(ctx, st.Key, 0, 30*time.Millisecond)
		switch paths.Class(err) {
		case "ok":
			e.held[x][st.Key] = lk
			e.rep.Count("locks_acquired", 1)
			if had && (before.TTL == 0 || before.TTL > time.Now().UnixMilli()) && e.cs.DMaps[x].Cfg == "" {
				e.ownMismatch(st)
			}
			exp = c19Expect{key: st.Key, anyVal: true, has: true}
			// is a lock on the colliding key of another DMap held right now? (independent locks with equal mutex names)
			for _, t := range e.cs.Collide {
				if t[x] != st.Key {
					continue
				}
				for y := range e.cs.DMaps {
					if _, h := e.held[y][t[y]]; h && y != x && t[y] != "" {
						e.rep.Count("locks_held_simultaneously_on_colliding_keys", 1)
					}
				}
			}
		case "lock not acquired":
			e.rep.Count("locks_refused", 1)
			if !had && e.cs.DMaps[x].Cfg == "" {
				// the key is absent in x: something else blocks the lock
				blocker := ""
				for _, t := range e.cs.Collide {
					if t[x] != st.Key {
						continue
					}
					for y := range e.cs.DMaps {
						if _, p := e.model[y][t[y]]; p && y != x {
							blocker = c19Role(y)
						}
					}
				}
				if blocker != "" {
					e.violate(fmt.Sprintf("c19|interference|Lock(%s)-blocked-by-entry-of=%s|%s", c19Role(x), blocker, e.pairTag()),
						fmt.Sprintf("%s: step %d %s: the key is absent from DMap %q but the lock was not acquired while DMap %s holds the colliding key", e.cs.ID(), e.stepNo, st, name, blocker), nil)
				} else {
					e.ownMismatch(st)
				}
			}
		default:
			opErr = err
		}
	case "Unlock":
		// release the lock held on this key, else any held lock of x
		k := st.Key
		lk, ok := e.held[x][k]
		if !ok {
			for _, kk := range e.cs.DMaps[x].Keys {
				if l, h := e.held[x][kk]; h {
					k, lk, ok = kk, l, true
					break
				}
			}
		}
		if !ok {
			e.rep.Count("ops_skipped", 1)
			break
		}
		err := lk.Unlock(ctx)
		delete(e.held[x], k)
		switch paths.Class(err) {
		case "ok":
			e.rep.Count("locks_released", 1)
			exp = c19Expect{key: k, absent: true, has: true}
		case "no such lock":
			e.ownMismatch(st)
		default:
			opErr = err
		}
	case "Scan":
		ks, via, err := e.scan(x, st.Path, i)
		opErr = err
		if err == nil {
			e.rep.Count("scans_"+strings.SplitN(via, "@", 2)[0], 1)
			e.judgeScan(x, st, via, ks, pre)
		}
	case "Destroy":
		e.doDestroy(x, st, pre)
		return
	case "Conc":
		e.doConc(x, st, pre)
		return
	case "EvictScan":
		e.doEvictScan(x, st, pre)
		return
	default:
		panic("op " + st.Op)
	}
	if opErr != nil {
		cls := paths.Class(opErr)
		if cls == "net" || strings.HasPrefix(cls, "other:") || cls == "write quorum" || cls == "read quorum" {
			if strings.HasPrefix(cls, "other:") {
				e.rep.SetAdd("unexpected_error_classes", st.Op+"|"+trunc40(cls))
			}
			e.rep.Count("ops_failed", 1)
		}
	}
	post := e.snapshot()
	// an operation on one key of x must not remove other entries of x unless x itself has an eviction policy:
	// with an LRU policy configured for ANOTHER DMap only, such a removal is that policy applied to the wrong DMap
	if e.cs.DMaps[x].Cfg != "lru" {
		for _, ch := range e.diff(x, pre[x], post[x], time.Now().UnixMilli()) {
			k := c19LocKey(ch.Loc)
			if k == st.Key || k == st.Key2 || k == exp.key {
				continue
			}
			lruOf := -1
			for y := range e.cs.DMaps {
				if e.cs.DMaps[y].Cfg == "lru" {
					lruOf = y
				}
			}
			if ch.What == "removed" && lruOf >= 0 && strings.HasPrefix(st.Op, "Put") {
				e.violate(fmt.Sprintf("c19|eviction|evicted-from=%s|policy-of=%s(lru)|%s", c19Role(x), c19Role(lruOf), e.pairTag()),
					fmt.Sprintf("%s: step %d %s on DMap %q, which has no eviction policy, removed its entry %s %s; only DMap %q is configured with LRU MaxKeys=%d",
						e.cs.ID(), e.stepNo, st, name, ch.Loc, ch.Before, e.cs.DMaps[lruOf].Name, c19MaxKeys), nil)
			} else {
				e.rep.Count("own_collateral_change", 1)
				e.rep.SetAdd("own_collateral_change_ops", st.Op+"|"+ch.What)
			}
			break
		}
	}
	e.adopt(x, st, exp, post[x])
	e.checkOthers(x, st, pre, post)
}

// adopt makes the primary fragments of x the new reference map of x and counts
// how often the light semantic model agrees with it (evidence that operations took effect).
func (e *c19Env) adopt(x int, st c19Step, exp c19Expect, snap map[string]c19WB) {
	truth := c19PrimaryTruth(snap)
	if exp.has {
		got, ok := truth[exp.key]
		switch {
		case exp.absent && !ok, !exp.absent && ok && (exp.anyVal || got.Val == exp.val):
			e.rep.Count("own_effect_as_expected", 1)
		default:
			e.rep.Count("own_effect_mismatch", 1)
			e.rep.SetAdd("own_effect_mismatch_ops", fmt.Sprintf("%s cfg=%s", st.Op, e.cs.DMaps[x].Cfg))
		}
	}
	if e.cs.DMaps[x].Cfg == "lru" {
		for k := range e.model[x] {
			if _, ok := truth[k]; !ok && k != st.Key && k != st.Key2 && strings.HasPrefix(st.Op, "Put") {
				e.evict++
				e.rep.Count("lru_evictions_observed", 1)
			}
		}
	}
	e.model[x] = truth
}

// judgeScan: a scan of x must not return a key that exists nowhere in x but exists in another DMap.
func (e *c19Env) judgeScan(x int, st c19Step, via string, ks map[string]bool, snap []map[string]c19WB) {
	inX := map[string]bool{}
	for loc := range snap[x] {
		inX[c19LocKey(loc)] = true
	}
	for k := range ks {
		if inX[k] {
			continue
		}
		for y := range e.cs.DMaps {
			if y == x {
				continue
			}
			for loc := range snap[y] {
				if c19LocKey(loc) == k {
					e.violate(fmt.Sprintf("c19|reveal|Scan(%s)-returned-key-of=%s|%s", c19Role(x), c19Role(y), e.pairTag()),
						fmt.Sprintf("%s: step %d %s via %s returned key %q which no fragment of DMap %q holds but DMap %q does (%s)", e.cs.ID(), e.stepNo, st, via, k, e.cs.DMaps[x].Name, e.cs.DMaps[y].Name, loc), nil)
					return
				}
			}
		}
		e.ownMismatch(st)
	}
	// completeness is not part of this property; it is counted as evidence only
	missing := 0
	nowMs := time.Now().UnixMilli()
	for k, w := range e.model[x] {
		if !ks[k] && (w.TTL == 0 || w.TTL > nowMs) {
			missing++
		}
	}
	if missing > 0 {
		e.rep.Count("own_scan_incomplete", 1)
	} else {
		e.rep.Count("own_scan_complete", 1)
	}
}

func (e *c19Env) doDestroy(x int, st c19Step, pre []map[string]c19WB) {
	name := e.cs.DMaps[x].Name
	// scans of the other DMaps before, to compare afterwards
	type sc struct {
		ks  map[string]bool
		err error
	}
	scanPath := []string{"CC", "R", "E"}[e.stepNo%3]
	before := map[int]sc{}
	for y := range e.cs.DMaps {
		if y != x {
			ks, _, err := e.scan(y, scanPath, e.stepNo)
			before[y] = sc{ks, err}
		}
	}
	pre = e.snapshot()
	entriesBefore := len(pre[x])
	backupBefore := 0
	for loc := range pre[x] {
		if c19LocKind(loc) == "BACKUP" {
			backupBefore++
		}
	}
	// optionally the other DMaps are written to while Destroy(x) runs: acknowledged writes to them must survive
	written := map[int]map[string]string{}
	werrs := map[int][]string{}
	var wmu sync.Mutex
	var wg sync.WaitGroup
	var destroyDone int32
	if st.Arg == 1 {
		for y := range e.cs.DMaps {
			if y == x || e.cs.DMaps[y].Cfg == "lru" || e.cs.DMaps[y].Cfg == "idle" {
				continue
			}
			var keys []string
			for _, k := range e.cs.DMaps[y].Keys {
				if _, h := e.held[y][k]; !h && len(keys) < 3 {
					keys = append(keys, k)
				}
			}
			written[y] = map[string]string{}
			wg.Add(1)
			go func(y int, keys []string) {
				defer wg.Done()
				sess := e.rt[y].NewSession()
				defer sess.Close()
				kind := c19OpKinds[(e.stepNo+y)%len(c19OpKinds)]
				for r := 0; r < 300; r++ {
					if r >= 6 && atomic.LoadInt32(&destroyDone) == 1 {
						break
					}
					k := keys[r%len(keys)]
					v := fmt.Sprintf("%s%s|w%d.%d", c19Tag(y), k, e.stepNo, r)
					ctx, cancel := context.WithTimeout(context.Background(), 20*time.Second)
					err := sess.Via(kind).Put(ctx, k, []byte(v), paths.PutOpts{})
					cancel()
					wmu.Lock()
					if err != nil {
						werrs[y] = append(werrs[y], paths.Class(err))
					} else {
						written[y][k] = v
					}
					wmu.Unlock()
					e.rep.Count("writes_to_other_dmap_during_destroy", 1)
				}
			}(y, keys)
		}
	}
	via, err := e.destroy(x, st.Path, e.stepNo)
	atomic.StoreInt32(&destroyDone, 1)
	wg.Wait()
	e.rep.Count("destroys_via_"+strings.SplitN(via, "@", 2)[0], 1)
	if st.Arg == 1 {
		e.rep.Count("destroys_with_concurrent_writes_to_other_dmaps", 1)
	}
	if err != nil {
		cls := paths.Class(err)
		if cls == "net" {
			e.rep.Inconclusive(fmt.Sprintf("%s step %d: Destroy via %s failed: %v", e.cs.ID(), e.stepNo, via, err))
			post := e.snapshot()
			e.adopt(x, st, c19Expect{}, post[x])
			return
		}
		e.violate(fmt.Sprintf("c19|destroy|returned-error|via=%s|%s", strings.SplitN(via, "@", 2)[0], e.pairTag()),
			fmt.Sprintf("%s: step %d Destroy(%q) via %s returned %v", e.cs.ID(), e.stepNo, name, via, err), nil)
	}
	e.held[x] = map[string]paths.Lock{}
	post := e.snapshot()
	e.rep.Count("destroy_entries_present_before", int64(entriesBefore))
	e.rep.Count("destroy_backup_entries_present_before", int64(backupBefore))
	if entriesBefore > 0 {
		e.rep.Count("destroys_of_populated_dmap", 1)
	}
	// 1. white-box census: no fragment of x with entries, primary or backup, on any member
	if len(post[x]) > 0 {
		locs := keysOf(func() map[string]bool {
			m := map[string]bool{}
			for l := range post[x] {
				m[l] = true
			}
			return m
		}())
		kind := c19LocKind(locs[0])
		e.violate(fmt.Sprintf("c19|destroy|%s-fragment-left|R=%d|%s", strings.ToLower(kind), e.cs.R, e.pairTag()),
			fmt.Sprintf("%s: step %d after Destroy(%q) via %s %d entries are still stored, e.g. %s = %s", e.cs.ID(), e.stepNo, name, via, len(locs), locs[0], post[x][locs[0]]),
			map[string]interface{}{"left": locs})
	}
	// 2. every key reads not-found from every member (embedded and raw) and the cluster client
	for _, k := range e.cs.DMaps[x].Keys {
		var readers []paths.Client
		for _, m := range e.c.Live() {
			readers = append(readers, e.sess[x].ViaMember("E", m), e.sess[x].ViaMember("R", m))
		}
		readers = append(readers, e.sess[x].Via("CC"))
		for _, cl := range readers {
			ctx, cancel := e.ctx()
			g, err := cl.Get(ctx, k)
			cancel()
			e.rep.Count("destroy_reads_after", 1)
			switch paths.Class(err) {
			case "key not found":
			case "ok":
				if j, bad := e.foreignTag(x, string(g.Value)); bad {
					e.violate(fmt.Sprintf("c19|reveal|Get(%s)-after-destroy-returned-entry-of=%s|%s", c19Role(x), c19Role(j), e.pairTag()),
						fmt.Sprintf("%s: step %d after Destroy(%q) Get(%q) via %s returned %q, a value of DMap %q", e.cs.ID(), e.stepNo, name, k, cl.Kind(), short(string(g.Value)), e.cs.DMaps[j].Name), nil)
				} else {
					e.violate(fmt.Sprintf("c19|destroy|key-readable|R=%d|%s", e.cs.R, e.pairTag()),
						fmt.Sprintf("%s: step %d after Destroy(%q) via %s Get(%q) via %s returned %q", e.cs.ID(), e.stepNo, name, via, k, cl.Kind(), short(string(g.Value))), nil)
				}
			default:
				e.rep.Inconclusive(fmt.Sprintf("%s step %d: read after destroy via %s: %v", e.cs.ID(), e.stepNo, cl.Kind(), err))
			}
		}
	}
	// 3. scans of x are empty through every kind of client
	for _, p := range []string{"E", "CC", "R"} {
		ks, v, err := e.scan(x, p, e.stepNo)
		if err != nil {
			e.rep.Inconclusive(fmt.Sprintf("%s step %d: scan after destroy via %s: %v", e.cs.ID(), e.stepNo, v, err))
			continue
		}
		e.rep.Count("destroy_scans_after", 1)
		if len(ks) > 0 {
			e.violate(fmt.Sprintf("c19|destroy|scan-non-empty|R=%d|%s", e.cs.R, e.pairTag()),
				fmt.Sprintf("%s: step %d after Destroy(%q) a scan via %s returned %v", e.cs.ID(), e.stepNo, name, v, keysOf(ks)), nil)
		}
	}
	e.model[x] = c19PrimaryTruth(post[x])
	// 4. the other DMaps are untouched: white box + black box (checkOthers) + their scan
	e.ign = map[int]map[string]bool{}
	for y, w := range written {
		e.ign[y] = map[string]bool{}
		if len(werrs[y]) > 0 {
			if werrs[y][0] == "net" {
				e.rep.Inconclusive(fmt.Sprintf("%s step %d: writes to %q during Destroy(%q) failed: %v", e.cs.ID(), e.stepNo, e.cs.DMaps[y].Name, name, werrs[y]))
			} else {
				e.violate(fmt.Sprintf("c19|interference|op=Destroy(%s)|%s.concurrent-write-failed|%s", c19Role(x), c19Role(y), e.pairTag()),
					fmt.Sprintf("%s: step %d Put on DMap %q failed while Destroy(%q) ran: %v", e.cs.ID(), e.stepNo, e.cs.DMaps[y].Name, name, werrs[y]), nil)
			}
		}
		for k, v := range w {
			e.ign[y][k] = true
			foundPrimary := false
			for loc, en := range post[y] {
				if c19LocKey(loc) != k {
					continue
				}
				if c19LocKind(loc) == "PRIMARY" {
					foundPrimary = true
				}
				if en.Val != v {
					e.violate(fmt.Sprintf("c19|interference|op=Destroy(%s)|%s.concurrent-write-lost|copy=%s|%s", c19Role(x), c19Role(y), c19LocKind(loc), e.pairTag()),
						fmt.Sprintf("%s: step %d Put(%q,%q)=%q was acknowledged while Destroy(%q) ran but %s holds %s", e.cs.ID(), e.stepNo, e.cs.DMaps[y].Name, k, v, name, loc, en), nil)
				}
			}
			if !foundPrimary {
				e.violate(fmt.Sprintf("c19|interference|op=Destroy(%s)|%s.concurrent-write-lost|copy=PRIMARY|%s", c19Role(x), c19Role(y), e.pairTag()),
					fmt.Sprintf("%s: step %d Put(%q,%q)=%q was acknowledged while Destroy(%q) ran but no primary fragment holds the key", e.cs.ID(), e.stepNo, e.cs.DMaps[y].Name, k, v, name), nil)
			}
		}
		e.model[y] = c19PrimaryTruth(post[y])
	}
	e.checkOthers(x, st, pre, post)
	e.ign = nil
	for y := range e.cs.DMaps {
		if y == x || before[y].err != nil || e.cs.DMaps[y].Cfg == "idle" {
			continue
		}
		ks, v, err := e.scan(y, scanPath, e.stepNo)
		if err != nil {
			continue
		}
		nowMs := time.Now().UnixMilli()
		for k := range before[y].ks {
			if w, ok := e.model[y][k]; !ks[k] && ok && (w.TTL == 0 || w.TTL > nowMs) {
				e.violate(fmt.Sprintf("c19|interference|op=Destroy(%s)|%s.scan-lost-key|%s", c19Role(x), c19Role(y), e.pairTag()),
					fmt.Sprintf("%s: step %d the scan of DMap %q via %s returned key %q before Destroy(%q) but not afterwards", e.cs.ID(), e.stepNo, e.cs.DMaps[y].Name, v, k, name), nil)
				break
			}
		}
		for k := range ks {
			if _, w := written[y][k]; !before[y].ks[k] && !w {
				e.violate(fmt.Sprintf("c19|interference|op=Destroy(%s)|%s.scan-gained-key|%s", c19Role(x), c19Role(y), e.pairTag()),
					fmt.Sprintf("%s: step %d the scan of DMap %q via %s returns key %q only after Destroy(%q)", e.cs.ID(), e.stepNo, e.cs.DMaps[y].Name, v, k, name), nil)
				break
			}
		}
	}
	// 5. x remains usable: a new write is accepted and readable through another path
	k := e.cs.DMaps[x].Keys[e.stepNo%len(e.cs.DMaps[x].Keys)]
	v := e.nextVal(x, k)
	wp := c19OpKinds[e.stepNo%len(c19OpKinds)]
	rp := c19OpKinds[(e.stepNo+2)%len(c19OpKinds)]
	pre2 := e.snapshot()
	ctx, cancel := e.ctx()
	err = e.sess[x].Via(wp).Put(ctx, k, []byte(v), paths.PutOpts{})
	var g paths.GetResult
	var gerr error
	if err == nil {
		g, gerr = e.sess[x].Via(rp).Get(ctx, k)
	}
	cancel()
	e.rep.Count("destroy_reuse_checks", 1)
	switch {
	case paths.Class(err) == "net" || paths.Class(gerr) == "net":
		e.rep.Inconclusive(fmt.Sprintf("%s step %d: reuse after destroy: %v %v", e.cs.ID(), e.stepNo, err, gerr))
	case err != nil:
		e.violate(fmt.Sprintf("c19|destroy|not-usable-after|put-failed|%s", e.pairTag()),
			fmt.Sprintf("%s: step %d after Destroy(%q) Put(%q) via %s failed: %v", e.cs.ID(), e.stepNo, name, k, wp, err), nil)
	case gerr != nil || string(g.Value) != v:
		if e.cs.DMaps[x].Cfg == "idle" && paths.Class(gerr) == "key not found" {
			break
		}
		e.violate(fmt.Sprintf("c19|destroy|not-usable-after|get-differs|%s", e.pairTag()),
			fmt.Sprintf("%s: step %d after Destroy(%q) Put(%q)=%q via %s was acknowledged but Get via %s returned %q err=%v", e.cs.ID(), e.stepNo, name, k, v, wp, rp, short(string(g.Value)), gerr), nil)
	}
	post2 := e.snapshot()
	e.adopt(x, c19Step{D: x, Op: "Put", Key: k}, c19Expect{key: k, val: v, has: true}, post2[x])
	e.checkOthers(x, c19Step{D: x, Op: "PutAfterDestroy", Key: k, Path: wp}, pre2, post2)
}

// doConc runs atomic operations and lock/unlock pairs on colliding keys of all
// DMaps at the same time: they share per-key mutex names, which must neither
// deadlock nor mix up results.
func (e *c19Env) doConc(x int, st c19Step, pre []map[string]c19WB) {
	tuple := e.cs.Collide[st.Arg%len(e.cs.Collide)]
	lockTuple := e.cs.Collide[(st.Arg+1)%len(e.cs.Collide)]
	const rounds = 12
	type res struct {
		d    int
		last int
		errs []string
		done bool
	}
	var progress int64
	var wg sync.WaitGroup
	results := make([]*res, len(e.cs.DMaps))
	startVals := make([]int, len(e.cs.DMaps))
	// preparation (sequential): counters at a DMap-specific base, lock keys absent
	for d := range e.cs.DMaps {
		if tuple[d] == "" && e.cs.Pair == "dmap3" {
			continue
		}
		ctx, cancel := e.ctx()
		startVals[d] = (d+1)*1_000_000 + 500
		_ = e.sess[d].Via("EO").Put(ctx, tuple[d], []byte(strconv.Itoa(startVals[d])), paths.PutOpts{})
		delete(e.held[d], tuple[d])
		if lockTuple[d] != tuple[d] {
			delete(e.held[d], lockTuple[d])
			_, _ = e.sess[d].Via("EO").Delete(ctx, lockTuple[d])
		}
		cancel()
	}
	mid := e.snapshot()
	for d := range e.cs.DMaps {
		if tuple[d] == "" && e.cs.Pair == "dmap3" {
			continue
		}
		r := &res{d: d}
		results[d] = r
		wg.Add(1)
		go func(d int, r *res) {
			defer wg.Done()
			sess := e.rt[d].NewSession()
			defer sess.Close()
			kind := c19OpKinds[(e.stepNo+d)%5]
			for i := 0; i < rounds; i++ {
				ctx, cancel := context.WithTimeout(context.Background(), 60*time.Second)
				n, err := sess.Via(kind).Incr(ctx, tuple[d], 1)
				if err != nil {
					r.errs = append(r.errs, "Incr: "+paths.Class(err))
				} else {
					r.last = n
				}
				atomic.AddInt64(&progress, 1)
				if lockTuple[d] != tuple[d] {
					lk, err := sess.Via(kind).Lock(ctx, lockTuple[d], 0, 5*time.Second)
					if err != nil {
						r.errs = append(r.errs, "Lock: "+paths.Class(err))
					} else if err := lk.Unlock(ctx); err != nil {
						r.errs = append(r.errs, "Unlock: "+paths.Class(err))
					}
					atomic.AddInt64(&progress, 1)
				}
				cancel()
			}
			r.done = true
		}(d, r)
	}
	doneCh := make(chan struct{})
	go func() { wg.Wait(); close(doneCh) }()
	lastProgress, lastChange := int64(-1), time.Now()
	finished := false
	for !finished {
		select {
		case <-doneCh:
			finished = true
		case <-time.After(250 * time.Millisecond):
			p := atomic.LoadInt64(&progress)
			if p != lastProgress {
				lastProgress, lastChange = p, time.Now()
			}
			if time.Since(lastChange) > 25*time.Second {
				if gap := time.Duration(atomic.LoadInt64(&c19MaxGap)); gap > 5*time.Second {
					e.rep.Inconclusive(fmt.Sprintf("%s: step %d concurrent burst stalled but so did the machine (scheduler gap %s)", e.cs.ID(), e.stepNo, gap))
					e.abort = true
					return
				}
				// no operation completed for 25 s although every single one has generous deadlines
				e.violate(fmt.Sprintf("c19|deadlock|concurrent-atomic-and-lock-on-colliding-concatenation|%s", e.pairTag()),
					fmt.Sprintf("%s: step %d concurrent Incr/Lock/Unlock on colliding keys %v made no progress for 25 s (completed %d operations)", e.cs.ID(), e.stepNo, tuple, p), nil)
				e.abort = true
				return
			}
		}
	}
	e.rep.Count("concurrent_collision_rounds", rounds)
	post := e.snapshot()
	for d, r := range results {
		if r == nil {
			continue
		}
		if len(r.errs) > 0 {
			// a lock refused although nobody else uses this DMap's key, or an atomic operation failing
			e.violate(fmt.Sprintf("c19|interference|concurrent-collision|%s-op-failed|%s|%s", c19Role(d), strings.SplitN(r.errs[0], ":", 2)[0], e.pairTag()),
				fmt.Sprintf("%s: step %d concurrent operations on colliding keys %v: DMap %q saw %v", e.cs.ID(), e.stepNo, tuple, e.cs.DMaps[d].Name, r.errs), nil)
			continue
		}
		want := startVals[d] + rounds
		truth := c19PrimaryTruth(post[d])
		// a DMap with its own eviction (LRU on every Put, idle expiry) may lose the counter or other entries by its own rules
		selfEvicting := e.cs.DMaps[d].Cfg == "lru" || e.cs.DMaps[d].Cfg == "idle"
		if !selfEvicting && (r.last != want || truth[tuple[d]].Val != strconv.Itoa(want)) {
			e.violate(fmt.Sprintf("c19|interference|concurrent-collision|%s-counter-wrong|%s", c19Role(d), e.pairTag()),
				fmt.Sprintf("%s: step %d DMap %q key %q: %d increments from %d ended at result=%d stored=%q while the colliding keys of the other DMaps were incremented concurrently",
					e.cs.ID(), e.stepNo, e.cs.DMaps[d].Name, tuple[d], rounds, startVals[d], r.last, truth[tuple[d]].Val), nil)
		}
		// nothing but the counter and the lock key may have changed in this DMap
		for _, ch := range e.diff(d, mid[d], post[d], time.Now().UnixMilli()) {
			k := c19LocKey(ch.Loc)
			if k == tuple[d] || k == lockTuple[d] || (selfEvicting && ch.What == "removed") {
				continue
			}
			e.violate(fmt.Sprintf("c19|interference|concurrent-collision|%s.%s|%s", c19Role(d), ch.What, e.pairTag()),
				fmt.Sprintf("%s: step %d concurrent operations on %v changed an unrelated entry of DMap %q: %s %s", e.cs.ID(), e.stepNo, tuple, e.cs.DMaps[d].Name, ch.Loc, ch.What), nil)
			break
		}
	}
	for d := range e.cs.DMaps {
		e.model[d] = c19PrimaryTruth(post[d])
	}
	// black box afterwards
	for y := range e.cs.DMaps {
		e.reread(y, "Conc", st)
	}
}

// doEvictScan lets short-lived / idle keys of x run out and drives the background eviction scan on every member.
func (e *c19Env) doEvictScan(x int, st c19Step, pre []map[string]c19WB) {
	nowMs := time.Now().UnixMilli()
	wait := int64(0)
	expiring := 0
	for _, w := range pre[x] {
		if w.TTL != 0 && w.TTL < nowMs+int64(2*c19ShortTTL/time.Millisecond) {
			expiring++
			if w.TTL-nowMs > wait {
				wait = w.TTL - nowMs
			}
		}
	}
	if e.cs.DMaps[x].Cfg == "idle" {
		wait = int64(c19IdleDur/time.Millisecond) + 30
	}
	time.Sleep(time.Duration(wait+5) * time.Millisecond)
	for _, m := range e.c.Live() {
		m.V.DMap.VerifEvictScanAll()
	}
	e.rep.Count("evict_scans", 1)
	post := e.snapshot()
	removed := 0
	for loc := range pre[x] {
		if _, ok := post[x][loc]; !ok {
			removed++
		}
	}
	e.rep.Count("evict_scan_entries_due", int64(expiring))
	e.rep.Count("evict_scan_entries_removed_from_own_dmap", int64(removed))
	e.model[x] = c19PrimaryTruth(post[x])
	e.checkOthers(x, st, pre, post)
}

// c19RunCase executes a script and returns the violations.
func c19RunCase(cs c19Case, rep *ev.Report) ([]c19Viol, error) {
	e, err := c19Start(cs, rep)
	if err != nil {
		return nil, err
	}
	defer e.close()
	c19StartBeat()
	for i, st := range cs.Steps {
		// watchdog: an embedded call that spins inside a member ignores every deadline
		atomic.StoreInt64(&c19MaxGap, 0)
		done := make(chan struct{})
		go func() {
			defer close(done)
			e.step(i, st)
		}()
		nv := len(e.viols)
		select {
		case <-done:
			if !e.stable() {
				// whatever this step reported is explained by the routing change
				e.viols = e.viols[:nv]
			}
		case <-time.After(c19StepTimeout):
			e.abort = true
			gap := time.Duration(atomic.LoadInt64(&c19MaxGap))
			if gap > 5*time.Second {
				rep.Inconclusive(fmt.Sprintf("%s: step %d %s did not finish in %s but the machine stalled (scheduler gap %s)", cs.ID(), i, st, c19StepTimeout, gap))
				return nil, errC19Hung
			}
			destroyed := false
			for _, p := range cs.Steps[:i] {
				if p.Op == "Destroy" {
					destroyed = true
				}
			}
			v := c19Viol{Key: fmt.Sprintf("c19|hang|op=%s|after-a-destroy=%v", st.Op, destroyed),
				Detail: fmt.Sprintf("%s: step %d %s on DMap %q did not return within %s (largest scheduler gap %s); a Destroy ran earlier in the script: %v", cs.ID(), i, st, cs.DMaps[st.D].Name, c19StepTimeout, gap, destroyed), Step: i}
			return []c19Viol{v}, errC19Hung
		}
		if e.abort {
			break
		}
	}
	if e.evict > 0 {
		rep.Count("scripts_with_lru_evictions", 1)
	}
	return e.viols, nil
}

const c19StepTimeout = 100 * time.Second

var errC19Hung = fmt.Errorf("step hung")
var c19MaxGap int64
var c19BeatOnce sync.Once

// c19StartBeat measures scheduling gaps: a goroutine that sleeps 50 ms and records the longest oversleep.
func c19StartBeat() {
	c19BeatOnce.Do(func() {
		go func() {
			for {
				t0 := time.Now()
				time.Sleep(50 * time.Millisecond)
				if gap := int64(time.Since(t0)); gap > atomic.LoadInt64(&c19MaxGap) {
					atomic.StoreInt64(&c19MaxGap, gap)
				}
			}
		}()
	})
}

// ---------------------------------------------------------------- driver

func c19Child(ctx *runCtx, spec string) {
	if strings.HasPrefix(spec, "destroy-join ") {
		c19JoinChild(ctx, spec)
		return
	}
	if strings.HasPrefix(spec, "destroy ") {
		c19DestroyChild(ctx, spec)
		return
	}
	var lo, hi int
	fmt.Sscanf(spec, "%d-%d", &lo, &hi)
	for idx := lo; idx < hi; idx++ {
		cs := c19GenCase(ctx.seed, idx)
		fmt.Printf("CASE %s\n", cs.ID())
		t0 := time.Now()
		viols, err := c19RunCase(cs, ctx.rep)
		hung := err == errC19Hung
		if err != nil && !hung {
			ctx.rep.Inconclusive(fmt.Sprintf("%s: cluster start: %v", cs.ID(), err))
			continue
		}
		if hung {
			// a goroutine is stuck inside a member of this process: report and give the rest of the batch up
			defer func(next int) {
				if next < hi {
					ctx.rep.Inconclusive(fmt.Sprintf("cases %d-%d not run: case %d hung", next, hi-1, idx))
				}
			}(idx + 1)
		}
		ctx.rep.Eval(1)
		ctx.rep.Count("steps_executed", int64(len(cs.Steps)))
		ctx.rep.Distinct(fmt.Sprintf("%s|%s|N=%d|R=%d", cs.Pair, cs.Scenario, cs.N, cs.R))
		ctx.rep.SetAdd("pairs", cs.Pair)
		ctx.rep.SetAdd("scenarios", cs.Scenario)
		ctx.rep.SetAdd("cluster_shapes", fmt.Sprintf("N=%d,R=%d", cs.N, cs.R))
		var names []string
		for _, d := range cs.DMaps {
			names = append(names, strconv.Quote(d.Name))
		}
		ctx.rep.SetAdd("dmap_name_sets", strings.Join(names, ","))
		if idx%37 == 0 {
			var steps []string
			for _, s := range cs.Steps[:12] {
				steps = append(steps, s.String())
			}
			ctx.rep.Sample(map[string]interface{}{"case": cs.ID(), "dmaps": cs.DMaps, "colliding_key_tuples": cs.Collide, "first_steps": steps})
		}
		for _, v := range viols {
			fmt.Printf("VIOL %s :: %s\n", v.Key, v.Detail)
			upto := v.Step + 1
			if upto > len(cs.Steps) {
				upto = len(cs.Steps)
			}
			rc := cs
			rc.Steps = cs.Steps[:upto]
			ctx.rep.Violate(v.Key, v.Detail, map[string]interface{}{"case": rc, "failing_step": v.Step, "extra": v.Extra})
		}
		fmt.Printf("DONE %s in %s viol=%d\n", cs.ID(), time.Since(t0).Round(time.Millisecond), len(viols))
		if hung {
			return
		}
	}
}

func c19Run(ctx *runCtx) int {
	ctx.rep.Rule = "one evaluation = one seeded script of 30-80 operations (Put, Put with expiry, numeric Put, short-lived Put, Get, Delete, Expire, Incr, GetPut, Lock, Unlock, Scan, Destroy, concurrent atomic/lock burst, eviction scan) " +
		"over 2-3 DMaps whose names/keys have equal concatenations, on a fresh cluster (N=1..3, ReplicaCount=1..2, 3/7/13 partitions), paths EO/EN/CC/RO/RN/PL rotating; after every step all fragments (primary+backup, all members) of the other DMaps are compared with the snapshot before the step and all their keys are re-read through rotating paths; " +
		"distinct_nontrivial = distinct (name pair type, scenario, N, R) combinations executed"
	ctx.rep.Assumptions = []string{
		"only writes acknowledged before Destroy was called are judged (no operation runs concurrently with Destroy)",
		"an entry of another DMap may disappear without being a violation only if its own expiry has passed or that DMap itself is configured with MaxIdleDuration",
		"results of operations on the DMap operated on are compared with a light reference model for evidence only (counters own_*); only values carrying another DMap's tag are violations there",
		"membership is stable during a script",
	}
	n := c19NumCases(ctx.tier)
	per := 6
	if ctx.tier == "thorough" {
		per = 20
	}
	var batches []batch
	for lo := 0; lo < n; lo += per {
		hi := lo + per
		if hi > n {
			hi = n
		}
		batches = append(batches, batch{Spec: fmt.Sprintf("%d-%d", lo, hi), Timeout: 12 * time.Minute})
	}
	// Destroy through members that have never handled the DMap (c19_destroy.go)
	dr := 18
	if ctx.tier == "thorough" {
		dr = 150
	}
	for i, cfg := range []string{"N=3 R=1 P=7", "N=3 R=2 P=13", "N=2 R=2 P=7"} {
		batches = append(batches, batch{Spec: fmt.Sprintf("destroy %s rounds=%d seed=%d", cfg, dr, ctx.seed*100+int64(i)), Timeout: 12 * time.Minute})
	}
	// Destroy while a hand-over to a joined member is pending (c19_join.go)
	jr := 3
	if ctx.tier == "thorough" {
		jr = 12
	}
	for i, cfg := range []string{"N=1 R=1 P=7", "N=2 R=2 P=13", "N=2 R=1 P=23"} {
		batches = append(batches, batch{Spec: fmt.Sprintf("destroy-join %s rounds=%d seed=%d", cfg, jr, ctx.seed*100+50+int64(i)), Timeout: 12 * time.Minute})
	}
	runBatches(ctx, batches, 8, func(b batch, res batchResult, tail string) {
		// attribute the death to the case logged last
		last := ""
		for _, l := range strings.Split(tail, "\n") {
			if strings.HasPrefix(l, "CASE ") {
				last = strings.TrimPrefix(l, "CASE ")
			}
		}
		pair := "?"
		if i := strings.Index(last, "pair="); i >= 0 {
			pair = strings.Fields(last[i:])[0]
		}
		ctx.rep.Violate("c19|member-crashed-or-hung|"+pair, fmt.Sprintf("child %s died (exit %d timeout=%v) while running case %s: %s", b.Spec, res.ExitCode, res.TimedOut, last, lastLines(tail, 12)),
			map[string]interface{}{"batch": b.Spec, "case": last, "log": res.LogPath})
	})
	return ctx.rep.Finish(n / 2)
}

func c19Replay(ctx *runCtx, path string) int {
	var doc struct {
		Key    string `json:"key"`
		Replay struct {
			Case c19Case `json:"case"`
		} `json:"replay"`
	}
	if err := readJSON(path, &doc); err != nil {
		fmt.Fprintln(os.Stderr, err)
		return 2
	}
	if len(doc.Replay.Case.Steps) == 0 {
		fmt.Fprintln(os.Stderr, "replay file holds no script")
		return 2
	}
	rep := ev.New("C19", "exploration", "quick")
	viols, err := c19RunCase(doc.Replay.Case, rep)
	if err != nil && err != errC19Hung {
		fmt.Fprintln(os.Stderr, "cluster start:", err)
		return 2
	}
	if len(viols) == 0 {
		fmt.Println("replay: script holds:", doc.Replay.Case.ID())
		return 0
	}
	for _, v := range viols {
		fmt.Printf("replay: VIOLATION property=C19 replay=%s key=%q step=%d: %s\n", path, v.Key, v.Step, v.Detail)
	}
	return 1
}
