package main

// C16, "storm" batch: the drivers of c16_drive.go send one request at a time. Here connections of three kinds work at
// the same time against one member: subscribers that stay and drain their messages, clients that SUBSCRIBE /
// PSUBSCRIBE and hang up (close, QUIT, or half a command and close) in a loop, and clients that PUBLISH and ask PUBSUB
// NUMSUB / NUMPAT / CHANNELS in a loop. Every request of the last kind must be answered; when one is not answered
// within 10 s, a fresh connection is asked: if PING is served there but PUBSUB NUMSUB is not, the member has stopped
// serving a whole class of requests on every connection.

import (
	"fmt"
	"sync"
	"sync/atomic"
	"time"

	"github.com/olric-data/olric/verif/cluster"
	"github.com/olric-data/olric/verif/respc"
)

func c16Storm(ctx *runCtx, spec string) {
	var churners, askers, loops int
	var seed int64
	fmt.Sscanf(spec, "storm:churners=%d:askers=%d:loops=%d:seed=%d", &churners, &askers, &loops, &seed)
	c, err := cluster.Start(cluster.Config{Replicas: 1, Partitions: 7, TableSize: 1 << 20}, 2)
	if err != nil {
		ctx.rep.Inconclusive(spec + ": cluster start: " + err.Error())
		return
	}
	defer c.Shutdown()
	target := c.Live()[0].Name
	other := c.Live()[1].Name
	var stop int32
	var wg sync.WaitGroup
	// subscribers that stay
	for i := 0; i < 16; i++ {
		cn, err := respc.Dial(target)
		if err != nil {
			ctx.rep.Inconclusive(spec + ": dial: " + err.Error())
			return
		}
		verb := []string{"SUBSCRIBE", "PSUBSCRIBE"}[i%2]
		name := []string{"st", "s*"}[i%2]
		if _, err := cn.Do(10*time.Second, verb, name); err != nil {
			ctx.rep.Inconclusive(spec + ": subscribe: " + err.Error())
			return
		}
		wg.Add(1)
		go func(cn *respc.Conn) {
			defer wg.Done()
			defer cn.Close()
			for atomic.LoadInt32(&stop) == 0 {
				_, _ = cn.Read(200 * time.Millisecond)
			}
		}(cn)
	}
	// clients that subscribe and hang up
	var hangups int64
	for i := 0; i < churners; i++ {
		wg.Add(1)
		go func(i int) {
			defer wg.Done()
			for n := 0; atomic.LoadInt32(&stop) == 0; n++ {
				cn, err := respc.Dial(target)
				if err != nil {
					time.Sleep(5 * time.Millisecond)
					continue
				}
				switch (i + n) % 4 {
				case 0:
					_, _ = cn.Do(5*time.Second, "SUBSCRIBE", "st")
				case 1:
					_ = cn.WriteRaw(respc.EncodeStrings("PSUBSCRIBE", "s*"), time.Second) // no wait for the reply
				case 2:
					_, _ = cn.Do(5*time.Second, "SUBSCRIBE", "st", "st2")
					_ = cn.WriteRaw(respc.EncodeStrings("QUIT"), time.Second)
				case 3:
					_, _ = cn.Do(5*time.Second, "SUBSCRIBE", "st")
					_ = cn.WriteRaw([]byte("*2\r\n$11\r\nUNSUBSCRIBE\r\n$2\r\ns"), time.Second) // half a command
				}
				_ = cn.Close()
				atomic.AddInt64(&hangups, 1)
			}
		}(i)
	}
	// clients whose requests must be answered
	var asked int64
	var unanswered atomic.Value
	var awg sync.WaitGroup
	for i := 0; i < askers; i++ {
		awg.Add(1)
		go func(i int) {
			defer awg.Done()
			addr := target
			if i%4 == 3 {
				addr = other // PUBLISH through the other member reaches the target as PUBLISH.INTERNAL
			}
			cn, err := respc.Dial(addr)
			if err != nil {
				return
			}
			defer cn.Close()
			for n := 0; n < loops && unanswered.Load() == nil; n++ {
				var args []string
				switch (i + n) % 4 {
				case 0, 1:
					args = []string{"PUBLISH", "st", fmt.Sprintf("m-%d-%d", i, n)}
				case 2:
					args = []string{"PUBSUB", "NUMSUB", "st"}
				case 3:
					args = []string{"PUBSUB", "NUMPAT"}
				}
				_, err := cn.Do(10*time.Second, args...)
				atomic.AddInt64(&asked, 1)
				if err != nil {
					unanswered.Store(fmt.Sprintf("%v via %s: %v", args, addr, err))
					return
				}
			}
		}(i)
	}
	awg.Wait()
	atomic.StoreInt32(&stop, 1)
	ctx.rep.Eval(1)
	ctx.rep.Count("storm_requests_answered", atomic.LoadInt64(&asked))
	ctx.rep.Count("storm_subscriber_hangups", atomic.LoadInt64(&hangups))
	ctx.rep.Distinct(fmt.Sprintf("storm|churners=%d|askers=%d", churners, askers))
	if u := unanswered.Load(); u != nil {
		// is the member alive, and is it only this connection?
		ping, numsub := "not answered", "not answered"
		if cn, err := respc.Dial(target); err == nil {
			if rp, err := cn.Do(5*time.Second, "PING"); err == nil {
				ping = rp.String()
			}
			cn.Close()
		}
		if cn, err := respc.Dial(target); err == nil {
			if rp, err := cn.Do(5*time.Second, "PUBSUB", "NUMSUB", "st"); err == nil {
				numsub = "answered " + rp.String()
			}
			cn.Close()
		}
		if ping != "not answered" && numsub == "not answered" {
			ctx.rep.Violate("c16|wedge|pubsub-requests|every-connection|under-subscriber-hangups",
				fmt.Sprintf("%s: after %d answered requests and %d subscriber hang-ups a request got no reply within 10 s (%s); on fresh connections PING is answered (%s) but PUBSUB NUMSUB is not: the member no longer serves Pub/Sub requests on any connection", spec, atomic.LoadInt64(&asked), atomic.LoadInt64(&hangups), u, ping),
				map[string]interface{}{"batch": spec})
		} else {
			ctx.rep.Inconclusive(fmt.Sprintf("%s: a request was not answered within 10 s (%s) but fresh connections are served (PING %s, NUMSUB %s): slow machine", spec, u, ping, numsub))
		}
	}
	done := make(chan struct{})
	go func() { wg.Wait(); close(done) }()
	select {
	case <-done:
	case <-time.After(10 * time.Second):
	}
	ctx.rep.Sample(map[string]interface{}{"config": spec, "answered": atomic.LoadInt64(&asked), "hangups": atomic.LoadInt64(&hangups)})
}
