package main

// C14 execution: subscriber connections with reader goroutines, publishers,
// introspection, the reference model and the step interpreter.

import (
	"context"
	"errors"
	"fmt"
	"sort"
	"strings"
	"sync"
	"sync/atomic"
	"time"

	"github.com/olric-data/olric"
	"github.com/olric-data/olric/internal/pubsub"
	"github.com/olric-data/olric/verif/cluster"
	"github.com/olric-data/olric/verif/respc"
	"github.com/redis/go-redis/v9"
)

const c14Wait = 10 * time.Second

// ---- event log ------------------------------------------------------------------

type c14Event struct {
	K       string   `json:"k"` // send | sub | psub | unsub | punsub | msg | pmsg | pong | other | closed
	Name    string   `json:"name,omitempty"`
	Chan    string   `json:"chan,omitempty"`
	Payload string   `json:"payload,omitempty"`
	Null    bool     `json:"null,omitempty"`
	Op      string   `json:"op,omitempty"`
	Names   []string `json:"names,omitempty"`
}

func (e c14Event) String() string {
	switch e.K {
	case "send":
		return fmt.Sprintf(">%s(%s)", e.Op, strings.Join(e.Names, ","))
	case "msg":
		return fmt.Sprintf("message[%s]=%s", e.Chan, e.Payload)
	case "pmsg":
		return fmt.Sprintf("pmessage[%s<-%s]=%s", e.Name, e.Chan, e.Payload)
	case "pong":
		return "pong"
	case "other", "closed":
		return e.K + ":" + e.Payload
	}
	if e.Null {
		return e.K + "-ack(nil)"
	}
	return e.K + "-ack(" + e.Name + ")"
}

type c14Log struct {
	mu     sync.Mutex
	ev     []c14Event
	notify chan struct{}
}

func newC14Log() *c14Log { return &c14Log{notify: make(chan struct{}, 1)} }

func (l *c14Log) add(e c14Event) int {
	l.mu.Lock()
	l.ev = append(l.ev, e)
	n := len(l.ev)
	l.mu.Unlock()
	select {
	case l.notify <- struct{}{}:
	default:
	}
	return n
}

func (l *c14Log) snapshot() []c14Event {
	l.mu.Lock()
	defer l.mu.Unlock()
	return append([]c14Event(nil), l.ev...)
}

var errC14Stall = errors.New("no reply within the harness timeout")
var errC14Closed = errors.New("connection closed by the server")

// waitFor waits until pred holds over the events logged from position from on.
func (l *c14Log) waitFor(from int, pred func(evs []c14Event) bool) error {
	deadline := time.NewTimer(c14Wait)
	defer deadline.Stop()
	for {
		l.mu.Lock()
		evs := l.ev[from:]
		ok := pred(evs)
		closed := len(l.ev) > 0 && l.ev[len(l.ev)-1].K == "closed"
		l.mu.Unlock()
		if ok {
			return nil
		}
		if closed {
			return errC14Closed
		}
		select {
		case <-l.notify:
		case <-deadline.C:
			return errC14Stall
		}
	}
}

// ---- subscriber connections ---------------------------------------------------------

type c14Conn interface {
	cmd(op string, names []string) error // sub psub unsub punsub
	ping(tok string) error
	close()
}

// raw RESP
type c14RawConn struct {
	c  *respc.Conn
	lg *c14Log
}

func c14DialRaw(addr string, lg *c14Log) (*c14RawConn, error) {
	c, err := respc.Dial(addr)
	if err != nil {
		return nil, err
	}
	r := &c14RawConn{c: c, lg: lg}
	go r.reader()
	return r, nil
}

func (r *c14RawConn) reader() {
	for {
		rp, err := r.c.Read(time.Hour)
		if err != nil {
			r.lg.add(c14Event{K: "closed", Payload: err.Error()})
			return
		}
		r.lg.add(c14ParseReply(rp))
	}
}

func c14ParseReply(rp respc.Reply) c14Event {
	if rp.Kind == '*' && len(rp.Array) >= 2 {
		a := rp.Array
		switch kind := strings.ToLower(a[0].Str); kind {
		case "subscribe", "psubscribe", "unsubscribe", "punsubscribe":
			if len(a) == 3 {
				k := map[string]string{"subscribe": "sub", "psubscribe": "psub", "unsubscribe": "unsub", "punsubscribe": "punsub"}[kind]
				return c14Event{K: k, Name: a[1].Str, Null: a[1].Null}
			}
		case "message":
			if len(a) == 3 {
				return c14Event{K: "msg", Name: a[1].Str, Chan: a[1].Str, Payload: a[2].Str}
			}
		case "pmessage":
			if len(a) == 4 {
				return c14Event{K: "pmsg", Name: a[1].Str, Chan: a[2].Str, Payload: a[3].Str}
			}
		case "pong":
			return c14Event{K: "pong", Payload: a[1].Str}
		}
	}
	return c14Event{K: "other", Payload: rp.String()}
}

var c14Verb = map[string]string{"sub": "SUBSCRIBE", "psub": "PSUBSCRIBE", "unsub": "UNSUBSCRIBE", "punsub": "PUNSUBSCRIBE"}

func (r *c14RawConn) cmd(op string, names []string) error {
	return r.c.WriteRaw(respc.EncodeStrings(append([]string{c14Verb[op]}, names...)...), 5*time.Second)
}
func (r *c14RawConn) ping(tok string) error {
	return r.c.WriteRaw(respc.EncodeStrings("PING", tok), 5*time.Second)
}
func (r *c14RawConn) close() { _ = r.c.Close() }

// Go client (olric.PubSub -> *redis.PubSub)
type c14GoConn struct {
	ops *olric.PubSub
	rps *redis.PubSub
	lg  *c14Log
}

func (g *c14GoConn) reader(rps *redis.PubSub) {
	for {
		m, err := rps.Receive(context.Background())
		if err != nil {
			g.lg.add(c14Event{K: "closed", Payload: err.Error()})
			return
		}
		switch v := m.(type) {
		case *redis.Subscription:
			k := map[string]string{"subscribe": "sub", "psubscribe": "psub", "unsubscribe": "unsub", "punsubscribe": "punsub"}[v.Kind]
			// go-redis turns a nil channel into ""; no channel of the alphabet is empty
			g.lg.add(c14Event{K: k, Name: v.Channel, Null: v.Channel == ""})
		case *redis.Message:
			if v.Pattern != "" {
				g.lg.add(c14Event{K: "pmsg", Name: v.Pattern, Chan: v.Channel, Payload: v.Payload})
			} else {
				g.lg.add(c14Event{K: "msg", Name: v.Channel, Chan: v.Channel, Payload: v.Payload})
			}
		case *redis.Pong:
			g.lg.add(c14Event{K: "pong", Payload: v.Payload})
		default:
			g.lg.add(c14Event{K: "other", Payload: fmt.Sprint(m)})
		}
	}
}

func (g *c14GoConn) cmd(op string, names []string) error {
	ctx, cancel := context.WithTimeout(context.Background(), c14Wait)
	defer cancel()
	if g.rps == nil {
		switch op {
		case "sub":
			g.rps = g.ops.Subscribe(ctx, names...)
		case "psub":
			g.rps = g.ops.PSubscribe(ctx, names...)
		default:
			return fmt.Errorf("go client: %s before any subscription", op)
		}
		go g.reader(g.rps)
		return nil
	}
	switch op {
	case "sub":
		return g.rps.Subscribe(ctx, names...)
	case "psub":
		return g.rps.PSubscribe(ctx, names...)
	case "unsub":
		return g.rps.Unsubscribe(ctx, names...)
	case "punsub":
		return g.rps.PUnsubscribe(ctx, names...)
	}
	return fmt.Errorf("op %s", op)
}
func (g *c14GoConn) ping(tok string) error {
	ctx, cancel := context.WithTimeout(context.Background(), c14Wait)
	defer cancel()
	return g.rps.Ping(ctx, tok)
}
func (g *c14GoConn) close() {
	if g.rps != nil {
		_ = g.rps.Close()
	}
}

// ---- backends: how connections, publishes and introspection are made -----------------------

type c14MemberState struct {
	Channels  []string            `json:"channels"`
	Globbed   map[string][]string `json:"channels_glob"`
	NumSub    map[string]int64    `json:"numsub"`
	NumPat    int64               `json:"numpat"`
	Malformed string              `json:"malformed,omitempty"`
}

type c14Backend interface {
	newConn(member int, lg *c14Log) (c14Conn, error)
	publish(pubIdx int, p c14Pub, channel, payload string) (int64, error)
	state(member int) (*c14MemberState, error)
	close()
}

type c14RawBackend struct {
	mem   []*cluster.Member
	mu    sync.Mutex
	pubs  map[[2]int]*respc.Conn
	admin map[int]*respc.Conn
}

func (b *c14RawBackend) newConn(member int, lg *c14Log) (c14Conn, error) {
	return c14DialRaw(b.mem[member].Name, lg)
}

func (b *c14RawBackend) publish(pubIdx int, p c14Pub, channel, payload string) (int64, error) {
	key := [2]int{pubIdx, p.Via}
	b.mu.Lock()
	c := b.pubs[key]
	b.mu.Unlock()
	if c == nil {
		var err error
		if c, err = respc.Dial(b.mem[p.Via].Name); err != nil {
			return 0, err
		}
		b.mu.Lock()
		b.pubs[key] = c
		b.mu.Unlock()
	}
	rp, err := c.Do(c14Wait, "PUBLISH", channel, payload)
	if err != nil {
		return 0, err
	}
	if rp.Kind != ':' {
		return 0, fmt.Errorf("PUBLISH replied %s", rp.String())
	}
	return rp.Int, nil
}

func c14Strs(rp respc.Reply) ([]string, bool) {
	if rp.Kind != '*' || rp.Null {
		return nil, false
	}
	var r []string
	for _, e := range rp.Array {
		if e.Kind != '$' {
			return nil, false
		}
		r = append(r, e.Str)
	}
	return r, true
}

func (b *c14RawBackend) state(member int) (*c14MemberState, error) {
	b.mu.Lock()
	c := b.admin[member]
	b.mu.Unlock()
	if c == nil {
		var err error
		if c, err = respc.Dial(b.mem[member].Name); err != nil {
			return nil, err
		}
		b.mu.Lock()
		b.admin[member] = c
		b.mu.Unlock()
	}
	st := &c14MemberState{Globbed: map[string][]string{}, NumSub: map[string]int64{}}
	rp, err := c.Do(c14Wait, "PUBSUB", "CHANNELS")
	if err != nil {
		return nil, err
	}
	var ok bool
	if st.Channels, ok = c14Strs(rp); !ok {
		st.Malformed = "PUBSUB CHANNELS replied " + rp.String()
		return st, nil
	}
	for _, g := range c14ChannelGlobs {
		rp, err := c.Do(c14Wait, "PUBSUB", "CHANNELS", g)
		if err != nil {
			return nil, err
		}
		l, ok := c14Strs(rp)
		if !ok {
			st.Malformed = "PUBSUB CHANNELS " + g + " replied " + rp.String()
			return st, nil
		}
		st.Globbed[g] = l
	}
	rp, err = c.Do(c14Wait, append([]string{"PUBSUB", "NUMSUB"}, c14NumsubNames...)...)
	if err != nil {
		return nil, err
	}
	if rp.Kind != '*' || len(rp.Array) != 2*len(c14NumsubNames) {
		st.Malformed = "PUBSUB NUMSUB replied " + rp.String()
		return st, nil
	}
	for i, n := range c14NumsubNames {
		if rp.Array[2*i].Str != n || rp.Array[2*i+1].Kind != ':' {
			st.Malformed = "PUBSUB NUMSUB replied " + rp.String()
			return st, nil
		}
		st.NumSub[n] = rp.Array[2*i+1].Int
	}
	rp, err = c.Do(c14Wait, "PUBSUB", "NUMPAT")
	if err != nil {
		return nil, err
	}
	if rp.Kind != ':' {
		st.Malformed = "PUBSUB NUMPAT replied " + rp.String()
		return st, nil
	}
	st.NumPat = rp.Int
	return st, nil
}

func (b *c14RawBackend) close() {
	b.mu.Lock()
	defer b.mu.Unlock()
	for _, c := range b.pubs {
		_ = c.Close()
	}
	for _, c := range b.admin {
		_ = c.Close()
	}
}

type c14PubSubMaker interface {
	NewPubSub(options ...olric.PubSubOption) (*olric.PubSub, error)
}

type c14GoBackend struct {
	mem    []*cluster.Member
	flavor string
	cc     *olric.ClusterClient
}

// client returns the olric client used to reach member i.
func (b *c14GoBackend) client(i int, forPublish bool) c14PubSubMaker {
	if b.flavor == "cc" {
		return b.cc
	}
	if forPublish {
		// the embedded client of the next member, talking to member i over the network
		return b.mem[(i+1)%len(b.mem)].Emb
	}
	return b.mem[i].Emb
}

func (b *c14GoBackend) newConn(member int, lg *c14Log) (c14Conn, error) {
	ps, err := b.client(member, false).NewPubSub(olric.ToAddress(b.mem[member].Name))
	if err != nil {
		return nil, err
	}
	return &c14GoConn{ops: ps, lg: lg}, nil
}

func (b *c14GoBackend) publish(pubIdx int, p c14Pub, channel, payload string) (int64, error) {
	var ps *olric.PubSub
	var err error
	if p.Pick {
		ps, err = b.client(p.Via, true).NewPubSub()
	}
	if !p.Pick || err != nil {
		ps, err = b.client(p.Via, true).NewPubSub(olric.ToAddress(b.mem[p.Via].Name))
	}
	if err != nil {
		return 0, err
	}
	ctx, cancel := context.WithTimeout(context.Background(), c14Wait)
	defer cancel()
	return ps.Publish(ctx, channel, payload)
}

func (b *c14GoBackend) state(member int) (*c14MemberState, error) {
	ps, err := b.client(member, true).NewPubSub(olric.ToAddress(b.mem[member].Name))
	if err != nil {
		return nil, err
	}
	ctx, cancel := context.WithTimeout(context.Background(), c14Wait)
	defer cancel()
	st := &c14MemberState{Globbed: map[string][]string{}, NumSub: map[string]int64{}}
	if st.Channels, err = ps.PubSubChannels(ctx, ""); err != nil {
		return nil, err
	}
	for _, g := range c14ChannelGlobs {
		if g == "*" {
			continue // go-redis sends no argument for "*": same request as above
		}
		if st.Globbed[g], err = ps.PubSubChannels(ctx, g); err != nil {
			return nil, err
		}
	}
	if st.NumSub, err = ps.PubSubNumSub(ctx, c14NumsubNames...); err != nil {
		return nil, err
	}
	if st.NumPat, err = ps.PubSubNumPat(ctx); err != nil {
		return nil, err
	}
	return st, nil
}

func (b *c14GoBackend) close() {
	if b.cc != nil {
		ctx, cancel := context.WithTimeout(context.Background(), 5*time.Second)
		defer cancel()
		_ = b.cc.Close(ctx)
	}
}

// ---- executor -----------------------------------------------------------------------

type c14SubRef struct {
	UID  int    `json:"conn_uid"` // connection (must) ; -1 = any connection of the slot (may)
	Slot int    `json:"slot"`
	Pat  bool   `json:"pattern"`
	Name string `json:"name"`
}

type c14PubRec struct {
	Publisher       int    `json:"publisher"`
	Seq             int    `json:"seq"`
	Via             int    `json:"via"` // -1 = member picked by the client
	Chan            string `json:"chan"`
	Payload         string `json:"payload"`
	Ret             int64  `json:"ret"`
	Err             string `json:"err,omitempty"`
	Step            int    `json:"step"`
	Phase           string `json:"phase"` // sequential | concurrent-publishers | during-churn
	Must            []c14SubRef
	May             []c14SubRef
	NonMatchingPats int // pattern subscriptions in the model that do not match the channel
}

type c14ConnRec struct {
	UID    int
	Slot   int
	Member int
	conn   c14Conn
	lg     *c14Log
	tokN   int
}

type c14Result struct {
	Viols        []c14Viol
	Inconclusive string
	CleanAfter   bool
	Counters     map[string]int64
	Features     map[string]bool
}

type c14Exec struct {
	sc      c14Script
	mem     []*cluster.Member
	be      c14Backend
	mu      sync.Mutex // guards all, pubs, res maps, viols
	slots   []*c14ConnRec
	all     []*c14ConnRec
	chans   []map[string]bool
	pats    []map[string]bool
	resub   []map[string]bool // per member: names re-subscribed on some connection of that member
	pubs    []*c14PubRec
	pubSeq  [4]int
	res     *c14Result
	failMu  sync.Mutex
	failure string
	vkeys   map[string]bool
}

func (x *c14Exec) fail(format string, a ...interface{}) {
	x.failMu.Lock()
	if x.failure == "" {
		x.failure = fmt.Sprintf(format, a...)
	}
	x.failMu.Unlock()
}

func (x *c14Exec) failed() bool {
	x.failMu.Lock()
	defer x.failMu.Unlock()
	return x.failure != ""
}

func (x *c14Exec) count(name string, n int64) {
	x.mu.Lock()
	x.res.Counters[name] += n
	x.mu.Unlock()
}

func (x *c14Exec) feature(name string) {
	x.mu.Lock()
	x.res.Features[name] = true
	x.mu.Unlock()
}

// violate records one violation per finding key and script.
func (x *c14Exec) violate(key, format string, a ...interface{}) {
	x.mu.Lock()
	defer x.mu.Unlock()
	if x.vkeys[key] {
		return
	}
	x.vkeys[key] = true
	x.res.Viols = append(x.res.Viols, c14Viol{Key: key, Detail: fmt.Sprintf("script %s (%d members, %s): ", x.sc.ID, x.sc.Members, x.sc.Flavor) + fmt.Sprintf(format, a...)})
}

// c14Execute runs a script against a cluster that must have no subscriptions.
func c14Execute(c *cluster.Cluster, sc c14Script, events *int64) *c14Result {
	x := &c14Exec{sc: sc, mem: c.Live(), res: &c14Result{Counters: map[string]int64{}, Features: map[string]bool{}}, vkeys: map[string]bool{}}
	events0 := atomic.LoadInt64(events)
	membershipChanged := func() string {
		for i, m := range x.mem {
			if n := m.V.RT.Discovery().NumMembers(); n != len(x.mem) {
				return fmt.Sprintf("member %d sees %d cluster members instead of %d", i, n, len(x.mem))
			}
		}
		if n := atomic.LoadInt64(events) - events0; n != 0 {
			return fmt.Sprintf("%d membership events arrived while the script ran", n)
		}
		return ""
	}
	if why := membershipChanged(); why != "" {
		x.res.Inconclusive = "cluster membership is not stable: " + why
		return x.res
	}
	if len(x.mem) != sc.Members {
		x.res.Inconclusive = fmt.Sprintf("cluster has %d live members, script needs %d", len(x.mem), sc.Members)
		return x.res
	}
	switch sc.Flavor {
	case "raw":
		x.be = &c14RawBackend{mem: x.mem, pubs: map[[2]int]*respc.Conn{}, admin: map[int]*respc.Conn{}}
	default:
		gb := &c14GoBackend{mem: x.mem, flavor: sc.Flavor}
		if sc.Flavor == "cc" {
			cc, err := c.NewClusterClient()
			if err != nil {
				x.res.Inconclusive = "cluster client: " + err.Error()
				return x.res
			}
			gb.cc = cc
		}
		x.be = gb
	}
	defer x.be.close()
	n := len(sc.Slots)
	x.slots = make([]*c14ConnRec, n)
	for i := 0; i < n; i++ {
		x.chans = append(x.chans, map[string]bool{})
		x.pats = append(x.pats, map[string]bool{})
	}
	for range x.mem {
		x.resub = append(x.resub, map[string]bool{})
	}
	// the cluster must be clean
	for m := range x.mem {
		st, err := x.be.state(m)
		if err != nil {
			x.res.Inconclusive = "pre-state: " + err.Error()
			return x.res
		}
		if len(st.Channels) != 0 || st.NumPat != 0 || x.mem[m].V.PubSub.VerifConnCount() != 0 {
			x.res.Inconclusive = fmt.Sprintf("member %d is not clean before the script: %+v, %d registered connections", m, st, x.mem[m].V.PubSub.VerifConnCount())
			return x.res
		}
	}

	for i, st := range sc.Steps {
		if x.failed() {
			break
		}
		switch st.Op {
		case "sub", "psub", "unsub", "punsub":
			x.subOp(st.Conn, st.Op, st.Names, false)
		case "pub":
			x.pubStep(i, st)
		case "disc":
			x.discStep(st.Conn)
		case "check":
			x.checkStep()
		}
	}
	if !x.failed() {
		x.fenceAll()
	}
	// tear down and wait for a clean cluster
	for _, cr := range x.all {
		cr.conn.close()
	}
	x.res.CleanAfter = x.waitClean()
	if why := membershipChanged(); why != "" {
		// a live member was declared dead (machine stall): PUBLISH is not expected to reach it
		x.res.Inconclusive = "cluster membership changed during the script: " + why
		x.res.Viols = nil
		return x.res
	}
	if x.failed() {
		// no verdict on deliveries; what was already decided at quiescent points stands
		x.res.Inconclusive = x.failure
		return x.res
	}
	x.analyze()
	return x.res
}

func (x *c14Exec) waitClean() bool {
	deadline := time.Now().Add(5 * time.Second)
	for {
		clean := true
		for m := range x.mem {
			st, err := x.be.state(m)
			if err != nil || len(st.Channels) != 0 || st.NumPat != 0 || x.mem[m].V.PubSub.VerifConnCount() != 0 {
				clean = false
			}
		}
		if clean {
			return true
		}
		if time.Now().After(deadline) {
			return false
		}
		time.Sleep(2 * time.Millisecond)
	}
}

// fence sends PING <token> on the connection and waits for the matching pong.
func (x *c14Exec) fence(cr *c14ConnRec) bool {
	cr.tokN++
	tok := fmt.Sprintf("f%d.%d", cr.UID, cr.tokN)
	from := cr.lg.add(c14Event{K: "send", Op: "ping"})
	if err := cr.conn.ping(tok); err != nil {
		x.fail("PING on connection c%d: %v", cr.Slot, err)
		return false
	}
	err := cr.lg.waitFor(from, func(evs []c14Event) bool {
		for _, e := range evs {
			if e.K == "pong" && e.Payload == tok {
				return true
			}
		}
		return false
	})
	if err != nil {
		x.fail("waiting for the PING reply on connection c%d (member %d): %v", cr.Slot, cr.Member, err)
		return false
	}
	return true
}

func (x *c14Exec) fenceAll() bool {
	var wg sync.WaitGroup
	ok := true
	var omu sync.Mutex
	for _, cr := range x.slots {
		if cr == nil {
			continue
		}
		wg.Add(1)
		go func(cr *c14ConnRec) {
			defer wg.Done()
			if !x.fence(cr) {
				omu.Lock()
				ok = false
				omu.Unlock()
			}
		}(cr)
	}
	wg.Wait()
	return ok
}

// subOp executes one subscription command on a slot, waits until the server
// has processed it, and then updates the model of that slot.
func (x *c14Exec) subOp(slot int, op string, names []string, churn bool) {
	if slot < 0 || slot >= len(x.slots) {
		return
	}
	cr := x.slots[slot]
	if cr == nil {
		if op == "unsub" || op == "punsub" {
			x.count("ops_skipped_no_connection", 1)
			return // nothing to unsubscribe on a connection that does not exist
		}
		lg := newC14Log()
		conn, err := x.be.newConn(x.sc.Slots[slot], lg)
		if err != nil {
			x.fail("connect slot %d: %v", slot, err)
			return
		}
		x.mu.Lock()
		cr = &c14ConnRec{UID: len(x.all), Slot: slot, Member: x.sc.Slots[slot], conn: conn, lg: lg}
		x.all = append(x.all, cr)
		x.slots[slot] = cr
		x.res.Counters["connections_opened"]++
		x.mu.Unlock()
	}
	from := cr.lg.add(c14Event{K: "send", Op: op, Names: names})
	if err := cr.conn.cmd(op, names); err != nil {
		x.fail("%s on slot %d: %v", op, slot, err)
		return
	}
	if op == "sub" || op == "psub" {
		// SUBSCRIBE a b ... is acknowledged once per name
		want := len(names)
		wrong := ""
		err := cr.lg.waitFor(from, func(evs []c14Event) bool {
			n := 0
			for _, e := range evs {
				if e.K == op {
					n++
				} else if (e.K == "sub" || e.K == "psub") && e.K != op {
					// the server acknowledged the other kind of subscription for a name we sent
					for _, nm := range names {
						if e.Name == nm {
							wrong = e.K
							return true
						}
					}
				}
			}
			return n >= want
		})
		if wrong != "" {
			x.violate(fmt.Sprintf("c14|wrong-acknowledgement|sent=%s|acknowledged-as=%s", c14Verb[op], strings.ToLower(c14Verb[wrong])),
				"connection c%d (member %d) sent %s %v as a later command on a subscribed connection and the member acknowledged it as %s", slot, cr.Member, c14Verb[op], names, strings.ToLower(c14Verb[wrong]))
			x.fail("wrong kind of acknowledgement")
			return
		}
		if err != nil {
			x.fail("waiting for %d %s acknowledgements on connection c%d (member %d): %v", want, op, slot, cr.Member, err)
			return
		}
	}
	if !x.fence(cr) {
		return
	}
	// model
	set := x.chans[slot]
	if op == "psub" || op == "punsub" {
		set = x.pats[slot]
	}
	x.count("ops_"+op, 1)
	switch op {
	case "sub", "psub":
		for _, n := range names {
			if set[n] {
				x.feature("resubscribe")
				x.count("resubscribes", 1)
				x.mu.Lock()
				x.resub[cr.Member][op+":"+n] = true
				x.mu.Unlock()
			}
			set[n] = true
		}
	case "unsub", "punsub":
		if len(names) == 0 {
			x.feature("unsubscribe-all")
			if len(set) == 0 {
				x.feature("unsubscribe-all-with-none")
			}
			for k := range set {
				delete(set, k)
			}
		}
		for _, n := range names {
			if !set[n] {
				x.feature("unsubscribe-not-subscribed")
				x.count("unsubscribes_of_not_subscribed", 1)
			}
			delete(set, n)
		}
	}
}

// matching returns the subscriptions of the model matching a channel and the
// number of pattern subscriptions that do not match it.
func (x *c14Exec) matching(channel string) (refs []c14SubRef, nonMatchingPats int) {
	for slot, cr := range x.slots {
		if cr == nil {
			continue
		}
		if x.chans[slot][channel] {
			refs = append(refs, c14SubRef{UID: cr.UID, Slot: slot, Name: channel})
		}
		for p := range x.pats[slot] {
			if c14Glob(p, channel) {
				refs = append(refs, c14SubRef{UID: cr.UID, Slot: slot, Pat: true, Name: p})
			} else {
				nonMatchingPats++
			}
		}
	}
	return
}

func (x *c14Exec) pubStep(stepIdx int, st c14Step) {
	// subscriptions touched by the concurrent churn: (slot, kind, name)
	type tk struct {
		slot int
		pat  bool
		name string
	}
	touched := map[tk]bool{}
	churnBySlot := map[int][]c14Step{}
	var churnSlots []int
	for _, c := range st.Churn {
		if c.Conn < 0 || c.Conn >= len(x.slots) {
			continue
		}
		if _, ok := churnBySlot[c.Conn]; !ok {
			churnSlots = append(churnSlots, c.Conn)
		}
		churnBySlot[c.Conn] = append(churnBySlot[c.Conn], c)
		pat := c.Op == "psub" || c.Op == "punsub"
		names := c.Names
		if len(names) == 0 {
			names = c14Channels
			if pat {
				names = c14Patterns
			}
		}
		for _, n := range names {
			touched[tk{c.Conn, pat, n}] = true
		}
	}
	phase := "sequential"
	if len(st.Pubs) > 1 {
		phase = "concurrent-publishers"
		x.feature(fmt.Sprintf("concurrent-publishers-%d", len(st.Pubs)))
	}
	if len(churnSlots) > 0 {
		phase = "during-churn"
		x.feature("publish-during-churn")
	}
	// prepare the publish records (model snapshot is taken before anything runs)
	recs := make([][]*c14PubRec, len(st.Pubs))
	for k, p := range st.Pubs {
		if k >= 4 || p.Via < 0 || p.Via >= len(x.mem) {
			continue
		}
		for _, ch := range p.Chans {
			r := &c14PubRec{Publisher: k, Seq: x.pubSeq[k], Via: p.Via, Chan: ch, Step: stepIdx, Phase: phase}
			if p.Pick && x.sc.Flavor != "raw" {
				r.Via = -1
			}
			x.pubSeq[k]++
			r.Payload = fmt.Sprintf("P%d:%d", k, r.Seq)
			refs, nm := x.matching(ch)
			r.NonMatchingPats = nm
			for _, ref := range refs {
				if touched[tk{ref.Slot, ref.Pat, ref.Name}] {
					continue
				}
				r.Must = append(r.Must, ref)
			}
			for t := range touched {
				if (t.pat && c14Glob(t.name, ch)) || (!t.pat && t.name == ch) {
					r.May = append(r.May, c14SubRef{UID: -1, Slot: t.slot, Pat: t.pat, Name: t.name})
				} else if t.pat {
					r.NonMatchingPats++ // possibly subscribed while the publish runs
				}
			}
			recs[k] = append(recs[k], r)
			x.pubs = append(x.pubs, r)
		}
	}
	var wg sync.WaitGroup
	for k := range st.Pubs {
		if len(recs[k]) == 0 {
			continue
		}
		wg.Add(1)
		go func(k int) {
			defer wg.Done()
			for _, r := range recs[k] {
				ret, err := x.be.publish(k, st.Pubs[k], r.Chan, r.Payload)
				r.Ret = ret
				if err != nil {
					r.Err = err.Error()
					x.fail("PUBLISH %s via member %d: %v", r.Chan, r.Via, err)
					return
				}
			}
		}(k)
	}
	for _, slot := range churnSlots {
		wg.Add(1)
		go func(slot int) {
			defer wg.Done()
			for _, c := range churnBySlot[slot] {
				if x.failed() {
					return
				}
				x.subOp(slot, c.Op, c.Names, true)
			}
		}(slot)
	}
	wg.Wait()
}

// expected computes the model's view of one member.
func (x *c14Exec) expected(member int) *c14MemberState {
	st := &c14MemberState{Globbed: map[string][]string{}, NumSub: map[string]int64{}}
	ch := map[string]bool{}
	pt := map[string]bool{}
	for slot, cr := range x.slots {
		if cr == nil || cr.Member != member {
			continue
		}
		for c := range x.chans[slot] {
			ch[c] = true
			st.NumSub[c]++
		}
		for p := range x.pats[slot] {
			pt[p] = true
		}
	}
	for c := range ch {
		st.Channels = append(st.Channels, c)
	}
	sort.Strings(st.Channels)
	for _, g := range c14ChannelGlobs {
		st.Globbed[g] = []string{}
		for _, c := range st.Channels {
			if c14Glob(g, c) {
				st.Globbed[g] = append(st.Globbed[g], c)
			}
		}
	}
	st.NumPat = int64(len(pt))
	return st
}

func (x *c14Exec) patternsOn(member int) map[string]bool {
	pt := map[string]bool{}
	for slot, cr := range x.slots {
		if cr != nil && cr.Member == member {
			for p := range x.pats[slot] {
				pt[p] = true
			}
		}
	}
	return pt
}

// diffState compares an observed member state with the model; each difference is (key, detail).
func (x *c14Exec) diffState(member int, got *c14MemberState) [][2]string {
	want := x.expected(member)
	pats := x.patternsOn(member)
	var out [][2]string
	if got.Malformed != "" {
		return [][2]string{{"c14|introspection|malformed-reply", got.Malformed}}
	}
	// history shape: did some connection of this member subscribe again to something it already had?
	resubbed := func(string) string {
		x.mu.Lock()
		defer x.mu.Unlock()
		if len(x.resub[member]) > 0 {
			return "after-resubscribe"
		}
		return "no-resubscribe"
	}
	cmpList := func(clause, what string, g, w []string) {
		seen := map[string]int{}
		for _, c := range g {
			seen[c]++
		}
		wantSet := map[string]bool{}
		for _, c := range w {
			wantSet[c] = true
		}
		var names []string
		for c := range seen {
			names = append(names, c)
		}
		sort.Strings(names)
		for _, c := range names {
			switch {
			case !wantSet[c] && pats[c] && !contains(c14Channels, c):
				out = append(out, [2]string{"c14|" + clause + "|lists-pattern", fmt.Sprintf("%s on member %d lists %q, which is only subscribed as a pattern; reply %v, model %v", what, member, c, g, w)})
			case !wantSet[c]:
				shape := "not-subscribed|" + resubbed("sub:")
				if pats[c] {
					shape = "lists-pattern-of-same-name"
				}
				out = append(out, [2]string{"c14|" + clause + "|" + shape, fmt.Sprintf("%s on member %d lists %q, which no connection of that member is subscribed to; reply %v, model %v", what, member, c, g, w)})
			case seen[c] > 1:
				out = append(out, [2]string{"c14|" + clause + "|duplicate", fmt.Sprintf("%s on member %d lists %q %d times; reply %v, model (distinct channels) %v", what, member, c, seen[c], g, w)})
			}
		}
		for _, c := range w {
			if seen[c] == 0 {
				out = append(out, [2]string{"c14|" + clause + "|missing", fmt.Sprintf("%s on member %d does not list %q; reply %v, model %v", what, member, c, g, w)})
			}
		}
	}
	cmpList("channels", "PUBSUB CHANNELS", got.Channels, want.Channels)
	for _, g := range c14ChannelGlobs {
		if l, ok := got.Globbed[g]; ok {
			cmpList("channels-glob", "PUBSUB CHANNELS "+g, l, want.Globbed[g])
		}
	}
	for _, n := range c14NumsubNames {
		g, ok := got.NumSub[n]
		if !ok {
			out = append(out, [2]string{"c14|numsub|name-missing-in-reply", fmt.Sprintf("PUBSUB NUMSUB on member %d has no entry for %q: %v", member, n, got.NumSub)})
			continue
		}
		w := want.NumSub[n]
		switch {
		case g > w && pats[n]:
			out = append(out, [2]string{"c14|numsub|counts-pattern", fmt.Sprintf("PUBSUB NUMSUB %s on member %d = %d, but %d connections are subscribed to that channel (a pattern of the same name is subscribed)", n, member, g, w)})
		case g > w:
			out = append(out, [2]string{"c14|numsub|over-count|" + resubbed("sub:"), fmt.Sprintf("PUBSUB NUMSUB %s on member %d = %d, but %d connections are subscribed to that channel", n, member, g, w)})
		case g < w:
			out = append(out, [2]string{"c14|numsub|under-count", fmt.Sprintf("PUBSUB NUMSUB %s on member %d = %d, but %d connections are subscribed to that channel", n, member, g, w)})
		}
	}
	switch {
	case got.NumPat > want.NumPat:
		out = append(out, [2]string{"c14|numpat|over-count|" + resubbed("psub:"), fmt.Sprintf("PUBSUB NUMPAT on member %d = %d, model has %d distinct patterns", member, got.NumPat, want.NumPat)})
	case got.NumPat < want.NumPat:
		out = append(out, [2]string{"c14|numpat|under-count", fmt.Sprintf("PUBSUB NUMPAT on member %d = %d, model has %d distinct patterns", member, got.NumPat, want.NumPat)})
	}
	return out
}

func contains(l []string, s string) bool {
	for _, e := range l {
		if e == s {
			return true
		}
	}
	return false
}

// checkMember compares one member's PUBSUB replies with the model (quiescent point).
func (x *c14Exec) checkMember(m int) (diverged bool) {
	st, err := x.be.state(m)
	if err != nil {
		x.fail("introspection on member %d: %v", m, err)
		return true
	}
	x.count("introspection_member_checks", 1)
	if len(st.Channels) > 0 {
		x.count("introspection_checks_with_channels", 1)
	}
	if st.NumPat > 0 {
		x.count("introspection_checks_with_patterns", 1)
	}
	diffs := x.diffState(m, st)
	for _, d := range diffs {
		x.violate(d[0], "%s", d[1])
	}
	return len(diffs) > 0
}

func (x *c14Exec) checkStep() {
	if !x.fenceAll() {
		return
	}
	for m := range x.mem {
		x.checkMember(m)
		x.whiteBox(m)
	}
}

// whiteBox compares the member's subscription tree with the model. Diagnostic
// only: the verdicts come from what clients observe.
func (x *c14Exec) whiteBox(m int) {
	tree, perConn := x.mem[m].V.PubSub.VerifSubscriptions()
	want := map[string]int{}
	for slot, cr := range x.slots {
		if cr == nil || cr.Member != m {
			continue
		}
		for c := range x.chans[slot] {
			want["channel "+c]++
		}
		for p := range x.pats[slot] {
			want["pattern "+p]++
		}
	}
	cmp := func(what string, l []pubsub.VerifSubscription) {
		got := map[string]int{}
		for _, e := range l {
			if e.Pattern {
				got["pattern "+e.Channel]++
			} else {
				got["channel "+e.Channel]++
			}
		}
		same := len(got) == len(want)
		for k, n := range want {
			if got[k] != n {
				same = false
			}
		}
		x.count("whitebox_"+what+"_compared", 1)
		if !same {
			x.count("whitebox_"+what+"_differs_from_model", 1)
		}
	}
	cmp("subscription_tree", tree)
	cmp("connection_entry_sets", perConn)
}

func (x *c14Exec) discStep(slot int) {
	if slot < 0 || slot >= len(x.slots) || x.slots[slot] == nil {
		return
	}
	cr := x.slots[slot]
	if !x.fence(cr) {
		return
	}
	divergedBefore := x.checkMember(cr.Member)
	if x.failed() {
		return
	}
	had := len(x.chans[slot]) + len(x.pats[slot])
	registered := x.mem[cr.Member].V.PubSub.VerifConnCount()
	// Synchronisation only (no verdict): the PUBSUB replies cannot show that the
	// server has dropped a connection whose subscriptions are all duplicated by
	// another connection, so the next publish waits for the registry (white-box).
	stale := false
	defer func() {
		if stale {
			return
		}
		deadline := time.Now().Add(15 * time.Second)
		for x.mem[cr.Member].V.PubSub.VerifConnCount() >= registered {
			if time.Now().After(deadline) {
				x.fail("member %d still has %d registered connections 15 s after connection c%d was closed", cr.Member, registered, slot)
				return
			}
			time.Sleep(200 * time.Microsecond)
		}
	}()
	cr.conn.close()
	x.slots[slot] = nil
	x.chans[slot] = map[string]bool{}
	x.pats[slot] = map[string]bool{}
	x.count("disconnects", 1)
	x.feature("disconnect")
	if had > 0 {
		x.feature("disconnect-with-subscriptions")
	}
	if divergedBefore {
		return // already reported; convergence cannot be judged
	}
	// bounded-progress restatement: the member's bookkeeping must reach the model within 2 s
	start := time.Now()
	var last [][2]string
	polls := 0
	for {
		polls++
		st, err := x.be.state(cr.Member)
		if err != nil {
			x.fail("introspection on member %d after disconnect: %v", cr.Member, err)
			return
		}
		last = x.diffState(cr.Member, st)
		el := time.Since(start)
		if len(last) == 0 {
			if el > 2*time.Second {
				x.fail("bookkeeping of member %d converged %s after a disconnect (bound 2 s): machine load cannot be told from slowness", cr.Member, el)
			}
			x.count("disconnect_convergences_observed", 1)
			return
		}
		if el > 15*time.Second {
			break
		}
		time.Sleep(time.Millisecond)
	}
	if polls < 200 {
		// the member answered fewer than 200 introspection requests in 15 s: the machine is stalled, not the bookkeeping
		x.fail("only %d introspection polls completed in 15 s after a disconnect: machine stall", polls)
		return
	}
	stale = true
	defer x.fail("stopped after the stale-bookkeeping violation: the state of member %d is unknown", cr.Member)
	x.violate("c14|disconnect|bookkeeping-stale", "15 s (%d polls) after connection c%d (member %d) was closed the member still reports its subscriptions: %s", polls, slot, cr.Member, last[0][1])
}
