package main

import (
	"context"
	"fmt"
	"math/rand"
	"sync"
	"sync/atomic"
	"time"

	dmapi "github.com/olric-data/olric/internal/dmap"
	"github.com/olric-data/olric/verif/cluster"
	"github.com/olric-data/olric/verif/paths"
)

// ---- scenario F: a lock with a timeout that had to WAIT for the previous holder is held for its whole
// timeout, counted from the moment it could be taken (the previous holder's Unlock call), not from the
// moment the waiter started to wait.
func (e *c08Env) scenarioWaiterTimeout(rng *rand.Rand) {
	key := e.key("waiter")
	bg := context.Background()
	sess := e.r.NewSession()
	defer sess.Close()
	hk := e.kinds[rng.Intn(len(e.kinds))]
	wk := e.kinds[rng.Intn(len(e.kinds))]
	ck := e.kinds[rng.Intn(len(e.kinds))]
	T := []time.Duration{300 * time.Millisecond, 500 * time.Millisecond}[rng.Intn(2)]
	// the waiter waits for a large part of its timeout, or for longer than the timeout
	w := []time.Duration{T * 2, T * 3 / 4}[rng.Intn(2)]
	holder, err := sess.Via(hk).Lock(bg, key, 0, time.Second)
	if err != nil {
		e.ctx.rep.Inconclusive("waiter: holder could not lock: " + err.Error())
		return
	}
	var got paths.Lock
	var gotErr error
	done := make(chan struct{})
	go func() {
		defer close(done)
		s3 := e.r.NewSession() // its own connections: the call blocks until the holder unlocks
		defer s3.Close()
		got, gotErr = s3.Via(wk).Lock(bg, key, T, w+5*time.Second)
	}()
	time.Sleep(w)
	unlockCall := e.now()
	if err := holder.Unlock(bg); err != nil {
		e.violate("unlock-failed|own-token|path="+hk, fmt.Sprintf("key %s: Unlock via %s failed: %v", key, hk, err), map[string]interface{}{"key": key})
		<-done
		return
	}
	<-done
	if gotErr != nil {
		e.ctx.rep.Inconclusive("waiter: " + gotErr.Error())
		return
	}
	e.ctx.rep.Eval(1)
	e.ctx.rep.Distinct(fmt.Sprintf("waiter|holder=%s|waiter=%s|competitor=%s|waited=%v|T=%v", hk, wk, ck, w, T))
	e.ctx.rep.Count("waiter_cases_via_"+wk, 1)
	// the waiter's lock was written after unlockCall: it is held until unlockCall+T at least. A competitor that
	// RETURNS with a token before that instant proves an early release, however the machine is scheduled.
	s2 := e.r.NewSession()
	defer s2.Close()
	for try := 0; try < 3; try++ {
		left := unlockCall + T - e.now()
		if left < 60*time.Millisecond {
			break
		}
		d := left / 3
		lk, err := s2.Via(ck).Lock(bg, key, 0, d)
		cRet := e.now()
		e.ctx.rep.Count("waiter_competitor_attempts", 1)
		if err == nil {
			if cRet < unlockCall+T-2*time.Millisecond {
				e.violate("timed-lock-released-early|waiter|taken-via="+wk,
					fmt.Sprintf("key %s: Lock(timeout %v) via %s waited %v for the previous holder and got its token after %v; it must hold until %v at least, but a competitor via %s returned with the lock at %v", key, T, wk, w, unlockCall, unlockCall+T, ck, cRet),
					map[string]interface{}{"key": key, "timeout": T.String(), "waited": w.String(), "waiter_path": wk, "competitor_path": ck})
			}
			_ = lk.Unlock(bg)
			return
		}
		if paths.Class(err) != "lock not acquired" {
			e.ctx.rep.Inconclusive("waiter: competitor: " + err.Error())
			return
		}
	}
	// the waiter is the holder: its own Unlock works as long as the timeout has not elapsed
	uc := e.now()
	err = got.Unlock(bg)
	if err != nil && uc < unlockCall+T-20*time.Millisecond && e.now() < unlockCall+T-2*time.Millisecond {
		e.violate("unlock-failed|own-token|waiter|path="+wk, fmt.Sprintf("key %s: the waiter (timeout %v, token obtained after %v) could not unlock at %v: %v", key, T, unlockCall, uc, err), map[string]interface{}{"key": key})
	}
}

// ---- child "evict": abandoned timed locks expire and are removed by the background eviction while the same keys
// are locked again. A lock without a timeout that was taken after the expiry must stay exclusive and must still be
// there when its holder unlocks it.
func c08EvictChild(ctx *runCtx, spec string) {
	var n, r, workers, rounds int
	var seed int64
	fmt.Sscanf(spec, "evict N=%d R=%d workers=%d rounds=%d seed=%d", &n, &r, &workers, &rounds, &seed)
	c, err := cluster.Start(cluster.Config{Replicas: r, Partitions: 3, TableSize: 1 << 20, EvictionWorkers: 16}, n)
	if err != nil {
		ctx.rep.Inconclusive("cluster start: " + err.Error())
		return
	}
	defer c.Shutdown()
	dmap := fmt.Sprintf("c08-evict-%d", seed)
	router := paths.NewRouter(c, dmap)
	defer router.Close()
	fp := c.Fingerprint()
	kinds := []string{"EO", "EN", "CC", "RO", "RN"}
	if n == 1 {
		kinds = []string{"EO", "CC", "RO"}
	}
	bg := context.Background()
	var stop int32
	var wg sync.WaitGroup
	for w := 0; w < workers; w++ {
		wg.Add(1)
		go func(w int) {
			defer wg.Done()
			rng := rand.New(rand.NewSource(seed*1000 + int64(w)))
			sess := router.NewSession()
			defer sess.Close()
			key := fmt.Sprintf("evict-%d", w)
			hk, ck := kinds[w%len(kinds)], kinds[(w/len(kinds)+1)%len(kinds)]
			for round := 0; round < rounds && atomic.LoadInt32(&stop) == 0; round++ {
				short := time.Duration(5+rng.Intn(10)) * time.Millisecond
				if _, err := sess.Via(hk).Lock(bg, key, short, 2*time.Second); err != nil {
					ctx.rep.Inconclusive(fmt.Sprintf("evict %s: abandoned lock: %v", key, err))
					return
				}
				time.Sleep(short + time.Duration(rng.Intn(110000))*time.Microsecond)
				b, err := sess.Via(hk).Lock(bg, key, 0, 2*time.Second)
				if err != nil {
					ctx.rep.Inconclusive(fmt.Sprintf("evict %s: second lock: %v", key, err))
					return
				}
				ctx.rep.Eval(1)
				ctx.rep.Count("evict_rounds_holder_via_"+hk, 1)
				bad := false
				for try := 0; try < 4 && !bad; try++ {
					lk, err := sess.Via(ck).Lock(bg, key, 0, time.Millisecond)
					if err == nil {
						ctx.rep.Violate("c08|acquired-while-held|untimed|after-expired-lock",
							fmt.Sprintf("%s key %s: an abandoned lock (timeout %v) had expired, then a client took the lock via %s without a timeout and did not unlock it, yet a competitor via %s acquired it too", spec, key, short, hk, ck),
							map[string]interface{}{"batch": spec, "key": key, "holder_path": hk, "competitor_path": ck})
						_ = lk.Unlock(bg)
						bad = true
					} else if paths.Class(err) != "lock not acquired" {
						ctx.rep.Inconclusive(fmt.Sprintf("evict %s: competitor: %v", key, err))
						bad = true
					}
				}
				if err := b.Unlock(bg); err != nil && !bad {
					ctx.rep.Violate("c08|unlock-failed|own-token|after-expired-lock|path="+hk,
						fmt.Sprintf("%s key %s: the holder of a lock without a timeout (taken via %s after an abandoned lock with timeout %v had expired) could not unlock it: %v", spec, key, hk, short, err),
						map[string]interface{}{"batch": spec, "key": key, "holder_path": hk})
					bad = true
				}
				if bad {
					atomic.StoreInt32(&stop, 1)
					return
				}
			}
			ctx.rep.Distinct(fmt.Sprintf("evict|N=%d|R=%d|holder=%s|competitor=%s", n, r, hk, ck))
		}(w)
	}
	wg.Wait()
	ctx.rep.Count("evict_keys_removed_by_background_eviction", dmapi.EvictedTotal.Read())
	if c.Fingerprint() != fp {
		p := ctx.rep.Partial()
		if len(p.Violations) > 0 {
			ctx.rep.Inconclusive(fmt.Sprintf("%s: membership/routing changed during the run; %d violation(s) dropped", spec, len(p.Violations)))
		}
		dropViolations(ctx)
	}
}

// ---- child "janitor": every worker has a DMap of its own, so that the fragment of its lock key is empty whenever the
// lock is free, and the janitor that removes empty fragments runs every 100 us on every member. A lock must survive
// the janitor: while it is held a competitor never gets it, and the holder's Unlock finds it.
func c08JanitorChild(ctx *runCtx, spec string) {
	var n, r, workers, rounds int
	var seed int64
	fmt.Sscanf(spec, "janitor N=%d R=%d workers=%d rounds=%d seed=%d", &n, &r, &workers, &rounds, &seed)
	c, err := cluster.Start(cluster.Config{Replicas: r, Partitions: 7, TableSize: 1 << 16, JanitorInterval: 100 * time.Microsecond}, n)
	if err != nil {
		ctx.rep.Inconclusive("cluster start: " + err.Error())
		return
	}
	defer c.Shutdown()
	fp := c.Fingerprint()
	kinds := []string{"EO", "EN", "CC", "RO", "RN"}
	if n == 1 {
		kinds = []string{"EO", "CC", "RO"}
	}
	bg := context.Background()
	var stop int32
	var wg sync.WaitGroup
	for w := 0; w < workers; w++ {
		wg.Add(1)
		go func(w int) {
			defer wg.Done()
			router := paths.NewRouter(c, fmt.Sprintf("c08j-%d-%d", seed, w))
			defer router.Close()
			sess := router.NewSession()
			defer sess.Close()
			key := fmt.Sprintf("lk-%d", w)
			for round := 0; round < rounds && atomic.LoadInt32(&stop) == 0; round++ {
				hk, ck := kinds[(w+round)%len(kinds)], kinds[(w+round/2+1)%len(kinds)]
				l, err := sess.Via(hk).Lock(bg, key, 0, 2*time.Second)
				if err != nil {
					ctx.rep.Inconclusive(fmt.Sprintf("janitor %s: lock: %v", key, err))
					return
				}
				ctx.rep.Eval(1)
				ctx.rep.Count("janitor_rounds_holder_via_"+hk, 1)
				bad := false
				if lk, err := sess.Via(ck).Lock(bg, key, 0, time.Millisecond); err == nil {
					ctx.rep.Violate("c08|acquired-while-held|untimed|empty-fragment-janitor",
						fmt.Sprintf("%s key %s: the lock was taken via %s into a fragment that was empty (janitor every 100us) and not unlocked, yet a competitor via %s acquired it too", spec, key, hk, ck),
						map[string]interface{}{"batch": spec, "key": key})
					_ = lk.Unlock(bg)
					bad = true
				} else if paths.Class(err) != "lock not acquired" {
					ctx.rep.Inconclusive(fmt.Sprintf("janitor %s: competitor: %v", key, err))
					bad = true
				}
				if err := l.Unlock(bg); err != nil && !bad {
					ctx.rep.Violate("c08|unlock-failed|own-token|empty-fragment-janitor|path="+hk,
						fmt.Sprintf("%s key %s: the holder of a lock taken via %s into an empty fragment (janitor every 100us) could not unlock it: %v", spec, key, hk, err),
						map[string]interface{}{"batch": spec, "key": key})
					bad = true
				}
				if bad {
					atomic.StoreInt32(&stop, 1)
					return
				}
			}
			ctx.rep.Distinct(fmt.Sprintf("janitor|N=%d|R=%d|worker=%d", n, r, w%5))
		}(w)
	}
	wg.Wait()
	if c.Fingerprint() != fp {
		dropViolations(ctx)
	}
}

// c08LeaseRaceChild: the holder's Lease calls race with its own Unlock while a waiter is queued.
// A Lease that verified the holder's token must not take effect on the lock the WAITER acquires
// afterwards: the waiter's lock has no timeout, so it must still be held (no competitor acquires it,
// its own Unlock succeeds) long after the lease duration.
func c08LeaseRaceChild(ctx *runCtx, spec string) {
	var n, r, workers, rounds int
	var seed int64
	fmt.Sscanf(spec, "leaserace N=%d R=%d workers=%d rounds=%d seed=%d", &n, &r, &workers, &rounds, &seed)
	c, err := cluster.Start(cluster.Config{Replicas: r, Partitions: 7, TableSize: 1 << 20}, n)
	if err != nil {
		ctx.rep.Inconclusive("cluster start: " + err.Error())
		return
	}
	defer c.Shutdown()
	fp := c.Fingerprint()
	kinds := []string{"EO", "EN", "CC", "RO", "RN"}
	if n == 1 {
		kinds = []string{"EO", "CC", "RO"}
	}
	const leaseD = 120 * time.Millisecond
	bg := context.Background()
	router := paths.NewRouter(c, fmt.Sprintf("c08lr-%d", seed))
	defer router.Close()
	var stop int32
	var wg sync.WaitGroup
	for w := 0; w < workers; w++ {
		wg.Add(1)
		go func(w int) {
			defer wg.Done()
			rng := rand.New(rand.NewSource(seed*1000 + int64(w)))
			sessA, sessB := router.NewSession(), router.NewSession()
			defer sessA.Close()
			defer sessB.Close()
			var leaseSess []*paths.Session
			for i := 0; i < 3; i++ {
				s := router.NewSession()
				defer s.Close()
				leaseSess = append(leaseSess, s)
			}
			for round := 0; round < rounds && atomic.LoadInt32(&stop) == 0; round++ {
				key := fmt.Sprintf("lr-%d-%d", w, round)
				hk, wk, ck := kinds[(w+round)%len(kinds)], kinds[(w+round/2+1)%len(kinds)], kinds[(w+round/3+2)%len(kinds)]
				la, err := sessA.Via(hk).Lock(bg, key, 0, 2*time.Second)
				if err != nil {
					ctx.rep.Inconclusive(fmt.Sprintf("leaserace %s: holder lock: %v", key, err))
					return
				}
				type res struct {
					l   paths.Lock
					err error
				}
				got := make(chan res, 1)
				go func() {
					// the waiter spins with 1 ms deadlines (every call starts with an immediate attempt), so that it
					// takes the lock within microseconds of the holder's Unlock instead of at a 10 ms poll tick
					cl := sessB.Via(wk)
					var l paths.Lock
					var err error
					for t0 := time.Now(); time.Since(t0) < 10*time.Second; {
						l, err = cl.Lock(bg, key, 0, time.Millisecond)
						if err == nil || paths.Class(err) != "lock not acquired" {
							break
						}
					}
					got <- res{l, err}
				}()
				var lstop int32
				var lwg sync.WaitGroup
				var leasesOK int64
				for i, s := range leaseSess {
					lwg.Add(1)
					go func(i int, s *paths.Session) {
						defer lwg.Done()
						cl := s.Via(kinds[(w+i)%len(kinds)])
						for atomic.LoadInt32(&lstop) == 0 {
							if err := cl.LeaseToken(bg, key, la.Token(), leaseD); err == nil {
								atomic.AddInt64(&leasesOK, 1)
							} else {
								time.Sleep(200 * time.Microsecond)
							}
						}
					}(i, s)
				}
				time.Sleep(time.Duration(rng.Intn(3000)) * time.Microsecond)
				_ = la.Unlock(bg) // may legitimately fail if the leased lock ran out first
				rb := <-got
				// keep leasing with the OLD token a little longer: none of these may touch the waiter's lock
				time.Sleep(5 * time.Millisecond)
				atomic.StoreInt32(&lstop, 1)
				lwg.Wait()
				if rb.err != nil {
					ctx.rep.Inconclusive(fmt.Sprintf("leaserace %s: waiter: %v", key, rb.err))
					continue
				}
				ctx.rep.Eval(1)
				ctx.rep.Count("leaserace_rounds", 1)
				ctx.rep.Count("leaserace_leases_acknowledged_with_holder_token", atomic.LoadInt64(&leasesOK))
				ctx.rep.Distinct(fmt.Sprintf("leaserace|N=%d|R=%d|holder=%s|waiter=%s", n, r, hk, wk))
				time.Sleep(leaseD + 150*time.Millisecond)
				bad := false
				if lk, err := sessA.Via(ck).Lock(bg, key, 0, time.Millisecond); err == nil {
					ctx.rep.Violate("c08|acquired-while-held|untimed|after-lease-with-previous-token",
						fmt.Sprintf("%s key %s: holder A (via %s) leased with its token while unlocking; waiter B (via %s) then acquired the lock WITHOUT timeout and has not unlocked, yet %v later a competitor via %s acquired it too", spec, key, hk, wk, leaseD+150*time.Millisecond, ck),
						map[string]interface{}{"batch": spec, "key": key})
					_ = lk.Unlock(bg)
					bad = true
				} else if paths.Class(err) != "lock not acquired" {
					ctx.rep.Inconclusive(fmt.Sprintf("leaserace %s: competitor: %v", key, err))
				}
				if err := rb.l.Unlock(bg); err != nil && !bad {
					if paths.Class(err) == "no such lock" {
						ctx.rep.Violate("c08|unlock-failed|own-token|after-lease-with-previous-token",
							fmt.Sprintf("%s key %s: waiter B (via %s) acquired the lock without timeout after holder A's Unlock raced with A's Lease calls; B's own Unlock fails: %v", spec, key, wk, err),
							map[string]interface{}{"batch": spec, "key": key})
						bad = true
					} else {
						ctx.rep.Inconclusive(fmt.Sprintf("leaserace %s: waiter unlock: %v", key, err))
					}
				}
				if bad {
					atomic.StoreInt32(&stop, 1)
					return
				}
			}
		}(w)
	}
	wg.Wait()
	if c.Fingerprint() != fp {
		dropViolations(ctx)
	}
}
