package main

// C05 — read, write and member-count quorums are enforced exactly.
//
// Fault enumeration: every (ReplicaCount, WriteQuorum, ReadQuorum) x every
// subset of the focus partition's backup owners made unreachable (RESP listener
// closed, member stays in the member list); the expected outcome of Put and Get
// is computed from the number of reachable copies, the copies actually stored
// are counted white-box. Member-count quorum: a starved member must answer
// every command arriving over the network and NewDMap with the cluster-quorum
// error and its stored state must not change.

import (
	"context"
	"crypto/sha256"
	"encoding/hex"
	"fmt"
	"sort"
	"strings"
	"time"

	"github.com/olric-data/olric/internal/cluster/partitions"
	"github.com/olric-data/olric/verif/cluster"
	"github.com/olric-data/olric/verif/paths"
	"github.com/olric-data/olric/verif/respc"
)

func init() {
	register("C05", &checkFn{level: "fault_enumeration", run: c05Run, child: c05Child})
}

func c05CopyCount(c *cluster.Cluster, members []*cluster.Member, dmap, key, want string) (n int, where []string) {
	owner := c.OwnerOf(dmap, key)
	for _, m := range members {
		kind := partitions.BACKUP
		if m == owner {
			kind = partitions.PRIMARY
		}
		if e, ok := m.V.DMap.VerifEntry(kind, dmap, key); ok && string(e.Value) == want {
			n++
			where = append(where, m.Name)
		}
	}
	return
}

func c05RW(ctx *runCtx, r, w, rq int, mask int) {
	n := r + 1
	spec := fmt.Sprintf("R=%d W=%d RQ=%d unreachable-mask=%b", r, w, rq, mask)
	c, err := cluster.Start(cluster.Config{Replicas: r, WriteQuorum: w, ReadQuorum: rq, Partitions: 7, TableSize: 1 << 20}, n)
	if err != nil {
		ctx.rep.Inconclusive(spec + ": cluster start: " + err.Error())
		return
	}
	defer c.Shutdown()
	bg := context.Background()
	dmap := "c05"
	all := c.Live()
	// focus key: any key; its partition fixes owner and backup owners
	focus := "focus-0"
	owner := c.OwnerOf(dmap, focus)
	backups := c.BackupsOf(dmap, focus)
	if len(backups) != r-1 {
		ctx.rep.Inconclusive(fmt.Sprintf("%s: expected %d backup owners, routing lists %d", spec, r-1, len(backups)))
		return
	}
	part := c.PartOf(dmap, focus)
	keyInPart := func(prefix string) string {
		for i := 0; ; i++ {
			k := fmt.Sprintf("%s-%d", prefix, i)
			if c.PartOf(dmap, k) == part {
				return k
			}
		}
	}
	router := paths.NewRouter(c, dmap)
	defer router.Close()
	sess := router.NewSession()
	defer sess.Close()
	// a key that exists with all its copies before the fault
	pre := keyInPart("pre")
	if err := sess.ViaMember("E", owner).Put(bg, pre, []byte("pre-value"), paths.PutOpts{}); err != nil {
		ctx.rep.Inconclusive(spec + ": pre-fault put failed: " + err.Error())
		return
	}
	if cnt, _ := c05CopyCount(c, all, dmap, pre, "pre-value"); cnt != r {
		ctx.rep.Violate(fmt.Sprintf("c05|healthy-put|copies=%d|R=%d", cnt, r), fmt.Sprintf("%s: with every member reachable an acknowledged Put stored %d copies, want %d", spec, cnt, r), map[string]interface{}{"config": spec})
		return
	}
	var down []*cluster.Member
	for i, b := range backups {
		if mask&(1<<uint(i)) != 0 {
			c.MakeUnreachable(b)
			down = append(down, b)
		}
	}
	reachable := 1 + (r - 1 - len(down))
	isDown := func(m *cluster.Member) bool {
		for _, d := range down {
			if d == m {
				return true
			}
		}
		return false
	}
	// a reachable non-owner to enter through
	var entry *cluster.Member
	for _, m := range all {
		if m != owner && !isDown(m) {
			entry = m
		}
	}
	type via struct {
		name string
		cl   paths.Client
	}
	vias := []via{{"owner", sess.ViaMember("E", owner)}, {"owner-resp", sess.ViaMember("R", owner)}}
	if entry != nil {
		vias = append(vias, via{"non-owner", sess.ViaMember("E", entry)}, via{"non-owner-resp", sess.ViaMember("R", entry)})
	}
	sess.Timeout = 20 * time.Second
	for _, v := range vias {
		// ---- Put
		k := keyInPart("put-" + v.name)
		val := "value-" + v.name
		cx, cancel := context.WithTimeout(bg, 30*time.Second)
		err := v.cl.Put(cx, k, []byte(val), paths.PutOpts{})
		cancel()
		cls := paths.Class(err)
		stored, where := c05CopyCount(c, all, dmap, k, val)
		ctx.rep.Eval(1)
		ctx.rep.Count("puts", 1)
		ctx.rep.Distinct(fmt.Sprintf("put|R=%d|W=%d|reachable=%d|via=%s", r, w, reachable, v.name))
		wantAck := reachable >= w
		desc := fmt.Sprintf("%s: Put via %s with %d of %d copies reachable returned %q and stored %d copies %v", spec, v.name, reachable, r, cls, stored, where)
		switch {
		case wantAck && cls != "ok":
			g := cls
			if strings.HasPrefix(g, "other:") || g == "net" {
				g = "transport-error"
			}
			ctx.rep.Violate(fmt.Sprintf("c05|put-refused-although-quorum-met|R=%d|W=%d|unreachable=%d|got=%s", r, w, len(down), g), desc, map[string]interface{}{"config": spec, "via": v.name, "error": fmt.Sprint(err)})
		case !wantAck && cls == "ok":
			ctx.rep.Violate(fmt.Sprintf("c05|put-acknowledged-below-quorum|R=%d|W=%d|unreachable=%d", r, w, len(down)), desc, map[string]interface{}{"config": spec, "via": v.name})
		case !wantAck && cls != "write quorum":
			g := cls
			if strings.HasPrefix(g, "other:") || g == "net" {
				g = "transport-error"
			}
			ctx.rep.Violate(fmt.Sprintf("c05|put-wrong-error|R=%d|W=%d|unreachable=%d|got=%s", r, w, len(down), g), desc+" (want the write-quorum error)", map[string]interface{}{"config": spec, "via": v.name, "error": fmt.Sprint(err)})
		case cls == "ok" && stored < w:
			ctx.rep.Violate(fmt.Sprintf("c05|put-acknowledged-with-fewer-copies|R=%d|W=%d|stored=%d", r, w, stored), desc, map[string]interface{}{"config": spec, "via": v.name})
		}
		// ---- Get of the key that existed before the fault
		cx, cancel = context.WithTimeout(bg, 30*time.Second)
		g, err := v.cl.Get(cx, pre)
		cancel()
		cls = paths.Class(err)
		ctx.rep.Eval(1)
		ctx.rep.Count("gets", 1)
		ctx.rep.Distinct(fmt.Sprintf("get|R=%d|RQ=%d|reachable=%d|via=%s", r, rq, reachable, v.name))
		desc = fmt.Sprintf("%s: Get via %s of an existing key with %d of %d copies reachable returned (%q, %q)", spec, v.name, reachable, r, g.Value, cls)
		switch {
		case reachable >= rq && (cls != "ok" || string(g.Value) != "pre-value"):
			gg := cls
			if strings.HasPrefix(gg, "other:") || gg == "net" {
				gg = "transport-error"
			}
			ctx.rep.Violate(fmt.Sprintf("c05|get-failed-although-quorum-met|R=%d|RQ=%d|unreachable=%d|got=%s", r, rq, len(down), gg), desc, map[string]interface{}{"config": spec, "via": v.name})
		case reachable < rq && cls == "ok":
			ctx.rep.Violate(fmt.Sprintf("c05|get-answered-below-quorum|R=%d|RQ=%d|unreachable=%d", r, rq, len(down)), desc, map[string]interface{}{"config": spec, "via": v.name})
		case reachable < rq && cls != "read quorum":
			gg := cls
			if strings.HasPrefix(gg, "other:") || gg == "net" {
				gg = "transport-error"
			}
			ctx.rep.Violate(fmt.Sprintf("c05|get-wrong-error|R=%d|RQ=%d|unreachable=%d|got=%s", r, rq, len(down), gg), desc+" (want the read-quorum error)", map[string]interface{}{"config": spec, "via": v.name})
		}
	}
	// ---- the owner itself has no copy (as after a failover): only obtained COPIES count towards the read quorum
	if len(down) == 0 && r >= 2 {
		lone := keyInPart("lone")
		if err := sess.ViaMember("E", owner).Put(bg, lone, []byte("lone-value"), paths.PutOpts{}); err == nil {
			_ = owner.V.DMap.VerifDeleteEntryAt(partitions.PRIMARY, dmap, lone)
			copies := r - 1
			for _, v := range vias {
				cx, cancel := context.WithTimeout(bg, 30*time.Second)
				g, err := v.cl.Get(cx, lone)
				cancel()
				cls := paths.Class(err)
				ctx.rep.Eval(1)
				ctx.rep.Distinct(fmt.Sprintf("get-owner-without-copy|R=%d|RQ=%d|copies=%d|via=%s", r, rq, copies, v.name))
				desc := fmt.Sprintf("%s: the owner has no copy, %d backup copies exist: Get via %s returned (%q, %q)", spec, copies, v.name, g.Value, cls)
				switch {
				case copies >= rq && (cls != "ok" || string(g.Value) != "lone-value"):
					ctx.rep.Violate(fmt.Sprintf("c05|get-failed-although-quorum-met|owner-without-copy|R=%d|RQ=%d", r, rq), desc, map[string]interface{}{"config": spec, "via": v.name})
				case copies < rq && cls == "ok":
					ctx.rep.Violate(fmt.Sprintf("c05|get-answered-below-quorum|owner-without-copy|R=%d|RQ=%d|copies=%d", r, rq, copies), desc, map[string]interface{}{"config": spec, "via": v.name})
				case copies < rq && cls != "read quorum":
					ctx.rep.Violate(fmt.Sprintf("c05|get-wrong-error|owner-without-copy|R=%d|RQ=%d|got=%s", r, rq, strings.SplitN(cls, ":", 2)[0]), desc, map[string]interface{}{"config": spec, "via": v.name})
				}
			}
		}
	}
	ctx.rep.Sample(map[string]interface{}{"config": spec, "owner": owner.Name, "backup_owners": len(backups), "unreachable": len(down), "reachable_copies": reachable})
}

// c05Digest hashes every entry held by a member (both kinds, all partitions, all DMaps).
func c05Digest(m *cluster.Member, parts uint64) string {
	var lines []string
	for _, kind := range []partitions.Kind{partitions.PRIMARY, partitions.BACKUP} {
		for p := uint64(0); p < parts; p++ {
			for _, name := range m.V.DMap.VerifDMapNames(kind, p) {
				ents, _ := m.V.DMap.VerifEntries(kind, p, name)
				for _, e := range ents {
					lines = append(lines, fmt.Sprintf("%d|%d|%s|%s|%x|%d|%d", kind, p, name, e.Key, e.Value, e.TTL, e.Timestamp))
				}
			}
		}
	}
	sort.Strings(lines)
	h := sha256.Sum256([]byte(strings.Join(lines, "\n")))
	return fmt.Sprintf("%d entries/%s", len(lines), hex.EncodeToString(h[:8]))
}

func c05MCQ(ctx *runCtx, mcq int) {
	spec := fmt.Sprintf("MCQ=%d N=3", mcq)
	c, err := cluster.StartTogether(cluster.Config{Replicas: 1, MemberCountQuorum: int32(mcq), Partitions: 7, TableSize: 1 << 20}, 3)
	if err != nil {
		ctx.rep.Inconclusive(spec + ": cluster start: " + err.Error())
		return
	}
	defer c.Shutdown()
	bg := context.Background()
	survivor := c.Members[0]
	dm, err := survivor.Emb.NewDMap("c05-mcq")
	if err != nil {
		ctx.rep.Inconclusive(spec + ": NewDMap on a healthy cluster failed: " + err.Error())
		return
	}
	for i := 0; i < 40; i++ {
		_ = dm.Put(bg, fmt.Sprintf("k%d", i), fmt.Sprintf("v%d", i))
	}
	if conn, err := respc.Dial(survivor.Name); err == nil {
		_, _ = conn.Do(5*time.Second, "DM.PUT", "c05-net", "k", "v") // makes the name known to the member without opening it here
		conn.Close()
	}
	// stop members until the survivor sees fewer than MCQ
	stop := 3 - mcq + 1
	for i := 0; i < stop; i++ {
		c.StopGraceful(c.Members[2-i])
	}
	deadline := time.Now().Add(20 * time.Second)
	for int(survivor.V.RT.NumMembers()) >= mcq && time.Now().Before(deadline) {
		time.Sleep(20 * time.Millisecond)
	}
	if int(survivor.V.RT.NumMembers()) >= mcq {
		ctx.rep.Inconclusive(spec + ": the survivor did not notice the departures in 20 s")
		return
	}
	time.Sleep(100 * time.Millisecond)
	before := c05Digest(survivor, 7)
	tok := strings.Repeat("ab", 16)
	cmds := [][]string{
		{"DM.PUT", "c05-mcq", "k1", "changed"}, {"DM.PUT", "c05-new", "x", "y"}, {"DM.GET", "c05-mcq", "k1"}, {"DM.DEL", "c05-mcq", "k1", "k2"},
		{"DM.EXPIRE", "c05-mcq", "k3", "1"}, {"DM.PEXPIRE", "c05-mcq", "k3", "10"}, {"DM.DESTROY", "c05-mcq"}, {"DM.SCAN", "0", "c05-mcq", "0"},
		{"DM.INCR", "c05-mcq", "ctr", "1"}, {"DM.DECR", "c05-mcq", "ctr", "1"}, {"DM.GETPUT", "c05-mcq", "k4", "z"}, {"DM.INCRBYFLOAT", "c05-mcq", "f", "1.5"},
		{"DM.LOCK", "c05-mcq", "lk", "0.1"}, {"DM.UNLOCK", "c05-mcq", "lk", tok}, {"DM.LOCKLEASE", "c05-mcq", "lk", tok, "1"}, {"DM.PLOCKLEASE", "c05-mcq", "lk", tok, "100"},
		{"DM.GETENTRY", "c05-mcq", "k1"}, {"DM.PUTENTRY", "c05-mcq", "k1", "garbage"}, {"DM.DELENTRY", "c05-mcq", "k5"},
		{"INTERNAL.NODE.MOVEFRAGMENT", "garbage"}, {"INTERNAL.NODE.LENGTHOFPART", "0"},
		{"PUBLISH", "ch", "msg"}, {"PUBLISH.INTERNAL", "ch", "msg"}, {"SUBSCRIBE", "ch"}, {"PSUBSCRIBE", "c*"},
		{"PUBSUB", "channels"}, {"PUBSUB", "numpat"}, {"PUBSUB", "numsub", "ch"},
		{"PING"}, {"STATS"}, {"CLUSTER.ROUTINGTABLE"}, {"CLUSTER.MEMBERS"},
	}
	for _, cmd := range cmds {
		conn, err := respc.Dial(survivor.Name)
		if err != nil {
			ctx.rep.Inconclusive(spec + ": dial: " + err.Error())
			continue
		}
		rep, err := conn.Do(5*time.Second, cmd...)
		conn.Close()
		ctx.rep.Eval(1)
		ctx.rep.Count("mcq_commands", 1)
		name := strings.ToLower(cmd[0])
		if name == "pubsub" {
			name += " " + strings.ToLower(cmd[1])
		}
		ctx.rep.Distinct(fmt.Sprintf("mcq=%d|cmd=%s", mcq, name))
		if err != nil {
			ctx.rep.Violate(fmt.Sprintf("c05|mcq|cmd=%s|no-reply", name), fmt.Sprintf("%s: %v got no reply from the starved member: %v", spec, cmd, err), map[string]interface{}{"config": spec, "cmd": cmd})
			continue
		}
		if !rep.IsErr() || paths.Class(fmt.Errorf("%s", rep.Str)) != "cluster quorum" {
			ctx.rep.Violate(fmt.Sprintf("c05|mcq|cmd=%s|not-refused", name), fmt.Sprintf("%s: %v was answered with %s instead of the cluster-quorum error", spec, cmd, rep.String()), map[string]interface{}{"config": spec, "cmd": cmd, "reply": rep.String()})
		}
	}
	// a new name, a name opened through this member before the starvation, and a name this
	// member only knows from requests that arrived over the network
	for _, nm := range []struct{ what, name string }{{"new-name", "c05-mcq-new"}, {"name-opened-before", "c05-mcq"}, {"name-known-from-network", "c05-net"}} {
		_, err = survivor.Emb.NewDMap(nm.name)
		ctx.rep.Eval(1)
		ctx.rep.Distinct(fmt.Sprintf("mcq=%d|NewDMap|%s", mcq, nm.what))
		if paths.Class(err) != "cluster quorum" {
			ctx.rep.Violate("c05|mcq|NewDMap|not-refused|"+nm.what, fmt.Sprintf("%s: NewDMap(%s: %s) on the starved member returned %v", spec, nm.name, nm.what, err), map[string]interface{}{"config": spec, "which": nm.what})
		}
	}
	after := c05Digest(survivor, 7)
	if after != before {
		ctx.rep.Violate("c05|mcq|state-changed", fmt.Sprintf("%s: stored state of the starved member changed while it refused requests: %s -> %s", spec, before, after), map[string]interface{}{"config": spec})
	}
	ctx.rep.Sample(map[string]interface{}{"config": spec, "commands_sent": len(cmds), "state_digest": before})
}

func c05Child(ctx *runCtx, spec string) {
	if strings.HasPrefix(spec, "mcq:") {
		var mcq int
		fmt.Sscanf(spec, "mcq:%d", &mcq)
		c05MCQ(ctx, mcq)
		return
	}
	var r, w, rq, mask int
	fmt.Sscanf(spec, "rw:%d:%d:%d:%d", &r, &w, &rq, &mask)
	c05RW(ctx, r, w, rq, mask)
}

func c05Run(ctx *runCtx) int {
	ctx.rep.Rule = "fault cases = (ReplicaCount R, WriteQuorum W, ReadQuorum RQ) with 1<=W,RQ<=R<=3 x every subset of the focus partition's R-1 backup owners made unreachable (listener closed, still a member) on a cluster of R+1 members; per case Put and Get through the owner and a reachable non-owner (embedded and raw RESP) are judged against reachable copies = 1 + reachable backups, stored copies counted white-box; member-count quorum 2 and 3 on 3 members: 32 commands on fresh connections + NewDMap must be refused with the cluster-quorum error and the member's state digest must not change; distinct_nontrivial = distinct (operation, R, quorum, reachable copies, entry) tuples and (MCQ, command) pairs executed"
	ctx.rep.Assumptions = []string{
		"for a non-existent key the error class of Get is not judged (the statement is silent)",
		"INTERNAL.NODE.UPDATEROUTING is exempt from the member-count precondition by design and is not sent",
	}
	maxR := 2
	if ctx.tier == "thorough" {
		maxR = 3
	}
	var batches []batch
	for r := 1; r <= maxR; r++ {
		for w := 1; w <= r; w++ {
			for rq := 1; rq <= r; rq++ {
				for mask := 0; mask < 1<<uint(r-1); mask++ {
					batches = append(batches, batch{Spec: fmt.Sprintf("rw:%d:%d:%d:%d", r, w, rq, mask), Timeout: 5 * time.Minute})
				}
			}
		}
	}
	batches = append(batches, batch{Spec: "mcq:2", Timeout: 5 * time.Minute}, batch{Spec: "mcq:3", Timeout: 5 * time.Minute})
	runBatches(ctx, batches, 8, func(b batch, res batchResult, tail string) {
		ctx.rep.Violate("c05|member-crashed-or-hung|"+b.Spec, fmt.Sprintf("child %s died (exit %d timeout=%v): %s", b.Spec, res.ExitCode, res.TimedOut, lastLines(tail, 12)), map[string]interface{}{"batch": b.Spec})
	})
	ctx.rep.Exhaustive = ctx.tier == "thorough"
	return ctx.rep.Finish(20)
}
