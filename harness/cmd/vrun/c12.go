package main

// C12 — a full scan returns every stable key exactly once and nothing else.
//
// Monitor: on real in-process clusters (1..3 members, ReplicaCount 1..2) a set
// of DMaps ("stores") is shaped through the public API (puts of several entry
// size classes into small tables, overwrites, deletes of contiguous blocks and
// of scattered keys, compaction to completion and mid-way, re-puts after
// compaction, keys with an expiry) while an exact model of the present /
// deleted / expiring key sets is kept. Every store is then iterated to
// completion through
//   emb   EmbeddedDMap.Scan   (local partitions via DMap.Scan, remote ones via DM.SCAN)
//   cc    ClusterDMap.Scan
//   raw   DM.SCAN <part> <dmap> <cursor> [MATCH p] [COUNT n]      per partition and listed primary owner
//   rawrc the same with RC                                         per partition and listed backup owner
// with COUNT in {1,2,3,10,100,1000000, not given} and MATCH patterns matching
// all / some / none / a contiguous block of keys, and the yielded multiset is
// compared with the model. Optionally a member joins (without balancing, so
// that moved partitions have two listed owners and the data still lives on the
// previous one), the stores are written to, and finally the cluster is
// balanced; the stores are scanned again after each of these phases.

import (
	"encoding/json"
	"fmt"
	"math/rand"
	"os"
	"sort"
	"strings"
	"time"
)

func init() {
	register("C12", &checkFn{level: "exploration", run: c12Run, child: c12Child, replay: c12Replay})
}

// c12Spec describes one child batch: one cluster and the stores shaped on it.
type c12Spec struct {
	N      int    `json:"n"`               // members
	R      int    `json:"r"`               // ReplicaCount
	P      uint64 `json:"p"`               // partitions
	TS     uint64 `json:"ts"`              // table size
	Idle0  bool   `json:"idle0,omitempty"` // recycled tables are freed at once (maxIdleTableTimeout=0)
	Stores int    `json:"stores"`
	Seed   int64  `json:"seed"`
	Join   bool   `json:"join,omitempty"`  // a member joins after phase 1 (phases 2..4)
	Churn  bool   `json:"churn,omitempty"` // phase 1 scans of odd stores run under a concurrent churn of disjoint keys
	NCount int    `json:"ncount"`          // how many of the six COUNT values each store uses
	MaxKey int    `json:"maxkey"`          // upper bound for the first put of a store
	// replay filter (0-based store index, phase, scan index; -1 = all)
	OnlyStore int `json:"only_store"`
	OnlyPhase int `json:"only_phase"`
	OnlyScan  int `json:"only_scan"`
}

func (s c12Spec) encode() string {
	b, _ := json.Marshal(s)
	return string(b)
}

func (s c12Spec) short() string {
	x := fmt.Sprintf("N=%d R=%d P=%d ts=%d", s.N, s.R, s.P, s.TS)
	if s.Idle0 {
		x += " idle0"
	}
	if s.Join {
		x += " join"
	}
	if s.Churn {
		x += " churn"
	}
	return x
}

var c12Counts = []int{1, 2, 3, 10, 100, 1000000}

// ---- shaping programs -------------------------------------------------------

// c12Op is one shaping step. Keys are named by their sequence number, so a
// selection [From,To) with seq%Mod==Rem is a pure description.
type c12Op struct {
	K    string `json:"k"` // put | over | del | call | cstep | ttl
	From int    `json:"from,omitempty"`
	To   int    `json:"to,omitempty"`
	Mod  int    `json:"mod,omitempty"`
	Rem  int    `json:"rem,omitempty"`
	Size string `json:"size,omitempty"` // S (tiny) M (third of a table) H (half) L (just fits) R (random small)
	N    int    `json:"n,omitempty"`    // cstep: steps per fragment
}

func (o c12Op) String() string {
	sel := fmt.Sprintf("[%d,%d)", o.From, o.To)
	if o.Mod > 1 {
		sel += fmt.Sprintf("%%%d=%d", o.Mod, o.Rem)
	}
	switch o.K {
	case "put", "over":
		return fmt.Sprintf("%s%s:%s", o.K, sel, o.Size)
	case "del", "ttl":
		return o.K + sel
	case "cstep":
		return fmt.Sprintf("cstep(%d)", o.N)
	}
	return o.K
}

func c12ProgString(ops []c12Op) string {
	var s []string
	for _, o := range ops {
		s = append(s, o.String())
	}
	return strings.Join(s, " ")
}

func c12KeyName(seq int) string {
	return fmt.Sprintf("k%05d-%c", seq, "abc"[(seq*7+seq/3)%3])
}

func c12TTLKeyName(seq int) string { return fmt.Sprintf("t%05d-x", seq) }

func c12ChurnKeyName(i int) string { return fmt.Sprintf("c%04d-%c", i, "ab"[i%2]) }

func c12PickSize(rng *rand.Rand) string {
	switch x := rng.Intn(10); {
	case x < 4:
		return "S"
	case x < 6:
		return "R"
	case x < 8:
		return "M"
	case x < 9:
		return "H"
	}
	return "L"
}

var c12Sizes = []int{0, 1, 2, 5, 17, 60, 150, 400, 900, 2000}

// c12GenProgram builds the shaping program of a store: a pure function of the rng.
func c12GenProgram(rng *rand.Rand, maxKey int) []c12Op {
	n := c12Sizes[rng.Intn(len(c12Sizes))]
	for n > maxKey {
		n = c12Sizes[rng.Intn(len(c12Sizes))]
	}
	size := c12PickSize(rng)
	if n > 400 && (size == "H" || size == "L" || size == "M") {
		// keep the number of tables per fragment (and the run time) bounded
		size = "R"
	}
	ops := []c12Op{{K: "put", From: 0, To: n, Size: size}}
	next := n
	if n == 0 {
		if rng.Intn(2) == 0 {
			return ops
		}
		// a store that had keys once and is empty now
		return []c12Op{{K: "put", From: 0, To: 20, Size: "S"}, {K: "del", From: 0, To: 20}, {K: []string{"call", "cstep", "del"}[rng.Intn(3)], N: 1, To: 20}}
	}
	sel := func() (int, int, int, int) {
		switch rng.Intn(4) {
		case 0: // contiguous block: whole tables of every fragment
			a := rng.Intn(next)
			b := a + 1 + rng.Intn(next-a)
			return a, b, 0, 0
		case 1: // the oldest part
			return 0, 1 + rng.Intn(next), 0, 0
		case 2: // scattered
			m := 2 + rng.Intn(4)
			return 0, next, m, rng.Intn(m)
		}
		// scattered inside a block
		a := rng.Intn(next)
		b := a + 1 + rng.Intn(next-a)
		m := 2 + rng.Intn(3)
		return a, b, m, rng.Intn(m)
	}
	steps := 1 + rng.Intn(7)
	for i := 0; i < steps; i++ {
		switch x := rng.Intn(12); {
		case x < 3:
			a, b, m, r := sel()
			ops = append(ops, c12Op{K: "over", From: a, To: b, Mod: m, Rem: r, Size: c12PickSize(rng)})
		case x < 6:
			a, b, m, r := sel()
			ops = append(ops, c12Op{K: "del", From: a, To: b, Mod: m, Rem: r})
		case x < 8:
			ops = append(ops, c12Op{K: "call"})
		case x < 10:
			ops = append(ops, c12Op{K: "cstep", N: 1 + rng.Intn(3)})
		case x < 11:
			add := 1 + rng.Intn(1+next/2)
			if add > 300 {
				add = 300
			}
			ops = append(ops, c12Op{K: "put", From: next, To: next + add, Size: c12PickSize(rng)})
			next += add
		default:
			ops = append(ops, c12Op{K: "ttl", From: 0, To: 1 + rng.Intn(8)})
		}
	}
	return ops
}

// ---- scans ------------------------------------------------------------------

type c12Scan struct {
	Kind   string `json:"kind"`   // emb | cc | raw | rawrc
	Member int    `json:"member"` // emb: index into the live members
	Count  int    `json:"count"`  // 0 = option not given
	Match  string `json:"match"`  // "" = option not given
	MClass string `json:"mclass"` // none | all | some | nomatch | block
	Churn  bool   `json:"churn,omitempty"`
}

func (s c12Scan) String() string {
	c := "default"
	if s.Count != 0 {
		c = fmt.Sprint(s.Count)
	}
	x := fmt.Sprintf("%s count=%s match=%s", s.Kind, c, s.MClass)
	if s.Match != "" {
		x += fmt.Sprintf("(%s)", s.Match)
	}
	if s.Churn {
		x += " +churn"
	}
	return x
}

// c12Pattern returns a pattern of the given class for a store with nkeys sequence numbers.
func c12Pattern(rng *rand.Rand, class string, nkeys int) string {
	switch class {
	case "all":
		return []string{".", "^[kct]", "-[abx]$", "k|c|t", "^.*$"}[rng.Intn(5)]
	case "some":
		return []string{"-a$", "[13579]-", "^k0000", "-(a|b)$", "0+1", "^k[0-9]*[05]-", "7"}[rng.Intn(7)]
	case "nomatch":
		return []string{"^zzz", "q$", "^k-", "-d$", "^K"}[rng.Intn(5)]
	case "block":
		if nkeys <= 0 {
			return "^k00000"
		}
		// ten or hundred consecutively inserted keys: a few tables of every fragment
		if nkeys >= 200 && rng.Intn(2) == 0 {
			return fmt.Sprintf("^k%03d", rng.Intn(nkeys/100))
		}
		return fmt.Sprintf("^k%04d", rng.Intn(nkeys/10+1))
	}
	return ""
}

var c12MClasses = []string{"none", "all", "some", "nomatch", "block"}

// c12GenScans builds the scan list of one store for one phase.
func c12GenScans(rng *rand.Rand, spec c12Spec, storeIdx, phase, members, nkeys int, churn bool) []c12Scan {
	var scans []c12Scan
	kinds := []string{"emb", "cc", "raw"}
	if spec.R >= 2 && members >= 2 {
		kinds = append(kinds, "rawrc")
	}
	nc := spec.NCount
	if phase > 1 {
		nc = 2
	}
	rot := storeIdx + phase*2
	for ci := 0; ci < nc; ci++ {
		count := c12Counts[(rot+ci*5)%len(c12Counts)] // 5 is coprime to 6: distinct values
		for ki, kind := range kinds {
			class := c12MClasses[(rot+ci+ki*2)%len(c12MClasses)]
			scans = append(scans, c12Scan{Kind: kind, Member: rng.Intn(members), Count: count,
				Match: c12Pattern(rng, class, nkeys), MClass: class, Churn: churn})
		}
	}
	// COUNT option not given (server / client default of 10)
	k := kinds[rot%len(kinds)]
	class := c12MClasses[rot%len(c12MClasses)]
	scans = append(scans, c12Scan{Kind: k, Member: rng.Intn(members), Count: 0, Match: c12Pattern(rng, class, nkeys), MClass: class, Churn: churn})
	if phase == 1 {
		// zero / negative COUNT: outside the quantifier (1..large); only termination and ghosts are judged
		scans = append(scans,
			c12Scan{Kind: []string{"emb", "cc"}[rot%2], Member: rng.Intn(members), Count: -1 - rng.Intn(3), MClass: "none"},
			c12Scan{Kind: "raw", Count: -1, MClass: "none"},
		)
	}
	return scans
}

// ---- parent -----------------------------------------------------------------

func c12Batches(seed int64, tier string) []batch {
	type cfg struct {
		n, r  int
		p, ts uint64
		idle0 bool
		join  bool
	}
	base := []cfg{
		{1, 1, 7, 512, false, true},
		{1, 2, 3, 1024, true, true},
		{2, 1, 7, 512, false, true},
		{2, 2, 7, 1024, false, true},
		{3, 1, 13, 512, false, false},
		{3, 2, 7, 4096, false, false},
		{3, 2, 13, 512, true, false},
		{1, 1, 1, 512, false, false},
		{2, 2, 3, 512, true, true},
		{3, 1, 7, 1024, true, false},
		{2, 1, 13, 4096, false, false},
		{1, 1, 7, 1 << 20, false, true},
	}
	var bs []batch
	if tier == "quick" {
		for i, c := range base {
			s := c12Spec{N: c.n, R: c.r, P: c.p, TS: c.ts, Idle0: c.idle0, Join: c.join, Stores: 12,
				Seed: seed*100000 + int64(i), NCount: 4, MaxKey: 2000, OnlyStore: -1, OnlyPhase: -1, OnlyScan: -1}
			if c.ts >= 4096 {
				s.MaxKey = 2000
			}
			bs = append(bs, batch{Spec: s.encode(), Timeout: 8 * time.Minute})
		}
		return bs
	}
	rng := rand.New(rand.NewSource(seed*7919 + 17))
	for round := 0; round < 4; round++ {
		for i, c := range base {
			s := c12Spec{N: c.n, R: c.r, P: c.p, TS: c.ts, Idle0: c.idle0, Join: c.join, Stores: 13,
				Seed: seed*100000 + 1000 + int64(round*100+i), NCount: 6, MaxKey: 2000, OnlyStore: -1, OnlyPhase: -1, OnlyScan: -1}
			if round > 0 {
				// vary the configuration around the base grid
				s.P = []uint64{1, 3, 7, 13, 31}[rng.Intn(5)]
				s.TS = []uint64{512, 1024, 4096, 300, 2048}[rng.Intn(5)]
				s.Idle0 = rng.Intn(2) == 0
				s.Join = c.n < 3 && rng.Intn(3) != 0
				if s.P == 1 && (s.N > 1 || s.Join) {
					// fewer partitions than members: the consistent-hash library panics ("not enough room to distribute partitions")
					s.P = 3
				}
			}
			s.Churn = round%2 == 1
			b := batch{Spec: s.encode(), Timeout: 25 * time.Minute}
			bs = append(bs, b)
		}
	}
	// one smaller batch under the race detector (slower, different interleavings)
	s := c12Spec{N: 2, R: 2, P: 7, TS: 512, Join: true, Churn: true, Stores: 4, Seed: seed*100000 + 9001, NCount: 3, MaxKey: 400, OnlyStore: -1, OnlyPhase: -1, OnlyScan: -1}
	bs = append(bs, batch{Spec: s.encode(), Timeout: 25 * time.Minute, Race: true})
	return bs
}

func c12Run(ctx *runCtx) int {
	ctx.rep.Rule = "case = one complete iteration of one shaped DMap: (cluster N members x ReplicaCount x partitions x table size x recycled-table policy) x shaping program " +
		"(puts of 5 entry-size classes, overwrites, deletes of blocks/scattered keys, compaction to completion / k steps, re-puts, expiring keys) x phase " +
		"(1 stable, 2 after a member joined without balancing, 3 after writes in that state, 4 after balancing) x iterator (emb, cc, raw, rawrc) x COUNT x MATCH class; " +
		"the yielded multiset is compared with the exact model of present/deleted/never-stored keys. " +
		"distinct_nontrivial = distinct (iterator, COUNT, MATCH class, N, R, phase, layout signature) where the layout signature is read white-box " +
		"(max tables per fragment bucket, coefficient gaps, recycled tables, empty tables, partitions with several listed owners)"
	ctx.rep.Assumptions = []string{
		"shaping is sequential and every Put/Delete returned nil, so the model is exact; a store whose shaping reported an error is dropped as inconclusive",
		"expired-but-not-evicted keys and churn keys are neither required nor forbidden; COUNT <= 0 is outside the quantifier: only termination and ghosts are judged",
		"rawrc (backup copies) must contain every present key only in the stable phase 1 with synchronous replication; in phases 2-4 only ghosts are judged for rawrc",
		"livelock inside a single Next call is decided by counting DMap.Scan calls on the members (hook scan.fragment) against 2*owners*(keys+P*(tables+1))+64, not by wall-clock; a wall-clock stall below that count is inconclusive",
		"a client iteration that logged '[ERROR] Failed to fetch data' because of a timeout / connection error is inconclusive, any other error is a violation",
	}
	batches := c12Batches(ctx.seed, ctx.tier)
	// iterations whose cursor table is compacted away while they are paused (c12_mid.go)
	midRounds := 9
	if ctx.tier == "thorough" {
		midRounds = 90
	}
	for i, cfg := range []string{"N=1 R=1 P=1 ts=4096", "N=2 R=2 P=3 ts=4096", "N=3 R=1 P=7 ts=2048"} {
		batches = append(batches, batch{Spec: fmt.Sprintf("mid %s rounds=%d seed=%d", cfg, midRounds, ctx.seed*100+int64(i)), Timeout: 20 * time.Minute})
	}
	parallel := 6
	results := runBatches(ctx, batches, parallel, func(b batch, res batchResult, tail string) {
		if res.Merged && res.ExitCode == 4 {
			return // the child recorded a non-termination itself and gave up
		}
		if res.Merged && res.ExitCode == 66 && b.Race {
			// the race detector reported data races (not judged by this property); the batch itself completed
			ctx.rep.Count("race_batches_with_data_race_reports", 1)
			return
		}
		var s c12Spec
		_ = json.Unmarshal([]byte(b.Spec), &s)
		key := "c12|child-died|" + s.short()
		ctx.rep.Violate(key, fmt.Sprintf("child for %s died (exit %d, timeout=%v): %s", s.short(), res.ExitCode, res.TimedOut, lastLines(tail, 14)),
			map[string]interface{}{"spec": s, "log": res.LogPath})
	})
	merged := 0
	for _, r := range results {
		if r.Merged {
			merged++
		}
	}
	ctx.rep.Extra("batches", len(batches))
	ctx.rep.Extra("batches_merged", merged)
	ctx.rep.Extra("race_detector_batches", countRace(batches))
	floor := 1500
	if ctx.tier == "thorough" {
		floor = 15000
	}
	return ctx.rep.Finish(floor)
}

func c12Child(ctx *runCtx, spec string) {
	if strings.HasPrefix(spec, "mid ") {
		c12MidChild(ctx, spec)
		return
	}
	var s c12Spec
	if err := json.Unmarshal([]byte(spec), &s); err != nil {
		fmt.Fprintln(os.Stderr, "bad spec:", err)
		os.Exit(2)
	}
	fmt.Println("C12 spec", spec)
	env := newC12Env(ctx, s)
	env.run()
}

func c12Replay(ctx *runCtx, path string) int {
	var doc struct {
		Key    string `json:"key"`
		Replay struct {
			Spec  c12Spec `json:"spec"`
			Store int     `json:"store"`
			Phase int     `json:"phase"`
			Scan  int     `json:"scan_index"`
		} `json:"replay"`
	}
	if err := readJSON(path, &doc); err != nil {
		fmt.Fprintln(os.Stderr, err)
		return 2
	}
	s := doc.Replay.Spec
	if s.N == 0 {
		fmt.Fprintln(os.Stderr, "replay file has no spec")
		return 2
	}
	s.OnlyStore, s.OnlyPhase, s.OnlyScan = doc.Replay.Store, doc.Replay.Phase, doc.Replay.Scan
	ctx.rep = newReplayReport()
	env := newC12Env(ctx, s)
	env.replay = true
	env.run()
	p := ctx.rep.Partial()
	if len(p.Violations) == 0 {
		fmt.Printf("replay: holds (%d iterations re-executed)\n", p.Evaluations)
		return 0
	}
	var keys []string
	for _, v := range p.Violations {
		keys = append(keys, v.Key)
	}
	sort.Strings(keys)
	for _, v := range p.Violations {
		fmt.Printf("replay: VIOLATION property=C12 replay=%s key=%q detail=%q\n", path, v.Key, v.Detail)
	}
	return 1
}
