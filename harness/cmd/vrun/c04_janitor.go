package main

// C04, "janitor" batches: the janitor that removes empty fragments runs at a hostile cadence on every member while
// several workers, each with a DMap of its own, repeat Put -> compare copies -> Delete -> compare. Every Put lands in
// a fragment that is empty (and is being examined by the janitor) on the primary and on the backup owners; after the
// acknowledgement the primary copy and every backup copy must be there and equal, after the Delete none may be left.

import (
	"context"
	"fmt"
	"sync"
	"sync/atomic"
	"time"

	"github.com/olric-data/olric/internal/cluster/partitions"
	"github.com/olric-data/olric/verif/cluster"
	"github.com/olric-data/olric/verif/paths"
)

func c04JanitorChild(ctx *runCtx, spec string) {
	var n, r, workers, iters int
	var seed int64
	fmt.Sscanf(spec, "janitor N=%d R=%d workers=%d iters=%d seed=%d", &n, &r, &workers, &iters, &seed)
	c, err := cluster.Start(cluster.Config{Replicas: r, Partitions: 7, TableSize: 1 << 16, WriteQuorum: 1, JanitorInterval: 100 * time.Microsecond}, n)
	if err != nil {
		ctx.rep.Inconclusive(spec + ": cluster start: " + err.Error())
		return
	}
	defer c.Shutdown()
	fp := c.Fingerprint()
	var stop int32
	var wg sync.WaitGroup
	for w := 0; w < workers; w++ {
		wg.Add(1)
		go func(w int) {
			defer wg.Done()
			name := fmt.Sprintf("c04j-%d-%d", seed, w)
			router := paths.NewRouter(c, name)
			defer router.Close()
			sess := router.NewSession()
			defer sess.Close()
			kinds := []string{"EO", "EN", "CC", "RO"}
			if n == 1 {
				kinds = []string{"EO", "CC", "RO"}
			}
			key := fmt.Sprintf("k%d", w)
			owner := c.OwnerOf(name, key)
			backups := c.BackupsOf(name, key)
			for i := 0; i < iters && atomic.LoadInt32(&stop) == 0; i++ {
				kind := kinds[(i+w)%len(kinds)]
				val := fmt.Sprintf("v%d-%d", w, i)
				cx, cancel := context.WithTimeout(context.Background(), 20*time.Second)
				err := sess.Via(kind).Put(cx, key, []byte(val), paths.PutOpts{})
				cancel()
				if err != nil {
					ctx.rep.Inconclusive(fmt.Sprintf("%s: Put via %s: %v", spec, kind, err))
					return
				}
				ctx.rep.Eval(1)
				ctx.rep.Count("janitor_race_puts_via_"+kind, 1)
				bad := ""
				if e, ok := owner.V.DMap.VerifEntry(partitions.PRIMARY, name, key); !ok {
					bad = "the primary copy is missing"
				} else if string(e.Value) != val {
					bad = fmt.Sprintf("the primary copy is %q", e.Value)
				}
				for _, b := range backups {
					if e, ok := b.V.DMap.VerifEntry(partitions.BACKUP, name, key); !ok {
						if bad == "" {
							bad = "the backup copy on " + b.Name + " is missing"
						}
					} else if string(e.Value) != val && bad == "" {
						bad = fmt.Sprintf("the backup copy on %s is %q", b.Name, e.Value)
					}
				}
				if bad != "" {
					ctx.rep.Violate("c04|Put|"+kind+"|field=presence|janitor-race", fmt.Sprintf("%s dmap=%s: after the acknowledged Put(%s=%s) via %s into an empty fragment (janitor every 100us): %s", spec, name, key, val, kind, bad),
						map[string]interface{}{"batch": spec, "dmap": name, "iteration": i})
					atomic.StoreInt32(&stop, 1)
					return
				}
				cx, cancel = context.WithTimeout(context.Background(), 20*time.Second)
				_, err = sess.Via(kinds[(i+w+1)%len(kinds)]).Delete(cx, key)
				cancel()
				if err != nil {
					ctx.rep.Inconclusive(fmt.Sprintf("%s: Delete: %v", spec, err))
					return
				}
				left := ""
				if _, ok := owner.V.DMap.VerifEntry(partitions.PRIMARY, name, key); ok {
					left = "primary copy on " + owner.Name
				}
				for _, b := range backups {
					if _, ok := b.V.DMap.VerifEntry(partitions.BACKUP, name, key); ok {
						left = "backup copy on " + b.Name
					}
				}
				if left != "" {
					ctx.rep.Violate("c04|Delete|-|field=presence|janitor-race", fmt.Sprintf("%s dmap=%s: after the acknowledged Delete(%s) the %s is still there", spec, name, key, left), map[string]interface{}{"batch": spec, "dmap": name})
					atomic.StoreInt32(&stop, 1)
					return
				}
			}
			ctx.rep.Distinct(fmt.Sprintf("janitor-race|N=%d|R=%d|worker=%d", n, r, w%4))
		}(w)
	}
	wg.Wait()
	if c.Fingerprint() != fp {
		if k := ctx.rep.DropViolations(); k > 0 {
			ctx.rep.Inconclusive(fmt.Sprintf("%s: membership/routing changed; %d violation(s) dropped", spec, k))
		}
	}
	ctx.rep.Sample(map[string]interface{}{"config": spec, "workers": workers, "iterations_each": iters})
}
