package main

// C04 — every backup copy mirrors the primary after each acknowledged operation.
//
// Sequential random scripts over the whole mutating API through random entry
// paths; after every acknowledged operation the complete primary fragment of
// every partition is compared (white-box, under the fragment locks) with the
// backup fragment on each listed backup owner: same key set, value, expiry and
// write timestamp.

import (
	"context"
	"fmt"
	"math/rand"
	"sort"
	"strings"
	"time"

	"github.com/olric-data/olric/config"
	"github.com/olric-data/olric/internal/cluster/partitions"
	"github.com/olric-data/olric/internal/dmap"
	"github.com/olric-data/olric/internal/kvstore/entry"
	"github.com/olric-data/olric/verif/cluster"
	"github.com/olric-data/olric/verif/paths"
	"github.com/olric-data/olric/verif/respc"
)

func init() {
	register("C04", &checkFn{level: "exploration", run: c04Run, child: c04Child})
}

type c04Step struct {
	Op   string `json:"op"`
	Opts string `json:"opts,omitempty"`
	Key  string `json:"key"`
	Path string `json:"path"`
	Res  string `json:"result"`
}

func (s c04Step) String() string {
	o := s.Op
	if s.Opts != "" && s.Opts != "-" {
		o += "[" + s.Opts + "]"
	}
	return fmt.Sprintf("%s(%s) via %s -> %s", o, s.Key, s.Path, s.Res)
}

type c04Copy struct {
	Value string
	TTL   int64
	TS    int64
}

func c04Fragment(m *cluster.Member, kind partitions.Kind, part uint64, name string) map[string]c04Copy {
	res := map[string]c04Copy{}
	ents, ok := m.V.DMap.VerifEntries(kind, part, name)
	if !ok {
		return res
	}
	for _, e := range ents {
		res[e.Key] = c04Copy{Value: string(e.Value), TTL: e.TTL, TS: e.Timestamp}
	}
	return res
}

// c04Compare returns "" if every backup fragment equals the primary fragment, else field + description.
func c04Compare(c *cluster.Cluster, name string) (field, detail string, copies int) {
	live := c.Live()
	for part := uint64(0); part < c.Cfg.Partitions; part++ {
		owner := c.ByID(live[0].V.Primary.PartitionByID(part).Owner().ID)
		if owner == nil {
			return "routing", fmt.Sprintf("partition %d has no live owner", part), copies
		}
		prim := c04Fragment(owner, partitions.PRIMARY, part, name)
		for _, bo := range live[0].V.Backup.PartitionByID(part).Owners() {
			bm := c.ByID(bo.ID)
			if bm == nil {
				continue
			}
			back := c04Fragment(bm, partitions.BACKUP, part, name)
			copies += len(back)
			var keys []string
			for k := range prim {
				keys = append(keys, k)
			}
			for k := range back {
				if _, ok := prim[k]; !ok {
					keys = append(keys, k)
				}
			}
			sort.Strings(keys)
			for _, k := range keys {
				p, pok := prim[k]
				b, bok := back[k]
				switch {
				case pok && !bok:
					return "presence", fmt.Sprintf("key %q is on the primary (%s) but missing on backup %s", k, owner.Name, bm.Name), copies
				case !pok && bok:
					return "presence", fmt.Sprintf("key %q is absent on the primary (%s) but present on backup %s (value %q ttl=%d)", k, owner.Name, bm.Name, short(b.Value), b.TTL), copies
				case p.Value != b.Value:
					return "value", fmt.Sprintf("key %q: primary value %q, backup %s value %q", k, short(p.Value), bm.Name, short(b.Value)), copies
				case p.TTL != b.TTL:
					return "ttl", fmt.Sprintf("key %q: primary ttl %d, backup %s ttl %d", k, p.TTL, bm.Name, b.TTL), copies
				case p.TS != b.TS:
					return "timestamp", fmt.Sprintf("key %q: primary timestamp %d, backup %s timestamp %d", k, p.TS, bm.Name, b.TS), copies
				}
			}
		}
	}
	return "", "", copies
}

func c04Child(ctx *runCtx, spec string) {
	if strings.HasPrefix(spec, "janitor ") {
		c04JanitorChild(ctx, spec)
		return
	}
	var n, r, scripts int
	var ts uint64
	var seed int64
	var lru int
	fmt.Sscanf(spec, "N=%d R=%d ts=%d lru=%d scripts=%d seed=%d", &n, &r, &ts, &lru, &scripts, &seed)
	ccfg := cluster.Config{Replicas: r, Partitions: 7, TableSize: ts, WriteQuorum: 1, EvictionWorkers: 1, ReadRepair: seed%2 == 1}
	if ccfg.ReadRepair {
		ctx.rep.Count("clusters_with_read_repair", 1)
	}
	if lru >= 1 {
		ccfg.DMaps = func(d *config.DMaps) {
			d.EvictionPolicy = config.LRUEviction
			d.MaxKeys = 14 // 7 partitions over n members: a handful of keys per fragment
			d.LRUSamples = 5
			switch lru {
			case 2:
				d.MaxKeys = 3 // fewer keys than owned partitions: every fragment holds one key
			case 3:
				d.LRUSamples = 1 // the eviction sample is a single key
			}
		}
	}
	if ts <= 4096 {
		// few partitions and large values: a fragment rolls over to a new table every few
		// writes, so that a key is overwritten after its table filled up
		ccfg.Partitions = 3
		if n > 3 {
			ccfg.Partitions = 5 // fewer partitions than members is a configuration the hash ring rejects
		}
	}
	c, err := cluster.Start(ccfg, n)
	if err != nil {
		ctx.rep.Inconclusive("cluster start: " + err.Error())
		return
	}
	defer c.Shutdown()
	rng := rand.New(rand.NewSource(seed))
	bg := context.Background()
	kinds := paths.Kinds

	for sc := 0; sc < scripts; sc++ {
		name := fmt.Sprintf("c04-%d-%d", seed, sc)
		router := paths.NewRouter(c, name)
		sess := router.NewSession()
		nkeys := 6
		if lru >= 1 {
			nkeys = 40
		}
		keys := make([]string, nkeys)
		for i := range keys {
			keys[i] = fmt.Sprintf("k%d", i)
		}
		locks := map[string]paths.Lock{}
		var script []c04Step
		steps := 12 + rng.Intn(19)
		if lru >= 1 {
			steps = 60
		}
		if ts <= 4096 {
			steps = 40 + rng.Intn(30)
		}
		counter := 0
		violated := false
		fp := c.Fingerprint()
		for st := 0; st < steps && !violated; st++ {
			key := keys[rng.Intn(len(keys))]
			kind := kinds[rng.Intn(len(kinds))]
			cl := sess.Via(kind)
			counter++
			val := []byte(fmt.Sprintf("v%d-%s", counter, strings.Repeat("x", rng.Intn(40))))
			if ts <= 4096 {
				val = []byte(fmt.Sprintf("v%d-%s", counter, strings.Repeat("x", 150+rng.Intn(200))))
			}
			step := c04Step{Key: key, Path: kind}
			var err error
			cx, cancel := context.WithTimeout(bg, 20*time.Second)
			x := rng.Intn(100)
			if lru >= 1 {
				x = rng.Intn(42) // puts mostly, to push fragments over their share; some Expire / GetPut
			}
			// embedded calls made with a context that is already cancelled: either refused, or acknowledged
			// and then complete on every copy
			doneCtx := (kind == "EO" || kind == "EN") && x < 82 && rng.Intn(5) == 0
			if doneCtx {
				cancel()
			}
			switch {
			case x < 30:
				step.Op = "Put"
				var o paths.PutOpts
				switch rng.Intn(3) {
				case 1:
					o.NX = true
				case 2:
					o.XX = true
				}
				long := 60 * time.Second
				switch rng.Intn(6) {
				case 1:
					o.EX = long
				case 2:
					o.PX = long + 500*time.Millisecond
				case 3:
					o.EXAT = time.Duration(time.Now().Add(long).Unix()) * time.Second
				case 4:
					o.PXAT = time.Duration(time.Now().Add(long).UnixMilli()) * time.Millisecond
				case 5:
					o.PX = 150 * time.Millisecond // will expire during the script
				}
				step.Opts = o.String()
				if o.PX == 150*time.Millisecond {
					step.Opts += "(short)"
				}
				err = cl.Put(cx, key, val, o)
			case x < 40:
				step.Op = "Expire"
				d := []time.Duration{30 * time.Second, 45500 * time.Millisecond, 200 * time.Millisecond}[rng.Intn(3)]
				step.Opts = d.String()
				err = cl.Expire(cx, key, d)
			case x < 50:
				step.Op = "GetPut"
				_, _, err = cl.GetPut(cx, key, val)
			case x < 58:
				step.Op = "Incr"
				_, err = cl.Incr(cx, key, 1+rng.Intn(5))
			case x < 64:
				step.Op = "Decr"
				_, err = cl.Decr(cx, key, 1+rng.Intn(5))
			case x < 70:
				step.Op = "IncrByFloat"
				_, err = cl.IncrByFloat(cx, key, 0.5)
			case x < 82:
				step.Op = "Delete"
				_, err = cl.Delete(cx, key)
			case x < 92:
				if kind == "PL" {
					cl = sess.Via("CC")
					step.Path = "CC"
				}
				lk := "lock-" + key
				step.Key = lk
				if held, ok := locks[lk]; ok {
					if rng.Intn(2) == 0 {
						step.Op = "Unlock"
						err = held.Unlock(cx)
						delete(locks, lk)
					} else {
						step.Op = "Lease"
						err = held.Lease(cx, 40*time.Second)
					}
				} else {
					timeout := time.Duration(0)
					step.Op = "Lock"
					if rng.Intn(2) == 0 {
						timeout = 50 * time.Second
						step.Op = "LockWithTimeout"
					}
					var l paths.Lock
					l, err = cl.Lock(cx, lk, timeout, 200*time.Millisecond)
					if err == nil {
						locks[lk] = l
					}
				}
			default:
				step.Op = "ttl-eviction-scan"
				step.Key = "*"
				step.Path = "-"
				time.Sleep(220 * time.Millisecond) // let the short TTLs pass
				for _, m := range c.Live() {
					m.V.DMap.VerifEvictScanAll()
				}
			}
			cancel()
			if doneCtx {
				step.Opts += "(cancelled-context)"
				ctx.rep.Count("calls_with_cancelled_context", 1)
				if err != nil {
					// refused: nothing is promised about this call; an acknowledged plain Put of the key follows,
					// after which the key's copies must agree again
					ctx.rep.Count("calls_with_cancelled_context_refused", 1)
					step.Res = "refused"
					script = append(script, step)
					hx, hcancel := context.WithTimeout(bg, 20*time.Second)
					err = sess.Via("EO").Put(hx, key, val, paths.PutOpts{})
					hcancel()
					step = c04Step{Key: key, Path: "EO", Op: "Put", Opts: "(after the refused call)"}
				} else {
					ctx.rep.Count("calls_with_cancelled_context_acknowledged", 1)
				}
			}
			step.Res = paths.Class(err)
			script = append(script, step)
			ctx.rep.Count("ops_"+step.Op, 1)
			ctx.rep.Count("ops_via_"+step.Path, 1)
			if step.Res == "net" {
				ctx.rep.Inconclusive(fmt.Sprintf("%s script %d: transport error at step %d", spec, sc, st))
				break
			}
			// compare; background eviction may be in the middle of removing an expired
			// key (backups first, then the primary): only a persistent difference counts
			var field, detail string
			var copies int
			for try := 0; try < 8; try++ {
				field, detail, copies = c04Compare(c, name)
				if field == "" {
					break
				}
				time.Sleep(25 * time.Millisecond)
			}
			ctx.rep.Count("fragment_comparisons", 1)
			ctx.rep.Count("backup_copies_compared", int64(copies))
			if field != "" && c.Fingerprint() != fp {
				ctx.rep.Inconclusive(fmt.Sprintf("%s script %d: membership/routing changed during the script (not a stable cluster)", spec, sc))
				_ = c.WaitStable(30 * time.Second)
				break
			}
			if field != "" {
				violated = true
				op := step.Op
				if step.Opts != "" && step.Opts != "-" {
					op += "[" + strings.Split(step.Opts, "(")[0] + "]"
					if strings.Contains(step.Opts, "(short)") {
						op = step.Op + "[PX]"
					}
				}
				if step.Op == "Expire" {
					op = "Expire"
				}
				var ss []string
				for _, s := range script {
					ss = append(ss, s.String())
				}
				pathKey := step.Path
				ctx.rep.Violate(fmt.Sprintf("c04|%s|%s|field=%s|lru=%d", op, pathKey, field, lru),
					fmt.Sprintf("%s dmap=%s after step %d %s: %s", spec, name, st, step.String(), detail),
					map[string]interface{}{"config": spec, "dmap": name, "script": ss, "difference": detail})
			}
		}
		// behavioural cross-check: DM.GETENTRY on the owner vs DM.GETENTRY ... RC on every backup owner
		if !violated {
			for _, k := range keys {
				owner := c.OwnerOf(name, k)
				pe, pok := c04GetEntry(owner, name, k, false)
				for _, bm := range c.BackupsOf(name, k) {
					be, bok := c04GetEntry(bm, name, k, true)
					ctx.rep.Count("getentry_rc_comparisons", 1)
					if pok != bok || (pok && (pe.Value != be.Value || pe.TTL != be.TTL || pe.TS != be.TS)) {
						// may be an expiry racing with the two reads: re-read once
						time.Sleep(30 * time.Millisecond)
						pe, pok = c04GetEntry(owner, name, k, false)
						be, bok = c04GetEntry(bm, name, k, true)
						if pok != bok || (pok && (pe.Value != be.Value || pe.TTL != be.TTL || pe.TS != be.TS)) {
							ctx.rep.Violate(fmt.Sprintf("c04|getentry-rc-differs|lru=%d", lru),
								fmt.Sprintf("%s dmap=%s key=%s: DM.GETENTRY on the owner gives (found=%v %v), DM.GETENTRY RC on %s gives (found=%v %v)", spec, name, k, pok, pe, bm.Name, bok, be),
								map[string]interface{}{"config": spec, "dmap": name, "key": k})
						}
					}
				}
			}
		}
		ctx.rep.Eval(1)
		kindsUsed := map[string]bool{}
		for _, s := range script {
			kindsUsed[s.Op] = true
		}
		if len(kindsUsed) >= 4 {
			var ks []string
			for k := range kindsUsed {
				ks = append(ks, k)
			}
			sort.Strings(ks)
			ctx.rep.Distinct(fmt.Sprintf("R=%d|lru=%d|%s", r, lru, strings.Join(ks, "+")))
		}
		if sc == 0 {
			var ss []string
			for _, s := range script {
				ss = append(ss, s.String())
			}
			ctx.rep.Sample(map[string]interface{}{"config": spec, "dmap": name, "script": ss})
		}
		if d, err := c.Live()[0].Emb.NewDMap(name); err == nil {
			_ = d.Destroy(bg) // free the fragments of this script
		}
		sess.Close()
		router.Close()
	}
}

func c04GetEntry(m *cluster.Member, name, key string, replica bool) (c04Copy, bool) {
	conn, err := respc.Dial(m.Name)
	if err != nil {
		return c04Copy{}, false
	}
	defer conn.Close()
	args := []string{"DM.GETENTRY", name, key}
	if replica {
		args = append(args, "RC")
	}
	rep, err := conn.Do(5*time.Second, args...)
	if err != nil || rep.IsErr() || rep.Null {
		return c04Copy{}, false
	}
	e := entry.New()
	e.Decode([]byte(rep.Str))
	return c04Copy{Value: string(e.Value()), TTL: e.TTL(), TS: e.Timestamp()}, true
}

var _ = dmap.ErrKeyNotFound

func c04Run(ctx *runCtx) int {
	ctx.rep.Rule = "one evaluation = one sequential script (12-30 steps, 60 with LRU) over Put x {-,NX,XX} x {-,EX,PX,EXAT,PXAT,short PX}, Expire/PExpire, GetPut, Incr, Decr, IncrByFloat, Delete, Lock/LockWithTimeout/Unlock/Lease, TTL eviction scans and LRU eviction, each step through a random entry path; after EVERY step the whole primary fragment of every partition is compared white-box with the backup fragment on every listed backup owner (key set, value, expiry, write timestamp); distinct_nontrivial = distinct (R, lru, set of operation kinds) with >= 4 kinds"
	ctx.rep.Assumptions = []string{
		"stable membership, synchronous replication, WriteQuorum=1",
		"a difference must persist for 8 polls over 200 ms to count (background eviction removes backups first, then the primary copy)",
		"last-access time is not compared (the statement does not mention it)",
	}
	scripts := 12
	if ctx.tier == "thorough" {
		scripts = 300
	}
	var batches []batch
	i := int64(0)
	for _, nr := range [][2]int{{3, 2}, {3, 3}, {4, 2}, {4, 3}} {
		for _, ts := range []uint64{1024, 1 << 20} {
			i++
			batches = append(batches, batch{Spec: fmt.Sprintf("N=%d R=%d ts=%d lru=0 scripts=%d seed=%d", nr[0], nr[1], ts, scripts, ctx.seed*1000+i), Timeout: 20 * time.Minute})
		}
	}
	lruScripts := 3
	if ctx.tier == "thorough" {
		lruScripts = 40
	}
	batches = append(batches, batch{Spec: fmt.Sprintf("N=3 R=2 ts=1048576 lru=1 scripts=%d seed=%d", lruScripts, ctx.seed*1000+50), Timeout: 20 * time.Minute})
	batches = append(batches, batch{Spec: fmt.Sprintf("N=4 R=3 ts=1024 lru=1 scripts=%d seed=%d", lruScripts, ctx.seed*1000+51), Timeout: 20 * time.Minute})
	batches = append(batches, batch{Spec: fmt.Sprintf("N=3 R=2 ts=1048576 lru=2 scripts=%d seed=%d", lruScripts, ctx.seed*1000+52), Timeout: 20 * time.Minute})
	batches = append(batches, batch{Spec: fmt.Sprintf("N=3 R=3 ts=1048576 lru=3 scripts=%d seed=%d", lruScripts, ctx.seed*1000+53), Timeout: 20 * time.Minute})
	ji := 600
	if ctx.tier == "thorough" {
		ji = 6000
	}
	batches = append(batches,
		batch{Spec: fmt.Sprintf("janitor N=2 R=2 workers=8 iters=%d seed=%d", ji, ctx.seed*1000+60), Timeout: 20 * time.Minute},
		batch{Spec: fmt.Sprintf("janitor N=3 R=3 workers=8 iters=%d seed=%d", ji, ctx.seed*1000+61), Timeout: 20 * time.Minute})
	runBatches(ctx, batches, 6, func(b batch, res batchResult, tail string) {
		ctx.rep.Violate("c04|member-crashed-or-hung", fmt.Sprintf("child %s died (exit %d timeout=%v): %s", b.Spec, res.ExitCode, res.TimedOut, lastLines(tail, 12)), map[string]interface{}{"batch": b.Spec})
	})
	return ctx.rep.Finish(20)
}
