package main

// C10 "revive" scenario (added after a red-team change that the idle monitor missed):
// keys are left idle for about one window and are then written again by several
// concurrent writers while the eviction workers run. A key written just now is inside
// its idle window: it must be readable right after the Put returns and must still be
// there a moment later. This catches an eviction scan that decides under one lock
// acquisition and deletes under another without looking at the key again.

import (
	"context"
	"fmt"
	"math/rand"
	"sync"
	"sync/atomic"
	"time"

	"github.com/olric-data/olric/config"
	"github.com/olric-data/olric/internal/cluster/partitions"
	"github.com/olric-data/olric/verif/cluster"
	"github.com/olric-data/olric/verif/paths"
)

func c10RunRevive(ctx *runCtx, idx int) {
	window := 350 * time.Millisecond
	p := []int{1, 3}[idx%2]
	r := 1 + idx%2
	n := 1 + idx%2
	spec := fmt.Sprintf("revive idx=%d N=%d R=%d P=%d window=%v", idx, n, r, p, window)
	c, err := cluster.Start(cluster.Config{Replicas: r, Partitions: uint64(p), TableSize: 1 << 20, EvictionWorkers: 8, NoInternalRetries: true,
		DMaps: func(d *config.DMaps) { d.MaxIdleDuration = window }}, n)
	if err != nil {
		ctx.rep.Inconclusive(spec + ": cluster start: " + err.Error())
		return
	}
	defer c.Shutdown()
	fp := c.Fingerprint()
	hb := newStallMeter()
	defer close(hb.stop)
	dmap := fmt.Sprintf("c10r-%d", idx)
	router := paths.NewRouter(c, dmap)
	defer router.Close()
	const writers = 6
	const keysPerWriter = 400
	rounds := 3
	if ctx.tier == "thorough" {
		rounds = 12
	}
	var revived, judged, evictedBefore int64
	var vmu sync.Mutex
	var viol []string
	var wg sync.WaitGroup
	for wi := 0; wi < writers; wi++ {
		wg.Add(1)
		go func(wi int) {
			defer wg.Done()
			rng := rand.New(rand.NewSource(ctx.seed*1000 + int64(idx*10+wi)))
			sess := router.NewSession()
			defer sess.Close()
			kinds := []string{"EO", "CC", "RO"}
			if n > 1 {
				kinds = []string{"EO", "EN", "CC", "RO", "RN"}
			}
			bg := context.Background()
			keys := make([]string, keysPerWriter)
			for i := range keys {
				keys[i] = fmt.Sprintf("w%d-k%d", wi, i)
			}
			for round := 0; round < rounds; round++ {
				// write, then leave the keys alone for about one window so that the scan finds them idle
				for _, k := range keys {
					_ = sess.Via("EO").Put(bg, k, []byte("idle"), paths.PutOpts{})
				}
				time.Sleep(window + time.Duration(rng.Intn(120))*time.Millisecond)
				for _, k := range keys {
					stalled := hb.window()
					val := fmt.Sprintf("fresh-%d-%d", round, rng.Int63())
					cl := sess.Via(kinds[rng.Intn(len(kinds))])
					if _, ok := c.OwnerOf(dmap, k).V.DMap.VerifEntry(partitions.PRIMARY, dmap, k); !ok {
						atomic.AddInt64(&evictedBefore, 1)
					}
					t0 := time.Now()
					if err := cl.Put(bg, k, []byte(val), paths.PutOpts{}); err != nil {
						continue
					}
					atomic.AddInt64(&revived, 1)
					// the key was written just now: it is inside its window for the next 350 ms
					g, err := cl.Get(bg, k)
					t1 := time.Now()
					time.Sleep(time.Duration(rng.Intn(8)) * time.Millisecond)
					_, present := c.OwnerOf(dmap, k).V.DMap.VerifEntry(partitions.PRIMARY, dmap, k)
					t2 := time.Now()
					if stalled() > 40*time.Millisecond || t2.Sub(t0) > window/2 {
						continue // too slow to be sure that the window has not passed again
					}
					atomic.AddInt64(&judged, 1)
					if err != nil || string(g.Value) != val || !present {
						vmu.Lock()
						viol = append(viol, fmt.Sprintf("key %s was written %v ago via %s (idle window %v): Get -> (%q, %v), stored afterwards: %v", k, t1.Sub(t0), cl.Kind(), window, g.Value, err, present))
						vmu.Unlock()
					}
				}
			}
		}(wi)
	}
	wg.Wait()
	ctx.rep.Eval(1)
	ctx.rep.Count("revive_puts_on_idle_keys", revived)
	ctx.rep.Count("revive_puts_judged", judged)
	ctx.rep.Count("revive_keys_already_evicted_before_the_put", evictedBefore)
	if c.Fingerprint() != fp {
		ctx.rep.Inconclusive(spec + ": membership/routing changed")
		return
	}
	if judged > 0 {
		ctx.rep.Distinct(fmt.Sprintf("idle|revive|N=%d|R=%d|P=%d", n, r, p))
	}
	if len(viol) > 0 {
		ctx.rep.Violate("c10|touched-key-evicted|touch=put-at-the-idle-deadline", fmt.Sprintf("%s: %d of %d judged puts on keys at their idle deadline were lost; first: %s", spec, len(viol), judged, viol[0]),
			map[string]interface{}{"case": spec, "examples": viol[:minInt(len(viol), 5)]})
	}
}

func minInt(a, b int) int {
	if a < b {
		return a
	}
	return b
}
