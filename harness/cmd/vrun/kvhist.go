package main

// Shared history recording and the per-key register model (porcupine) used by
// C01 and reused by C02/C03 for their concurrent tiers.

import (
	"fmt"
	"sort"
	"sync"
	"time"

	"github.com/anishathalye/porcupine"
)

// kvOp is one recorded client operation on one key.
type kvOp struct {
	Client int    `json:"client"`
	Path   string `json:"path"`
	Key    string `json:"key"`
	Op     string `json:"op"` // put, nx, xx, get, del
	Arg    string `json:"arg,omitempty"`
	Call   int64  `json:"call"`
	Ret    int64  `json:"ret"`
	Class  string `json:"class"` // error class of the result
	Val    string `json:"val,omitempty"`
	Open   bool   `json:"open,omitempty"` // no definite result (transport error / timeout)
}

func (o kvOp) String() string {
	r := o.Class
	if o.Op == "get" && o.Class == "ok" {
		r = "=" + short(o.Val)
	}
	return fmt.Sprintf("[%d..%d] c%d/%s %s(%s %s) -> %s", o.Call, o.Ret, o.Client, o.Path, o.Op, o.Key, short(o.Arg), r)
}

func short(s string) string {
	if len(s) > 14 {
		return s[:14] + "~"
	}
	return s
}

// kvRecorder collects operations from concurrent clients with one monotonic clock.
type kvRecorder struct {
	mu  sync.Mutex
	t0  time.Time
	ops []kvOp
}

func newKVRecorder() *kvRecorder { return &kvRecorder{t0: time.Now()} }

func (r *kvRecorder) now() int64 { return int64(time.Since(r.t0)) }

func (r *kvRecorder) add(o kvOp) {
	r.mu.Lock()
	r.ops = append(r.ops, o)
	r.mu.Unlock()
}

type kvIn struct {
	Op  string
	Arg string
}
type kvOut struct {
	Class string
	Val   string
	Open  bool
}

// kvModel: state is the current value, "" = absent. Values written are never empty.
var kvModel = porcupine.Model{
	Init: func() interface{} { return "" },
	Step: func(st, in, out interface{}) (bool, interface{}) {
		s := st.(string)
		i := in.(kvIn)
		o := out.(kvOut)
		switch i.Op {
		case "put":
			if o.Open {
				// may or may not have taken effect: porcupine cannot branch, so an open
				// plain put is modelled as having taken effect at its linearization
				// point; callers drop histories with open operations instead.
				return true, i.Arg
			}
			return o.Class == "ok", i.Arg
		case "nx":
			if o.Class == "ok" {
				return s == "", i.Arg
			}
			if o.Class == "key found" {
				return s != "", s
			}
			return false, s
		case "xx":
			if o.Class == "ok" {
				return s != "", i.Arg
			}
			if o.Class == "key not found" {
				return s == "", s
			}
			return false, s
		case "get":
			if o.Class == "ok" {
				return s != "" && s == o.Val, s
			}
			if o.Class == "key not found" {
				return s == "", s
			}
			return false, s
		case "del":
			return o.Class == "ok", ""
		}
		return false, s
	},
	Equal: func(a, b interface{}) bool { return a.(string) == b.(string) },
	DescribeOperation: func(in, out interface{}) string {
		return fmt.Sprintf("%v -> %v", in, out)
	},
}

// checkKeyHistory checks one key's sub-history; it returns porcupine's verdict.
func checkKeyHistory(ops []kvOp, timeout time.Duration) porcupine.CheckResult {
	var pops []porcupine.Operation
	for _, o := range ops {
		pops = append(pops, porcupine.Operation{
			ClientId: o.Client,
			Input:    kvIn{Op: o.Op, Arg: o.Arg},
			Call:     o.Call,
			Output:   kvOut{Class: o.Class, Val: o.Val, Open: o.Open},
			Return:   o.Ret,
		})
	}
	res := porcupine.CheckOperationsTimeout(kvModel, pops, timeout)
	return res
}

// classifyAnomaly gives an illegal per-key history a stable, human-meaningful label.
func classifyAnomaly(ops []kvOp) (label string, witness []kvOp) {
	sorted := append([]kvOp(nil), ops...)
	sort.Slice(sorted, func(i, j int) bool { return sorted[i].Call < sorted[j].Call })
	// index writes by value
	writeOf := map[string]kvOp{}
	for _, o := range sorted {
		if (o.Op == "put" || o.Op == "nx" || o.Op == "xx") && o.Class == "ok" {
			writeOf[o.Arg] = o
		}
	}
	isMut := func(o kvOp) bool {
		return o.Class == "ok" && (o.Op == "put" || o.Op == "nx" || o.Op == "xx" || o.Op == "del")
	}
	for _, g := range sorted {
		if g.Op != "get" {
			continue
		}
		if g.Class == "ok" {
			w, ok := writeOf[g.Val]
			if !ok {
				// maybe written by a put that reported an error
				return "read-of-unacknowledged-or-unknown-value", []kvOp{g}
			}
			if w.Call > g.Ret {
				return "read-from-the-future", []kvOp{w, g}
			}
			// a mutation that certainly happened after the write and before the read
			for _, m := range sorted {
				if isMut(m) && m.Arg != g.Val && m.Call > w.Ret && m.Ret < g.Call {
					if m.Op == "del" {
						return "resurrected-after-delete", []kvOp{w, m, g}
					}
					return "stale-after-overwrite", []kvOp{w, m, g}
				}
			}
		} else if g.Class == "key not found" {
			// the latest write that certainly completed before the read, with no delete that could follow it
			var last *kvOp
			for i := range sorted {
				m := sorted[i]
				if isMut(m) && m.Op != "del" && m.Ret < g.Call {
					if last == nil || m.Call > last.Call {
						last = &sorted[i]
					}
				}
			}
			if last != nil {
				delPossible := false
				for _, m := range sorted {
					if m.Op == "del" && m.Ret > last.Call && m.Call < g.Ret {
						delPossible = true
					}
				}
				if !delPossible {
					return "lost-acknowledged-write", []kvOp{*last, g}
				}
			}
		}
	}
	for _, c := range sorted {
		if c.Op == "nx" && c.Class == "ok" {
			// was the key certainly present?
			for _, w := range sorted {
				if isMut(w) && w.Op != "del" && w.Ret < c.Call {
					delPossible := false
					for _, m := range sorted {
						if m.Op == "del" && m.Ret > w.Call && m.Call < c.Ret {
							delPossible = true
						}
					}
					if !delPossible {
						return "condition-misjudged-nx", []kvOp{w, c}
					}
				}
			}
		}
	}
	return "non-linearizable", nil
}

// overlapStats counts pairs of operations on the same key whose intervals
// overlap and of which at least one mutates, and write/write or write/delete pairs.
func overlapStats(ops []kvOp) (pairs, wwPairs int) {
	byKey := map[string][]kvOp{}
	for _, o := range ops {
		byKey[o.Key] = append(byKey[o.Key], o)
	}
	for _, ks := range byKey {
		sort.Slice(ks, func(i, j int) bool { return ks[i].Call < ks[j].Call })
		for i := range ks {
			for j := i + 1; j < len(ks); j++ {
				if ks[j].Call > ks[i].Ret {
					break
				}
				mi := ks[i].Op != "get"
				mj := ks[j].Op != "get"
				if mi || mj {
					pairs++
				}
				if mi && mj {
					wwPairs++
				}
			}
		}
	}
	return
}
