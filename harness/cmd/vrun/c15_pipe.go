package main

// C15, pipeline part: many different commands for many keys are queued in ONE
// pipeline (the pipeline groups them by partition and maps every reply back to
// its future by index), executed, and every future is compared with the model
// of that command on that key; the stored entries are read white-box afterwards.
// Every key and every written value / delta is unique, so a reply that reaches
// the wrong future is visible.

import (
	"context"
	"fmt"
	"math/rand"
	"strconv"
	"time"

	"github.com/olric-data/olric"
	"github.com/olric-data/olric/verif/paths"
)

type c15PipeCmd struct {
	kind  string // Put, PutNX, PutXX, PutPX, Get, Delete, Expire, Incr, Decr, GetPut, IncrByFloat
	prior string // absent | present
	key   string
	pv    string // prior value
	nv    string // value written by the command
	delta int

	fPut  *olric.FuturePut
	fGet  *olric.FutureGet
	fDel  *olric.FutureDelete
	fExp  *olric.FutureExpire
	fInc  *olric.FutureIncr
	fDec  *olric.FutureDecr
	fGP   *olric.FutureGetPut
	fIncF *olric.FutureIncrByFloat
}

var c15PipeKinds = []string{"Put", "PutNX", "PutXX", "PutPX", "Get", "Delete", "Expire", "Incr", "Decr", "GetPut", "IncrByFloat"}

// c15PipelineMix runs `rounds` pipelines of `n` queued commands each.
func c15PipelineMix(ctx *runCtx, env *c15Env, replicas int, seed int64, rounds, n int) {
	bg, cancel := context.WithTimeout(context.Background(), 4*time.Minute)
	defer cancel()
	rng := rand.New(rand.NewSource(seed))
	dm, err := env.r.ClusterDMap()
	if err != nil {
		ctx.rep.Inconclusive("pipeline mix: cluster client: " + err.Error())
		return
	}
	sess := env.r.NewSession()
	defer sess.Close()
	eo := sess.Via("EO")
	const d = 70*time.Second + 250*time.Millisecond
	for round := 0; round < rounds; round++ {
		fp := env.c.Fingerprint()
		cmds := make([]*c15PipeCmd, n)
		for i := range cmds {
			c := &c15PipeCmd{kind: c15PipeKinds[(i+round)%len(c15PipeKinds)], prior: []string{"absent", "present"}[rng.Intn(2)]}
			c.key = env.freshKey(fmt.Sprintf("pipemix-%d", round))
			c.delta = 1000*round + 7*i + 3
			c.nv = fmt.Sprintf("new-%d-%d", round, i)
			numeric := c.kind == "Incr" || c.kind == "Decr" || c.kind == "IncrByFloat"
			if c.prior == "present" {
				c.pv = fmt.Sprintf("old-%d-%d", round, i)
				if numeric {
					c.pv = strconv.Itoa(100000*(round+1) + 13*i)
				}
				if err := eo.Put(bg, c.key, []byte(c.pv), paths.PutOpts{}); err != nil {
					ctx.rep.Inconclusive("pipeline mix: prior: " + err.Error())
					return
				}
			}
			cmds[i] = c
		}
		rng.Shuffle(len(cmds), func(i, j int) { cmds[i], cmds[j] = cmds[j], cmds[i] })
		pipe, err := dm.Pipeline()
		if err != nil {
			ctx.rep.Inconclusive("pipeline mix: Pipeline: " + err.Error())
			return
		}
		var qerr error
		for _, c := range cmds {
			switch c.kind {
			case "Put":
				c.fPut, qerr = pipe.Put(bg, c.key, []byte(c.nv))
			case "PutNX":
				c.fPut, qerr = pipe.Put(bg, c.key, []byte(c.nv), olric.NX())
			case "PutXX":
				c.fPut, qerr = pipe.Put(bg, c.key, []byte(c.nv), olric.XX())
			case "PutPX":
				c.fPut, qerr = pipe.Put(bg, c.key, []byte(c.nv), olric.PX(d))
			case "Get":
				c.fGet = pipe.Get(bg, c.key)
			case "Delete":
				c.fDel = pipe.Delete(bg, c.key)
			case "Expire":
				c.fExp, qerr = pipe.Expire(bg, c.key, d)
			case "Incr":
				c.fInc, qerr = pipe.Incr(bg, c.key, c.delta)
			case "Decr":
				c.fDec, qerr = pipe.Decr(bg, c.key, c.delta)
			case "GetPut":
				c.fGP, qerr = pipe.GetPut(bg, c.key, []byte(c.nv))
			case "IncrByFloat":
				c.fIncF, qerr = pipe.IncrByFloat(bg, c.key, float64(c.delta)+0.5)
			}
			if qerr != nil {
				ctx.rep.Inconclusive(fmt.Sprintf("pipeline mix: queueing %s: %v", c.kind, qerr))
				pipe.Close()
				return
			}
		}
		t0 := time.Now()
		xerr := pipe.Exec(bg)
		t1 := time.Now()
		if xerr != nil {
			pipe.Close()
			if paths.Class(xerr) == "net" {
				ctx.rep.Inconclusive("pipeline mix: Exec: " + xerr.Error())
				return
			}
			ctx.rep.Violate("c15|PipelineMix|Exec-failed|PL", fmt.Sprintf("R=%d: a pipeline of %d valid commands failed as a whole: %v", replicas, n, xerr), map[string]interface{}{"round": round, "seed": seed})
			return
		}
		type verdict struct{ field, got, want string }
		var bad []struct {
			c *c15PipeCmd
			v verdict
		}
		for _, c := range cmds {
			var res, ret string // error class, returned value
			wantRes, wantRet := "ok", ""
			wantStored, wantTTL := c.pv, "none"
			if c.prior == "absent" {
				wantStored = "<absent>"
			}
			base := 0
			if c.prior == "present" {
				base, _ = strconv.Atoi(c.pv)
			}
			switch c.kind {
			case "Put", "PutNX", "PutXX", "PutPX":
				res = paths.Class(c.fPut.Result())
				applies := true
				if c.kind == "PutNX" && c.prior == "present" {
					wantRes, applies = "key found", false
				}
				if c.kind == "PutXX" && c.prior == "absent" {
					wantRes, applies = "key not found", false
				}
				if applies {
					wantStored = c.nv
					if c.kind == "PutPX" {
						wantTTL = "ok"
					}
				}
			case "Get":
				g, err := c.fGet.Result()
				res = paths.Class(err)
				if err == nil {
					b, _ := g.Byte()
					ret = string(b)
				}
				if c.prior == "absent" {
					wantRes = "key not found"
				} else {
					wantRet = c.pv
				}
			case "Delete":
				k, err := c.fDel.Result()
				res, ret = paths.Class(err), strconv.Itoa(k)
				// olric counts the keys named, present or not (as on every other path, see the Delete grid)
				wantRet, wantStored = "1", "<absent>"
			case "Expire":
				res = paths.Class(c.fExp.Result())
				if c.prior == "absent" {
					wantRes = "key not found"
				} else {
					wantTTL = "ok"
				}
			case "Incr":
				k, err := c.fInc.Result()
				res, ret = paths.Class(err), strconv.Itoa(k)
				wantRet = strconv.Itoa(base + c.delta)
				wantStored = wantRet
			case "Decr":
				k, err := c.fDec.Result()
				res, ret = paths.Class(err), strconv.Itoa(k)
				wantRet = strconv.Itoa(base - c.delta)
				wantStored = wantRet
			case "GetPut":
				g, err := c.fGP.Result()
				res = paths.Class(err)
				if err == nil && g != nil {
					b, _ := g.Byte()
					ret = string(b)
				}
				wantRet, wantStored = c.pv, c.nv
			case "IncrByFloat":
				f, err := c.fIncF.Result()
				res, ret = paths.Class(err), strconv.FormatFloat(f, 'f', -1, 64)
				wantRet = strconv.FormatFloat(float64(base)+float64(c.delta)+0.5, 'f', -1, 64)
				wantStored = wantRet
			}
			present, val, ttl := env.whiteBox(c.key)
			stored := "<absent>"
			if present {
				stored = val
			}
			gotTTL := ttlClass(ttl, t0, t1, 0, 3*time.Millisecond)
			if wantTTL == "ok" {
				gotTTL = ttlClass(ttl, t0, t1, d, 3*time.Millisecond)
			}
			if wantStored == "<absent>" {
				gotTTL = wantTTL
			}
			ctx.rep.Eval(1)
			ctx.rep.Count("pipeline_mix_commands_"+c.kind, 1)
			ctx.rep.Distinct(fmt.Sprintf("R=%d|PipelineMix|%s|prior=%s", replicas, c.kind, c.prior))
			for _, v := range []verdict{{"result", res, wantRes}, {"ret", ret, wantRet}, {"stored", stored, wantStored}, {"ttl", normTTL(gotTTL), wantTTL}} {
				if v.got != v.want {
					bad = append(bad, struct {
						c *c15PipeCmd
						v verdict
					}{c, v})
					break
				}
			}
		}
		pipe.Close()
		if len(bad) > 0 && env.c.Fingerprint() != fp {
			ctx.rep.Inconclusive(fmt.Sprintf("pipeline mix round %d: membership/routing changed; %d difference(s) dropped", round, len(bad)))
			continue
		}
		for _, b := range bad {
			ctx.rep.Violate(fmt.Sprintf("c15|PipelineMix|%s|prior=%s|PL|%s", b.c.kind, b.c.prior, b.v.field),
				fmt.Sprintf("R=%d: %d commands queued in one pipeline; %s of %s (prior %s %q): %s is %q, model says %q", replicas, n, b.c.kind, b.c.key, b.c.prior, b.c.pv, b.v.field, b.v.got, b.v.want),
				map[string]interface{}{"round": round, "seed": seed, "key": b.c.key, "kind": b.c.kind, "prior": b.c.prior, "field": b.v.field, "got": b.v.got, "want": b.v.want})
		}
		ctx.rep.Count("pipeline_mix_pipelines", 1)
	}
}
