package main

// C09 — a key is visible until its expiry and never after it.
//
// Each case stores a key with a time-to-live through one option form and one
// entry path, takes the absolute deadline from the system's own answer
// (GetResponse.TTL, cross-checked against [call+ttl, return+ttl]), reads the key
// wholly before deadline-margin (must be visible) and applies one observer
// wholly after deadline+margin (must behave as if the key were absent). A
// scheduler-stall detector turns stalled cases into "inconclusive".

import (
	"bytes"
	"context"
	"fmt"
	"path/filepath"
	"strings"
	"sync"
	"time"

	"github.com/olric-data/olric/config"
	"github.com/olric-data/olric/internal/cluster/partitions"
	"github.com/olric-data/olric/verif/cluster"
	"github.com/olric-data/olric/verif/paths"
)

func init() {
	register("C09", &checkFn{level: "exploration", run: c09Run, child: c09Child})
}

type c09Case struct {
	Form     string        `json:"form"` // EX PX EXAT PXAT DEFAULT EXPIRE PEXPIRE
	SetPath  string        `json:"set_path"`
	Observer string        `json:"observer"` // Get GetPut Incr NX XX Expire
	ObsPath  string        `json:"obs_path"`
	TTL      time.Duration `json:"ttl"`
	DMap     string        `json:"dmap,omitempty"`    // "" = DMap without a default TTL; otherwise one of the default-TTL DMaps with an EXPLICIT expiry on the request
	History  bool          `json:"history,omitempty"` // the key had an older version (no expiry) and its fragments rolled over to new tables before it was stored
}

func (c c09Case) ID() string {
	id := fmt.Sprintf("form=%s|set=%s|observer=%s|via=%s|ttl=%v", c.Form, c.SetPath, c.Observer, c.ObsPath, c.TTL)
	if c.DMap != "" {
		id += "|dmap=" + c.DMap
	}
	if c.History {
		id += "|older-version-in-older-table"
	}
	return id
}

const c09DefaultTTLDMap = "c09-default-ttl"
const c09DefaultTTL = 700 * time.Millisecond

// DMaps with a default TTL on which the requests carry their own, different expiry
const c09LongDefaultDMap = "c09-default-1h"
const c09ShortDefaultDMap = "c09-default-300ms"

func c09Cases(kinds []string) []c09Case {
	// NX+PX / XX+PXAT: an expiry next to a condition (the options are re-encoded when a request is forwarded)
	forms := []string{"EX", "PX", "EXAT", "PXAT", "DEFAULT", "EXPIRE", "PEXPIRE", "NX+PX", "XX+PXAT"}
	observers := []string{"Get", "GetPut", "Incr", "NX", "XX", "Expire"}
	ttls := []time.Duration{400 * time.Millisecond, 700 * time.Millisecond, 1200 * time.Millisecond}
	var cs []c09Case
	i := 0
	for _, f := range forms {
		for _, sp := range kinds {
			for _, ob := range observers {
				c := c09Case{Form: f, SetPath: sp, Observer: ob, ObsPath: kinds[(i/2)%len(kinds)], TTL: ttls[i%3]}
				if f == "DEFAULT" {
					c.TTL = c09DefaultTTL
				}
				if f == "EXPIRE" {
					c.TTL = time.Second // whole seconds: DM.EXPIRE on the raw paths
				}
				if f == "PEXPIRE" && c.TTL%time.Second == 0 {
					c.TTL = 700 * time.Millisecond
				}
				if c.ObsPath == "PL" && (ob == "NX" || ob == "XX") {
					// pipelines offer Put with options too; keep it
				}
				cs = append(cs, c)
				i++
			}
		}
	}
	// explicit expiry on a DMap that has a default TTL: the explicit one decides
	for _, f := range []string{"EX", "PX", "EXAT", "PXAT", "EXPIRE", "PEXPIRE"} {
		for _, ob := range observers {
			for _, dm := range []string{c09LongDefaultDMap, c09ShortDefaultDMap} {
				if dm == c09ShortDefaultDMap && (f == "EXPIRE" || f == "PEXPIRE") {
					continue // the key could expire by the default before Expire arrives
				}
				c := c09Case{Form: f, SetPath: kinds[i%len(kinds)], Observer: ob, ObsPath: kinds[(i/2)%len(kinds)], TTL: ttls[i%3], DMap: dm}
				if f == "EXPIRE" {
					c.TTL = time.Second
				}
				if f == "PEXPIRE" && c.TTL%time.Second == 0 {
					c.TTL = 700 * time.Millisecond
				}
				cs = append(cs, c)
				i++
			}
		}
	}
	return cs
}

// c09HistoryCases: every key has an older version without expiry that lies in an older table of its fragments
func c09HistoryCases(kinds []string) []c09Case {
	var cs []c09Case
	i := 0
	for _, f := range []string{"PX", "EXPIRE", "EXAT", "DEFAULT"} {
		for _, sp := range kinds {
			for _, ob := range []string{"Get", "GetPut", "Incr", "NX", "XX", "Expire"} {
				c := c09Case{Form: f, SetPath: sp, Observer: ob, ObsPath: kinds[(i/2)%len(kinds)], TTL: []time.Duration{400 * time.Millisecond, 700 * time.Millisecond}[i%2], History: true}
				if f == "EXPIRE" {
					c.TTL = time.Second
				}
				if f == "DEFAULT" {
					c.TTL = c09DefaultTTL
				}
				cs = append(cs, c)
				i++
			}
		}
	}
	return cs
}

type c09Env struct {
	ctx    *runCtx
	c      *cluster.Cluster
	stall  *stallMeter
	margin time.Duration
	mu     sync.Mutex
	seq    int
	spec   string
}

func (e *c09Env) run(cs c09Case) {
	bg := context.Background()
	dmap := "c09"
	if cs.Form == "DEFAULT" {
		dmap = c09DefaultTTLDMap
	}
	if cs.DMap != "" {
		dmap = cs.DMap
	}
	e.mu.Lock()
	e.seq++
	key := fmt.Sprintf("k-%d", e.seq)
	e.mu.Unlock()
	r := paths.NewRouter(e.c, dmap)
	sess := r.NewSession()
	defer sess.Close()
	defer r.Close()
	set := sess.Via(cs.SetPath)
	value := []byte("5")
	if cs.History {
		// an older version of the key, then enough other data that the fragments (primary and backup) of this key
		// roll over to new tables
		if err := sess.Via("EO").Put(bg, key, []byte("7"), paths.PutOpts{}); err != nil {
			e.ctx.rep.Inconclusive(cs.ID() + ": older version: " + err.Error())
			return
		}
		fill := bytes.Repeat([]byte("f"), 300)
		for j := 0; j < 3*int(e.c.Cfg.Partitions)*int(e.c.Cfg.TableSize)/300/2+8; j++ {
			_ = sess.Via("EO").Put(bg, fmt.Sprintf("fill-%s-%d", key, j), fill, paths.PutOpts{PX: 50 * time.Millisecond})
		}
		e.ctx.rep.Count("history_cases_prepared", 1)
	}
	stalled := e.stall.window()

	var o paths.PutOpts
	var err error
	t0 := time.Now()
	switch cs.Form {
	case "EX":
		o.EX = cs.TTL
		err = set.Put(bg, key, value, o)
	case "PX":
		o.PX = cs.TTL
		err = set.Put(bg, key, value, o)
	case "EXAT":
		o.EXAT = time.Duration(t0.Add(cs.TTL).UnixNano())
		err = set.Put(bg, key, value, o)
	case "PXAT":
		o.PXAT = time.Duration(t0.Add(cs.TTL).UnixMilli()) * time.Millisecond
		err = set.Put(bg, key, value, o)
	case "NX+PX":
		o.NX, o.PX = true, cs.TTL
		err = set.Put(bg, key, value, o)
	case "XX+PXAT":
		if err = sess.Via("EO").Put(bg, key, []byte("5"), paths.PutOpts{}); err == nil {
			t0 = time.Now()
			o.XX, o.PXAT = true, time.Duration(t0.Add(cs.TTL).UnixMilli())*time.Millisecond
			err = set.Put(bg, key, value, o)
		}
	case "DEFAULT":
		err = set.Put(bg, key, value, o)
	case "EXPIRE", "PEXPIRE":
		if err = sess.Via("EO").Put(bg, key, value, o); err == nil {
			t0 = time.Now()
			err = set.Expire(bg, key, cs.TTL)
		}
	}
	t1 := time.Now()
	e.ctx.rep.Eval(1)
	if err != nil {
		if paths.Class(err) == "net" {
			e.ctx.rep.Inconclusive(cs.ID() + ": " + err.Error())
		} else {
			e.ctx.rep.Violate("c09|set-failed|form="+cs.Form+"|path="+cs.SetPath, fmt.Sprintf("%s: storing the key failed: %v", cs.ID(), err), map[string]interface{}{"case": cs})
		}
		return
	}
	// deadline from the system's own answer
	owner := e.c.OwnerOf(dmap, key)
	ent, ok := owner.V.DMap.VerifEntry(partitions.PRIMARY, dmap, key)
	if !ok {
		e.ctx.rep.Violate("c09|not-stored|form="+cs.Form+"|path="+cs.SetPath, cs.ID()+": key not stored after an acknowledged write", map[string]interface{}{"case": cs})
		return
	}
	lo, hi := t0.Add(cs.TTL).UnixMilli()-2, t1.Add(cs.TTL).UnixMilli()+2
	if cs.Form == "EXAT" || cs.Form == "PXAT" || cs.Form == "XX+PXAT" {
		lo, hi = t0.Add(cs.TTL).UnixMilli()-1, t0.Add(cs.TTL).UnixMilli()+1
	}
	if ent.TTL < lo || ent.TTL > hi {
		if stalled() > 20*time.Millisecond {
			e.ctx.rep.Inconclusive(cs.ID() + ": stall while storing")
			return
		}
		what := "none"
		if ent.TTL != 0 {
			what = fmt.Sprintf("off by %+d ms", ent.TTL-t0.Add(cs.TTL).UnixMilli())
		}
		e.ctx.rep.Violate(fmt.Sprintf("c09|ttl-wrong|form=%s|path=%s|stored=%s", cs.Form, cs.SetPath, map[bool]string{true: "none", false: "off"}[ent.TTL == 0]),
			fmt.Sprintf("%s: stored expiry is %s (stored %d, expected within [%d,%d])", cs.ID(), what, ent.TTL, lo, hi), map[string]interface{}{"case": cs, "stored_ttl": ent.TTL})
		return
	}
	deadline := time.UnixMilli(ent.TTL)
	obs := sess.Via(cs.ObsPath)

	// ---- before the deadline: a read wholly before deadline-margin must see the value
	if time.Until(deadline) > e.margin+60*time.Millisecond {
		b0 := time.Now()
		g, err := obs.Get(bg, key)
		b1 := time.Now()
		if b1.Before(deadline.Add(-e.margin)) {
			e.ctx.rep.Count("reads_before_deadline", 1)
			if err != nil || string(g.Value) != "5" {
				e.ctx.rep.Violate("c09|before-deadline|invisible|via="+cs.ObsPath+"|form="+cs.Form,
					fmt.Sprintf("%s: Get at [%v,%v] before the deadline %v returned (%q,%v)", cs.ID(), b0.Sub(t0), b1.Sub(t0), deadline.Sub(t0), g.Value, err), map[string]interface{}{"case": cs})
				return
			}
			if g.TTL != ent.TTL {
				e.ctx.rep.Violate("c09|ttl-reported-differs|via="+cs.ObsPath, fmt.Sprintf("%s: Get reports ttl %d, stored %d", cs.ID(), g.TTL, ent.TTL), map[string]interface{}{"case": cs})
				return
			}
		}
	}
	// ---- after the deadline
	time.Sleep(time.Until(deadline.Add(e.margin)))
	_, evicted := owner.V.DMap.VerifEntry(partitions.PRIMARY, dmap, key)
	label := "evicted=no"
	if !evicted {
		label = "evicted=yes"
	}
	a0 := time.Now()
	var what string
	bad := false
	switch cs.Observer {
	case "Get":
		g, err := obs.Get(bg, key)
		what = fmt.Sprintf("Get -> (%q,%v)", g.Value, paths.Class(err))
		bad = paths.Class(err) != "key not found"
	case "GetPut":
		old, had, err := obs.GetPut(bg, key, []byte("9"))
		what = fmt.Sprintf("GetPut -> (old=%q had=%v %v)", old, had, paths.Class(err))
		bad = err != nil || had
	case "Incr":
		n, err := obs.Incr(bg, key, 3)
		what = fmt.Sprintf("Incr(3) -> (%d,%v)", n, paths.Class(err))
		bad = err != nil || n != 3
	case "NX":
		err := obs.Put(bg, key, []byte("9"), paths.PutOpts{NX: true})
		what = fmt.Sprintf("Put NX -> %v", paths.Class(err))
		bad = err != nil
	case "XX":
		err := obs.Put(bg, key, []byte("9"), paths.PutOpts{XX: true})
		what = fmt.Sprintf("Put XX -> %v", paths.Class(err))
		bad = paths.Class(err) != "key not found"
	case "Expire":
		err := obs.Expire(bg, key, 30*time.Second)
		what = fmt.Sprintf("Expire -> %v", paths.Class(err))
		bad = paths.Class(err) != "key not found"
	}
	a1 := time.Now()
	if stalled() > e.margin/3 {
		e.ctx.rep.Inconclusive(cs.ID() + ": machine stalled for " + stalled().String())
		return
	}
	if a0.Before(deadline.Add(e.margin / 2)) {
		e.ctx.rep.Inconclusive(cs.ID() + ": observer ran too early")
		return
	}
	e.ctx.rep.Count("observations_after_deadline_"+cs.Observer, 1)
	e.ctx.rep.Count("observations_after_deadline_"+label, 1)
	e.ctx.rep.Distinct(cs.ID())
	if bad {
		e.ctx.rep.Violate(fmt.Sprintf("c09|after-deadline|observer=%s|%s", cs.Observer, label),
			fmt.Sprintf("%s %s: %s at [%v,%v] although the key expired at %v", cs.ID(), label, what, a0.Sub(t0), a1.Sub(t0), deadline.Sub(t0)), map[string]interface{}{"case": cs, "observed": what, "evicted": evicted == false})
		return
	}
	if cs.History && cs.Observer == "Get" {
		// once more when the background eviction has certainly removed the key
		gone := false
		for i := 0; i < 300 && !gone; i++ {
			_, there := owner.V.DMap.VerifEntry(partitions.PRIMARY, dmap, key)
			gone = !there
			if !gone {
				time.Sleep(10 * time.Millisecond)
			}
		}
		if !gone {
			e.ctx.rep.Count("history_cases_never_evicted", 1)
			return
		}
		for _, k := range []string{cs.ObsPath, "EO", "RN"} {
			g, err := sess.Via(k).Get(bg, key)
			e.ctx.rep.Count("observations_after_eviction_with_history", 1)
			if paths.Class(err) != "key not found" {
				e.ctx.rep.Violate("c09|after-deadline|observer=Get|evicted=yes|older-version-came-back",
					fmt.Sprintf("%s: after the key had expired and the background eviction had removed it, Get via %s returned (%q,%v); an older version of the key had been written earlier", cs.ID(), k, g.Value, paths.Class(err)),
					map[string]interface{}{"case": cs, "observed": string(g.Value)})
				return
			}
		}
	}
}

// sequence checks of the expiry bookkeeping: plain Put / GetPut clear it, Incr / Decr keep it, Expire replaces it and keeps the value
func (e *c09Env) bookkeeping(kind string, dmap string) {
	bg := context.Background()
	r := paths.NewRouter(e.c, dmap)
	defer r.Close()
	sess := r.NewSession()
	defer sess.Close()
	cl := sess.Via(kind)
	e.mu.Lock()
	e.seq++
	key := fmt.Sprintf("b-%d", e.seq)
	e.mu.Unlock()
	ttlOf := func() int64 {
		ent, _ := e.c.OwnerOf(dmap, key).V.DMap.VerifEntry(partitions.PRIMARY, dmap, key)
		return ent.TTL
	}
	fail := func(step, detail string) {
		e.ctx.rep.Violate("c09|bookkeeping|"+step+"|path="+kind+"|dmap="+dmap, "key "+key+" via "+kind+" on DMap "+dmap+": "+detail, map[string]interface{}{"key": key, "path": kind})
	}
	// what a write without an expiry of its own leaves behind: nothing, or the DMap's default TTL
	cleared := func(a, b time.Time, t int64) bool {
		if dmap == c09LongDefaultDMap {
			return t >= a.Add(time.Hour).UnixMilli()-2 && t <= b.Add(time.Hour).UnixMilli()+2
		}
		return t == 0
	}
	e.ctx.rep.Eval(1)
	e.ctx.rep.Distinct("bookkeeping|" + kind + "|" + dmap)
	if err := cl.Put(bg, key, []byte("10"), paths.PutOpts{PX: 60 * time.Second}); err != nil {
		return
	}
	t1 := ttlOf()
	if _, err := cl.Incr(bg, key, 1); err != nil {
		return
	}
	if d := ttlOf() - t1; d < -5 || d > 5 {
		fail("Incr-changed-ttl", fmt.Sprintf("Incr moved the expiry by %d ms", d))
		return
	}
	if _, err := cl.Decr(bg, key, 1); err != nil {
		return
	}
	if d := ttlOf() - t1; d < -10 || d > 10 {
		fail("Decr-changed-ttl", fmt.Sprintf("Decr moved the expiry by %d ms", d))
		return
	}
	a := time.Now()
	if err := cl.Expire(bg, key, 90*time.Second); err != nil {
		fail("Expire-failed", err.Error())
		return
	}
	b := time.Now()
	if t := ttlOf(); t < a.Add(90*time.Second).UnixMilli()-2 || t > b.Add(90*time.Second).UnixMilli()+2 {
		fail("Expire-wrong-ttl", fmt.Sprintf("expiry after Expire(90s) is %d", t))
		return
	}
	if g, err := cl.Get(bg, key); err != nil || string(g.Value) != "10" {
		fail("Expire-changed-value", fmt.Sprintf("value after Expire reads (%q,%v), want 10", g.Value, err))
		return
	}
	a = time.Now()
	if err := cl.Put(bg, key, []byte("11"), paths.PutOpts{}); err != nil {
		return
	}
	if t := ttlOf(); !cleared(a, time.Now(), t) {
		fail("Put-kept-ttl", fmt.Sprintf("plain Put left expiry %d (now %d)", t, time.Now().UnixMilli()))
		return
	}
	_ = cl.Expire(bg, key, 60*time.Second)
	a = time.Now()
	if _, _, err := cl.GetPut(bg, key, []byte("12")); err != nil {
		return
	}
	if t := ttlOf(); !cleared(a, time.Now(), t) {
		fail("GetPut-kept-ttl", fmt.Sprintf("GetPut left expiry %d (now %d)", t, time.Now().UnixMilli()))
	}
}

func c09Child(ctx *runCtx, spec string) {
	if strings.HasPrefix(spec, "revive ") {
		c09ReviveChild(ctx, spec)
		return
	}
	var n, r, workers, share, of int
	var p uint64
	var ts uint64 = 1 << 20
	var hist int
	fmt.Sscanf(spec, "N=%d R=%d P=%d workers=%d share=%d/%d ts=%d hist=%d", &n, &r, &p, &workers, &share, &of, &ts, &hist)
	c, err := cluster.Start(cluster.Config{Replicas: r, Partitions: p, TableSize: ts, EvictionWorkers: int64(workers),
		DMaps: func(d *config.DMaps) {
			d.Custom = map[string]config.DMap{c09DefaultTTLDMap: {TTLDuration: c09DefaultTTL},
				c09LongDefaultDMap: {TTLDuration: time.Hour}, c09ShortDefaultDMap: {TTLDuration: 300 * time.Millisecond}}
		}}, n)
	if err != nil {
		ctx.rep.Inconclusive("cluster start: " + err.Error())
		return
	}
	defer c.Shutdown()
	env := &c09Env{ctx: ctx, c: c, stall: newStallMeter(), margin: 150 * time.Millisecond, spec: spec}
	defer close(env.stall.stop)
	kinds := paths.Kinds
	if n == 1 {
		kinds = []string{"EO", "CC", "RO", "PL"}
	}
	fp := c.Fingerprint()
	cases := c09Cases(kinds)
	if hist == 1 {
		cases = c09HistoryCases(kinds)
	}
	var wg sync.WaitGroup
	sem := make(chan struct{}, 24)
	for i, cs := range cases {
		if i%of != share {
			continue
		}
		wg.Add(1)
		sem <- struct{}{}
		go func(cs c09Case) {
			defer wg.Done()
			defer func() { <-sem }()
			env.run(cs)
		}(cs)
	}
	wg.Wait()
	for _, k := range kinds {
		env.bookkeeping(k, "c09-book")
		env.bookkeeping(k, c09LongDefaultDMap)
	}
	if c.Fingerprint() != fp {
		if n := ctx.rep.DropViolations(); n > 0 {
			ctx.rep.Inconclusive(fmt.Sprintf("%s: membership/routing changed during the run; %d violation(s) dropped", spec, n))
		}
	}
	ctx.rep.Sample(map[string]interface{}{"config": spec, "first_case": cases[share].ID()})
}

func c09Run(ctx *runCtx) int {
	ctx.rep.Rule = "cases = option form {EX,PX,EXAT,PXAT,DMap default TTL,Expire,PExpire} x set path x observer {Get,GetPut,Incr,NX,XX,Expire} with rotating observer path and ttl in {400,700,1200 ms}; each on a fresh key: stored expiry must lie in [call+ttl, return+ttl] (exact for EXAT/PXAT), a read wholly before deadline-150ms must see the value, the observer wholly after deadline+150ms must behave as on an absent key (labelled evicted / not yet evicted by a white-box look); plus bookkeeping sequences (Incr/Decr keep, Expire replaces and keeps the value, plain Put / GetPut clear the expiry) per path; distinct_nontrivial = distinct cases that reached an after-deadline verdict"
	ctx.rep.Assumptions = []string{
		"margin 150 ms around the deadline; a case during which a scheduling stall above 50 ms was measured is inconclusive",
		"the deadline is the system's own stored expiry, cross-checked against the call/return interval",
	}
	var batches []batch
	if ctx.tier == "quick" {
		// half of the grid under each eviction pressure
		batches = append(batches,
			batch{Spec: "N=3 R=1 P=3 workers=8 share=0/2", Timeout: 10 * time.Minute},
			batch{Spec: "N=3 R=2 P=271 workers=1 share=1/2", Timeout: 10 * time.Minute},
			batch{Spec: "N=2 R=2 P=3 workers=8 share=0/1 ts=4096 hist=1", Timeout: 10 * time.Minute},
		)
	} else {
		for _, s := range []string{"N=3 R=1 P=3 workers=8", "N=3 R=2 P=271 workers=1", "N=3 R=2 P=3 workers=8", "N=1 R=1 P=7 workers=2", "N=2 R=2 P=13 workers=1"} {
			batches = append(batches, batch{Spec: s + " share=0/1", Timeout: 20 * time.Minute})
		}
		batches = append(batches,
			batch{Spec: "N=2 R=2 P=3 workers=8 share=0/1 ts=4096 hist=1", Timeout: 20 * time.Minute},
			batch{Spec: "N=3 R=2 P=7 workers=4 share=0/1 ts=8192 hist=1", Timeout: 20 * time.Minute},
			batch{Spec: "N=3 R=1 P=3 workers=8 share=0/1 ts=4096 hist=1", Timeout: 20 * time.Minute})
	}
	rr := 40
	if ctx.tier == "thorough" {
		rr = 400
	}
	// the stress batches run after the time-judged ones, not next to them
	stress := []batch{
		{Spec: fmt.Sprintf("revive N=2 R=2 workers=64 rounds=%d seed=%d", rr, ctx.seed*100+70), Timeout: 20 * time.Minute},
		{Spec: fmt.Sprintf("revive N=3 R=1 workers=48 rounds=%d seed=%d", rr, ctx.seed*100+71), Timeout: 20 * time.Minute}}
	runBatches(ctx, batches, 2, func(b batch, res batchResult, tail string) {
		ctx.rep.Violate("c09|member-crashed-or-hung", fmt.Sprintf("child %s died (exit %d timeout=%v): %s", b.Spec, res.ExitCode, res.TimedOut, lastLines(tail, 12)), map[string]interface{}{"batch": b.Spec})
	})
	sctx := *ctx
	sctx.outDir = filepath.Join(ctx.outDir, "stress")
	runBatches(&sctx, stress, 2, func(b batch, res batchResult, tail string) {
		ctx.rep.Violate("c09|member-crashed-or-hung", fmt.Sprintf("child %s died (exit %d timeout=%v): %s", b.Spec, res.ExitCode, res.TimedOut, lastLines(tail, 12)), map[string]interface{}{"batch": b.Spec})
	})
	return ctx.rep.Finish(50)
}
