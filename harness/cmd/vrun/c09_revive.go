package main

// C09, "revive" batches: a key whose deadline has passed but which the background eviction has not removed yet is
// written again - plain Put (no expiry), Put with a long expiry, GetPut, Incr - while 16 eviction workers scan three
// partitions. "A plain Put or GetPut clears the expiry": the new value must stay readable; an eviction pass that
// decided "expired" before the write must not remove what was written after it.

import (
	"context"
	"fmt"
	"math/rand"
	"sync"
	"sync/atomic"
	"time"

	"github.com/olric-data/olric/verif/cluster"
	"github.com/olric-data/olric/verif/paths"
)

func c09ReviveChild(ctx *runCtx, spec string) {
	var n, r, workers, rounds int
	var seed int64
	fmt.Sscanf(spec, "revive N=%d R=%d workers=%d rounds=%d seed=%d", &n, &r, &workers, &rounds, &seed)
	c, err := cluster.Start(cluster.Config{Replicas: r, Partitions: 3, TableSize: 1 << 20, EvictionWorkers: 16}, n)
	if err != nil {
		ctx.rep.Inconclusive(spec + ": cluster start: " + err.Error())
		return
	}
	defer c.Shutdown()
	fp := c.Fingerprint()
	name := fmt.Sprintf("c09-revive-%d", seed)
	router := paths.NewRouter(c, name)
	defer router.Close()
	kinds := []string{"EO", "EN", "CC", "RO", "RN"}
	if n == 1 {
		kinds = []string{"EO", "CC", "RO"}
	}
	bg := context.Background()
	var stop int32
	var wg sync.WaitGroup
	for w := 0; w < workers; w++ {
		wg.Add(1)
		go func(w int) {
			defer wg.Done()
			rng := rand.New(rand.NewSource(seed*1000 + int64(w)))
			sess := router.NewSession()
			defer sess.Close()
			key := fmt.Sprintf("rv-%d", w)
			wk, rk := kinds[w%len(kinds)], kinds[(w/len(kinds)+2)%len(kinds)]
			for round := 0; round < rounds && atomic.LoadInt32(&stop) == 0; round++ {
				short := time.Duration(2+rng.Intn(8)) * time.Millisecond
				if err := sess.Via(wk).Put(bg, key, []byte("1"), paths.PutOpts{PX: short}); err != nil {
					ctx.rep.Inconclusive(fmt.Sprintf("%s: Put PX: %v", spec, err))
					return
				}
				time.Sleep(short + time.Duration(rng.Intn(110000))*time.Microsecond)
				how := []string{"Put", "Put-long-expiry", "GetPut", "Incr"}[round%4]
				want := fmt.Sprintf("%d", 100+round)
				var err error
				switch how {
				case "Put":
					err = sess.Via(wk).Put(bg, key, []byte(want), paths.PutOpts{})
				case "Put-long-expiry":
					err = sess.Via(wk).Put(bg, key, []byte(want), paths.PutOpts{EX: time.Hour})
				case "GetPut":
					_, _, err = sess.Via(wk).GetPut(bg, key, []byte(want))
				case "Incr":
					var nv int
					nv, err = sess.Via(wk).Incr(bg, key, 100+round) // the expired key counts as absent
					want = fmt.Sprint(nv)
					if err == nil && nv != 100+round {
						ctx.rep.Violate("c09|after-deadline|observer=Incr|revive", fmt.Sprintf("%s key %s: Incr(%d) on an expired key returned %d", spec, key, 100+round, nv), map[string]interface{}{"batch": spec})
						atomic.StoreInt32(&stop, 1)
						return
					}
				}
				if err != nil {
					ctx.rep.Inconclusive(fmt.Sprintf("%s: %s: %v", spec, how, err))
					return
				}
				ctx.rep.Eval(1)
				ctx.rep.Count("revive_writes_"+how, 1)
				// the value just acknowledged has no (or a distant) deadline: it stays
				for try := 0; try < 3; try++ {
					g, err := sess.Via(rk).Get(bg, key)
					if err != nil || string(g.Value) != want {
						if paths.Class(err) == "net" {
							ctx.rep.Inconclusive(fmt.Sprintf("%s: Get: %v", spec, err))
							return
						}
						ctx.rep.Violate("c09|before-deadline|invisible|revive|write="+how,
							fmt.Sprintf("%s key %s: the key had expired (PX %v) and was not evicted yet; %s via %s stored %q and was acknowledged; Get via %s then returned (%q,%v)", spec, key, short, how, wk, want, rk, g.Value, paths.Class(err)),
							map[string]interface{}{"batch": spec, "key": key, "write": how})
						atomic.StoreInt32(&stop, 1)
						return
					}
					time.Sleep(time.Duration(1+rng.Intn(4)) * time.Millisecond)
				}
			}
			ctx.rep.Distinct(fmt.Sprintf("revive|N=%d|R=%d|writer=%s|reader=%s", n, r, wk, rk))
		}(w)
	}
	wg.Wait()
	if c.Fingerprint() != fp {
		if k := ctx.rep.DropViolations(); k > 0 {
			ctx.rep.Inconclusive(fmt.Sprintf("%s: membership/routing changed; %d violation(s) dropped", spec, k))
		}
	}
	ctx.rep.Sample(map[string]interface{}{"config": spec})
}
