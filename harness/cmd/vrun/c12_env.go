package main

import (
	"bufio"
	"context"
	"errors"
	"fmt"
	"io"
	"log"
	"math/rand"
	"os"
	"regexp"
	"sort"
	"strconv"
	"strings"
	"sync"
	"sync/atomic"
	"time"

	"github.com/olric-data/olric"
	"github.com/olric-data/olric/config"
	"github.com/olric-data/olric/internal/cluster/partitions"
	"github.com/olric-data/olric/internal/kvstore/table"
	"github.com/olric-data/olric/internal/verifhook"
	"github.com/olric-data/olric/verif/cluster"
	"github.com/olric-data/olric/verif/ev"
	"github.com/olric-data/olric/verif/respc"
)

func newReplayReport() *ev.Report { return ev.New("C12", "exploration", "quick") }

// ---- stderr tap: the client iterators report errors only through their logger

type c12ErrTap struct {
	mu    sync.Mutex
	lines []string
	marks map[string]chan struct{}
	w     *os.File
	n     int
}

var c12Tap *c12ErrTap

// c12InstallTap replaces os.Stderr (the variable; fd 2 stays, so that runtime
// panics still reach the child log) by a pipe whose lines are forwarded to the
// real stderr and remembered when they are iterator errors.
func c12InstallTap() *c12ErrTap {
	if c12Tap != nil {
		return c12Tap
	}
	r, w, err := os.Pipe()
	if err != nil {
		panic(err)
	}
	realErr := os.Stderr
	t := &c12ErrTap{marks: map[string]chan struct{}{}, w: w}
	os.Stderr = w
	go func() {
		br := bufio.NewReaderSize(r, 1<<16)
		for {
			line, err := br.ReadString('\n')
			if line != "" {
				if strings.HasPrefix(line, "C12MARK ") {
					id := strings.TrimSpace(strings.TrimPrefix(line, "C12MARK "))
					t.mu.Lock()
					if ch, ok := t.marks[id]; ok {
						close(ch)
						delete(t.marks, id)
					}
					t.mu.Unlock()
				} else {
					if strings.Contains(line, "Failed to fetch data") {
						t.mu.Lock()
						t.lines = append(t.lines, strings.TrimSpace(line))
						t.mu.Unlock()
					}
					_, _ = realErr.WriteString(line)
				}
			}
			if err != nil {
				return
			}
		}
	}()
	c12Tap = t
	return t
}

// drain returns the iterator error lines logged since the previous drain.
func (t *c12ErrTap) drain() []string {
	t.mu.Lock()
	t.n++
	id := strconv.Itoa(t.n)
	ch := make(chan struct{})
	t.marks[id] = ch
	t.mu.Unlock()
	_, _ = t.w.WriteString("C12MARK " + id + "\n")
	select {
	case <-ch:
	case <-time.After(5 * time.Second):
	}
	t.mu.Lock()
	defer t.mu.Unlock()
	res := t.lines
	t.lines = nil
	return res
}

// ---- scan.fragment call counter (livelock detector) ---------------------------

var (
	c12Calls     int64
	c12CallLimit int64
	c12Over      = make(chan struct{}, 1)
)

func c12InstallHook() {
	verifhook.Set("*", "scan.fragment", func(member, name string) {
		n := atomic.AddInt64(&c12Calls, 1)
		if lim := atomic.LoadInt64(&c12CallLimit); lim > 0 && n == lim+1 {
			select {
			case c12Over <- struct{}{}:
			default:
			}
		}
	})
}

// ---- environment ---------------------------------------------------------------

type c12Store struct {
	idx      int
	name     string
	ops      []c12Op
	rng      *rand.Rand
	via      int
	present  map[string]struct{}
	deleted  map[string]struct{}
	expiring map[string]struct{}
	churn    map[string]struct{}
	nextSeq  int
	bad      string
	steps    int
}

type c12Env struct {
	ctx     *runCtx
	rep     *ev.Report
	spec    c12Spec
	c       *cluster.Cluster
	stores  []*c12Store
	tap     *c12ErrTap
	cc      *olric.ClusterClient
	conns   map[string]*respc.Conn
	embIts  int
	replay  bool
	phase   int
	sampled int
}

func newC12Env(ctx *runCtx, s c12Spec) *c12Env {
	return &c12Env{ctx: ctx, rep: ctx.rep, spec: s, conns: map[string]*respc.Conn{}}
}

// giveUp flushes the partial report and leaves the child: used after a
// non-terminating iteration whose goroutine cannot be stopped.
func (e *c12Env) giveUp(code int) {
	if e.replay {
		p := e.rep.Partial()
		for _, v := range p.Violations {
			fmt.Printf("replay: VIOLATION property=C12 key=%q detail=%q\n", v.Key, v.Detail)
		}
		os.Exit(1)
	}
	if out := childOutPath(); out != "" {
		_ = e.rep.WritePartial(out)
	}
	os.Exit(code)
}

func (e *c12Env) run() {
	s := e.spec
	e.tap = c12InstallTap()
	c12InstallHook()
	cfg := cluster.Config{Replicas: s.R, Partitions: s.P, TableSize: s.TS}
	if s.Idle0 {
		cfg.DMaps = func(d *config.DMaps) {
			d.Engine.Config["maxIdleTableTimeout"] = time.Duration(0)
		}
	}
	c, err := cluster.Start(cfg, s.N)
	if err != nil {
		e.rep.Inconclusive("cluster start: " + err.Error())
		return
	}
	e.c = c
	defer c.Shutdown()
	defer func() {
		for _, cn := range e.conns {
			_ = cn.Close()
		}
		if e.cc != nil {
			_ = e.cc.Close(context.Background())
		}
	}()

	for i := 0; i < s.Stores; i++ {
		if s.OnlyStore >= 0 && i != s.OnlyStore {
			e.stores = append(e.stores, nil)
			continue
		}
		rng := rand.New(rand.NewSource(s.Seed*1000 + int64(i)))
		st := &c12Store{idx: i, name: fmt.Sprintf("c12-%d-%d", s.Seed, i), rng: rng,
			present: map[string]struct{}{}, deleted: map[string]struct{}{}, expiring: map[string]struct{}{}, churn: map[string]struct{}{}}
		st.ops = c12GenProgram(rng, s.MaxKey)
		st.via = rng.Intn(s.N)
		e.stores = append(e.stores, st)
	}

	// phase 1: shape and scan store by store
	e.phase = 1
	for _, st := range e.stores {
		if st == nil {
			continue
		}
		fmt.Printf("C12 store %d %s: %s\n", st.idx, st.name, c12ProgString(st.ops))
		e.shape(st, st.ops)
		if st.bad != "" {
			e.rep.Inconclusive(fmt.Sprintf("%s store %d: shaping failed: %s", s.short(), st.idx, st.bad))
			continue
		}
		churn := s.Churn && st.idx%2 == 1
		e.scanStore(st, 1, churn)
	}
	if !s.Join {
		return
	}

	// phase 2: a member joins; nothing is balanced, moved partitions keep their previous owner
	if _, err := c.AddMember(); err != nil {
		e.rep.Inconclusive("add member: " + err.Error())
		return
	}
	if err := c.WaitStable(30 * time.Second); err != nil {
		e.rep.Inconclusive("not stable after join: " + err.Error())
		return
	}
	e.resetClients()
	e.rep.Count("member_joins", 1)
	e.phase = 2
	for _, st := range e.stores {
		if st == nil || st.bad != "" {
			continue
		}
		e.scanStore(st, 2, false)
	}

	// phase 3: writes while the data is spread over previous and current owners
	e.phase = 3
	for _, st := range e.stores {
		if st == nil || st.bad != "" {
			continue
		}
		n := st.nextSeq
		var ops []c12Op
		if n > 0 {
			m := 2 + st.rng.Intn(3)
			ops = append(ops, c12Op{K: "over", From: 0, To: n, Mod: m, Rem: st.rng.Intn(m), Size: c12PickSize(st.rng)})
		}
		add := 1 + st.rng.Intn(40)
		ops = append(ops, c12Op{K: "put", From: n, To: n + add, Size: c12PickSize(st.rng)})
		if n > 0 && st.rng.Intn(2) == 0 {
			m := 3 + st.rng.Intn(3)
			ops = append(ops, c12Op{K: "del", From: 0, To: n, Mod: m, Rem: st.rng.Intn(m)})
		}
		fmt.Printf("C12 store %d phase 3: %s\n", st.idx, c12ProgString(ops))
		e.shape(st, ops)
		if st.bad != "" {
			e.rep.Inconclusive(fmt.Sprintf("%s store %d: phase-3 writes failed: %s", s.short(), st.idx, st.bad))
			continue
		}
		e.scanStore(st, 3, false)
	}

	// phase 4: balance until every partition has one listed primary owner again
	balanced := false
	// one Move transfers one table of a fragment, so this takes as many rounds as the longest fragment has tables
	for try := 0; try < 1500 && !balanced; try++ {
		for _, m := range c.Live() {
			if try%8 == 0 {
				// The balancer stops walking a partition at the first empty fragment it meets
				// (scanPartition returns false from Range), so empty fragments are removed first,
				// as the janitor would do sooner or later.
				m.V.DMap.VerifJanitorOnce()
			}
			m.V.Balancer.BalanceEagerly()
		}
		e.rep.Count("balancer_rounds", 1)
		if try%4 == 3 {
			c.PushRouting()
			time.Sleep(5 * time.Millisecond)
			balanced = e.maxListedOwners(partitions.PRIMARY) == 1
		}
	}
	if !balanced {
		e.rep.Count("phase4_skipped_not_balanced", 1)
		co := c.Coordinator()
		for p := uint64(0); p < s.P; p++ {
			owners := co.V.Primary.PartitionByID(p).Owners()
			if len(owners) < 2 {
				continue
			}
			line := fmt.Sprintf("C12 not balanced: partition %d owners", p)
			for _, o := range owners {
				m := c.ByName(o.Name)
				line += fmt.Sprintf(" %s{", o.Name)
				if m != nil {
					for _, name := range m.V.DMap.VerifDMapNames(partitions.PRIMARY, p) {
						st, tabs, _ := m.V.DMap.VerifStats(partitions.PRIMARY, p, name)
						line += fmt.Sprintf("%s:len=%d,tables=%d ", name, st.Length, len(tabs))
					}
				}
				line += "}"
			}
			fmt.Println(line)
		}
		return
	}
	if err := c.WaitStable(30 * time.Second); err != nil {
		e.rep.Count("phase4_skipped_not_stable", 1)
		return
	}
	e.resetClients()
	e.phase = 4
	for _, st := range e.stores {
		if st == nil || st.bad != "" {
			continue
		}
		e.scanStore(st, 4, false)
	}
}

func (e *c12Env) resetClients() {
	if e.cc != nil {
		_ = e.cc.Close(context.Background())
		e.cc = nil
	}
}

func (e *c12Env) clusterClient() (*olric.ClusterClient, error) {
	if e.cc != nil {
		return e.cc, nil
	}
	cl := config.NewClient()
	cl.MaxRetries = -1
	cl.ReadTimeout = 20 * time.Second
	cl.WriteTimeout = 20 * time.Second
	cl.DialTimeout = 3 * time.Second
	cc, err := olric.NewClusterClient(e.c.Addrs(),
		olric.WithConfig(cl),
		olric.WithLogger(log.New(os.Stderr, "cc: ", 0)),
		olric.WithRoutingTableFetchInterval(time.Hour))
	if err != nil {
		return nil, err
	}
	e.cc = cc
	return cc, nil
}

func (e *c12Env) maxListedOwners(kind partitions.Kind) int {
	co := e.c.Coordinator()
	max := 0
	for p := uint64(0); p < e.spec.P; p++ {
		var n int
		if kind == partitions.PRIMARY {
			n = len(co.V.Primary.PartitionByID(p).Owners())
		} else {
			n = len(co.V.Backup.PartitionByID(p).Owners())
		}
		if n > max {
			max = n
		}
	}
	return max
}

// ---- shaping -------------------------------------------------------------------

func (e *c12Env) valueFor(st *c12Store, size string, key string) []byte {
	ts := int(e.spec.TS)
	if ts > 8192 {
		ts = 8192 // the "default-like" huge table: keep values small, everything lives in one table
	}
	meta := 29 + len(key)
	var n int
	switch size {
	case "S":
		n = 4
	case "R":
		n = 1 + st.rng.Intn(ts/8)
	case "M":
		n = ts/3 - meta
	case "H":
		n = ts/2 - meta
	case "L":
		n = ts - 1 - meta
		if int(e.spec.TS) > ts {
			n = ts / 2
		}
	}
	if n < 1 {
		n = 1
	}
	b := make([]byte, n)
	for i := range b {
		b[i] = 'a' + byte((i+len(key))%26)
	}
	return b
}

func c12Selected(o c12Op, seq int) bool {
	if seq < o.From || seq >= o.To {
		return false
	}
	if o.Mod > 1 && seq%o.Mod != o.Rem {
		return false
	}
	return true
}

func (e *c12Env) shape(st *c12Store, ops []c12Op) {
	bg := context.Background()
	live := e.c.Live()
	dm, err := live[st.via%len(live)].Emb.NewDMap(st.name)
	if err != nil {
		st.bad = "NewDMap: " + err.Error()
		return
	}
	for _, o := range ops {
		st.steps++
		switch o.K {
		case "put", "over":
			for seq := o.From; seq < o.To; seq++ {
				if !c12Selected(o, seq) {
					continue
				}
				k := c12KeyName(seq)
				if o.K == "over" {
					if _, ok := st.present[k]; !ok {
						continue // overwrite only present keys, deleted ones stay deleted
					}
				}
				cctx, cancel := context.WithTimeout(bg, 30*time.Second)
				err := dm.Put(cctx, k, e.valueFor(st, o.Size, k))
				cancel()
				if err != nil {
					st.bad = fmt.Sprintf("Put(%s): %v", k, err)
					return
				}
				st.present[k] = struct{}{}
				delete(st.deleted, k)
				if seq >= st.nextSeq {
					st.nextSeq = seq + 1
				}
				e.rep.Count("shape_puts", 1)
			}
		case "del":
			var batch []string
			flush := func() bool {
				if len(batch) == 0 {
					return true
				}
				cctx, cancel := context.WithTimeout(bg, 30*time.Second)
				_, err := dm.Delete(cctx, batch...)
				cancel()
				if err != nil {
					st.bad = fmt.Sprintf("Delete(%d keys): %v", len(batch), err)
					return false
				}
				for _, k := range batch {
					delete(st.present, k)
					st.deleted[k] = struct{}{}
				}
				e.rep.Count("shape_deletes", int64(len(batch)))
				batch = batch[:0]
				return true
			}
			for seq := o.From; seq < o.To; seq++ {
				if !c12Selected(o, seq) {
					continue
				}
				k := c12KeyName(seq)
				if _, ok := st.present[k]; !ok {
					continue
				}
				batch = append(batch, k)
				if len(batch) >= 1+seq%5 {
					if !flush() {
						return
					}
				}
			}
			if !flush() {
				return
			}
		case "ttl":
			for seq := o.From; seq < o.To; seq++ {
				k := c12TTLKeyName(seq)
				cctx, cancel := context.WithTimeout(bg, 30*time.Second)
				err := dm.Put(cctx, k, []byte("soon gone"), olric.PX(time.Millisecond))
				cancel()
				if err != nil {
					st.bad = fmt.Sprintf("Put(%s, PX): %v", k, err)
					return
				}
				st.expiring[k] = struct{}{}
				e.rep.Count("shape_expiring_puts", 1)
			}
		case "call", "cstep":
			steps := 1 << 20
			if o.K == "cstep" {
				steps = o.N
			}
			e.compact(st, steps)
		}
	}
}

func (e *c12Env) compact(st *c12Store, steps int) {
	for _, m := range e.c.Live() {
		for p := uint64(0); p < e.spec.P; p++ {
			for _, kind := range []partitions.Kind{partitions.PRIMARY, partitions.BACKUP} {
				n, done := m.V.DMap.VerifCompactFragment(kind, p, st.name, steps)
				e.rep.Count("compaction_steps", int64(n))
				if steps >= 1<<20 && !done {
					e.rep.Count("compaction_not_done", 1)
				}
			}
		}
	}
}

// ---- layout census -------------------------------------------------------------

type c12Layout struct {
	entries    int // total entries over primary fragments
	maxTables  int
	gaps       bool
	recycled   bool
	emptyTabs  bool
	multiOwner int               // partitions with more than one listed primary owner
	owners     int               // max listed owners (primary + backup) of a partition
	perFrag    map[string][2]int // "member|kind|part" -> entries, tables
}

func (l c12Layout) signature() string {
	b := "t1"
	switch {
	case l.maxTables > 20:
		b = "t20+"
	case l.maxTables > 5:
		b = "t6-20"
	case l.maxTables > 1:
		b = "t2-5"
	case l.maxTables == 0:
		b = "t0"
	}
	f := func(x bool, s string) string {
		if x {
			return "+" + s
		}
		return ""
	}
	return b + f(l.gaps, "gaps") + f(l.recycled, "recycled") + f(l.emptyTabs, "empty") + f(l.multiOwner > 0, "multiowner")
}

func (e *c12Env) census(st *c12Store) c12Layout {
	l := c12Layout{perFrag: map[string][2]int{}}
	co := e.c.Coordinator()
	for p := uint64(0); p < e.spec.P; p++ {
		po := co.V.Primary.PartitionByID(p).Owners()
		bo := co.V.Backup.PartitionByID(p).Owners()
		if len(po) > 1 {
			l.multiOwner++
		}
		if len(po)+len(bo) > l.owners {
			l.owners = len(po) + len(bo)
		}
	}
	for _, m := range e.c.Live() {
		for p := uint64(0); p < e.spec.P; p++ {
			for _, kind := range []partitions.Kind{partitions.PRIMARY, partitions.BACKUP} {
				stt, tabs, ok := m.V.DMap.VerifStats(kind, p, st.name)
				if !ok {
					continue
				}
				if kind == partitions.PRIMARY {
					l.entries += stt.Length
				}
				kn := "P"
				if kind == partitions.BACKUP {
					kn = "B"
				}
				l.perFrag[fmt.Sprintf("%s|%s|%d", m.Name, kn, p)] = [2]int{stt.Length, len(tabs)}
				if len(tabs) > l.maxTables {
					l.maxTables = len(tabs)
				}
				var cfs []uint64
				for _, t := range tabs {
					if t.State == table.RecycledState {
						l.recycled = true
						continue
					}
					cfs = append(cfs, t.Coefficient)
					if t.HKeys == 0 {
						l.emptyTabs = true
					}
				}
				sort.Slice(cfs, func(i, j int) bool { return cfs[i] < cfs[j] })
				for i := 1; i < len(cfs); i++ {
					if cfs[i] != cfs[i-1]+1 {
						l.gaps = true
					}
				}
				if len(cfs) > 0 && cfs[0] != 0 {
					l.gaps = true
				}
			}
		}
	}
	return l
}

// locate tells where a key is stored right now (white-box).
func (e *c12Env) locate(st *c12Store, key string) string {
	part := e.c.PartOf(st.name, key)
	co := e.c.Coordinator()
	owners := co.V.Primary.PartitionByID(part).Owners()
	var where []string
	for _, m := range e.c.Live() {
		if _, ok := m.V.DMap.VerifEntry(partitions.PRIMARY, st.name, key); ok {
			role := "unlisted"
			for i, o := range owners {
				if o.Name == m.Name {
					role = "previous"
					if i == len(owners)-1 {
						role = "current"
					}
				}
			}
			where = append(where, "primary@"+role)
		}
	}
	for _, m := range e.c.Live() {
		if _, ok := m.V.DMap.VerifEntry(partitions.BACKUP, st.name, key); ok {
			where = append(where, "backup")
		}
	}
	if len(where) == 0 {
		return "nowhere"
	}
	sort.Strings(where)
	// de-duplicate
	out := where[:1]
	for _, w := range where[1:] {
		if w != out[len(out)-1] {
			out = append(out, w)
		}
	}
	return strings.Join(out, "+")
}

// ---- churn ---------------------------------------------------------------------

type c12Churn struct {
	stop chan struct{}
	done chan struct{}
	ops  int64
}

const c12ChurnPool = 200
const c12ChurnMaxOps = 1500

func (e *c12Env) startChurn(st *c12Store) *c12Churn {
	ch := &c12Churn{stop: make(chan struct{}), done: make(chan struct{})}
	live := e.c.Live()
	rng := rand.New(rand.NewSource(e.spec.Seed*31 + int64(st.idx)*7 + int64(len(st.churn))))
	dm, err := live[rng.Intn(len(live))].Emb.NewDMap(st.name)
	if err != nil {
		close(ch.done)
		return ch
	}
	for i := 0; i < c12ChurnPool; i++ {
		st.churn[c12ChurnKeyName(i)] = struct{}{}
	}
	started := make(chan struct{})
	go func() {
		defer close(ch.done)
		bg := context.Background()
		for i := 0; i < c12ChurnMaxOps; i++ {
			select {
			case <-ch.stop:
				return
			default:
			}
			if i == 20 {
				close(started)
			}
			k := c12ChurnKeyName(rng.Intn(c12ChurnPool))
			switch x := rng.Intn(10); {
			case x < 6:
				_ = dm.Put(bg, k, e.valueFor(st, []string{"S", "R", "M"}[rng.Intn(3)], k))
			case x < 9:
				_, _ = dm.Delete(bg, k)
			default:
				// a compaction step on one fragment, as the compaction worker would do
				m := live[rng.Intn(len(live))]
				kind := partitions.PRIMARY
				if rng.Intn(3) == 0 {
					kind = partitions.BACKUP
				}
				n, _ := m.V.DMap.VerifCompactFragment(kind, uint64(rng.Intn(int(e.spec.P))), st.name, 1)
				e.rep.Count("churn_compaction_steps", int64(n))
			}
			atomic.AddInt64(&ch.ops, 1)
		}
		select {
		case <-started:
		default:
			close(started)
		}
	}()
	select {
	case <-started:
	case <-ch.done:
	case <-time.After(20 * time.Second):
	}
	return ch
}

func (ch *c12Churn) halt() int64 {
	close(ch.stop)
	<-ch.done
	return atomic.LoadInt64(&ch.ops)
}

// ---- scanning ------------------------------------------------------------------

type c12Result struct {
	keys      []string
	nexts     int
	trips     int
	calls     int64
	errs      []string
	aborted   string // "", next-bound, call-bound, trip-bound, wall
	abortInfo string
	stuck     bool // the iterating goroutine did not come back
	owners    int  // raw: number of (partition, owner) loops
}

func (e *c12Env) scanStore(st *c12Store, phase int, churn bool) {
	if e.spec.OnlyPhase >= 0 && phase != e.spec.OnlyPhase {
		return
	}
	members := len(e.c.Live())
	// the scan list is a pure function of (spec seed, store, phase)
	rng := rand.New(rand.NewSource(e.spec.Seed*1000003 + int64(st.idx)*101 + int64(phase)))
	scans := c12GenScans(rng, e.spec, st.idx, phase, members, st.nextSeq, churn)
	for i, sc := range scans {
		if e.spec.OnlyScan >= 0 && i != e.spec.OnlyScan {
			continue
		}
		if sc.Kind == "emb" && e.embIts >= 1200 {
			// EmbeddedDMap.Scan never closes the ClusterClient it creates; stay below the fd limit
			sc.Kind = "cc"
			e.rep.Count("emb_replaced_by_cc_fd_budget", 1)
		}
		e.oneScan(st, phase, i, sc)
	}
}

func (e *c12Env) oneScan(st *c12Store, phase, idx int, sc c12Scan) {
	lay := e.census(st)
	fmt.Printf("C12 scan store=%d phase=%d #%d %s layout=%s entries=%d present=%d\n", st.idx, phase, idx, sc.String(), lay.signature(), lay.entries, len(st.present))
	var ch *c12Churn
	if sc.Churn {
		ch = e.startChurn(st)
	}
	var res c12Result
	switch sc.Kind {
	case "emb", "cc":
		res = e.clientIter(st, sc, lay)
	default:
		res = e.rawIter(st, sc, lay)
	}
	var churnOps int64
	if ch != nil {
		churnOps = ch.halt()
		e.rep.Count("churn_ops_during_scans", churnOps)
	}
	e.rep.Eval(1)
	e.rep.Count("iterations_"+sc.Kind, 1)
	e.rep.Count("iterations_phase_"+fmt.Sprint(phase), 1)
	e.rep.Count("keys_yielded", int64(len(res.keys)))
	e.rep.Count("scan_fragment_calls", res.calls)
	if sc.Kind == "raw" || sc.Kind == "rawrc" {
		e.rep.Count("raw_round_trips", int64(res.trips))
		e.rep.Count("raw_cursor_loops", int64(res.owners))
	}
	cs := "default"
	if sc.Count != 0 {
		cs = fmt.Sprint(sc.Count)
	}
	e.rep.SetAdd("count_values", cs)
	e.rep.SetAdd("layouts", lay.signature())
	e.rep.SetAdd("configs", e.spec.short())
	if lay.multiOwner > 0 {
		e.rep.Count("iterations_with_multi_owner_partitions", 1)
	}
	if lay.gaps {
		e.rep.Count("iterations_over_tables_with_coefficient_gaps", 1)
	}
	if sc.Churn {
		e.rep.Count("iterations_under_churn", 1)
	}
	e.rep.Distinct(fmt.Sprintf("%s|c=%s|m=%s|N=%d|R=%d|ph=%d|%s", sc.Kind, cs, sc.MClass, len(e.c.Live()), e.spec.R, phase, lay.signature()))
	e.judge(st, phase, idx, sc, lay, res)
	if e.sampled < 2 && len(res.keys) > 3 && lay.maxTables > 1 && (idx%5 == 2) {
		e.sampled++
		head := res.keys
		if len(head) > 6 {
			head = head[:6]
		}
		e.rep.Sample(map[string]interface{}{"config": e.spec.short(), "store": st.idx, "program": c12ProgString(st.ops), "phase": phase, "scan": sc.String(),
			"layout": lay.signature(), "present": len(st.present), "deleted": len(st.deleted), "yielded": len(res.keys), "first_keys": head,
			"next_calls": res.nexts, "round_trips": res.trips, "scan_fragment_calls": res.calls})
	}
	if res.stuck {
		fmt.Println("C12 giving up: iteration goroutine is stuck")
		e.giveUp(4)
	}
}

func (e *c12Env) bounds(st *c12Store, lay c12Layout) (nextBound int, callBound int64) {
	keys := len(st.present) + len(st.expiring) + len(st.churn) + len(st.deleted)
	owners := lay.owners
	if owners < 1 {
		owners = 1
	}
	tables := lay.maxTables
	if len(st.churn) > 0 {
		tables += c12ChurnMaxOps // every churn put may open a table
		keys += c12ChurnMaxOps
	}
	p := int(e.spec.P)
	nextBound = 4*(keys+p*owners*(tables+1)) + 16
	callBound = int64(2*owners*(keys+p*(tables+1)) + 64)
	return
}

func (e *c12Env) clientIter(st *c12Store, sc c12Scan, lay c12Layout) c12Result {
	nextBound, callBound := e.bounds(st, lay)
	var opts []olric.ScanOption
	if sc.Count != 0 {
		opts = append(opts, olric.Count(sc.Count))
	}
	if sc.MClass != "none" {
		opts = append(opts, olric.Match(sc.Match))
	}
	var dm olric.DMap
	var err error
	if sc.Kind == "emb" {
		live := e.c.Live()
		dm, err = live[sc.Member%len(live)].Emb.NewDMap(st.name)
		e.embIts++
	} else {
		var cc *olric.ClusterClient
		cc, err = e.clusterClient()
		if err == nil {
			dm, err = cc.NewDMap(st.name)
		}
	}
	if err != nil {
		return c12Result{errs: []string{"NewDMap: " + err.Error()}}
	}
	e.tap.drain()
	select {
	case <-c12Over:
	default:
	}
	atomic.StoreInt64(&c12Calls, 0)
	atomic.StoreInt64(&c12CallLimit, callBound)
	ictx, cancel := context.WithCancel(context.Background())
	defer cancel()
	done := make(chan c12Result, 1)
	go func() {
		var r c12Result
		it, err := dm.Scan(ictx, opts...)
		if err != nil {
			r.errs = append(r.errs, "Scan: "+err.Error())
			done <- r
			return
		}
		for {
			r.nexts++
			if !it.Next() {
				break
			}
			r.keys = append(r.keys, it.Key())
			if r.nexts > nextBound {
				r.aborted = "next-bound"
				r.abortInfo = fmt.Sprintf("%d calls of Next returned true, bound %d", r.nexts, nextBound)
				break
			}
		}
		it.Close()
		done <- r
	}()
	var res c12Result
	wall := 4 * time.Minute
	select {
	case res = <-done:
	case <-c12Over:
		cancel()
		select {
		case res = <-done:
		case <-time.After(10 * time.Second):
			res.stuck = true
		}
		res.aborted = "call-bound"
		res.abortInfo = fmt.Sprintf("more than %d DMap.Scan calls on the members during one iteration", callBound)
	case <-time.After(wall):
		cancel()
		select {
		case res = <-done:
		case <-time.After(10 * time.Second):
			res.stuck = true
		}
		res.aborted = "wall"
		res.abortInfo = fmt.Sprintf("no result after %s with %d DMap.Scan calls (bound %d)", wall, atomic.LoadInt64(&c12Calls), callBound)
	}
	atomic.StoreInt64(&c12CallLimit, 0)
	res.calls = atomic.LoadInt64(&c12Calls)
	res.errs = append(res.errs, e.tap.drain()...)
	return res
}

func (e *c12Env) conn(addr string) (*respc.Conn, error) {
	if cn, ok := e.conns[addr]; ok {
		return cn, nil
	}
	cn, err := respc.Dial(addr)
	if err != nil {
		return nil, err
	}
	e.conns[addr] = cn
	return cn, nil
}

// rawIter runs a cursor loop for every partition against every listed owner.
func (e *c12Env) rawIter(st *c12Store, sc c12Scan, lay c12Layout) c12Result {
	var res c12Result
	co := e.c.Coordinator()
	atomic.StoreInt64(&c12CallLimit, 0)
	atomic.StoreInt64(&c12Calls, 0)
	for p := uint64(0); p < e.spec.P; p++ {
		var owners []string
		kn := "P"
		if sc.Kind == "rawrc" {
			kn = "B"
			for _, o := range co.V.Backup.PartitionByID(p).Owners() {
				owners = append(owners, o.Name)
			}
		} else {
			for _, o := range co.V.Primary.PartitionByID(p).Owners() {
				owners = append(owners, o.Name)
			}
		}
		for _, owner := range owners {
			res.owners++
			fr := lay.perFrag[fmt.Sprintf("%s|%s|%d", owner, kn, p)]
			bound := fr[0] + 2*fr[1] + 4
			if sc.Churn {
				bound += 3 * c12ChurnMaxOps
			}
			cn, err := e.conn(owner)
			if err != nil {
				res.errs = append(res.errs, "dial "+owner+": "+err.Error())
				continue
			}
			cursor := "0"
			trips := 0
			for {
				args := []string{"DM.SCAN", strconv.FormatUint(p, 10), st.name, cursor}
				if sc.MClass != "none" {
					args = append(args, "MATCH", sc.Match)
				}
				if sc.Count != 0 {
					args = append(args, "COUNT", strconv.Itoa(sc.Count))
				}
				if sc.Kind == "rawrc" {
					args = append(args, "RC")
				}
				rp, err := cn.Do(30*time.Second, args...)
				trips++
				if err != nil {
					res.errs = append(res.errs, fmt.Sprintf("io %s: %v", strings.Join(args, " "), err))
					_ = cn.Close()
					delete(e.conns, owner)
					break
				}
				if rp.IsErr() || rp.Kind != '*' || len(rp.Array) != 2 || rp.Array[1].Kind != '*' {
					res.errs = append(res.errs, fmt.Sprintf("reply %s: %s", strings.Join(args, " "), rp.String()))
					break
				}
				for _, k := range rp.Array[1].Array {
					res.keys = append(res.keys, k.Str)
				}
				cursor = rp.Array[0].Str
				if cursor == "0" {
					break
				}
				if trips > bound {
					res.aborted = "trip-bound"
					res.abortInfo = fmt.Sprintf("partition %d on %s (%s): %d round trips, cursor still %s; fragment had %d entries in %d tables, bound %d", p, owner, kn, trips, cursor, fr[0], fr[1], bound)
					break
				}
			}
			res.trips += trips
		}
	}
	res.calls = atomic.LoadInt64(&c12Calls)
	return res
}

// ---- oracle --------------------------------------------------------------------

func c12Examples(m map[string]int) []string {
	var ks []string
	for k := range m {
		ks = append(ks, k)
	}
	sort.Strings(ks)
	if len(ks) > 5 {
		ks = ks[:5]
	}
	return ks
}

func isTransient(errs []string) bool {
	for _, s := range errs {
		l := strings.ToLower(s)
		if !(strings.Contains(l, "timeout") || strings.Contains(l, "connection") || strings.Contains(l, "eof") || strings.Contains(l, "broken pipe") || strings.Contains(l, "context canceled") || strings.Contains(l, "dial ")) {
			return false
		}
	}
	return true
}

func (e *c12Env) judge(st *c12Store, phase, idx int, sc c12Scan, lay c12Layout, res c12Result) {
	cs := "default"
	if sc.Count != 0 {
		cs = fmt.Sprint(sc.Count)
	}
	shape := fmt.Sprintf("iter=%s|phase=%d|count=%s|match=%s", sc.Kind, phase, cs, sc.MClass)
	payload := func(extra map[string]interface{}) map[string]interface{} {
		m := map[string]interface{}{
			"spec": e.spec, "store": st.idx, "phase": phase, "scan_index": idx, "scan": sc, "program": c12ProgString(st.ops),
			"layout": lay.signature(), "present": len(st.present), "deleted": len(st.deleted), "yielded": len(res.keys),
			"next_calls": res.nexts, "round_trips": res.trips, "scan_fragment_calls": res.calls, "errors": res.errs,
		}
		for k, v := range extra {
			m[k] = v
		}
		return m
	}
	where := fmt.Sprintf("%s store %d (%s) phase %d scan %s layout=%s", e.spec.short(), st.idx, c12ProgString(st.ops), phase, sc.String(), lay.signature())

	// termination
	switch res.aborted {
	case "next-bound", "call-bound", "trip-bound":
		e.rep.Violate("c12|no-termination|"+shape+"|"+res.aborted, where+": "+res.abortInfo, payload(nil))
		return
	case "wall":
		e.rep.Inconclusive(where + ": " + res.abortInfo)
		return
	}
	if len(res.errs) > 0 {
		if isTransient(res.errs) {
			e.rep.Inconclusive(where + ": transient error: " + strings.Join(res.errs, "; "))
			return
		}
		// An invalid COUNT is allowed to be refused; everything else the check sends is valid.
		if sc.Count < 0 {
			e.rep.Count("nonpositive_count_refused", 1)
			return
		}
		e.rep.Violate("c12|scan-error|"+shape, where+": the iteration ended with an error: "+strings.Join(res.errs, "; "), payload(nil))
		return
	}

	var re *regexp.Regexp
	if sc.MClass != "none" {
		re = regexp.MustCompile(sc.Match)
	}
	matches := func(k string) bool { return re == nil || re.MatchString(k) }
	yielded := map[string]int{}
	for _, k := range res.keys {
		yielded[k]++
	}
	client := sc.Kind == "emb" || sc.Kind == "cc"

	judgeMissing := sc.Count >= 0
	if sc.Kind == "rawrc" && phase != 1 {
		judgeMissing = false
	}
	if sc.Count < 0 {
		e.rep.Count("nonpositive_count_iterations_yielding_nothing", btoi(len(res.keys) == 0))
		e.rep.Count("nonpositive_count_iterations", 1)
	}

	missing := map[string]int{}
	dups := map[string]int{}
	for k := range st.present {
		if !matches(k) {
			continue
		}
		n := yielded[k]
		if n == 0 && judgeMissing {
			missing[k] = 0
		}
		if n > 1 && client {
			dups[k] = n
		}
	}
	ghostDel := map[string]int{}
	ghostNever := map[string]int{}
	matchExtra := map[string]int{}
	for k, n := range yielded {
		if _, ok := st.present[k]; ok {
			if !matches(k) {
				matchExtra[k] = n
			}
			continue
		}
		if _, ok := st.expiring[k]; ok {
			e.rep.Count("expired_keys_yielded_not_judged", 1)
			continue
		}
		if _, ok := st.churn[k]; ok {
			if !matches(k) {
				matchExtra[k] = n
			}
			continue
		}
		if _, ok := st.deleted[k]; ok {
			ghostDel[k] = n
			continue
		}
		ghostNever[k] = n
	}

	if len(missing) > 0 {
		ex := c12Examples(missing)
		on := e.locate(st, ex[0])
		mo := "single-owner"
		if lay.multiOwner > 0 {
			mo = "multi-owner"
		}
		key := fmt.Sprintf("c12|missing|%s|on=%s|%s", shape, on, mo)
		if re != nil {
			key = fmt.Sprintf("c12|match-missing|%s|on=%s|%s", shape, on, mo)
		}
		e.rep.Violate(key, fmt.Sprintf("%s: %d of %d present%s keys were never yielded, e.g. %v (first one is stored %s); %d keys yielded",
			where, len(missing), len(st.present), ifs(re != nil, " matching", ""), ex, on, len(res.keys)), payload(map[string]interface{}{"missing": ex, "missing_total": len(missing)}))
	}
	if len(dups) > 0 {
		ex := c12Examples(dups)
		mo := "single-owner"
		if lay.multiOwner > 0 {
			mo = "multi-owner"
		}
		e.rep.Violate(fmt.Sprintf("c12|duplicate|%s|%s", shape, mo), fmt.Sprintf("%s: %d stable keys were yielded more than once by the client iterator, e.g. %v (x%d)",
			where, len(dups), ex, dups[ex[0]]), payload(map[string]interface{}{"duplicates": ex}))
	}
	if len(ghostDel) > 0 {
		ex := c12Examples(ghostDel)
		on := e.locate(st, ex[0])
		e.rep.Violate(fmt.Sprintf("c12|ghost|deleted-key|%s|from=%s", shape, on), fmt.Sprintf("%s: %d keys deleted before the iteration began were yielded, e.g. %v (first one is stored %s)",
			where, len(ghostDel), ex, on), payload(map[string]interface{}{"ghosts": ex}))
	}
	if len(ghostNever) > 0 {
		ex := c12Examples(ghostNever)
		e.rep.Violate(fmt.Sprintf("c12|ghost|never-stored|%s", shape), fmt.Sprintf("%s: %d keys that were never stored were yielded, e.g. %q",
			where, len(ghostNever), ex), payload(map[string]interface{}{"ghosts": ex}))
	}
	if len(matchExtra) > 0 {
		ex := c12Examples(matchExtra)
		e.rep.Violate(fmt.Sprintf("c12|match-extra|%s", shape), fmt.Sprintf("%s: %d yielded keys do not match the pattern %q, e.g. %v",
			where, len(matchExtra), sc.Match, ex), payload(map[string]interface{}{"nonmatching": ex}))
	}
	if re != nil {
		n := 0
		for k := range st.present {
			if re.MatchString(k) {
				n++
			}
		}
		switch {
		case n == 0:
			e.rep.Count("match_iterations_matching_nothing", 1)
		case n == len(st.present):
			e.rep.Count("match_iterations_matching_everything", 1)
		default:
			e.rep.Count("match_iterations_matching_a_proper_subset", 1)
		}
	}
}

func btoi(b bool) int64 {
	if b {
		return 1
	}
	return 0
}

func ifs(b bool, x, y string) string {
	if b {
		return x
	}
	return y
}

var _ = errors.New
var _ = io.Discard
