package main

import (
	"encoding/json"
	"os"
)

func readJSON(path string, v interface{}) error {
	data, err := os.ReadFile(path)
	if err != nil {
		return err
	}
	return json.Unmarshal(data, v)
}

func dropViolations(ctx *runCtx) { ctx.rep.DropViolations() }
