package main

import (
	"encoding/json"
	"fmt"
	"os"
	"strings"

	"github.com/olric-data/olric/internal/cluster/partitions"
	"github.com/olric-data/olric/verif/cluster"
)

func readJSON(path string, v interface{}) error {
	data, err := os.ReadFile(path)
	if err != nil {
		return err
	}
	return json.Unmarshal(data, v)
}

func dropViolations(ctx *runCtx) { ctx.rep.DropViolations() }

// whereIs describes, white-box, which live members hold which copy of a key
// and what the routing table says about its partition.
func whereIs(c *cluster.Cluster, dmap, key string) string {
	var sb strings.Builder
	live := c.Live()
	if len(live) == 0 {
		return "no live member"
	}
	part := c.PartOf(dmap, key)
	fmt.Fprintf(&sb, "partition %d; ", part)
	for _, m := range live {
		var po, bo []string
		for _, o := range m.V.Primary.PartitionByID(part).Owners() {
			po = append(po, o.Name)
		}
		for _, o := range m.V.Backup.PartitionByID(part).Owners() {
			bo = append(bo, o.Name)
		}
		fmt.Fprintf(&sb, "%s sees owners=%v backups=%v", m.Name, po, bo)
		if e, ok := m.V.DMap.VerifEntry(partitions.PRIMARY, dmap, key); ok {
			fmt.Fprintf(&sb, " holds PRIMARY copy %q ts=%d", short(string(e.Value)), e.Timestamp)
		}
		if e, ok := m.V.DMap.VerifEntry(partitions.BACKUP, dmap, key); ok {
			fmt.Fprintf(&sb, " holds BACKUP copy %q ts=%d", short(string(e.Value)), e.Timestamp)
		}
		sb.WriteString("; ")
	}
	return sb.String()
}
