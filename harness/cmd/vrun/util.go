package main

import (
	"encoding/json"
	"fmt"
	"os"
	"strings"

	"time"

	"github.com/olric-data/olric/internal/cluster/partitions"
	dmapsvc "github.com/olric-data/olric/internal/dmap"
	"github.com/olric-data/olric/verif/cluster"
)

func readJSON(path string, v interface{}) error {
	data, err := os.ReadFile(path)
	if err != nil {
		return err
	}
	return json.Unmarshal(data, v)
}

func dropViolations(ctx *runCtx) { ctx.rep.DropViolations() }

// whereIs describes, white-box, which live members hold which copy of a key
// and what the routing table says about its partition.
func whereIs(c *cluster.Cluster, dmap, key string) string {
	var sb strings.Builder
	live := c.Live()
	if len(live) == 0 {
		return "no live member"
	}
	part := c.PartOf(dmap, key)
	fmt.Fprintf(&sb, "partition %d; ", part)
	for _, m := range live {
		var po, bo []string
		for _, o := range m.V.Primary.PartitionByID(part).Owners() {
			po = append(po, o.Name)
		}
		for _, o := range m.V.Backup.PartitionByID(part).Owners() {
			bo = append(bo, o.Name)
		}
		fmt.Fprintf(&sb, "%s sees owners=%v backups=%v", m.Name, po, bo)
		if e, ok := m.V.DMap.VerifEntry(partitions.PRIMARY, dmap, key); ok {
			fmt.Fprintf(&sb, " holds PRIMARY copy %q ts=%d", short(string(e.Value)), e.Timestamp)
		}
		if e, ok := m.V.DMap.VerifEntry(partitions.BACKUP, dmap, key); ok {
			fmt.Fprintf(&sb, " holds BACKUP copy %q ts=%d", short(string(e.Value)), e.Timestamp)
		}
		sb.WriteString("; ")
	}
	// members that were stopped still have their memory: show what they held when they went away
	for _, m := range c.Members {
		if !m.Stopped {
			continue
		}
		fmt.Fprintf(&sb, "%s (STOPPED)", m.Name)
		if e, ok := zombieEntry(m, partitions.PRIMARY, dmap, key); ok {
			fmt.Fprintf(&sb, " held PRIMARY copy %q ts=%d", short(string(e.Value)), e.Timestamp)
		}
		if e, ok := zombieEntry(m, partitions.BACKUP, dmap, key); ok {
			fmt.Fprintf(&sb, " held BACKUP copy %q ts=%d", short(string(e.Value)), e.Timestamp)
		}
		sb.WriteString("; ")
	}
	return sb.String()
}

// zombieEntry reads an entry from the memory of a stopped member. A member that was
// "crashed" inside a hook still holds the lock it had at that instant, so the read
// is given 200 ms and abandoned otherwise.
func zombieEntry(m *cluster.Member, kind partitions.Kind, dmap, key string) (dmapsvc.VerifEntry, bool) {
	type res struct {
		e  dmapsvc.VerifEntry
		ok bool
	}
	ch := make(chan res, 1)
	go func() {
		e, ok := m.V.DMap.VerifEntry(kind, dmap, key)
		ch <- res{e, ok}
	}()
	select {
	case r := <-ch:
		return r.e, r.ok
	case <-time.After(200 * time.Millisecond):
		return dmapsvc.VerifEntry{}, false
	}
}
