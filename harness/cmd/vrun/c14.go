package main

// C14 — Pub/Sub delivers each message exactly once to every matching subscriber.
//
// Model-based monitor. A script is a sequence of subscribe / psubscribe /
// unsubscribe / punsubscribe / publish (1-4 concurrent publishers, optionally
// concurrent with subscription churn) / disconnect / check steps over 2-8
// subscriber connections spread over the members of an in-process cluster.
// The reference model keeps, per connection, the set of channels and the set of
// patterns (re-subscribing is idempotent). Every subscriber connection is
// drained by a reader goroutine into an ordered event log; the driver inserts a
// marker into the same log whenever it sends a command, so the log gives a
// conservative real-time order between "what the harness had received" and
// "what the harness sent next". There is no wall-clock reasoning in the oracle:
// PUBLISH is synchronous (local delivery and forwarding happen inside the
// handler), so after PUBLISH returned a PING on a subscriber connection is
// answered after every delivery of that publish on the same ordered stream.
//
// The execution code is in c14_exec.go, the oracle in c14_oracle.go.

import (
	"encoding/json"
	"fmt"
	"math/rand"
	"os"
	"path/filepath"
	"sort"
	"strings"
	"sync"
	"sync/atomic"
	"time"

	"github.com/olric-data/olric/verif/cluster"
)

func init() {
	register("C14", &checkFn{level: "exploration", run: c14Run, child: c14Child, replay: c14Replay})
}

var (
	// "a*" is also a channel NAME: the pattern `a\*` matches only it, the pattern "a*" matches it too
	c14Channels = []string{"a", "ab", "b.1", "b.2", "a*"}
	// "b?*" / "?.?*": a wildcard in front of the trailing star (the part before the last '*' is no literal prefix)
	c14Patterns = []string{"a*", "b.?", "*", "zz*", "a", "b?*", `a\*`, "?.?*"}
	// names asked from PUBSUB NUMSUB: every channel plus names that exist only as patterns
	c14NumsubNames = []string{"a", "ab", "b.1", "b.2", "a*", "*", "zz"}
	// globs asked from PUBSUB CHANNELS <glob>
	c14ChannelGlobs = []string{"a*", "b.?", "*", "b?*", `a\*`}
)

// c14Glob is the reference glob matcher ('*', '?' and the escape '\\' occur in the pattern alphabet).
func c14Glob(pat, s string) bool {
	if pat == "" {
		return s == ""
	}
	switch pat[0] {
	case '*':
		for i := 0; i <= len(s); i++ {
			if c14Glob(pat[1:], s[i:]) {
				return true
			}
		}
		return false
	case '?':
		return len(s) > 0 && c14Glob(pat[1:], s[1:])
	case '\\':
		if len(pat) > 1 {
			return len(s) > 0 && s[0] == pat[1] && c14Glob(pat[2:], s[1:])
		}
	}
	return len(s) > 0 && s[0] == pat[0] && c14Glob(pat[1:], s[1:])
}

// ---- scripts ----------------------------------------------------------------

type c14Pub struct {
	Via   int      `json:"via"`            // member index the publisher talks to
	Chans []string `json:"chans"`          // published sequentially
	Pick  bool     `json:"pick,omitempty"` // Go client: no ToAddress (round-robin member)
}

type c14Step struct {
	Op    string    `json:"op"`              // sub psub unsub punsub pub disc check
	Conn  int       `json:"conn"`            // subscriber slot (sub/psub/unsub/punsub/disc)
	Names []string  `json:"names,omitempty"` // channels / patterns; none for unsub/punsub = all
	Pubs  []c14Pub  `json:"pubs,omitempty"`  // op=pub: concurrent publishers
	Churn []c14Step `json:"churn,omitempty"` // op=pub: subscription changes running concurrently with the publishers
}

func (s c14Step) String() string {
	switch s.Op {
	case "sub", "psub", "unsub", "punsub":
		n := strings.Join(s.Names, ",")
		if n == "" {
			n = "<all>"
		}
		return fmt.Sprintf("%s(c%d:%s)", s.Op, s.Conn, n)
	case "disc":
		return fmt.Sprintf("disc(c%d)", s.Conn)
	case "pub":
		var ps []string
		for _, p := range s.Pubs {
			ps = append(ps, fmt.Sprintf("m%d:%s", p.Via, strings.Join(p.Chans, ",")))
		}
		r := "pub(" + strings.Join(ps, " || ") + ")"
		if len(s.Churn) > 0 {
			var cs []string
			for _, c := range s.Churn {
				cs = append(cs, c.String())
			}
			r += " || churn[" + strings.Join(cs, " ") + "]"
		}
		return r
	}
	return s.Op
}

type c14Script struct {
	ID      string    `json:"id"`
	Members int       `json:"members"`
	Flavor  string    `json:"flavor"` // raw | emb | cc
	Slots   []int     `json:"slots"`  // member index of every subscriber slot
	Steps   []c14Step `json:"steps"`
}

func (sc c14Script) String() string {
	var s []string
	for _, st := range sc.Steps {
		s = append(s, st.String())
	}
	return fmt.Sprintf("[%s members=%d flavor=%s slots->member=%v] %s", sc.ID, sc.Members, sc.Flavor, sc.Slots, strings.Join(s, " ; "))
}

func c14PickN(rng *rand.Rand, from []string, n int) []string {
	var r []string
	for i := 0; i < n; i++ {
		r = append(r, from[rng.Intn(len(from))])
	}
	return r
}

// c14Gen builds script number idx of a run; a pure function of (seed, idx).
func c14Gen(seed int64, idx int) c14Script {
	rng := rand.New(rand.NewSource(seed*1000003 + int64(idx)*7919 + 17))
	sc := c14Script{ID: fmt.Sprintf("s%d.%d", seed, idx)}
	switch r := rng.Intn(10); {
	case r < 2:
		sc.Members = 1
	case r < 5:
		sc.Members = 2
	default:
		sc.Members = 3
	}
	switch r := rng.Intn(20); {
	case r < 15:
		sc.Flavor = "raw"
	case r < 18:
		sc.Flavor = "emb"
	default:
		sc.Flavor = "cc"
	}
	nslots := 2 + rng.Intn(7)
	for i := 0; i < nslots; i++ {
		sc.Slots = append(sc.Slots, rng.Intn(sc.Members))
	}
	nsteps := 20 + rng.Intn(41)
	// per-script operation mix
	wSub, wPsub, wUnsub, wPunsub := 3+rng.Intn(5), 2+rng.Intn(5), 1+rng.Intn(4), 1+rng.Intn(4)
	wPub, wBurst, wChurn, wDisc, wCheck := 4+rng.Intn(8), rng.Intn(4), rng.Intn(3), rng.Intn(3), 1+rng.Intn(3)
	total := wSub + wPsub + wUnsub + wPunsub + wPub + wBurst + wChurn + wDisc + wCheck

	// generator-side sketch of the state, only used to bias choices
	live := make([]bool, nslots)
	chans := make([]map[string]bool, nslots)
	pats := make([]map[string]bool, nslots)
	for i := range chans {
		chans[i] = map[string]bool{}
		pats[i] = map[string]bool{}
	}
	subStep := func(slot int, op string) c14Step {
		st := c14Step{Op: op, Conn: slot}
		switch op {
		case "sub":
			st.Names = c14PickN(rng, c14Channels, 1+rng.Intn(3))
			for _, n := range st.Names {
				chans[slot][n] = true
			}
			live[slot] = true
		case "psub":
			st.Names = c14PickN(rng, c14Patterns, 1+rng.Intn(2))
			for _, n := range st.Names {
				pats[slot][n] = true
			}
			live[slot] = true
		case "unsub", "punsub":
			set, alpha := chans[slot], c14Channels
			if op == "punsub" {
				set, alpha = pats[slot], c14Patterns
			}
			if rng.Intn(5) == 0 {
				for k := range set {
					delete(set, k)
				}
				return st // all
			}
			n := 1 + rng.Intn(2)
			for i := 0; i < n; i++ {
				var have []string
				for k := range set {
					have = append(have, k)
				}
				sort.Strings(have)
				if len(have) > 0 && rng.Intn(4) != 0 {
					st.Names = append(st.Names, have[rng.Intn(len(have))])
				} else {
					st.Names = append(st.Names, alpha[rng.Intn(len(alpha))])
				}
			}
			for _, n := range st.Names {
				delete(set, n)
			}
		}
		return st
	}
	anyOp := func(slot int) c14Step {
		ops := []string{"sub", "psub", "unsub", "punsub"}
		op := ops[rng.Intn(4)]
		if !live[slot] && (op == "unsub" || op == "punsub") {
			op = ops[rng.Intn(2)]
		}
		return subStep(slot, op)
	}
	pubs := func(k, lo, hi int) []c14Pub {
		var ps []c14Pub
		for i := 0; i < k; i++ {
			p := c14Pub{Via: rng.Intn(sc.Members), Chans: c14PickN(rng, c14Channels, lo+rng.Intn(hi-lo+1))}
			if sc.Flavor != "raw" && rng.Intn(4) == 0 {
				p.Pick = true
			}
			ps = append(ps, p)
		}
		return ps
	}
	for len(sc.Steps) < nsteps {
		r := rng.Intn(total)
		slot := rng.Intn(nslots)
		switch {
		case r < wSub:
			sc.Steps = append(sc.Steps, subStep(slot, "sub"))
		case r < wSub+wPsub:
			sc.Steps = append(sc.Steps, subStep(slot, "psub"))
		case r < wSub+wPsub+wUnsub:
			if !live[slot] {
				sc.Steps = append(sc.Steps, anyOp(slot))
			} else {
				sc.Steps = append(sc.Steps, subStep(slot, "unsub"))
			}
		case r < wSub+wPsub+wUnsub+wPunsub:
			if !live[slot] {
				sc.Steps = append(sc.Steps, anyOp(slot))
			} else {
				sc.Steps = append(sc.Steps, subStep(slot, "punsub"))
			}
		case r < wSub+wPsub+wUnsub+wPunsub+wPub:
			sc.Steps = append(sc.Steps, c14Step{Op: "pub", Pubs: pubs(1, 1, 1)})
		case r < wSub+wPsub+wUnsub+wPunsub+wPub+wBurst:
			sc.Steps = append(sc.Steps, c14Step{Op: "pub", Pubs: pubs(1+rng.Intn(4), 2, 6)})
		case r < wSub+wPsub+wUnsub+wPunsub+wPub+wBurst+wChurn:
			st := c14Step{Op: "pub", Pubs: pubs(1+rng.Intn(4), 3, 8)}
			nch := 1 + rng.Intn(2)
			for i := 0; i < nch; i++ {
				s := rng.Intn(nslots)
				n := 2 + rng.Intn(4)
				for j := 0; j < n; j++ {
					st.Churn = append(st.Churn, anyOp(s))
				}
			}
			sc.Steps = append(sc.Steps, st)
		case r < wSub+wPsub+wUnsub+wPunsub+wPub+wBurst+wChurn+wDisc:
			if live[slot] {
				sc.Steps = append(sc.Steps, c14Step{Op: "disc", Conn: slot})
				live[slot] = false
				chans[slot] = map[string]bool{}
				pats[slot] = map[string]bool{}
			} else {
				sc.Steps = append(sc.Steps, anyOp(slot))
			}
		default:
			sc.Steps = append(sc.Steps, c14Step{Op: "check"})
		}
	}
	sc.Steps = append(sc.Steps, c14Step{Op: "check"})
	return sc
}

// ---- child: runs a range of scripts ----------------------------------------------

type c14Viol struct {
	Key    string `json:"key"`
	Detail string `json:"detail"`
}

// c14Pool keeps one cluster per member count inside a child.
type c14Pool struct {
	mu       sync.Mutex
	clusters map[int]*cluster.Cluster
	// membership events (join/leave/update of another node) seen by any member of the cluster
	events map[int]*int64
}

func newC14Pool() *c14Pool {
	return &c14Pool{clusters: map[int]*cluster.Cluster{}, events: map[int]*int64{}}
}

func (p *c14Pool) get(n int) (*cluster.Cluster, *int64, error) {
	p.mu.Lock()
	c, ev := p.clusters[n], p.events[n]
	p.mu.Unlock()
	if c != nil {
		return c, ev, nil
	}
	c, err := cluster.Start(cluster.Config{Partitions: 7, NoInternalRetries: true}, n)
	if err != nil {
		return nil, nil, err
	}
	// On a stalled machine memberlist may declare a live member dead; PUBLISH then
	// rightly stops forwarding to it. Such scripts must not be judged: watch the
	// membership events of every member.
	ev = new(int64)
	for _, m := range c.Members {
		ch := m.V.RT.Discovery().SubscribeNodeEvents()
		go func() {
			for range ch {
				atomic.AddInt64(ev, 1)
			}
		}()
	}
	p.mu.Lock()
	p.clusters[n] = c
	p.events[n] = ev
	p.mu.Unlock()
	return c, ev, nil
}

func (p *c14Pool) drop(n int) {
	p.mu.Lock()
	c := p.clusters[n]
	delete(p.clusters, n)
	p.mu.Unlock()
	if c != nil {
		c.Shutdown()
	}
}

func (p *c14Pool) shutdown() {
	for n := 1; n <= 3; n++ {
		p.drop(n)
	}
}

// c14RunOn executes one script on the pool's cluster of the right size.
// The caller holds the lock of that cluster size.
func c14RunOn(p *c14Pool, sc c14Script) (res *c14Result) {
	c, events, err := p.get(sc.Members)
	if err != nil {
		return &c14Result{Inconclusive: "cluster start: " + err.Error()}
	}
	res = c14Execute(c, sc, events)
	if res.Inconclusive != "" || !res.CleanAfter {
		// unknown state: do not let it leak into the next script
		p.drop(sc.Members)
	}
	return res
}

func c14Child(ctx *runCtx, spec string) {
	// spec: <seed>:<first>:<count>
	var seed int64
	var first, count int
	fmt.Sscanf(spec, "%d:%d:%d", &seed, &first, &count)
	pool := newC14Pool()
	defer pool.shutdown()

	queues := map[int]chan c14Script{}
	var wg sync.WaitGroup
	var vmu sync.Mutex
	reported := map[string]bool{}
	shrinks := 0
	var logMu sync.Mutex
	// violations are handed to the report at the end, shrunk ones first, so that the
	// replay file of a finding key holds the minimal script
	type pendingViol struct {
		key, detail string
		payload     map[string]interface{}
		shrunk      bool
	}
	var pending []pendingViol
	staleSeen := 0
	for n := 1; n <= 3; n++ {
		q := make(chan c14Script, count)
		queues[n] = q
		wg.Add(1)
		go func(n int, q chan c14Script) {
			defer wg.Done()
			for sc := range q {
				vmu.Lock()
				giveUp := staleSeen >= 3
				vmu.Unlock()
				if giveUp {
					// every disconnect costs 15 s of polling once the bookkeeping never converges
					ctx.rep.Count("scripts_skipped_after_repeated_stale_bookkeeping", 1)
					continue
				}
				data, _ := json.Marshal(sc)
				logMu.Lock()
				fmt.Printf("CASE %s\n", data) // before executing: a dead child can be attributed
				logMu.Unlock()
				res := c14RunOn(pool, sc)
				ctx.rep.Eval(1)
				if res.Inconclusive != "" {
					ctx.rep.Inconclusive(sc.ID + ": " + res.Inconclusive)
					ctx.rep.Count("scripts_inconclusive", 1)
				} else {
					c14Account(ctx, sc, res)
				}
				for _, v := range res.Viols {
					vmu.Lock()
					if strings.HasPrefix(v.Key, "c14|disconnect|") {
						staleSeen++
					}
					seen := reported[v.Key]
					reported[v.Key] = true
					// (a stale-bookkeeping run costs 15 s of polling: not shrunk)
					doShrink := !seen && shrinks < 6 && !strings.HasPrefix(v.Key, "c14|disconnect|")
					if doShrink {
						shrinks++
					}
					vmu.Unlock()
					payload := map[string]interface{}{"script": sc}
					detail := v.Detail
					if doShrink {
						min, mv := c14Shrink(pool, sc, v.Key)
						payload["minimal"] = min
						if mv != nil {
							detail = mv.Detail
						}
						detail += " — minimal script: " + min.String()
					} else if !seen {
						detail += " — script: " + sc.String()
					}
					vmu.Lock()
					pending = append(pending, pendingViol{v.Key, detail, payload, doShrink})
					vmu.Unlock()
				}
			}
		}(n, q)
	}
	for i := first; i < first+count; i++ {
		sc := c14Gen(seed, i)
		queues[sc.Members] <- sc
	}
	for _, q := range queues {
		close(q)
	}
	wg.Wait()
	for _, shrunk := range []bool{true, false} {
		for _, v := range pending {
			if v.shrunk == shrunk {
				ctx.rep.Violate(v.key, v.detail, v.payload)
			}
		}
	}
}

// c14Shrink removes steps while the same finding key keeps being reported.
func c14Shrink(p *c14Pool, sc c14Script, key string) (c14Script, *c14Viol) {
	has := func(r *c14Result) *c14Viol {
		for i := range r.Viols {
			if r.Viols[i].Key == key {
				return &r.Viols[i]
			}
		}
		return nil
	}
	cur := sc
	var curV *c14Viol
	budget := 120
	for changed := true; changed && budget > 0; {
		changed = false
		for i := len(cur.Steps) - 1; i >= 0 && budget > 0; i-- {
			budget--
			cand := cur
			cand.Steps = append(append([]c14Step(nil), cur.Steps[:i]...), cur.Steps[i+1:]...)
			if v := has(c14RunOn(p, cand)); v != nil {
				cur, curV, changed = cand, v, true
			}
		}
	}
	// simplify what is left: drop churn, reduce publishers and messages
	for i := range cur.Steps {
		if cur.Steps[i].Op != "pub" || budget <= 0 {
			continue
		}
		try := func(mod func(st *c14Step)) {
			if budget <= 0 {
				return
			}
			budget--
			cand := cur
			cand.Steps = append([]c14Step(nil), cur.Steps...)
			st := cand.Steps[i]
			st.Pubs = append([]c14Pub(nil), st.Pubs...)
			mod(&st)
			cand.Steps[i] = st
			if v := has(c14RunOn(p, cand)); v != nil {
				cur, curV = cand, v
			}
		}
		if len(cur.Steps[i].Churn) > 0 {
			try(func(st *c14Step) { st.Churn = nil })
		}
		for len(cur.Steps[i].Pubs) > 1 && budget > 0 {
			before := len(cur.Steps[i].Pubs)
			try(func(st *c14Step) { st.Pubs = st.Pubs[:len(st.Pubs)-1] })
			if len(cur.Steps[i].Pubs) == before {
				break
			}
		}
		for k := range cur.Steps[i].Pubs {
			for len(cur.Steps[i].Pubs[k].Chans) > 1 && budget > 0 {
				before := len(cur.Steps[i].Pubs[k].Chans)
				try(func(st *c14Step) {
					p := st.Pubs[k]
					p.Chans = p.Chans[:len(p.Chans)-1]
					st.Pubs[k] = p
				})
				if len(cur.Steps[i].Pubs[k].Chans) == before {
					break
				}
			}
		}
	}
	return cur, curV
}

// c14Account records what one executed script observed.
func c14Account(ctx *runCtx, sc c14Script, res *c14Result) {
	rep := ctx.rep
	rep.Count("scripts_with_verdict", 1)
	rep.Count("scripts_flavor_"+sc.Flavor, 1)
	rep.Count(fmt.Sprintf("scripts_members_%d", sc.Members), 1)
	rep.Count("steps_executed", int64(len(sc.Steps)))
	for k, v := range res.Counters {
		rep.Count(k, v)
	}
	var feats []string
	for f := range res.Features {
		feats = append(feats, f)
		rep.SetAdd("features_observed", f)
	}
	sort.Strings(feats)
	if len(feats) >= 3 {
		rep.Distinct(fmt.Sprintf("m=%d|%s|%s", sc.Members, sc.Flavor, strings.Join(feats, "+")))
	}
	if res.Counters["deliveries_observed"] > 20 && res.Features["cross-member-delivery"] && res.Features["nonmatching-pattern-at-publish"] {
		rep.Sample(map[string]interface{}{"script": sc.String(), "publishes": res.Counters["publishes"], "deliveries_observed": res.Counters["deliveries_observed"], "introspection_checks": res.Counters["introspection_member_checks"]})
	}
}

func c14Run(ctx *runCtx) int {
	ctx.rep.Rule = "case = one script of 20-60 steps over subscribe/psubscribe/unsubscribe(some|all)/punsubscribe/publish(1-4 concurrent publishers, optionally concurrent with subscription churn)/disconnect/check on 2-8 subscriber connections over 1-3 members, " +
		"raw RESP connections or the Go PubSub client (EmbeddedClient / ClusterClient); channels {a,ab,b.1,b.2}, patterns {a*,b.?,*,zz*,a}; every delivery, PUBLISH return value and PUBSUB CHANNELS/NUMSUB/NUMPAT reply is compared with the reference model. " +
		"distinct_nontrivial = distinct (member count, client flavor, set of situations actually observed in the script) with >= 3 situations; situations are listed in sets.features_observed"
	ctx.rep.Assumptions = []string{
		"PUBLISH is synchronous: when it has returned, every delivery has been written to the subscriber sockets (publishCommandHandler forwards inside the handler); the PING fence relies on this and on per-connection stream order only",
		"one delivery per matching subscription (message + pmessage on the same connection) and one delivery per connection are both accepted",
		"subscriptions whose SUBSCRIBE/UNSUBSCRIBE is in flight while a publish runs may or may not receive it (at most once); only subscriptions acknowledged before the publish was sent and not touched during it must receive it",
		"after a disconnect the member's bookkeeping must equal the model within 2 s; convergence later than that but within 15 s is reported as inconclusive (load), never converging is a violation",
	}
	seed := ctx.seed
	if old, _ := filepath.Glob(filepath.Join(ctx.outDir, "*.race.*")); len(old) > 0 {
		for _, f := range old {
			_ = os.Remove(f) // reports of an earlier run
		}
	}
	var batches []batch
	add := func(first, count int, race bool) {
		timeout := 8 * time.Minute
		if ctx.tier == "thorough" {
			timeout = 25 * time.Minute
		}
		batches = append(batches, batch{Spec: fmt.Sprintf("%d:%d:%d", seed, first, count), Timeout: timeout, Race: race})
	}
	if ctx.tier == "quick" {
		for i := 0; i < 8; i++ {
			add(i*300, 300, false)
		}
	} else {
		for i := 0; i < 40; i++ {
			add(i*600, 600, false)
		}
		add(100000, 300, true)
		add(100300, 300, true)
	}
	runBatches(ctx, batches, 4, func(b batch, res batchResult, tail string) {
		if b.Race && res.Merged && res.ExitCode == 66 {
			// the race detector makes the process exit with 66 when it printed a report;
			// data-race freedom is not part of C14 (reports are counted below as diagnostics)
			return
		}
		last := ""
		for _, l := range strings.Split(tail, "\n") {
			if strings.HasPrefix(l, "CASE ") {
				last = l
			}
		}
		cls := "member-crashed"
		if strings.Contains(tail, "go-redis/v9.(*PubSub).newMessage") {
			// the subscriber's client library could not parse what the member delivered: the stream of messages on
			// the subscriber connection was not a sequence of intact messages
			cls = "garbled-delivery|subscriber-client-panicked-parsing-the-stream"
		}
		ctx.rep.Violate("c14|"+cls+"|"+c14CrashShape(tail), fmt.Sprintf("child %s died (exit %d timeout=%v): %s ; last case started: %s", b.Spec, res.ExitCode, res.TimedOut, lastLines(tail, 12), last),
			map[string]interface{}{"batch": b.Spec, "log": res.LogPath, "last_case": strings.TrimPrefix(last, "CASE ")})
	})
	// race-detector reports are diagnostics only (data-race freedom is not part of C14)
	if files, _ := filepath.Glob(filepath.Join(ctx.outDir, "*.race.*")); len(files) > 0 {
		ctx.rep.Extra("race_detector_report_files", len(files))
	}
	ctx.rep.Extra("race_detector_batches", countRace(batches))
	min := 1500
	if ctx.tier == "thorough" {
		min = 15000
	}
	return ctx.rep.Finish(min)
}

func c14CrashShape(tail string) string {
	for _, l := range strings.Split(tail, "\n") {
		if strings.HasPrefix(l, "panic:") || strings.HasPrefix(l, "fatal error:") {
			if len(l) > 80 {
				l = l[:80]
			}
			return l
		}
	}
	return "unknown"
}

func c14Replay(ctx *runCtx, path string) int {
	var doc struct {
		Key    string `json:"key"`
		Replay struct {
			Minimal *c14Script `json:"minimal"`
			Script  *c14Script `json:"script"`
		} `json:"replay"`
	}
	if err := readJSON(path, &doc); err != nil {
		fmt.Fprintln(os.Stderr, err)
		return 2
	}
	sc := doc.Replay.Minimal
	if sc == nil {
		sc = doc.Replay.Script
	}
	if sc == nil {
		fmt.Fprintln(os.Stderr, "replay file holds no script")
		return 2
	}
	pool := newC14Pool()
	defer pool.shutdown()
	rc := 0
	for attempt := 0; attempt < 5 && rc == 0; attempt++ { // concurrent phases may need more than one schedule
		res := c14RunOn(pool, *sc)
		if res.Inconclusive != "" {
			fmt.Println("replay: inconclusive:", res.Inconclusive)
			continue
		}
		for _, v := range res.Viols {
			fmt.Printf("replay: VIOLATION property=C14 replay=%s key=%q detail=%q\n", path, v.Key, v.Detail)
			rc = 1
		}
	}
	if rc == 0 {
		fmt.Println("replay: script holds:", sc.String())
	}
	return rc
}
