package main

// C17, additional batches.
//
// "conc": many goroutines share ONE cluster client (and the embedded client of one member) and write distinct,
// self-describing values of very different sizes at the same time; every key is then read back through every
// client. The scenarios of c17.go write one pair after the other, so that buffers shared between concurrent calls
// of a client never meet.
//
// "async": ReplicaCount=2 with asynchronous replication, back-to-back writes through the embedded client of the
// partition owner (and the other paths); when the replication has drained, the BACKUP copy of every key is read
// (DM.GETENTRY ... RC and white-box) and must hold the bytes that were written; then the primary owner is stopped
// and the survivor serves the keys from those copies.

import (
	"bytes"
	"context"
	"fmt"
	"math/rand"
	"strings"
	"sync"
	"time"

	"github.com/olric-data/olric"
	"github.com/olric-data/olric/internal/cluster/partitions"
	"github.com/olric-data/olric/verif/cluster"
	"github.com/olric-data/olric/verif/paths"
)

// c17Tagged builds a value whose every 16-byte block names the key it belongs to: foreign bytes are recognisable.
func c17Tagged(key string, size int) []byte {
	block := []byte(fmt.Sprintf("<%s>", key))
	for len(block) < 16 {
		block = append(block, '.')
	}
	v := bytes.Repeat(block, size/len(block)+1)
	return v[:size]
}

func c17Describe(got, want []byte) string {
	if len(got) != len(want) {
		return fmt.Sprintf("length %d, want %d", len(got), len(want))
	}
	for i := range got {
		if got[i] != want[i] {
			hi := i + 24
			if hi > len(got) {
				hi = len(got)
			}
			return fmt.Sprintf("same length %d, first difference at byte %d: got %q want %q", len(got), i, got[i:hi], want[i:hi])
		}
	}
	return "equal"
}

func c17ConcChild(ctx *runCtx, spec string) {
	var n, r, workers, rounds int
	var seed int64
	fmt.Sscanf(spec, "conc N=%d R=%d workers=%d rounds=%d seed=%d", &n, &r, &workers, &rounds, &seed)
	c, err := cluster.Start(cluster.Config{Replicas: r, Partitions: 13, TableSize: 1 << 20}, n)
	if err != nil {
		ctx.rep.Inconclusive(spec + ": cluster start: " + err.Error())
		return
	}
	defer c.Shutdown()
	fp := c.Fingerprint()
	bg := context.Background()
	sizes := []int{64, 300, 1500, 4096, 20000, 96 * 1024, 17, 700}
	for round := 0; round < rounds; round++ {
		// a fresh cluster client per round: its connection pool is empty, the first calls wait for connections
		cc, err := c.NewClusterClient()
		if err != nil {
			ctx.rep.Inconclusive(spec + ": cluster client: " + err.Error())
			return
		}
		name := fmt.Sprintf("c17-conc-%d-%d", seed, round)
		ccdm, err1 := cc.NewDMap(name)
		embdm, err2 := c.Live()[round%n].Emb.NewDMap(name)
		if err1 != nil || err2 != nil {
			ctx.rep.Inconclusive(fmt.Sprintf("%s: NewDMap: %v %v", spec, err1, err2))
			return
		}
		type rec struct {
			key  string
			val  []byte
			path string
			err  error
		}
		recs := make([]*rec, workers*6)
		var wg sync.WaitGroup
		start := make(chan struct{})
		for w := 0; w < workers; w++ {
			wg.Add(1)
			go func(w int) {
				defer wg.Done()
				rng := rand.New(rand.NewSource(seed*1000 + int64(round*100+w)))
				<-start
				for i := 0; i < 6; i++ {
					key := fmt.Sprintf("conc-%d-%d-%d", round, w, i)
					rc := &rec{key: key, val: c17Tagged(key, sizes[rng.Intn(len(sizes))]+rng.Intn(9)), path: "CC"}
					var dm olric.DMap = ccdm
					if w%4 == 3 {
						rc.path, dm = "E", embdm
					}
					if i%2 == 0 {
						rc.err = dm.Put(bg, key, rc.val)
					} else {
						rc.err = dm.Put(bg, key, string(rc.val))
					}
					recs[w*6+i] = rc
				}
			}(w)
		}
		close(start)
		wg.Wait()
		router := paths.NewRouter(c, name)
		sess := router.NewSession()
		bad := false
		for _, rc := range recs {
			if rc.err != nil {
				if paths.Class(rc.err) == "net" {
					ctx.rep.Inconclusive(spec + ": Put: " + rc.err.Error())
				} else if !bad {
					ctx.rep.Violate("c17|conc|put-failed|path="+rc.path, fmt.Sprintf("%s: concurrent Put(%s, %d bytes) via %s failed: %v", spec, rc.key, len(rc.val), rc.path, rc.err), map[string]interface{}{"batch": spec})
					bad = true
				}
				continue
			}
			ctx.rep.Eval(1)
			for _, kind := range []string{"EO", "CC", "RN"} {
				if n == 1 && kind == "RN" {
					kind = "RO"
				}
				g, err := sess.Via(kind).Get(bg, rc.key)
				ctx.rep.Count("conc_reads", 1)
				if err != nil || !bytes.Equal(g.Value, rc.val) {
					if paths.Class(err) == "net" {
						ctx.rep.Inconclusive(spec + ": Get: " + err.Error())
						continue
					}
					if !bad {
						what := "error " + fmt.Sprint(err)
						if err == nil {
							what = c17Describe(g.Value, rc.val)
						}
						ctx.rep.Violate("c17|conc|value-differs|written-via="+rc.path, fmt.Sprintf("%s round %d: %d goroutines wrote distinct values at the same time through one client; Get(%s) via %s: %s", spec, round, workers, rc.key, kind, what),
							map[string]interface{}{"batch": spec, "key": rc.key, "size": len(rc.val)})
						bad = true
					}
				}
			}
		}
		ctx.rep.Distinct(fmt.Sprintf("conc|N=%d|R=%d|workers=%d|round=%d", n, r, workers, round%4))
		sess.Close()
		router.Close()
		_ = ccdm.Destroy(bg)
		_ = cc.Close(bg)
		if c.Fingerprint() != fp {
			if k := ctx.rep.DropViolations(); k > 0 {
				ctx.rep.Inconclusive(fmt.Sprintf("%s: membership/routing changed; %d violation(s) dropped", spec, k))
			}
			return
		}
	}
	ctx.rep.Sample(map[string]interface{}{"config": spec, "writers_sharing_one_client": workers, "value_sizes": sizes})
}

func c17AsyncChild(ctx *runCtx, spec string) {
	var n, keys int
	var seed int64
	fmt.Sscanf(spec, "async N=%d keys=%d seed=%d", &n, &keys, &seed)
	c, err := cluster.Start(cluster.Config{Replicas: 2, Partitions: 7, TableSize: 1 << 20, Async: true, FastFailureDetection: true}, n)
	if err != nil {
		ctx.rep.Inconclusive(spec + ": cluster start: " + err.Error())
		return
	}
	defer c.Shutdown()
	fp := c.Fingerprint()
	bg := context.Background()
	name := fmt.Sprintf("c17-async-%d", seed)
	router := paths.NewRouter(c, name)
	defer router.Close()
	sess := router.NewSession()
	defer sess.Close()
	rng := rand.New(rand.NewSource(seed))
	want := map[string][]byte{}
	var order []string
	kinds := []string{"EO", "EO", "EO", "EN", "CC", "RO"}
	// back to back, no pause between the writes
	for i := 0; i < keys; i++ {
		k := fmt.Sprintf("async-%d", i)
		v := c17Tagged(k, 40+rng.Intn(400))
		if err := sess.Via(kinds[i%len(kinds)]).Put(bg, k, v, paths.PutOpts{}); err != nil {
			ctx.rep.Inconclusive(spec + ": Put: " + err.Error())
			return
		}
		want[k] = v
		order = append(order, k)
	}
	// let the replication drain: every key has a backup copy, or 5 s have passed
	for wait := 0; wait < 100; wait++ {
		missing := 0
		for _, k := range order {
			found := false
			for _, b := range c.BackupsOf(name, k) {
				if _, ok := b.V.DMap.VerifEntry(partitions.BACKUP, name, k); ok {
					found = true
				}
			}
			if !found {
				missing++
			}
		}
		if missing == 0 {
			break
		}
		time.Sleep(50 * time.Millisecond)
	}
	bad := false
	check := func(phase, k, via string, got []byte, err error) {
		ctx.rep.Count("async_reads_"+phase, 1)
		if err == nil && bytes.Equal(got, want[k]) {
			return
		}
		if err != nil && (paths.Class(err) == "net" || paths.Class(err) == "key not found") {
			// whether an acknowledged asynchronous write reached the backup is not judged
			ctx.rep.Count("async_copy_missing_"+phase, 1)
			return
		}
		if bad {
			return
		}
		bad = true
		what := "error " + fmt.Sprint(err)
		if err == nil {
			what = c17Describe(got, want[k])
		}
		ctx.rep.Violate("c17|async|value-differs|"+phase, fmt.Sprintf("%s: asynchronous replication, %d back-to-back writes; %s of %s via %s: %s", spec, keys, phase, k, via, what), map[string]interface{}{"batch": spec, "key": k})
	}
	for _, k := range order {
		ctx.rep.Eval(1)
		for _, b := range c.BackupsOf(name, k) {
			if e, ok := b.V.DMap.VerifEntry(partitions.BACKUP, name, k); ok {
				check("backup-copy", k, "white-box@"+b.Name, e.Value, nil)
			}
		}
		g, err := sess.Via("EN").Get(bg, k)
		check("read", k, "EN", g.Value, err)
		g, err = sess.Via("CC").Get(bg, k)
		check("read", k, "CC", g.Value, err)
	}
	ctx.rep.Distinct(fmt.Sprintf("async|N=%d|phase=healthy", n))
	if c.Fingerprint() != fp {
		if k := ctx.rep.DropViolations(); k > 0 {
			ctx.rep.Inconclusive(fmt.Sprintf("%s: membership/routing changed; %d violation(s) dropped", spec, k))
		}
		return
	}
	// stop the member that owns most keys: the survivors serve the backup copies
	cnt := map[*cluster.Member]int{}
	for _, k := range order {
		cnt[c.OwnerOf(name, k)]++
	}
	var victim *cluster.Member
	for m, x := range cnt {
		if victim == nil || x > cnt[victim] {
			victim = m
		}
	}
	sess.Close()
	c.StopGraceful(victim)
	if err := c.WaitStable(60 * time.Second); err != nil {
		ctx.rep.Inconclusive(spec + ": " + err.Error())
		return
	}
	s2 := router.NewSession()
	defer s2.Close()
	surv := c.Live()[0]
	for _, k := range order {
		g, err := s2.ViaMember("E", surv).Get(bg, k)
		check("after-owner-stopped", k, "E@"+surv.Name, g.Value, err)
	}
	ctx.rep.Distinct(fmt.Sprintf("async|N=%d|phase=after-owner-stopped", n))
	ctx.rep.Sample(map[string]interface{}{"config": spec, "keys": keys})
}

// "pipe": many commands are queued in ONE pipeline before Exec - Put and GetPut with distinct self-describing
// values of different sizes and types, interleaved with ordinary Puts of the same client - and every value is read
// back afterwards. A queued command must own the bytes it was given until Exec has sent them.
func c17PipeChild(ctx *runCtx, spec string) {
	var n, r, rounds int
	var seed int64
	fmt.Sscanf(spec, "pipe N=%d R=%d rounds=%d seed=%d", &n, &r, &rounds, &seed)
	c, err := cluster.Start(cluster.Config{Replicas: r, Partitions: 13, TableSize: 1 << 20}, n)
	if err != nil {
		ctx.rep.Inconclusive(spec + ": cluster start: " + err.Error())
		return
	}
	defer c.Shutdown()
	fp := c.Fingerprint()
	bg := context.Background()
	cc, err := c.NewClusterClient()
	if err != nil {
		ctx.rep.Inconclusive(spec + ": cluster client: " + err.Error())
		return
	}
	defer cc.Close(bg)
	rng := rand.New(rand.NewSource(seed))
	sizes := []int{24, 100, 700, 5000, 40000}
	for round := 0; round < rounds; round++ {
		name := fmt.Sprintf("c17-pipe-%d-%d", seed, round)
		dm, err := cc.NewDMap(name)
		if err != nil {
			ctx.rep.Inconclusive(spec + ": NewDMap: " + err.Error())
			return
		}
		cdm := dm.(*olric.ClusterDMap)
		pipe, err := cdm.Pipeline()
		if err != nil {
			ctx.rep.Inconclusive(spec + ": Pipeline: " + err.Error())
			return
		}
		want := map[string][]byte{}
		how := map[string]string{}
		var order []string
		queued := 8 + rng.Intn(56)
		for i := 0; i < queued; i++ {
			k := fmt.Sprintf("p-%d-%d", round, i)
			v := c17Tagged(k, sizes[rng.Intn(len(sizes))]+rng.Intn(7))
			var qerr error
			switch x := rng.Intn(10); {
			case x < 4:
				how[k] = "pipelined GetPut"
				_, qerr = pipe.GetPut(bg, k, v)
			case x < 7:
				how[k] = "pipelined Put"
				_, qerr = pipe.Put(bg, k, v)
			case x < 8:
				how[k] = "pipelined GetPut (string)"
				_, qerr = pipe.GetPut(bg, k, string(v))
			default:
				// an ordinary call of the same client between two queued commands
				how[k] = "plain Put between queued commands"
				qerr = dm.Put(bg, k, v)
			}
			if qerr != nil {
				ctx.rep.Inconclusive(fmt.Sprintf("%s: %s: %v", spec, how[k], qerr))
				return
			}
			want[k] = v
			order = append(order, k)
		}
		if err := pipe.Exec(bg); err != nil {
			ctx.rep.Inconclusive(spec + ": Exec: " + err.Error())
			return
		}
		pipe.Close()
		router := paths.NewRouter(c, name)
		sess := router.NewSession()
		bad := false
		for _, k := range order {
			ctx.rep.Eval(1)
			ctx.rep.Count("pipe_values_written_by_"+strings.ReplaceAll(how[k], " ", "_"), 1)
			for _, kind := range []string{"EO", "CC"} {
				g, err := sess.Via(kind).Get(bg, k)
				if err == nil && bytes.Equal(g.Value, want[k]) {
					continue
				}
				if paths.Class(err) == "net" {
					ctx.rep.Inconclusive(spec + ": Get: " + err.Error())
					continue
				}
				if !bad {
					bad = true
					what := "error " + fmt.Sprint(err)
					if err == nil {
						what = c17Describe(g.Value, want[k])
					}
					ctx.rep.Violate("c17|pipe|value-differs|written-by="+strings.ReplaceAll(how[k], " ", "-"),
						fmt.Sprintf("%s round %d: %d commands were queued in one pipeline and executed; %s of %s (%d bytes) reads back via %s: %s", spec, round, queued, how[k], k, len(want[k]), kind, what),
						map[string]interface{}{"batch": spec, "key": k, "queued": queued})
				}
			}
		}
		ctx.rep.Distinct(fmt.Sprintf("pipe|N=%d|R=%d|queued=%d", n, r, queued/8))
		sess.Close()
		router.Close()
		_ = dm.Destroy(bg)
		if c.Fingerprint() != fp {
			if k := ctx.rep.DropViolations(); k > 0 {
				ctx.rep.Inconclusive(fmt.Sprintf("%s: membership/routing changed; %d violation(s) dropped", spec, k))
			}
			return
		}
	}
	ctx.rep.Sample(map[string]interface{}{"config": spec, "rounds": rounds})
}
