package main

// C17 — case generators: values of every supported type, keys of every
// interesting shape, entry sizes around the table size. The case list is a
// pure function of (table size, seed, tier, shard).

import (
	"bytes"
	"encoding/binary"
	"encoding/hex"
	"errors"
	"fmt"
	"math"
	"math/rand"
	"strconv"
	"strings"
	"time"
)

// c17MaxKeyLen is the longest key the implementation accepts: table.Put rejects
// len(key) >= table.MaxKeyLength (256), because the key length is stored in one byte.
const c17MaxKeyLen = 255

// c17Meta is the per-entry overhead (table.MetadataLength).
const c17Meta = 29

// c17Bytes describes a byte string without writing it out.
type c17Bytes struct {
	Pat  string `json:"pat"`
	Len  int    `json:"len"`
	Seed int64  `json:"seed,omitempty"`
	Lit  string `json:"lit,omitempty"` // hex, for pat=lit
	Tag  int    `json:"tag,omitempty"` // >0: the last 3 bytes are the tag in base 36 (keeps keys unique)
}

func c17Lit(s string) c17Bytes {
	return c17Bytes{Pat: "lit", Len: len(s), Lit: hex.EncodeToString([]byte(s))}
}

const c17RespLooking = "*3\r\n$3\r\nSET\r\n$1\r\nk\r\n$1\r\nv\r\n"

func (b c17Bytes) build() []byte {
	if b.Pat == "lit" {
		out, _ := hex.DecodeString(b.Lit)
		return out
	}
	out := make([]byte, b.Len)
	switch b.Pat {
	case "ramp":
		for i := range out {
			out[i] = byte(i)
		}
	case "zero":
	case "ff":
		for i := range out {
			out[i] = 0xff
		}
	case "crlf":
		for i := range out {
			out[i] = "\r\n"[i%2]
		}
	case "resp":
		for i := range out {
			out[i] = c17RespLooking[i%len(c17RespLooking)]
		}
	case "space":
		for i := range out {
			out[i] = ' '
		}
	case "ascii":
		for i := range out {
			out[i] = byte('a' + i%26)
		}
	case "rand":
		rng := rand.New(rand.NewSource(b.Seed))
		rng.Read(out)
	default:
		panic("c17: pattern " + b.Pat)
	}
	if b.Tag > 0 && len(out) >= 3 {
		t := b.Tag
		for i := 1; i <= 3; i++ {
			out[len(out)-i] = "0123456789abcdefghijklmnopqrstuvwxyz"[t%36]
			t /= 36
		}
	}
	return out
}

// c17Blob implements encoding.BinaryMarshaler / BinaryUnmarshaler.
type c17Blob struct {
	A uint32
	B []byte
}

func (b c17Blob) MarshalBinary() ([]byte, error) {
	out := make([]byte, 4+len(b.B))
	binary.BigEndian.PutUint32(out, b.A)
	copy(out[4:], b.B)
	return out, nil
}

func (b *c17Blob) UnmarshalBinary(data []byte) error {
	if len(data) < 4 {
		return errors.New("c17Blob: short")
	}
	b.A = binary.BigEndian.Uint32(data)
	b.B = append([]byte(nil), data[4:]...)
	return nil
}

// c17Val describes a typed value.
type c17Val struct {
	T string    `json:"t"`
	N string    `json:"n,omitempty"` // ints/durations: decimal; floats: hex bits; bool; time: "sec,nsec,zoneoffset"; blob: A
	B *c17Bytes `json:"b,omitempty"` // string, bytes, blob payload
}

func (v c17Val) build() interface{} {
	pi := func() int64 { n, _ := strconv.ParseInt(v.N, 10, 64); return n }
	pu := func() uint64 { n, _ := strconv.ParseUint(v.N, 10, 64); return n }
	switch v.T {
	case "int":
		return int(pi())
	case "int8":
		return int8(pi())
	case "int16":
		return int16(pi())
	case "int32":
		return int32(pi())
	case "int64":
		return pi()
	case "uint":
		return uint(pu())
	case "uint8":
		return uint8(pu())
	case "uint16":
		return uint16(pu())
	case "uint32":
		return uint32(pu())
	case "uint64":
		return pu()
	case "float32":
		bits, _ := strconv.ParseUint(v.N, 0, 32)
		return math.Float32frombits(uint32(bits))
	case "float64":
		bits, _ := strconv.ParseUint(v.N, 0, 64)
		return math.Float64frombits(bits)
	case "bool":
		return v.N == "true"
	case "string":
		return string(v.B.build())
	case "bytes":
		return v.B.build()
	case "time":
		var sec, nsec int64
		var off int
		fmt.Sscanf(v.N, "%d,%d,%d", &sec, &nsec, &off)
		loc := time.UTC
		if off != 0 {
			loc = time.FixedZone("", off)
		}
		return time.Unix(sec, nsec).In(loc)
	case "duration":
		return time.Duration(pi())
	case "blob":
		return c17Blob{A: uint32(pu()), B: v.B.build()}
	}
	panic("c17: type " + v.T)
}

// c17Item is one (key, value) pair with the expected outcome of writing it.
type c17Item struct {
	ID     int      `json:"id"`
	Key    c17Bytes `json:"key"`
	Val    c17Val   `json:"val"`
	Class  string   `json:"class"`          // value/key class, part of finding keys
	Expect string   `json:"expect"`         // ok | key too large | entry too large
	What   string   `json:"what,omitempty"` // for rejections: keylen=256, entry=ts+0 ...

	key string
	val interface{}
}

func (it *c17Item) materialize() {
	if it.val == nil {
		it.key = string(it.Key.build())
		it.val = it.Val.build()
	}
}

func (it *c17Item) release() {
	// big values are rebuilt on demand; keep small ones
	if it.Val.B != nil && it.Val.B.Len > 1<<16 {
		it.val = nil
	}
}

func (it c17Item) String() string {
	return fmt.Sprintf("#%d key{%s/%d} %s/%s expect=%s", it.ID, it.Key.Pat, it.Key.Len, it.Val.T, it.Class, it.Expect)
}

// encodedLen is the length of the stored value for the types where it matters (payload types).
func (v c17Val) encodedLen() int {
	switch v.T {
	case "string", "bytes":
		return v.B.Len
	case "blob":
		return v.B.Len + 4
	}
	return 0 // scalars: at most ~1100 bytes (float64 denormal in 'f' format); only used with short keys on tables >= 4 KiB
}

type c17Gen struct {
	ts    uint64
	items []c17Item
	tag   int
}

func (g *c17Gen) add(key c17Bytes, val c17Val, class string) {
	it := c17Item{ID: len(g.items), Key: key, Val: val, Class: class, Expect: "ok"}
	klen := key.Len
	switch {
	case klen > c17MaxKeyLen:
		it.Expect = "key too large"
		it.What = fmt.Sprintf("keylen=%d", klen)
		if klen > 257 {
			it.What = "keylen>257"
		}
	case uint64(klen+val.encodedLen()+c17Meta) >= g.ts:
		it.Expect = "entry too large"
		d := int64(klen+val.encodedLen()+c17Meta) - int64(g.ts)
		switch {
		case d <= 1:
			it.What = fmt.Sprintf("entry=ts%+d", d)
		case d < int64(g.ts):
			it.What = "entry<2ts"
		default:
			it.What = "entry>=2ts"
		}
	}
	g.items = append(g.items, it)
}

// addV adds a value under a short, unique ASCII key.
func (g *c17Gen) addV(val c17Val, class string) {
	g.add(c17Lit(fmt.Sprintf("v%05d", len(g.items))), val, class)
}

func (g *c17Gen) nextTag() int { g.tag++; return g.tag }

func c17I(t string, n int64) c17Val  { return c17Val{T: t, N: strconv.FormatInt(n, 10)} }
func c17U(t string, n uint64) c17Val { return c17Val{T: t, N: strconv.FormatUint(n, 10)} }
func c17F32(bits uint32) c17Val      { return c17Val{T: "float32", N: fmt.Sprintf("0x%08x", bits)} }
func c17F64(bits uint64) c17Val      { return c17Val{T: "float64", N: fmt.Sprintf("0x%016x", bits)} }
func c17S(b c17Bytes) c17Val         { return c17Val{T: "string", B: &b} }
func c17B(b c17Bytes) c17Val         { return c17Val{T: "bytes", B: &b} }
func c17T(t time.Time) c17Val {
	_, off := t.Zone()
	return c17Val{T: "time", N: fmt.Sprintf("%d,%d,%d", t.Unix(), t.Nanosecond(), off)}
}

func floatClass64(f float64) string {
	switch {
	case math.IsNaN(f):
		return "nan"
	case math.IsInf(f, 0):
		return "inf"
	case f == 0:
		return "zero"
	case math.Abs(f) < 2.2250738585072014e-308:
		return "denormal"
	}
	return "normal"
}

func floatClass32(f float32) string {
	switch {
	case f != f:
		return "nan"
	case math.IsInf(float64(f), 0):
		return "inf"
	case f == 0:
		return "zero"
	case math.Abs(float64(f)) < 1.17549435e-38:
		return "denormal"
	}
	return "normal"
}

// c17Items builds the case list.
func c17Items(ts uint64, seed int64, tier string, shard int) []c17Item {
	g := &c17Gen{ts: ts}
	thorough := tier == "thorough"
	rng := rand.New(rand.NewSource(seed*7919 + int64(ts)*31 + int64(shard)))

	// ---- integers
	type irange struct {
		t        string
		min, max int64
		bits     uint
	}
	for _, r := range []irange{
		{"int", math.MinInt64, math.MaxInt64, 64}, {"int8", math.MinInt8, math.MaxInt8, 8}, {"int16", math.MinInt16, math.MaxInt16, 16},
		{"int32", math.MinInt32, math.MaxInt32, 32}, {"int64", math.MinInt64, math.MaxInt64, 64},
	} {
		for _, c := range []struct {
			n     int64
			class string
		}{{r.min, "min"}, {r.min + 1, "min+1"}, {-1, "-1"}, {0, "0"}, {1, "1"}, {r.max - 1, "max-1"}, {r.max, "max"}} {
			g.addV(c17I(r.t, c.n), c.class)
		}
		g.addV(c17I(r.t, int64(rng.Uint64())>>(64-r.bits)), "random")
	}
	for _, r := range []struct {
		t   string
		max uint64
	}{{"uint", math.MaxUint64}, {"uint8", math.MaxUint8}, {"uint16", math.MaxUint16}, {"uint32", math.MaxUint32}, {"uint64", math.MaxUint64}} {
		for _, c := range []struct {
			n     uint64
			class string
		}{{0, "0"}, {1, "1"}, {r.max >> 1, "max/2"}, {r.max>>1 + 1, "max/2+1"}, {r.max - 1, "max-1"}, {r.max, "max"}} {
			g.addV(c17U(r.t, c.n), c.class)
		}
		g.addV(c17U(r.t, rng.Uint64()%r.max), "random")
	}

	// ---- floats
	f64 := []uint64{
		0, 1 << 63, // +0, -0
		math.Float64bits(1), math.Float64bits(-1),
		math.Float64bits(math.Inf(1)), math.Float64bits(math.Inf(-1)),
		math.Float64bits(math.NaN()), 0x7ff0000000000001, 0xfff8000000000000, // NaNs
		1, 1 | 1<<63, 0x000fffffffffffff, 0x0010000000000000, // denormal min, -min, denormal max, smallest normal
		math.Float64bits(math.MaxFloat64), math.Float64bits(-math.MaxFloat64),
		math.Float64bits(0.1), math.Float64bits(1.0 / 3.0), math.Float64bits(0.30000000000000004), math.Float64bits(123456789.12345679),
		math.Float64bits(5e-324), math.Float64bits(1e21), math.Float64bits(1e-7), math.Float64bits(math.Pi), math.Float64bits(9007199254740993),
		math.Float64bits(2.2250738585072011e-308), math.Float64bits(1.7976931348623157e308), math.Float64bits(-2.5e-5),
	}
	for _, b := range f64 {
		g.addV(c17F64(b), floatClass64(math.Float64frombits(b)))
	}
	f32 := []uint32{
		0, 1 << 31, math.Float32bits(1), math.Float32bits(-1),
		math.Float32bits(float32(math.Inf(1))), math.Float32bits(float32(math.Inf(-1))),
		0x7fc00000, 0x7f800001, 0xffc00000,
		1, 1 | 1<<31, 0x007fffff, 0x00800000,
		math.Float32bits(math.MaxFloat32), math.Float32bits(-math.MaxFloat32),
		math.Float32bits(0.1), math.Float32bits(1.0 / 3.0), math.Float32bits(16777217), math.Float32bits(3.4028235e38),
		math.Float32bits(1e-45), math.Float32bits(math.Pi), math.Float32bits(1e-7), math.Float32bits(8.5e37), math.Float32bits(1.17549421e-38),
	}
	for _, b := range f32 {
		g.addV(c17F32(b), floatClass32(math.Float32frombits(b)))
	}
	nf := 6
	if thorough {
		nf = 150
	}
	for i := 0; i < nf; i++ {
		b := rng.Uint64()
		g.addV(c17F64(b), "random-"+floatClass64(math.Float64frombits(b)))
		b32 := rng.Uint32()
		g.addV(c17F32(b32), "random-"+floatClass32(math.Float32frombits(b32)))
		// 17 significant digits, moderate exponent
		f := rng.Float64() * math.Pow(10, float64(rng.Intn(40)-20))
		g.addV(c17F64(math.Float64bits(f)), "random-17digits")
		g.addV(c17F32(math.Float32bits(float32(f))), "random-9digits")
	}

	// ---- bool
	g.addV(c17Val{T: "bool", N: "true"}, "true")
	g.addV(c17Val{T: "bool", N: "false"}, "false")

	// ---- strings and byte slices
	payloads := []struct {
		b     c17Bytes
		class string
	}{
		{c17Lit(""), "empty"},
		{c17Lit("\x00"), "nul1"},
		{c17Bytes{Pat: "zero", Len: 16}, "nul16"},
		{c17Lit("\r\n"), "crlf"},
		{c17Lit("\r"), "cr"},
		{c17Lit("\n"), "lf"},
		{c17Lit("a\r\nb\r\n"), "text-crlf"},
		{c17Lit(c17RespLooking), "resp-array"},
		{c17Lit("*3\r\n$"), "resp-prefix"},
		{c17Lit("$-1\r\n"), "resp-nil"},
		{c17Lit("-ERR key too large\r\n"), "resp-error"},
		{c17Lit("+OK\r\n"), "resp-status"},
		{c17Lit(":1\r\n"), "resp-int"},
		{c17Lit("1"), "digit-1"},
		{c17Lit("0"), "digit-0"},
		{c17Lit("-9223372036854775808"), "digits-minint"},
		{c17Lit("NaN"), "text-nan"},
		{c17Lit(" "), "space"},
		{c17Lit("  leading and trailing  "), "spaces"},
		{c17Lit("héllo 世界 \U0001F600"), "utf8"},
		{c17Lit("\xff\xfe\xfd"), "invalid-utf8"},
		{c17Bytes{Pat: "ramp", Len: 256}, "ramp256"},
		{c17Bytes{Pat: "ff", Len: 256}, "ff256"},
		{c17Bytes{Pat: "crlf", Len: 1000}, "crlf1000"},
		{c17Bytes{Pat: "resp", Len: 3000}, "resp3000"},
		{c17Bytes{Pat: "rand", Len: 1024, Seed: seed + 11}, "rand1k"},
		{c17Bytes{Pat: "ramp", Len: 65535}, "65535"},
		{c17Bytes{Pat: "ramp", Len: 65536}, "64KiB"},
		{c17Bytes{Pat: "rand", Len: 65537, Seed: seed + 12}, "64KiB+1"},
	}
	if thorough {
		payloads = append(payloads, []struct {
			b     c17Bytes
			class string
		}{
			{c17Bytes{Pat: "rand", Len: 255, Seed: seed + 13}, "rand255"},
			{c17Bytes{Pat: "rand", Len: 257, Seed: seed + 14}, "rand257"},
			{c17Bytes{Pat: "rand", Len: 32767, Seed: seed + 15}, "32767"},
			{c17Bytes{Pat: "rand", Len: 32768, Seed: seed + 16}, "32768"},
			{c17Bytes{Pat: "ramp", Len: 131072}, "128KiB"},
			{c17Bytes{Pat: "rand", Len: 1<<20 + 4096, Seed: seed + 17}, "1MiB+4K"},
			{c17Bytes{Pat: "ramp", Len: 3 << 20}, "3MiB"},
			{c17Bytes{Pat: "rand", Len: 8 << 20, Seed: seed + 18}, "8MiB"},
		}...)
	}
	for _, p := range payloads {
		g.addV(c17S(p.b), p.class)
		g.addV(c17B(p.b), p.class)
	}
	// entry sizes around the table size: entry = key + value + 29 must be < table size
	const vkey = 6 // length of the keys addV generates
	deltas := []int{-2, -1, 0, 1}
	if thorough {
		deltas = []int{-3, -2, -1, 0, 1, 2, 3, 64}
	}
	for _, d := range deltas {
		n := int(ts) - c17Meta - vkey + d
		class := fmt.Sprintf("entry=ts%+d", d)
		g.addV(c17S(c17Bytes{Pat: "ramp", Len: n}), class)
		g.addV(c17B(c17Bytes{Pat: "rand", Len: n, Seed: seed + int64(d)}), class)
		bb := c17Bytes{Pat: "rand", Len: n - 4, Seed: seed + 100 + int64(d)}
		g.addV(c17Val{T: "blob", N: "4294967295", B: &bb}, class)
	}
	// ... and half a table, twice a table
	for _, n := range []int{int(ts)/2 - 40, int(ts)/2 + 40, int(ts) * 2} {
		g.addV(c17B(c17Bytes{Pat: "rand", Len: n, Seed: seed + int64(n)}), fmt.Sprintf("len=%d", n))
	}

	// ---- time
	base := time.Date(2024, 2, 29, 12, 34, 56, 123456789, time.UTC)
	times := []struct {
		t     time.Time
		class string
	}{
		{base, "utc-nanos"},
		{time.Date(2024, 2, 29, 12, 34, 56, 1, time.UTC), "nanos=1"},
		{time.Date(2024, 2, 29, 12, 34, 56, 999999999, time.UTC), "nanos=999999999"},
		{time.Date(2024, 2, 29, 12, 34, 56, 0, time.UTC), "nanos=0"},
		{time.Date(2024, 2, 29, 12, 34, 56, 120000000, time.UTC), "nanos-trailing-zeros"},
		{base.In(time.FixedZone("", 5*3600+1800)), "zone+05:30"},
		{base.In(time.FixedZone("", -8*3600)), "zone-08:00"},
		{base.In(time.FixedZone("", 14*3600)), "zone+14:00"},
		{base.In(time.FixedZone("", -12*3600)), "zone-12:00"},
		{base.In(time.FixedZone("", 3600+30)), "zone-subminute"},
		{time.Date(1890, 6, 1, 0, 0, 0, 500, time.FixedZone("", 1172)), "zone-lmt+00:19:32"},
		{time.Time{}, "year1-zero"},
		{time.Date(0, 1, 1, 0, 0, 0, 0, time.UTC), "year0"},
		{time.Date(9999, 12, 31, 23, 59, 59, 999999999, time.UTC), "year9999"},
		{time.Unix(0, 0).UTC(), "epoch"},
		{time.Unix(-1, 999999999).UTC(), "pre-epoch"},
		{time.Date(2038, 1, 19, 3, 14, 8, 0, time.UTC), "y2038"},
	}
	for _, t := range times {
		g.addV(c17T(t.t), t.class)
	}
	nt := 4
	if thorough {
		nt = 100
	}
	for i := 0; i < nt; i++ {
		// years 0..9999, any nanosecond, whole-minute zone offsets
		sec := time.Date(0, 1, 2, 0, 0, 0, 0, time.UTC).Unix() + rng.Int63n(9998*365*86400)
		t := time.Unix(sec, rng.Int63n(1e9)).In(time.FixedZone("", (rng.Intn(26*60)-12*60)*60))
		g.addV(c17T(t), "random")
	}

	// ---- duration
	for _, c := range []struct {
		n     int64
		class string
	}{{math.MinInt64, "min"}, {math.MaxInt64, "max"}, {0, "0"}, {1, "1ns"}, {-1, "-1ns"}, {int64(time.Hour), "1h"}, {rng.Int63() - rng.Int63(), "random"}} {
		g.addV(c17I("duration", c.n), c.class)
	}

	// ---- BinaryMarshaler
	for _, c := range []struct {
		a     uint64
		b     c17Bytes
		class string
	}{
		{0, c17Lit(""), "empty"},
		{0xdeadbeef, c17Bytes{Pat: "ramp", Len: 256}, "ramp256"},
		{1, c17Lit("\r\n*3\r\n$"), "resp-looking"},
		{2, c17Bytes{Pat: "rand", Len: 70000, Seed: seed + 21}, "70000"},
	} {
		b := c.b
		g.addV(c17Val{T: "blob", N: strconv.FormatUint(c.a, 10), B: &b}, c.class)
	}

	// ---- keys (the value names the key, so a swapped pair is visible)
	addK := func(key c17Bytes, class string) {
		v := c17Lit(fmt.Sprintf("value-of-key-%d", len(g.items)))
		g.add(key, c17S(v), "key:"+class)
	}
	for _, k := range []string{"", "\x00", "\r", "\n", " ", "\xff", "a", "*", "$", "\r\n", "  ", "\x00\x00", " a b ", "*3\r\n$", "k\r\nDM.DEL x y\r\n", "key with spaces", "\t", "héllo", "\xff\xfe"} {
		addK(c17Lit(k), fmt.Sprintf("len=%d/%s", len(k), strings.Trim(strconv.QuoteToASCII(k), `"`)))
	}
	keyLens := []int{3, 8, 100, 127, 128, 129, 200, 253, 254, 255, 256, 257, 300, 511, 512, 513, 1024}
	if thorough {
		keyLens = keyLens[:0]
		for l := 3; l <= 260; l++ {
			keyLens = append(keyLens, l)
		}
		keyLens = append(keyLens, 300, 511, 512, 513, 767, 768, 1024, 2048)
	}
	for _, l := range keyLens {
		if uint64(l+64+c17Meta) >= ts {
			continue // would be rejected for its size, not for the key
		}
		pats := []string{"ascii", "rand"}
		if !thorough || l >= 250 || l%32 == 0 {
			pats = []string{"ascii", "rand", "zero", "crlf", "space", "ff", "ramp"}
		}
		for _, p := range pats {
			addK(c17Bytes{Pat: p, Len: l, Seed: seed + int64(l), Tag: g.nextTag()}, fmt.Sprintf("len=%d/%s", l, p))
		}
	}
	if ts > 70000 {
		// very long keys (entry still smaller than the table)
		for _, l := range []int{65535, 65536, 65537} {
			addK(c17Bytes{Pat: "ascii", Len: l, Tag: g.nextTag()}, fmt.Sprintf("len=%d/ascii", l))
		}
	}
	// longest key with the largest value that fits / that does not fit
	for _, d := range []int{-1, 0} {
		n := int(ts) - c17Meta - c17MaxKeyLen + d
		g.add(c17Bytes{Pat: "rand", Len: c17MaxKeyLen, Seed: seed + 31, Tag: g.nextTag()},
			c17B(c17Bytes{Pat: "rand", Len: n, Seed: seed + 32}), fmt.Sprintf("key:len=255+entry=ts%+d", d))
	}
	g.add(c17Bytes{Pat: "rand", Len: c17MaxKeyLen, Seed: seed + 33, Tag: g.nextTag()}, c17B(c17Lit("")), "key:len=255+empty-value")
	g.add(c17Bytes{Pat: "zero", Len: 1 + c17MaxKeyLen, Tag: g.nextTag()}, c17B(c17Lit("")), "key:len=256+empty-value")

	// ---- random (key, value) pairs
	nr := 250
	if thorough {
		nr = 1500
	}
	for i := 0; i < nr; i++ {
		klen := 1 + rng.Intn(c17MaxKeyLen)
		if rng.Intn(4) == 0 {
			klen = 250 + rng.Intn(6)
		}
		if klen < 3 {
			klen = 3
		}
		key := c17Bytes{Pat: "rand", Len: klen, Seed: rng.Int63(), Tag: g.nextTag()}
		maxv := int(ts) - c17Meta - klen - 1
		if maxv > 5000 {
			maxv = 5000
		}
		var v c17Val
		switch rng.Intn(9) {
		case 0:
			v = c17I([]string{"int", "int8", "int16", "int32", "int64"}[rng.Intn(5)], 0)
			bitsN := map[string]uint{"int": 64, "int8": 8, "int16": 16, "int32": 32, "int64": 64}[v.T]
			v.N = strconv.FormatInt(int64(rng.Uint64())>>(64-bitsN), 10)
		case 1:
			v = c17U([]string{"uint", "uint8", "uint16", "uint32", "uint64"}[rng.Intn(5)], 0)
			bitsN := map[string]uint{"uint": 64, "uint8": 8, "uint16": 16, "uint32": 32, "uint64": 64}[v.T]
			v.N = strconv.FormatUint(rng.Uint64()>>(64-bitsN), 10)
		case 2:
			v = c17F64(rng.Uint64())
		case 3:
			v = c17F32(rng.Uint32())
		case 4, 5:
			v = c17S(c17Bytes{Pat: "rand", Len: rng.Intn(maxv + 1), Seed: rng.Int63()})
		case 6, 7:
			v = c17B(c17Bytes{Pat: "rand", Len: rng.Intn(maxv + 1), Seed: rng.Int63()})
		case 8:
			bb := c17Bytes{Pat: "rand", Len: rng.Intn(maxv - 3), Seed: rng.Int63()}
			v = c17Val{T: "blob", N: strconv.FormatUint(uint64(rng.Uint32()), 10), B: &bb}
		}
		g.add(key, v, "random")
	}
	return g.items
}

// ------------------------------------------------------------------ oracle

func c17Equal(want, got interface{}) bool {
	switch w := want.(type) {
	case float32:
		g, ok := got.(float32)
		return ok && (w == g || (w != w && g != g))
	case float64:
		g, ok := got.(float64)
		return ok && (w == g || (w != w && g != g))
	case time.Time:
		g, ok := got.(time.Time)
		return ok && w.Equal(g) && w.Unix() == g.Unix() && w.Nanosecond() == g.Nanosecond()
	case []byte:
		g, ok := got.([]byte)
		return ok && bytes.Equal(w, g)
	case c17Blob:
		g, ok := got.(c17Blob)
		return ok && w.A == g.A && bytes.Equal(w.B, g.B)
	}
	return want == got
}

func c17Show(v interface{}) string {
	switch x := v.(type) {
	case nil:
		return "<nil>"
	case float32:
		return fmt.Sprintf("%v(bits %#08x)", x, math.Float32bits(x))
	case float64:
		return fmt.Sprintf("%v(bits %#016x)", x, math.Float64bits(x))
	case time.Time:
		return x.Format(time.RFC3339Nano) + fmt.Sprintf("(unix %d.%09d)", x.Unix(), x.Nanosecond())
	case string:
		return c17ShowBytes([]byte(x))
	case []byte:
		return c17ShowBytes(x)
	case c17Blob:
		return fmt.Sprintf("blob{A=%d B=%s}", x.A, c17ShowBytes(x.B))
	}
	return fmt.Sprintf("%v", v)
}

func c17ShowBytes(b []byte) string {
	if len(b) <= 48 {
		return fmt.Sprintf("%q(len %d)", b, len(b))
	}
	return fmt.Sprintf("%q...%q(len %d)", b[:24], b[len(b)-16:], len(b))
}

// firstDiff describes where two byte strings differ.
func c17FirstDiff(a, b []byte) string {
	n := len(a)
	if len(b) < n {
		n = len(b)
	}
	for i := 0; i < n; i++ {
		if a[i] != b[i] {
			return fmt.Sprintf("first difference at byte %d (want %#02x got %#02x), lengths %d/%d", i, a[i], b[i], len(a), len(b))
		}
	}
	return fmt.Sprintf("lengths %d/%d", len(a), len(b))
}
