package main

// C07 — Incr, Decr, IncrByFloat and GetPut are atomic across all clients.
//
// n concurrent callers hit one key, each exactly once per round. Deltas are
// distinct powers of two, so every returned value IS the set of calls ordered
// before it: the returned values must form a chain under set inclusion, each
// must contain its own bit, and calls ordered in real time must be ordered in
// the chain. GetPut: the returned-old -> written relation must be one path.

import (
	"context"
	"fmt"
	"math/bits"
	"math/rand"
	"path/filepath"
	"sort"
	"strings"
	"sync"
	"time"

	"github.com/olric-data/olric/internal/verifhook"
	"github.com/olric-data/olric/verif/cluster"
	"github.com/olric-data/olric/verif/paths"
)

func init() {
	register("C07", &checkFn{level: "exploration", run: c07Run, child: c07Child})
}

type c07Call struct {
	I     int    `json:"i"`
	Path  string `json:"path"`
	Call  int64  `json:"call"`
	Ret   int64  `json:"ret"`
	Class string `json:"class"`
	Res   int64  `json:"res"`           // Incr/Decr/IncrByFloat: result (as set bits)
	Old   string `json:"old,omitempty"` // GetPut: old value ("" = none)
	New   string `json:"new,omitempty"`
}

// assignment of callers to clients
type c07Assign struct {
	Name string
	// pick returns the client for caller i
	pick func(sess *paths.Session, c *cluster.Cluster, dmap, key string, i int) paths.Client
}

func c07Assignments(c *cluster.Cluster) []c07Assign {
	nonOwners := func(dmap, key string) []*cluster.Member {
		o := c.OwnerOf(dmap, key)
		var res []*cluster.Member
		for _, m := range c.Live() {
			if m != o {
				res = append(res, m)
			}
		}
		return res
	}
	as := []c07Assign{
		{"all-EO", func(s *paths.Session, c *cluster.Cluster, d, k string, i int) paths.Client { return s.Via("EO") }},
		{"all-CC", func(s *paths.Session, c *cluster.Cluster, d, k string, i int) paths.Client { return s.Via("CC") }},
		{"all-EN(one member)", func(s *paths.Session, c *cluster.Cluster, d, k string, i int) paths.Client { return s.Via("EN") }},
		{"EN+CC", func(s *paths.Session, c *cluster.Cluster, d, k string, i int) paths.Client {
			if i%2 == 0 {
				return s.Via("EN")
			}
			return s.Via("CC")
		}},
		{"RN+EO", func(s *paths.Session, c *cluster.Cluster, d, k string, i int) paths.Client {
			if i%2 == 0 {
				return s.Via("RN")
			}
			return s.Via("EO")
		}},
		{"EO+EN+CC+RO+RN+PL", func(s *paths.Session, c *cluster.Cluster, d, k string, i int) paths.Client {
			return s.Via(paths.Kinds[i%len(paths.Kinds)])
		}},
	}
	if len(c.Live()) >= 3 {
		as = append(as, c07Assign{"E(m1)+E(m2) two non-owner members", func(s *paths.Session, c *cluster.Cluster, d, k string, i int) paths.Client {
			no := nonOwners(d, k)
			return s.ViaMember("E", no[i%len(no)])
		}})
		as = append(as, c07Assign{"R(m1)+R(m2)+EO", func(s *paths.Session, c *cluster.Cluster, d, k string, i int) paths.Client {
			no := nonOwners(d, k)
			if i%3 == 2 {
				return s.Via("EO")
			}
			return s.ViaMember("R", no[i%len(no)])
		}})
	}
	return as
}

func c07Child(ctx *runCtx, spec string) {
	if strings.HasPrefix(spec, "long ") {
		c07LongChild(ctx, spec)
		return
	}
	var n, r, rounds int
	var seed int64
	var async bool
	fmt.Sscanf(spec, "N=%d R=%d rounds=%d seed=%d async=%t", &n, &r, &rounds, &seed, &async)
	// read repair in every second cluster: the read half of an atomic operation is a Get on the owner
	rr := r > 1 && (seed/10)%2 == 1
	if rr {
		ctx.rep.Count("clusters_with_read_repair", 1)
	}
	c, err := cluster.Start(cluster.Config{Replicas: r, Partitions: 7, TableSize: 1 << 20, Async: async, ReadRepair: rr}, n)
	if err != nil {
		ctx.rep.Inconclusive("cluster start: " + err.Error())
		return
	}
	defer c.Shutdown()
	jr := rand.New(rand.NewSource(seed))
	var jmu sync.Mutex
	verifhook.Set("*", "atomic.read-write", func(string, string) {
		jmu.Lock()
		d := time.Duration(jr.Intn(2000)) * time.Microsecond
		jmu.Unlock()
		time.Sleep(d)
	})
	dmap := fmt.Sprintf("c07-%d", seed)
	router := paths.NewRouter(c, dmap)
	defer router.Close()
	t0 := time.Now()
	now := func() int64 { return int64(time.Since(t0)) }

	keyN := 0
	assignments := c07Assignments(c)
	// after the plain assignments: the DMap is flushed with Destroy while the embedded handles that
	// were opened before stay in use next to clients that arrive over the network
	assignments = append(assignments,
		c07Assign{"DESTROY", nil},
		c07Assign{"after-Destroy: old embedded handles on the owner + cluster client", func(s *paths.Session, c *cluster.Cluster, d, k string, i int) paths.Client {
			if i%2 == 0 {
				return s.Via("EO")
			}
			return s.Via("CC")
		}},
		c07Assign{"after-Destroy: old embedded handles (owner and non-owner) + raw RESP", func(s *paths.Session, c *cluster.Cluster, d, k string, i int) paths.Client {
			return s.Via([]string{"EO", "RO", "EN", "RN"}[i%4])
		}},
	)
	for _, as := range assignments {
		if as.pick == nil {
			// make sure every member has an embedded handle in use, then flush the DMap
			ws := router.NewSession()
			for _, m := range c.Live() {
				_, _ = ws.ViaMember("E", m).Get(context.Background(), "warm-up")
			}
			ws.Close()
			if d, err := c.Live()[0].Emb.NewDMap(dmap); err == nil {
				if err := d.Destroy(context.Background()); err != nil {
					ctx.rep.Inconclusive(spec + ": Destroy: " + err.Error())
				}
			}
			ctx.rep.Count("destroys_between_rounds", 1)
			continue
		}
		for _, op := range []string{"Incr", "Decr", "IncrByFloat", "GetPut"} {
			for round := 0; round < rounds; round++ {
				keyN++
				key := fmt.Sprintf("ctr-%d", keyN)
				callers := []int{8, 16, 24}[round%3]
				calls := make([]c07Call, callers)
				fp := c.Fingerprint()
				var wg sync.WaitGroup
				start := make(chan struct{})
				for i := 0; i < callers; i++ {
					wg.Add(1)
					go func(i int) {
						defer wg.Done()
						sess := router.NewSession()
						defer sess.Close()
						cl := as.pick(sess, c, dmap, key, i)
						cc := c07Call{I: i, Path: cl.Kind()}
						<-start
						cx, cancel := context.WithTimeout(context.Background(), 30*time.Second)
						defer cancel()
						var err error
						switch op {
						case "Incr":
							cc.Call = now()
							var v int
							v, err = cl.Incr(cx, key, 1<<uint(i))
							cc.Ret = now()
							cc.Res = int64(v)
						case "Decr":
							cc.Call = now()
							var v int
							v, err = cl.Decr(cx, key, 1<<uint(i))
							cc.Ret = now()
							cc.Res = -int64(v)
						case "IncrByFloat":
							cc.Call = now()
							var f float64
							f, err = cl.IncrByFloat(cx, key, float64(int64(1)<<uint(i)))
							cc.Ret = now()
							cc.Res = int64(f)
						case "GetPut":
							cc.New = fmt.Sprintf("v%d", i)
							cc.Call = now()
							var old []byte
							var had bool
							old, had, err = cl.GetPut(cx, key, []byte(cc.New))
							cc.Ret = now()
							if had {
								cc.Old = string(old)
							}
						}
						cc.Class = paths.Class(err)
						calls[i] = cc
					}(i)
				}
				close(start)
				wg.Wait()
				ctx.rep.Eval(1)
				if c.Fingerprint() != fp {
					ctx.rep.Inconclusive(fmt.Sprintf("%s round on %s: membership/routing changed (not a stable cluster)", spec, key))
					_ = c.WaitStable(30 * time.Second)
					continue
				}
				ctx.rep.Count("rounds_"+op, 1)
				for _, cc := range calls {
					ctx.rep.Count("calls_via_"+strings.SplitN(cc.Path, "@", 2)[0], 1)
				}
				// final value
				sess := router.NewSession()
				g, gerr := sess.Via("EO").Get(context.Background(), key)
				sess.Close()
				final := string(g.Value)
				if gerr != nil {
					final = "<" + paths.Class(gerr) + ">"
				}
				overl := 0
				for a := range calls {
					for b := a + 1; b < len(calls); b++ {
						if calls[a].Call <= calls[b].Ret && calls[b].Call <= calls[a].Ret {
							overl++
						}
					}
				}
				ctx.rep.Count("overlapping_call_pairs", int64(overl))
				if overl > 0 {
					ctx.rep.Distinct(fmt.Sprintf("N=%d R=%d async=%v|%s|%s|callers=%d|round=%d", n, r, async, as.Name, op, callers, round))
				}
				clause, detail := c07Judge(op, calls, final)
				if clause == "inconclusive" {
					ctx.rep.Inconclusive(detail)
					continue
				}
				if clause != "" {
					ctx.rep.Violate(fmt.Sprintf("c07|%s|%s|paths=%s|async=%v", op, clause, as.Name, async),
						fmt.Sprintf("N=%d R=%d async=%v %s x%d via %s on key %s: %s", n, r, async, op, callers, as.Name, key, detail),
						map[string]interface{}{"N": n, "R": r, "op": op, "assignment": as.Name, "key": key, "calls": calls, "final": final})
				}
				if keyN%17 == 1 {
					ctx.rep.Sample(map[string]interface{}{"op": op, "assignment": as.Name, "callers": callers, "final": final, "calls": calls[:4]})
				}
			}
		}
	}
	for k, v := range verifhook.Counts() {
		ctx.rep.Count("hook_hits_"+k[strings.Index(k, "|")+1:], int64(v))
	}
}

// c07Judge returns the violated clause ("" = holds).
func c07Judge(op string, calls []c07Call, final string) (string, string) {
	n := len(calls)
	for _, c := range calls {
		if c.Class == "net" {
			return "inconclusive", fmt.Sprintf("%s: caller %d ended with a transport error", op, c.I)
		}
		if c.Class != "ok" {
			return "unexpected-error", fmt.Sprintf("caller %d via %s got %q", c.I, c.Path, c.Class)
		}
	}
	if op == "GetPut" {
		written := map[string]int{}
		for _, c := range calls {
			written[c.New] = c.I
		}
		none := 0
		seenOld := map[string]int{}
		for _, c := range calls {
			if c.Old == "" {
				none++
				continue
			}
			if _, ok := written[c.Old]; !ok {
				return "old-value-nobody-wrote", fmt.Sprintf("caller %d got old value %q which no call wrote", c.I, c.Old)
			}
			if c.Old == c.New {
				return "own-value-returned", fmt.Sprintf("caller %d got its own value back", c.I)
			}
			if j, dup := seenOld[c.Old]; dup {
				return "old-returned-twice", fmt.Sprintf("old value %q was returned to caller %d and caller %d: one update was lost", c.Old, j, c.I)
			}
			seenOld[c.Old] = c.I
		}
		if none != 1 {
			return "several-firsts", fmt.Sprintf("%d calls saw no previous value (exactly one must)", none)
		}
		// final value must be the unique never-returned one
		var last []string
		for v := range written {
			if _, ok := seenOld[v]; !ok {
				last = append(last, v)
			}
		}
		if len(last) != 1 || last[0] != final {
			return "final-value", fmt.Sprintf("final value %q, never-returned written values %v", final, last)
		}
		// single path from the first
		next := map[string]string{} // old -> new
		first := ""
		for _, c := range calls {
			if c.Old == "" {
				first = c.New
			} else {
				next[c.Old] = c.New
			}
		}
		cur, steps := first, 1
		for {
			nx, ok := next[cur]
			if !ok {
				break
			}
			cur = nx
			steps++
			if steps > n {
				return "chain-cycle", "the old->new relation has a cycle"
			}
		}
		if steps != n || cur != final {
			return "chain-broken", fmt.Sprintf("the old->new relation is not a single chain over all %d calls (reached %d)", n, steps)
		}
		// real-time order: if a returned before b was called, a must precede b in the chain
		pos := map[string]int{}
		cur = first
		for i := 0; i < n; i++ {
			pos[cur] = i
			cur = next[cur]
		}
		for _, a := range calls {
			for _, b := range calls {
				if a.Ret < b.Call && pos[a.New] > pos[b.New] {
					return "real-time-order", fmt.Sprintf("caller %d returned before caller %d was called but is ordered after it", a.I, b.I)
				}
			}
		}
		return "", ""
	}
	// counters
	all := int64(1)<<uint(n) - 1
	sorted := append([]c07Call(nil), calls...)
	sort.Slice(sorted, func(i, j int) bool {
		return bits.OnesCount64(uint64(sorted[i].Res)) < bits.OnesCount64(uint64(sorted[j].Res))
	})
	for k, c := range sorted {
		if c.Res < 0 || c.Res > all {
			return "impossible-result", fmt.Sprintf("caller %d got %d", c.I, c.Res)
		}
		if c.Res&(int64(1)<<uint(c.I)) == 0 {
			return "own-delta-missing", fmt.Sprintf("caller %d's result %b does not contain its own delta", c.I, c.Res)
		}
		if bits.OnesCount64(uint64(c.Res)) != k+1 {
			return "lost-update", fmt.Sprintf("results do not form a chain: the %d-th smallest result %b contains %d deltas (two calls observed the same base: an update was lost)", k+1, c.Res, bits.OnesCount64(uint64(c.Res)))
		}
		if k > 0 && sorted[k-1].Res&c.Res != sorted[k-1].Res {
			return "lost-update", fmt.Sprintf("result %b is not a superset of the previous result %b", c.Res, sorted[k-1].Res)
		}
	}
	want := fmt.Sprint(all)
	if op == "Decr" {
		want = fmt.Sprint(-all)
	}
	if final != want {
		return "final-value", fmt.Sprintf("final value %s, want %s (sum of all acknowledged deltas)", final, want)
	}
	for _, a := range calls {
		for _, b := range calls {
			if a.Ret < b.Call && a.Res&b.Res != a.Res {
				return "real-time-order", fmt.Sprintf("caller %d returned %b before caller %d was called, which returned %b", a.I, a.Res, b.I, b.Res)
			}
		}
	}
	return "", ""
}

func c07Run(ctx *runCtx) int {
	ctx.rep.Rule = "one evaluation = one round: 8/16/24 concurrent callers hit one fresh key once each (Incr/Decr/IncrByFloat with distinct power-of-two deltas, or GetPut with unique values), callers assigned to entry points by 8 assignments (all owner; all cluster client; one non-owner member; two different non-owner members; non-owner + cluster client; raw RESP non-owner + owner; all six paths mixed); oracle: chain under set inclusion / single old->new path + real-time order + final value; distinct_nontrivial = rounds in which at least two calls overlapped in time"
	ctx.rep.Assumptions = []string{"stable membership", "a round in which a call ends with a transport error is inconclusive"}
	rounds := 3
	if ctx.tier == "thorough" {
		rounds = 30
	}
	var batches []batch
	for _, nr := range [][2]int{{3, 1}, {3, 2}, {2, 2}, {1, 1}} {
		batches = append(batches, batch{Spec: fmt.Sprintf("N=%d R=%d rounds=%d seed=%d", nr[0], nr[1], rounds, ctx.seed*100+int64(nr[0]*10+nr[1])), Timeout: 15 * time.Minute})
	}
	// asynchronous replication is a configuration too: the atomic operations read through the
	// owner, which merges the backups' versions by timestamp
	batches = append(batches, batch{Spec: fmt.Sprintf("N=3 R=2 rounds=%d seed=%d async=true", rounds, ctx.seed*100+88), Timeout: 15 * time.Minute})
	lc := 1500
	if ctx.tier == "thorough" {
		lc = 15000
	}
	batches = append(batches,
		batch{Spec: fmt.Sprintf("long N=2 R=1 calls=%d seed=%d", lc, ctx.seed*100+90), Timeout: 15 * time.Minute},
		batch{Spec: fmt.Sprintf("long N=3 R=2 calls=%d seed=%d", lc, ctx.seed*100+91), Timeout: 15 * time.Minute})
	rr := 1
	if ctx.tier == "thorough" {
		rr = 5
	}
	batches = append(batches, batch{Spec: fmt.Sprintf("N=3 R=2 rounds=%d seed=%d", rr, ctx.seed*100+77), Timeout: 15 * time.Minute, Race: true})
	runBatches(ctx, batches, 4, func(b batch, res batchResult, tail string) {
		ctx.rep.Violate("c07|member-crashed-or-hung", fmt.Sprintf("child %s died (exit %d timeout=%v): %s", b.Spec, res.ExitCode, res.TimedOut, lastLines(tail, 12)), map[string]interface{}{"batch": b.Spec})
	})
	reports, total := parseRaceLogs(filepath.Join(ctx.outDir, "b"))
	ctx.rep.Extra("race_reports_total", total)
	var diag []string
	for _, r := range reports {
		diag = append(diag, r.Key())
	}
	ctx.rep.Extra("race_reports_diagnostics", diag)
	return ctx.rep.Finish(20)
}
