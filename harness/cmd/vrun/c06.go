package main

// C06 — conflicting copies resolve to the newest write (LWW, merge, read-repair).
//
// (1) Copies with chosen timestamps are placed white-box on the partition owner,
// on a real previous owner (fragmented partition produced by a join with the
// balancer held back) and on the backup owners, in every assignment of
// {missing, ts1, ts2, ts3} to the holders; a Get must return a copy with the
// maximal timestamp; with read-repair one Get must bring the owner's copy and
// every stale backup copy to the winner. (2) Fragment merges: 2-4 tables with
// overlapping keys are delivered through the real INTERNAL.NODE.MOVEFRAGMENT
// command in every order and with every single re-delivery; after each delivery
// the receiver must hold, per key, the newest entry delivered so far.

import (
	"context"
	"fmt"
	"math/rand"
	"sort"
	"strings"
	"time"

	"github.com/olric-data/olric/internal/cluster/partitions"
	"github.com/olric-data/olric/internal/kvstore/entry"
	"github.com/olric-data/olric/internal/kvstore/table"
	"github.com/olric-data/olric/verif/cluster"
	"github.com/olric-data/olric/verif/paths"
	"github.com/olric-data/olric/verif/respc"
	"github.com/vmihailenco/msgpack/v5"
)

func init() {
	register("C06", &checkFn{level: "exploration", run: c06Run, child: c06Child})
}

const c06Base = int64(1700000000000000000)

type c06Holder struct {
	Role string // owner, previous, backup0, backup1
	M    *cluster.Member
	Kind partitions.Kind
}

func c06Get(ctx *runCtx, r int, rr bool, share, of int, chain int) {
	spec := fmt.Sprintf("get R=%d read-repair=%v owners-chain=%d", r, rr, chain)
	parts := uint64(13)
	if chain == 3 {
		parts = 31
	}
	n0 := r
	if n0 < 2 {
		n0 = 2
	}
	c, err := cluster.Start(cluster.Config{Replicas: r, ReadRepair: rr, Partitions: parts, TableSize: 1 << 20}, n0)
	if err != nil {
		ctx.rep.Inconclusive(spec + ": cluster start: " + err.Error())
		return
	}
	defer c.Shutdown()
	bg := context.Background()
	dmap := "c06"
	// filler data in every partition so that previous owners keep their place in the owners list
	fill, _ := c.Members[0].Emb.NewDMap(dmap)
	for i := 0; i < 400; i++ {
		_ = fill.Put(bg, fmt.Sprintf("filler-%d", i), "f")
	}
	for j := 1; j < chain; j++ {
		if _, err := c.AddMember(); err != nil {
			ctx.rep.Inconclusive(spec + ": join: " + err.Error())
			return
		}
		if err := c.WaitStable(30 * time.Second); err != nil {
			ctx.rep.Inconclusive(spec + ": " + err.Error())
			return
		}
		// the newest owner must hold data too, otherwise the coordinator prunes it when the next member joins
		for i := 0; i < 400; i++ {
			_ = fill.Put(bg, fmt.Sprintf("filler-%d-%d", j, i), "f")
		}
	}
	// a partition that is fragmented: owners = [previous, new]
	var part uint64
	found := false
	for p := uint64(0); p < parts; p++ {
		owners := c.Members[0].V.Primary.PartitionByID(p).Owners()
		if len(owners) == chain && len(c.Members[0].V.Backup.PartitionByID(p).Owners()) >= r-1 {
			part, found = p, true
			break
		}
	}
	if !found {
		ctx.rep.Inconclusive(spec + ": no fragmented partition after the join")
		return
	}
	owners := c.Members[0].V.Primary.PartitionByID(part).Owners()
	holders := []c06Holder{{"owner", c.ByID(owners[len(owners)-1].ID), partitions.PRIMARY}}
	for i := len(owners) - 2; i >= 0; i-- {
		role := "previous"
		if i < len(owners)-2 {
			role = "previous-older"
		}
		holders = append(holders, c06Holder{role, c.ByID(owners[i].ID), partitions.PRIMARY})
	}
	bos := c.Members[0].V.Backup.PartitionByID(part).Owners()
	// current backup owners are the last R-1 entries
	for i := 0; i < r-1; i++ {
		bo := bos[len(bos)-(r-1)+i]
		holders = append(holders, c06Holder{fmt.Sprintf("backup%d", i), c.ByID(bo.ID), partitions.BACKUP})
	}
	for _, h := range holders {
		if h.M == nil {
			ctx.rep.Inconclusive(spec + ": holder not live")
			return
		}
	}
	router := paths.NewRouter(c, dmap)
	defer router.Close()
	sess := router.NewSession()
	defer sess.Close()
	fp := c.Fingerprint()
	nh := len(holders)
	total := 1
	for i := 0; i < nh; i++ {
		total *= 4
	}
	kn := 0
	for code := 0; code < total; code++ {
		if code%of != share {
			continue
		}
		ranks := make([]int, nh) // 0 = missing, 1..3 = timestamp rank
		x := code
		maxRank := 0
		for i := range ranks {
			ranks[i] = x % 4
			x /= 4
			if ranks[i] > maxRank {
				maxRank = ranks[i]
			}
		}
		// fresh key in the focus partition
		var key string
		for {
			kn++
			key = fmt.Sprintf("lww-%d", kn)
			if c.PartOf(dmap, key) == part {
				break
			}
		}
		var layout []string
		accept := map[string]bool{}
		for i, h := range holders {
			if ranks[i] == 0 {
				layout = append(layout, h.Role+"=missing")
				continue
			}
			val := fmt.Sprintf("v-%s-ts%d", h.Role, ranks[i])
			if err := h.M.V.DMap.VerifPutEntryAt(h.Kind, dmap, key, []byte(val), 0, c06Base+int64(ranks[i])*1000); err != nil {
				ctx.rep.Inconclusive(spec + ": placing a copy failed: " + err.Error())
				return
			}
			layout = append(layout, fmt.Sprintf("%s=ts%d", h.Role, ranks[i]))
			if ranks[i] == maxRank {
				accept[val] = true
			}
		}
		ls := strings.Join(layout, " ")
		via := []string{"EO", "EN", "CC", "RO", "RN"}[code%5]
		g, err := sess.Via(via).Get(bg, key)
		ctx.rep.Eval(1)
		ctx.rep.Count("gets_via_"+via, 1)
		distinctRanks := map[int]bool{}
		for _, rk := range ranks {
			if rk != 0 {
				distinctRanks[rk] = true
			}
		}
		if len(distinctRanks) >= 2 {
			ctx.rep.Distinct(fmt.Sprintf("get|R=%d|rr=%v|chain=%d|%s", r, rr, chain, ls))
		}
		if code%37 == 5 {
			ctx.rep.Sample(map[string]interface{}{"kind": "get", "config": spec, "layout": ls, "via": via, "returned": string(g.Value), "error": paths.Class(err)})
		}
		if maxRank == 0 {
			if paths.Class(err) != "key not found" {
				ctx.rep.Violate("c06|get|all-missing|not-notfound", fmt.Sprintf("%s layout [%s]: Get via %s returned (%q,%v)", spec, ls, via, g.Value, err), map[string]interface{}{"config": spec, "layout": ls})
			}
			continue
		}
		if err != nil || !accept[string(g.Value)] {
			// which holder won?
			won := "none"
			for i, h := range holders {
				if string(g.Value) == fmt.Sprintf("v-%s-ts%d", h.Role, ranks[i]) {
					won = fmt.Sprintf("%s(ts%d)", h.Role, ranks[i])
				}
			}
			newest := ""
			for i, h := range holders {
				if ranks[i] == maxRank {
					newest += h.Role + " "
				}
			}
			ctx.rep.Violate(fmt.Sprintf("c06|get|winner=%s|newest-on=%s", strings.Split(won, "(")[0], strings.TrimSpace(newest)),
				fmt.Sprintf("%s layout [%s]: Get via %s returned (%q,%v) = the copy of %s; the newest copies are on: %s", spec, ls, via, g.Value, paths.Class(err), won, newest),
				map[string]interface{}{"config": spec, "layout": ls, "via": via, "returned": string(g.Value)})
			continue
		}
		if rr {
			// one read must have repaired the owner's own copy and every stale backup copy
			wantTS := c06Base + int64(maxRank)*1000
			for i, h := range holders {
				if strings.HasPrefix(h.Role, "previous") {
					continue
				}
				if h.Kind == partitions.BACKUP && (ranks[i] == 0 || ranks[i] == maxRank) {
					continue // missing backup copies need not be created; up-to-date ones need no repair
				}
				if h.Role == "owner" && ranks[i] == maxRank {
					continue
				}
				e, ok := h.M.V.DMap.VerifEntry(h.Kind, dmap, key)
				ctx.rep.Count("read_repair_checks", 1)
				if !ok || e.Timestamp != wantTS || !accept[string(e.Value)] {
					ctx.rep.Violate(fmt.Sprintf("c06|repair|holder=%s|stale", strings.TrimRight(h.Role, "01")),
						fmt.Sprintf("%s layout [%s]: after one Get via %s the copy on %s is (present=%v value=%q ts=ts%d), want the winner ts%d", spec, ls, via, h.Role, ok, e.Value, (e.Timestamp-c06Base)/1000, maxRank),
						map[string]interface{}{"config": spec, "layout": ls, "holder": h.Role})
					break
				}
			}
		}
	}
	if c.Fingerprint() != fp {
		if n := ctx.rep.DropViolations(); n > 0 {
			ctx.rep.Inconclusive(fmt.Sprintf("%s: membership changed during the run; %d violation(s) dropped", spec, n))
		}
	}
}

type c06Pack struct {
	PartID  uint64
	Kind    partitions.Kind
	Name    string
	Payload []byte
}

type c06Ent struct {
	Key string
	Val string
	TS  int64
	TTL int64 `json:",omitempty"` // absolute expiry in ms, 0 = none (may lie in the past: the copy expired on its way)
}

func c06Table(ents []c06Ent) []byte {
	t := table.New(1 << 16)
	for _, e := range ents {
		en := entry.New()
		en.SetKey(e.Key)
		en.SetValue([]byte(e.Val))
		en.SetTimestamp(e.TS)
		if e.TTL != 0 {
			en.SetTTL(e.TTL)
		}
		if err := t.Put(partitions.HKey("x", e.Key), en); err != nil {
			panic(err)
		}
	}
	data, err := table.Encode(t)
	if err != nil {
		panic(err)
	}
	return data
}

func permutations(n int) [][]int {
	var res [][]int
	var rec func(cur []int, used []bool)
	rec = func(cur []int, used []bool) {
		if len(cur) == n {
			res = append(res, append([]int(nil), cur...))
			return
		}
		for i := 0; i < n; i++ {
			if !used[i] {
				used[i] = true
				rec(append(cur, i), used)
				used[i] = false
			}
		}
	}
	rec(nil, make([]bool, n))
	return res
}

func c06Merge(ctx *runCtx, sets int, seed int64) {
	spec := fmt.Sprintf("merge sets=%d seed=%d", sets, seed)
	c, err := cluster.Start(cluster.Config{Replicas: 2, Partitions: 7, TableSize: 1 << 20}, 2)
	if err != nil {
		ctx.rep.Inconclusive(spec + ": cluster start: " + err.Error())
		return
	}
	defer c.Shutdown()
	rng := rand.New(rand.NewSource(seed))
	rngTTL := rand.New(rand.NewSource(seed + 7777)) // separate stream: the value/timestamp cases stay what they were
	nowMs := time.Now().UnixMilli()
	expired := func(e c06Ent) bool { return e.TTL != 0 && e.TTL < nowMs }
	keys := []string{"a", "b", "c", "d", "e"}
	nameN := 0
	for s := 0; s < sets; s++ {
		k := 2 + rng.Intn(3)
		var sources [][]c06Ent
		for i := 0; i < k; i++ {
			var ents []c06Ent
			for _, key := range keys {
				if rng.Intn(3) == 0 {
					continue
				}
				ts := int64(1 + rng.Intn(6))
				val := fmt.Sprintf("s%d-%s-ts%d", i, key, ts)
				if s%3 == 2 {
					// only two different values per key: the same bytes come back with a newer timestamp
					val = fmt.Sprintf("%s-%s", key, []string{"on", "off"}[int(ts)%2])
				}
				var ttl int64
				switch rngTTL.Intn(5) {
				case 3:
					ttl = nowMs + 3600_000 // expires in an hour
				case 4:
					ttl = nowMs - 3600_000 // ran out while the fragment was on its way: still the newest version of its key
				}
				ents = append(ents, c06Ent{Key: key, Val: val, TS: c06Base + ts, TTL: ttl})
			}
			sources = append(sources, ents)
		}
		var pre []c06Ent
		if rng.Intn(2) == 0 {
			for _, key := range keys {
				if rng.Intn(2) == 0 {
					ts := int64(1 + rng.Intn(6))
					pre = append(pre, c06Ent{Key: key, Val: fmt.Sprintf("local-%s-ts%d", key, ts), TS: c06Base + ts})
				}
			}
		}
		kind := []partitions.Kind{partitions.PRIMARY, partitions.BACKUP}[s%2]
		perms := permutations(k)
		for pi, perm := range perms {
			// every single re-delivery position (and none)
			for redeliver := -1; redeliver < k; redeliver++ {
				if ctx.tier == "quick" && (pi*7+redeliver+s)%4 != 0 {
					continue
				}
				order := append([]int(nil), perm...)
				if redeliver >= 0 {
					// deliver source perm[redeliver] once more at the end
					order = append(order, perm[redeliver])
				}
				nameN++
				name := fmt.Sprintf("c06m-%d-%d", seed, nameN)
				part := uint64(nameN % 7)
				// receiver = a member listed as owner of this partition for this kind
				var recv *cluster.Member
				if kind == partitions.PRIMARY {
					recv = c.ByID(c.Members[0].V.Primary.PartitionByID(part).Owner().ID)
				} else {
					bo := c.Members[0].V.Backup.PartitionByID(part).Owners()
					if len(bo) > 0 {
						recv = c.ByID(bo[len(bo)-1].ID)
					}
				}
				if recv == nil {
					continue
				}
				ref := map[string][]c06Ent{} // key -> candidates with max ts
				apply := func(ents []c06Ent) {
					for _, e := range ents {
						cur := ref[e.Key]
						switch {
						case len(cur) == 0 || e.TS > cur[0].TS:
							ref[e.Key] = []c06Ent{e}
						case e.TS == cur[0].TS:
							ref[e.Key] = append(cur, e)
						}
					}
				}
				for _, e := range pre {
					// place under the hkey the import will use for this key
					if err := c06PlaceLocal(recv, kind, part, name, e); err != nil {
						ctx.rep.Inconclusive(spec + ": " + err.Error())
					}
				}
				apply(pre)
				conn, err := respc.Dial(recv.Name)
				if err != nil {
					ctx.rep.Inconclusive(spec + ": dial: " + err.Error())
					continue
				}
				ok := true
				for step, si := range order {
					payload, _ := msgpack.Marshal(c06Pack{PartID: part, Kind: kind, Name: name, Payload: c06Table(sources[si])})
					rep, err := conn.DoBytes(10*time.Second, []byte("INTERNAL.NODE.MOVEFRAGMENT"), payload)
					if err != nil || rep.IsErr() {
						ctx.rep.Violate("c06|merge|delivery-refused", fmt.Sprintf("%s: delivering a table to %s failed: %v %s", spec, recv.Name, err, rep.String()), map[string]interface{}{"config": spec})
						ok = false
						break
					}
					apply(sources[si])
					ctx.rep.Count("fragment_deliveries", 1)
					got, _ := recv.V.DMap.VerifEntries(kind, part, name)
					gm := map[string]c06Ent{}
					for _, e := range got {
						gm[e.Key] = c06Ent{Key: e.Key, Val: string(e.Value), TS: e.Timestamp}
					}
					for key, cands := range ref {
						g, present := gm[key]
						match := false
						anyExpired := false
						for _, cd := range cands {
							if present && g.Val == cd.Val && g.TS == cd.TS {
								match = true
							}
							anyExpired = anyExpired || expired(cd)
						}
						if anyExpired {
							// the background eviction may remove an expired winner at any moment, after which an older
							// copy delivered later legitimately stays: judge only the delivery that carried a winner,
							// and accept "absent" there
							carried := false
							for _, e := range sources[si] {
								if e.Key == key && e.TS == cands[0].TS {
									carried = true
								}
							}
							if !carried || !present {
								continue
							}
							ctx.rep.Count("merge_judgements_with_expired_winner", 1)
						}
						if !match {
							ordS := fmt.Sprint(order[:step+1])
							clause := "kept-older"
							if !present {
								clause = "lost"
							}
							if anyExpired {
								clause += "|winner-expired"
							}
							ctx.rep.Violate(fmt.Sprintf("c06|merge|%s|redelivery=%v|kind=%s", clause, redeliver >= 0 && step == len(order)-1, kind),
								fmt.Sprintf("%s: after deliveries %s (sources=%v pre-existing=%v) key %q is (present=%v %q ts%d), want one of %v", spec, ordS, sources, pre, key, present, g.Val, g.TS-c06Base, cands),
								map[string]interface{}{"config": spec, "order": order[:step+1], "sources": sources, "preexisting": pre, "key": key})
							ok = false
							break
						}
					}
					for key := range gm {
						if _, known := ref[key]; !known {
							ctx.rep.Violate("c06|merge|extra-keys", fmt.Sprintf("%s: receiver holds key %q (%d keys), the reference has %d keys and not this one", spec, key, len(gm), len(ref)), map[string]interface{}{"config": spec})
							ok = false
						}
					}
					if !ok {
						break
					}
				}
				conn.Close()
				ctx.rep.Eval(1)
				ctx.rep.Distinct(fmt.Sprintf("merge|set=%d|order=%v|kind=%s", s, order, kind))
				if nameN%53 == 1 {
					ctx.rep.Sample(map[string]interface{}{"kind": "merge", "sources": sources, "preexisting": pre, "delivery_order": order, "fragment_kind": kind.String()})
				}
				if d, err := recv.Emb.NewDMap(name); err == nil {
					_ = d.Destroy(context.Background())
				}
				if !ok {
					return
				}
			}
		}
	}
}

// c06PlaceLocal stores a pre-existing entry in the receiver's fragment under the hkey used by c06Table.
func c06PlaceLocal(m *cluster.Member, kind partitions.Kind, part uint64, name string, e c06Ent) error {
	// deliver it as a one-entry fragment: the simplest way to get it stored under the same hkey
	conn, err := respc.Dial(m.Name)
	if err != nil {
		return err
	}
	defer conn.Close()
	payload, _ := msgpack.Marshal(c06Pack{PartID: part, Kind: kind, Name: name, Payload: c06Table([]c06Ent{e})})
	rep, err := conn.DoBytes(10*time.Second, []byte("INTERNAL.NODE.MOVEFRAGMENT"), payload)
	if err != nil {
		return err
	}
	if rep.IsErr() {
		return fmt.Errorf("%s", rep.Str)
	}
	return nil
}

func c06Child(ctx *runCtx, spec string) {
	if strings.HasPrefix(spec, "promoted:") {
		c06Promoted(ctx, spec)
		return
	}
	if strings.HasPrefix(spec, "merge:") {
		var sets int
		var seed int64
		fmt.Sscanf(spec, "merge:%d:%d", &sets, &seed)
		c06Merge(ctx, sets, seed)
		return
	}
	var r, rr, share, of int
	chain := 2
	fmt.Sscanf(spec, "get:%d:%d:%d/%d:%d", &r, &rr, &share, &of, &chain)
	c06Get(ctx, r, rr == 1, share, of, chain)
}

func c06Run(ctx *runCtx) int {
	ctx.rep.Rule = "get cases = every assignment of {missing, ts1, ts2, ts3} to the holders {owner, previous owner, backup owners} of a key in a really fragmented partition (64 layouts for R<=2... 256 for R=3), x read-repair off/on, Get through a rotating path: the returned copy must have the maximal timestamp, and with read-repair the owner's copy and every stale backup copy must equal the winner afterwards; merge cases = seeded sets of 2-4 tables over 5 keys with timestamps 1..6 (ties included) and optional pre-existing local entries, delivered through INTERNAL.NODE.MOVEFRAGMENT in every permutation and with every single re-delivery (quick: every fourth), receiver compared after each delivery with the per-key newest entry; distinct_nontrivial = layouts with >= 2 different timestamps + distinct (set, delivery order, kind)"
	ctx.rep.Assumptions = []string{"ties: any copy with the maximal timestamp is accepted", "missing backup copies need not be created by read-repair (the statement says 'stale')"}
	var batches []batch
	of := 1
	if ctx.tier == "quick" {
		of = 3
	}
	share := int(ctx.seed) % of
	for _, r := range []int{1, 2, 3} {
		for _, rr := range []int{0, 1} {
			if ctx.tier == "quick" && r == 3 && rr == 0 {
				continue
			}
			batches = append(batches, batch{Spec: fmt.Sprintf("get:%d:%d:%d/%d:2", r, rr, share, of), Timeout: 10 * time.Minute})
			if r <= 2 && (ctx.tier == "thorough" || rr == 1) {
				// owners chain of three: two joins whose hand-overs have not finished
				batches = append(batches, batch{Spec: fmt.Sprintf("get:%d:%d:%d/%d:3", r, rr, share, of*2), Timeout: 10 * time.Minute})
			}
		}
	}
	sets := 12
	if ctx.tier == "thorough" {
		sets = 120
	}
	batches = append(batches, batch{Spec: fmt.Sprintf("merge:%d:%d", sets, ctx.seed*10+1), Timeout: 15 * time.Minute})
	batches = append(batches, batch{Spec: fmt.Sprintf("merge:%d:%d", sets, ctx.seed*10+2), Timeout: 15 * time.Minute})
	for i, cfg := range [][2]int{{2, 1}, {3, 1}, {2, 0}} {
		batches = append(batches, batch{Spec: fmt.Sprintf("promoted:%d:%d:%d", cfg[0], cfg[1], ctx.seed*10+int64(i)), Timeout: 10 * time.Minute})
	}
	runBatches(ctx, batches, 6, func(b batch, res batchResult, tail string) {
		ctx.rep.Violate("c06|member-crashed-or-hung|"+strings.SplitN(b.Spec, ":", 2)[0], fmt.Sprintf("child %s died (exit %d timeout=%v): %s", b.Spec, res.ExitCode, res.TimedOut, lastLines(tail, 12)), map[string]interface{}{"batch": b.Spec})
	})
	return ctx.rep.Finish(50)
}

var _ = sort.Strings
