package main

// C19, "destroy" batches: Destroy issued through a member that has never handled the DMap.
//
// The scripts of c19.go touch every DMap from every member early on. Here a DMap gets a handful of keys through
// ONE member (so that some members have never seen its name), and is then destroyed through a client that picks its
// target member itself: the cluster client (round robin over the members), a raw connection to each member in turn,
// or the embedded client of a member. Afterwards every key reads not-found through every member, scans are empty,
// no member holds a primary or backup entry, a sibling DMap with the same keys is untouched and the DMap accepts
// new writes.

import (
	"context"
	"fmt"
	"math/rand"
	"sort"
	"time"

	"github.com/olric-data/olric"
	"github.com/olric-data/olric/internal/cluster/partitions"
	"github.com/olric-data/olric/verif/cluster"
	"github.com/olric-data/olric/verif/paths"
	"github.com/olric-data/olric/verif/respc"
)

func c19DestroyChild(ctx *runCtx, spec string) {
	var n, r, rounds int
	var p uint64
	var seed int64
	fmt.Sscanf(spec, "destroy N=%d R=%d P=%d rounds=%d seed=%d", &n, &r, &p, &rounds, &seed)
	c, err := cluster.Start(cluster.Config{Replicas: r, Partitions: p, TableSize: 1 << 16}, n)
	if err != nil {
		ctx.rep.Inconclusive(spec + ": cluster start: " + err.Error())
		return
	}
	defer c.Shutdown()
	fp := c.Fingerprint()
	rng := rand.New(rand.NewSource(seed))
	bg := context.Background()
	cc, err := c.NewClusterClient()
	if err != nil {
		ctx.rep.Inconclusive(spec + ": cluster client: " + err.Error())
		return
	}
	defer cc.Close(bg)
	live := c.Live()
	for round := 0; round < rounds; round++ {
		name := fmt.Sprintf("c19d-%d-%d", seed, round)
		sibling := name + "x"
		writer := live[rng.Intn(len(live))]
		nkeys := 1 + rng.Intn(3)
		via := []string{"cluster-client", "raw", "embedded"}[round%3]
		target := live[(round/3)%len(live)]
		wd, err1 := writer.Emb.NewDMap(name)
		sd, err2 := writer.Emb.NewDMap(sibling)
		if err1 != nil || err2 != nil {
			ctx.rep.Inconclusive(fmt.Sprintf("%s: NewDMap: %v %v", spec, err1, err2))
			return
		}
		var keys []string
		for i := 0; i < nkeys; i++ {
			k := fmt.Sprintf("k%d-%d", round, i)
			keys = append(keys, k)
			if err := wd.Put(bg, k, "v-"+k); err != nil {
				ctx.rep.Inconclusive(spec + ": Put: " + err.Error())
				return
			}
			if err := sd.Put(bg, k, "sibling-"+k); err != nil {
				ctx.rep.Inconclusive(spec + ": Put: " + err.Error())
				return
			}
		}
		// which members have an entry of the DMap before the Destroy
		holders := map[string]bool{}
		for _, m := range live {
			for _, kind := range []partitions.Kind{partitions.PRIMARY, partitions.BACKUP} {
				for _, k := range keys {
					if _, ok := m.V.DMap.VerifEntry(kind, name, k); ok {
						holders[m.Name] = true
					}
				}
			}
		}
		var derr error
		switch via {
		case "cluster-client":
			d, err := cc.NewDMap(name)
			if err == nil {
				derr = d.Destroy(bg)
			} else {
				derr = err
			}
		case "raw":
			cn, err := respc.Dial(target.Name)
			if err != nil {
				ctx.rep.Inconclusive(spec + ": dial: " + err.Error())
				return
			}
			rp, err := cn.Do(30*time.Second, "DM.DESTROY", name)
			_ = cn.Close()
			if err != nil {
				derr = err
			} else if rp.IsErr() {
				derr = fmt.Errorf("%s", rp.String())
			}
		case "embedded":
			d, err := target.Emb.NewDMap(name)
			if err == nil {
				derr = d.Destroy(bg)
			} else {
				derr = err
			}
		}
		ctx.rep.Eval(1)
		label := fmt.Sprintf("via=%s|target-held-entries=%v|holders=%d/%d|N=%d|R=%d", via, via != "cluster-client" && holders[target.Name], len(holders), len(live), n, r)
		ctx.rep.Distinct("destroy|" + label)
		ctx.rep.Count("destroys_via_"+via, 1)
		if via != "cluster-client" && !holders[target.Name] {
			ctx.rep.Count("destroys_through_a_member_without_entries_of_the_dmap", 1)
		}
		fail := func(clause, detail string) {
			ctx.rep.Violate("c19|destroy|"+clause+"|via="+via, fmt.Sprintf("%s round %d: DMap %q (%d keys written through %s, entries on %v) destroyed via %s (target %s): %s", spec, round, name, nkeys, writer.Name, sortedKeys(holders), via, target.Name, detail),
				map[string]interface{}{"batch": spec, "round": round, "via": via})
		}
		if derr != nil {
			fail("failed", "Destroy returned "+derr.Error())
			continue
		}
		bad := false
		for _, m := range live {
			for _, kind := range []partitions.Kind{partitions.PRIMARY, partitions.BACKUP} {
				for _, k := range keys {
					if e, ok := m.V.DMap.VerifEntry(kind, name, k); ok && !bad {
						fail("entry-left|copy="+kind.String(), fmt.Sprintf("after the acknowledged Destroy %s still holds the %s copy of %s = %q", m.Name, kind, k, e.Value))
						bad = true
					}
				}
			}
		}
		router := paths.NewRouter(c, name)
		sess := router.NewSession()
		for _, k := range keys {
			for _, kind := range []string{"EO", "EN", "CC", "RO", "RN"} {
				if n == 1 && (kind == "EN" || kind == "RN") {
					continue
				}
				g, err := sess.Via(kind).Get(bg, k)
				ctx.rep.Count("reads_after_destroy", 1)
				if paths.Class(err) != "key not found" && !bad {
					fail("key-readable", fmt.Sprintf("Get(%s) via %s returns (%q,%v)", k, kind, g.Value, err))
					bad = true
				}
			}
		}
		for _, m := range live {
			d, err := m.Emb.NewDMap(name)
			if err != nil {
				continue
			}
			it, err := d.Scan(bg)
			if err != nil {
				continue
			}
			got := c19Iterate(it)
			it.Close()
			if len(got) != 0 && !bad {
				fail("scan-not-empty", fmt.Sprintf("a scan through %s yields %v", m.Name, keysOf(got)))
				bad = true
			}
		}
		// the sibling is untouched
		for _, k := range keys {
			g, err := sd.Get(bg, k)
			var s string
			if err == nil {
				s, _ = g.String()
			}
			if (err != nil || s != "sibling-"+k) && !bad {
				ctx.rep.Violate("c19|destroy|changed-other-dmap|via="+via, fmt.Sprintf("%s round %d: Destroy(%q) changed DMap %q: Get(%s) = (%q,%v)", spec, round, name, sibling, k, s, err), map[string]interface{}{"batch": spec})
				bad = true
			}
		}
		// usable for new writes
		nk := keys[0]
		if err := sess.Via("CC").Put(bg, nk, []byte("again"), paths.PutOpts{}); err != nil && !bad {
			fail("not-usable", "Put after Destroy: "+err.Error())
			bad = true
		} else if g, err := sess.Via("EO").Get(bg, nk); (err != nil || string(g.Value) != "again") && !bad {
			fail("not-usable", fmt.Sprintf("Get after Put after Destroy = (%q,%v)", g.Value, err))
			bad = true
		}
		// second life: the handle that was opened before the Destroy writes keys that its own member owns (nothing
		// about this DMap travels over the network), then the same handle destroys the DMap again
		if !bad {
			var local []string
			for i := 0; i < 40 && len(local) < 3; i++ {
				k := fmt.Sprintf("again%d-%d", round, i)
				if c.OwnerOf(name, k) == writer {
					local = append(local, k)
				}
			}
			// remove what the usability check has written first, through the same handle
			_ = wd.Destroy(bg)
			for _, k := range local {
				if err := wd.Put(bg, k, "second-life-"+k); err != nil {
					fail("not-usable", "Put through the old handle after Destroy: "+err.Error())
					bad = true
				}
			}
			if !bad && len(local) > 0 {
				ctx.rep.Count("destroys_again_through_the_old_handle_after_local_writes", 1)
				if err := wd.Destroy(bg); err != nil {
					fail("failed|second-destroy", "second Destroy through the same embedded handle: "+err.Error())
					bad = true
				}
				for _, m := range live {
					for _, kind := range []partitions.Kind{partitions.PRIMARY, partitions.BACKUP} {
						for _, k := range local {
							if e, ok := m.V.DMap.VerifEntry(kind, name, k); ok && !bad {
								fail("entry-left|copy="+kind.String()+"|second-destroy", fmt.Sprintf("the DMap was destroyed, written again through the handle opened before (keys owned by %s itself) and destroyed again through that handle: %s still holds the %s copy of %s = %q", writer.Name, m.Name, kind, k, e.Value))
								bad = true
							}
						}
					}
				}
				for _, k := range local {
					if g, err := sess.Via("EN").Get(bg, k); paths.Class(err) != "key not found" && !bad && n > 1 {
						fail("key-readable|second-destroy", fmt.Sprintf("Get(%s) = (%q,%v) after the second Destroy", k, g.Value, err))
						bad = true
					}
				}
			}
		}
		sess.Close()
		router.Close()
		var dd olric.DMap
		if dd, err = live[0].Emb.NewDMap(name); err == nil {
			_ = dd.Destroy(bg)
		}
		_ = sd.Destroy(bg)
		if c.Fingerprint() != fp {
			if n := ctx.rep.DropViolations(); n > 0 {
				ctx.rep.Inconclusive(fmt.Sprintf("%s: membership/routing changed during the run; %d violation(s) dropped", spec, n))
			}
			return
		}
	}
	ctx.rep.Sample(map[string]interface{}{"config": spec, "rounds": rounds})
}

func sortedKeys(m map[string]bool) []string {
	var ks []string
	for k := range m {
		ks = append(ks, k)
	}
	sort.Strings(ks)
	return ks
}
