package main

// C03 — rebalancing after joins and leaves neither loses, duplicates nor resurrects keys.
//
// The harness drives the hand-over itself (balancer and periodic routing push
// are disabled): join -> (coordinator's push happens on the membership event)
// -> one balancer pass at a time (one table per fragment per pass) -> routing
// push that prunes emptied owners. Between these steps it issues sequential
// writes, overwrites, deletes and reads checked against an exact map, reading
// through every member. At the end: reads from every member, a full scan and a
// white-box placement census (exactly one primary copy per live key, on the
// partition owner; min(R,N)-1 backup copies on the listed backup owners).
// Crash cases stop the sender or the receiver of a fragment move at a hook.

import (
	"context"
	"fmt"
	"math/rand"
	"sort"
	"strings"
	"sync"
	"sync/atomic"
	"time"

	"github.com/olric-data/olric/internal/cluster/partitions"
	"github.com/olric-data/olric/internal/verifhook"
	"github.com/olric-data/olric/verif/cluster"
	"github.com/olric-data/olric/verif/paths"
)

func init() {
	register("C03", &checkFn{level: "fault_enumeration", run: c03Run, child: c03Child})
}

type c03Case struct {
	N0    int    // initial members
	Steps string // e.g. "join,join" | "join,leave" | "join,leave-coordinator"
	R     int
	TS    uint64
	P     uint64
	Crash string // "" | sender:move.after-send | sender:move.before-drop | receiver:merge.entry
	Seed  int64
}

func (c c03Case) spec() string {
	cr := c.Crash
	if cr == "" {
		cr = "none"
	}
	return fmt.Sprintf("N0=%d steps=%s R=%d ts=%d P=%d crash=%s seed=%d", c.N0, c.Steps, c.R, c.TS, c.P, cr, c.Seed)
}

func parseC03(s string) c03Case {
	var c c03Case
	fmt.Sscanf(s, "N0=%d steps=%s R=%d ts=%d P=%d crash=%s seed=%d", &c.N0, &c.Steps, &c.R, &c.TS, &c.P, &c.Crash, &c.Seed)
	if c.Crash == "none" {
		c.Crash = ""
	}
	return c
}

type c03World struct {
	ctx         *runCtx
	spec        string
	c           *cluster.Cluster
	dmap        string
	model       map[string]string // key -> value; absent = deleted / never written
	deleted     map[string]bool
	counter     int
	rng         *rand.Rand
	failed      bool
	fullAtWrite map[string]bool
	slot        string
	valLen      int
	noReaders   bool
}

func (w *c03World) violate(clause, detail string, extra map[string]interface{}) {
	w.failed = true
	if extra == nil {
		extra = map[string]interface{}{}
	}
	extra["case"] = w.spec
	extra["slot"] = w.slot
	w.ctx.rep.Violate("c03|"+clause, w.spec+" ["+w.slot+"]: "+detail, extra)
}

func (w *c03World) member() *cluster.Member {
	live := w.c.Live()
	return live[w.rng.Intn(len(live))]
}

func (w *c03World) client(sess *paths.Session) paths.Client {
	m := w.member()
	if w.rng.Intn(2) == 0 {
		return sess.ViaMember("E", m)
	}
	return sess.ViaMember("R", m)
}

func (w *c03World) put(sess *paths.Session, key string) {
	w.counter++
	val := fmt.Sprintf("%s=v%d", key, w.counter)
	padded := val + strings.Repeat(".", w.valLen)
	cl := w.client(sess)
	if err := cl.Put(context.Background(), key, []byte(padded), paths.PutOpts{}); err != nil {
		if paths.Class(err) == "net" {
			w.ctx.rep.Inconclusive(w.spec + ": put: " + err.Error())
			w.failed = true
			return
		}
		w.violate("put-failed|slot="+w.slotClass(), fmt.Sprintf("Put(%s) via %s failed: %v", key, cl.Kind(), err), nil)
		return
	}
	w.model[key] = val
	delete(w.deleted, key)
	if w.fullAtWrite == nil {
		w.fullAtWrite = map[string]bool{}
	}
	// backup copies are only promised for keys written while at least ReplicaCount members were present
	w.fullAtWrite[key] = len(w.c.Live()) >= w.c.Cfg.Replicas
	w.ctx.rep.Count("puts_in_slot_"+w.slotClass(), 1)
}

func (w *c03World) del(sess *paths.Session, key string) {
	cl := w.client(sess)
	where := w.location(key)
	if _, err := cl.Delete(context.Background(), key); err != nil {
		if paths.Class(err) == "net" {
			w.ctx.rep.Inconclusive(w.spec + ": delete: " + err.Error())
			w.failed = true
			return
		}
		w.violate("delete-failed|slot="+w.slotClass(), fmt.Sprintf("Delete(%s) via %s failed: %v", key, cl.Kind(), err), nil)
		return
	}
	delete(w.model, key)
	w.deleted[key] = true
	w.ctx.rep.Count("deletes_of_key_on_"+where, 1)
}

// location says where the newest primary copy of a key lives right now.
func (w *c03World) location(key string) string {
	owner := w.c.OwnerOf(w.dmap, key)
	onOwner, onPrev, onOlder := false, false, false
	// the owner list is [oldest previous owner, ..., current owner]
	chain := w.c.Live()[0].V.Primary.PartitionByID(w.c.PartOf(w.dmap, key)).Owners()
	for _, m := range w.c.Live() {
		if _, ok := m.V.DMap.VerifEntry(partitions.PRIMARY, w.dmap, key); ok {
			if m == owner {
				onOwner = true
			} else {
				onPrev = true
				if len(chain) >= 3 && chain[len(chain)-2].ID != m.V.RT.This().ID {
					onOlder = true
				}
			}
		}
	}
	switch {
	case onOwner && onPrev:
		return "owner+previous-owner"
	case onOlder:
		return "older-previous-owner"
	case onPrev:
		return "previous-owner"
	case onOwner:
		return "owner"
	}
	return "nowhere"
}

func (w *c03World) slotClass() string {
	return strings.SplitN(w.slot, "#", 2)[0]
}

func c03Strip(v []byte) string { return strings.TrimRight(string(v), ".") }

// checkReads reads every key (present and deleted) through every live member.
func (w *c03World) checkReads(sess *paths.Session, sample int) {
	if w.failed {
		return
	}
	keys := make([]string, 0, len(w.model)+len(w.deleted))
	for k := range w.model {
		keys = append(keys, k)
	}
	for k := range w.deleted {
		keys = append(keys, k)
	}
	sort.Strings(keys)
	if sample > 0 && len(keys) > sample {
		w.rng.Shuffle(len(keys), func(i, j int) { keys[i], keys[j] = keys[j], keys[i] })
		keys = keys[:sample]
	}
	for _, k := range keys {
		want, present := w.model[k]
		for _, m := range w.c.Live() {
			g, err := sess.ViaMember("E", m).Get(context.Background(), k)
			w.ctx.rep.Count("reads_checked", 1)
			got := ""
			if err == nil {
				got = c03Strip(g.Value)
			} else if paths.Class(err) != "key not found" {
				if paths.Class(err) == "net" {
					w.ctx.rep.Inconclusive(w.spec + ": get: " + err.Error())
					w.failed = true
					return
				}
				w.violate("read-error|slot="+w.slotClass(), fmt.Sprintf("Get(%s) on %s: %v", k, m.Name, err), nil)
				return
			}
			if present && got != want {
				clause := "stale"
				if got == "" {
					clause = "lost"
				}
				loc := w.location(k)
				if loc == "nowhere" {
					for _, sm := range w.c.Members {
						if !sm.Stopped {
							continue
						}
						_, p := zombieEntry(sm, partitions.PRIMARY, w.dmap, k)
						_, b := zombieEntry(sm, partitions.BACKUP, w.dmap, k)
						if p && b {
							loc = "nowhere:primary-and-backup-copy-were-both-on-the-crashed-member"
						}
					}
				}
				w.violate(fmt.Sprintf("%s|slot=%s|key-on=%s", clause, w.slotClass(), loc),
					fmt.Sprintf("Get(%s) on %s returns %q, want %q :: %s", k, m.Name, got, want, whereIs(w.c, w.dmap, k)), map[string]interface{}{"key": k})
				return
			}
			if !present && got != "" {
				w.violate(fmt.Sprintf("resurrected|slot=%s|key-on=%s", w.slotClass(), w.location(k)),
					fmt.Sprintf("Get(%s) on %s returns %q for a deleted key :: %s", k, m.Name, got, whereIs(w.c, w.dmap, k)), map[string]interface{}{"key": k})
				return
			}
		}
	}
}

// slotOps issues the sequential operations of one slot.
func (w *c03World) slotOps(sess *paths.Session, slot string) {
	if w.failed {
		return
	}
	w.slot = slot
	w.ctx.rep.SetAdd("slots_exercised", w.slotClass())
	var keys []string
	for k := range w.model {
		keys = append(keys, k)
	}
	sort.Strings(keys)
	w.rng.Shuffle(len(keys), func(i, j int) { keys[i], keys[j] = keys[j], keys[i] })
	// new keys
	for i := 0; i < 4 && !w.failed; i++ {
		w.counter++
		w.put(sess, fmt.Sprintf("new-%d", w.counter))
	}
	// overwrite old keys, delete keys by location
	over, delPrev, delOwner, delOlder := 0, 0, 0, 0
	for _, k := range keys {
		if w.failed {
			return
		}
		loc := w.location(k)
		switch {
		case over < 4:
			w.put(sess, k)
			over++
		case loc == "older-previous-owner" && delOlder < 4:
			w.del(sess, k)
			delOlder++
		case loc == "previous-owner" && delPrev < 3:
			w.del(sess, k)
			delPrev++
		case loc == "owner" && delOwner < 3:
			w.del(sess, k)
			delOwner++
		}
		if over >= 4 && delPrev >= 3 && delOwner >= 3 && (delOlder >= 4 || !strings.Contains(slot, "join2")) {
			// (in the slots of a double join every key is looked at: keys on the older previous owner are rare)
			break
		}
	}
	w.checkReads(sess, 60)
}

// misplaced counts entries held by members that are not the partition's current owner / current backup owners.
func (w *c03World) misplaced() int {
	n := 0
	live := w.c.Live()
	for _, m := range live {
		for p := uint64(0); p < w.c.Cfg.Partitions; p++ {
			owner := m.V.Primary.PartitionByID(p).Owner()
			if owner.ID != m.V.RT.This().ID {
				if ents, ok := m.V.DMap.VerifEntries(partitions.PRIMARY, p, w.dmap); ok {
					n += len(ents)
				}
			}
			bos := m.V.Backup.PartitionByID(p).Owners()
			want := w.c.Cfg.Replicas - 1
			if len(live)-1 < want {
				want = len(live) - 1
			}
			isCur := false
			for i := len(bos) - 1; i >= 0 && i >= len(bos)-want; i-- {
				if bos[i].ID == m.V.RT.This().ID {
					isCur = true
				}
			}
			if !isCur {
				if ents, ok := m.V.DMap.VerifEntries(partitions.BACKUP, p, w.dmap); ok {
					n += len(ents)
				}
			}
		}
	}
	return n
}

func (w *c03World) misplacedDetail() string {
	var sb strings.Builder
	live := w.c.Live()
	for _, m := range live {
		for p := uint64(0); p < w.c.Cfg.Partitions; p++ {
			for _, kind := range []partitions.Kind{partitions.PRIMARY, partitions.BACKUP} {
				ents, ok := m.V.DMap.VerifEntries(kind, p, w.dmap)
				if !ok || len(ents) == 0 {
					continue
				}
				var owners []string
				if kind == partitions.PRIMARY {
					for _, o := range m.V.Primary.PartitionByID(p).Owners() {
						owners = append(owners, o.Name)
					}
				} else {
					for _, o := range m.V.Backup.PartitionByID(p).Owners() {
						owners = append(owners, o.Name)
					}
				}
				st, tables, _ := m.V.DMap.VerifStats(kind, p, w.dmap)
				fmt.Fprintf(&sb, "[%s %s p%d entries=%d tables=%d owners=%v", m.Name, kind, p, len(ents), st.NumTables, owners)
				for _, t := range tables {
					fmt.Fprintf(&sb, " t(state=%d keys=%d)", t.State, t.HKeys)
				}
				sb.WriteString("] ")
			}
		}
	}
	return sb.String()
}

func (w *c03World) balancePass() {
	// readers run next to the table moves: nothing writes during a pass, so every key of the model must be found,
	// with its value, at every instant - wherever its table is at that moment
	keys := make([]string, 0, len(w.model))
	for k := range w.model {
		keys = append(keys, k)
	}
	sort.Strings(keys)
	stop := make(chan struct{})
	var rwg sync.WaitGroup
	type miss struct{ key, got, via string }
	var mu sync.Mutex
	var first *miss
	var reads int64
	live := w.c.Live()
	if !w.noReaders && len(keys) > 0 {
		for r := 0; r < 3; r++ {
			rwg.Add(1)
			go func(r int) {
				defer rwg.Done()
				router := paths.NewRouter(w.c, w.dmap)
				defer router.Close()
				sess := router.NewSession()
				defer sess.Close()
				for i := r; ; i += 3 {
					select {
					case <-stop:
						return
					default:
					}
					k := keys[i%len(keys)]
					m := live[(i/3+r)%len(live)]
					g, err := sess.ViaMember("E", m).Get(context.Background(), k)
					atomic.AddInt64(&reads, 1)
					got := ""
					if err == nil {
						got = c03Strip(g.Value)
					} else if paths.Class(err) != "key not found" {
						continue // transport trouble is not judged here
					}
					if got != w.model[k] {
						mu.Lock()
						if first == nil {
							first = &miss{k, got, m.Name}
						}
						mu.Unlock()
						return
					}
				}
			}(r)
		}
	}
	for _, m := range w.c.Live() {
		m.V.Balancer.BalanceEagerly()
	}
	close(stop)
	rwg.Wait()
	w.ctx.rep.Count("balancer_passes", 1)
	w.ctx.rep.Count("reads_concurrent_with_table_moves", reads)
	if first != nil && !w.failed {
		clause := "stale"
		if first.got == "" {
			clause = "lost"
		}
		w.slot = "during-table-move"
		w.violate(clause+"|slot=during-table-move|concurrent-read", fmt.Sprintf("while the balancer was moving tables (no write in progress) Get(%s) on %s returned %q, want %q :: %s", first.key, first.via, first.got, w.model[first.key], whereIs(w.c, w.dmap, first.key)), map[string]interface{}{"key": first.key})
	}
}

// handOver drives the balancer pass by pass with operations in between, then prunes.
func (w *c03World) handOver(sess *paths.Session, tag string) {
	w.slotOps(sess, "after-push-before-move#"+tag)
	for pass := 0; pass < 400 && !w.failed; pass++ {
		if w.misplaced() == 0 {
			break
		}
		w.balancePass()
		if pass < 3 || pass%7 == 0 {
			w.slotOps(sess, fmt.Sprintf("between-table-moves#%s/%d", tag, pass))
		}
		if pass%5 == 4 {
			// empty fragments stop the balancer's walk over a partition; the janitor removes them
			for _, m := range w.c.Live() {
				m.V.DMap.VerifJanitorOnce()
			}
			w.c.PushRouting()
		}
	}
	w.slotOps(sess, "after-last-move-before-pruning#"+tag)
	for i := 0; i < 3; i++ {
		w.c.PushRouting()
		time.Sleep(20 * time.Millisecond)
	}
	_ = w.c.WaitStable(30 * time.Second)
	w.slotOps(sess, "after-pruning#"+tag)
	w.quiesce()
}

// quiesce finishes the hand-over without issuing operations: entries written in the
// last slots also went to owners that are about to be pruned.
func (w *c03World) quiesce() {
	for pass := 0; pass < 200 && !w.failed && w.misplaced() != 0; pass++ {
		w.balancePass()
		for _, m := range w.c.Live() {
			m.V.DMap.VerifJanitorOnce()
		}
		w.c.PushRouting()
	}
	for i := 0; i < 2; i++ {
		w.c.PushRouting()
	}
	_ = w.c.WaitStable(30 * time.Second)
}

// census checks placement of every live key after everything has settled.
func (w *c03World) census(scanOnly bool) {
	if w.failed {
		return
	}
	w.slot = "census"
	if scanOnly {
		w.scanCheck()
		return
	}
	live := w.c.Live()
	wantBackups := w.c.Cfg.Replicas - 1
	if len(live)-1 < wantBackups {
		wantBackups = len(live) - 1
	}
	if m := w.misplaced(); m != 0 {
		w.ctx.rep.Inconclusive(fmt.Sprintf("%s: %d entries are still on non-owners after the bounded number of balancer passes; placement census skipped :: %s", w.spec, m, w.misplacedDetail()))
		return
	}
	for k, want := range w.model {
		owner := w.c.OwnerOf(w.dmap, k)
		prim := 0
		var primOn []string
		for _, m := range live {
			if e, ok := m.V.DMap.VerifEntry(partitions.PRIMARY, w.dmap, k); ok {
				prim++
				primOn = append(primOn, m.Name)
				if c03Strip(e.Value) != want {
					w.violate("stale-primary-copy", fmt.Sprintf("primary copy of %s on %s is %q, want %q", k, m.Name, c03Strip(e.Value), want), map[string]interface{}{"key": k})
					return
				}
			}
		}
		w.ctx.rep.Count("census_keys", 1)
		if prim != 1 {
			cl := "dup-primary"
			if prim == 0 {
				cl = "no-primary-copy"
			}
			w.violate(cl, fmt.Sprintf("live key %s has %d primary copies %v (owner %s) :: %s", k, prim, primOn, owner.Name, whereIs(w.c, w.dmap, k)), map[string]interface{}{"key": k})
			return
		}
		if primOn[0] != owner.Name {
			w.violate("primary-not-on-owner", fmt.Sprintf("the primary copy of %s is on %s, the partition owner is %s", k, primOn[0], owner.Name), map[string]interface{}{"key": k})
			return
		}
		back := 0
		for _, bm := range w.c.BackupsOf(w.dmap, k) {
			if e, ok := bm.V.DMap.VerifEntry(partitions.BACKUP, w.dmap, k); ok && c03Strip(e.Value) == want {
				back++
			}
		}
		if back < wantBackups && w.fullAtWrite[k] {
			w.violate(fmt.Sprintf("missing-backup|R=%d", w.c.Cfg.Replicas), fmt.Sprintf("live key %s has %d up-to-date backup copies on the listed backup owners, want %d :: %s", k, back, wantBackups, whereIs(w.c, w.dmap, k)), map[string]interface{}{"key": k})
			return
		}
	}
	w.scanCheck()
}

// scanCheck: a full scan yields exactly the live keys.
func (w *c03World) scanCheck() {
	live := w.c.Live()
	d, err := live[0].Emb.NewDMap(w.dmap)
	if err != nil {
		return
	}
	it, err := d.Scan(context.Background())
	if err != nil {
		w.ctx.rep.Inconclusive(w.spec + ": scan: " + err.Error())
		return
	}
	seen := map[string]int{}
	for n := 0; it.Next() && n < 100000; n++ {
		seen[it.Key()]++
	}
	it.Close()
	for k := range w.model {
		if seen[k] == 0 {
			w.violate("scan-missing", fmt.Sprintf("a full scan does not yield live key %s", k), map[string]interface{}{"key": k})
			return
		}
	}
	for k := range seen {
		if _, ok := w.model[k]; !ok {
			w.violate("scan-ghost", fmt.Sprintf("a full scan yields %s which is deleted or was never written", k), map[string]interface{}{"key": k})
			return
		}
	}
}

func c03Child(ctx *runCtx, spec string) {
	cs := parseC03(spec)
	c, err := cluster.Start(cluster.Config{Replicas: cs.R, Partitions: cs.P, TableSize: cs.TS, FastFailureDetection: cs.Crash != "" || strings.Contains(cs.Steps, "leave") || strings.Contains(cs.Steps, "crash")}, cs.N0)
	if err != nil {
		ctx.rep.Inconclusive(spec + ": cluster start: " + err.Error())
		return
	}
	defer c.Shutdown()
	w := &c03World{ctx: ctx, spec: spec, c: c, dmap: []string{"c03", "dmap.c03"}[cs.Seed%2], model: map[string]string{}, deleted: map[string]bool{}, rng: rand.New(rand.NewSource(cs.Seed)), valLen: 40}
	if cs.TS >= 1<<20 {
		w.valLen = 10
	}
	router := paths.NewRouter(c, w.dmap)
	defer router.Close()
	sess := router.NewSession()
	defer sess.Close()
	// initial data
	w.slot = "before-join"
	nkeys := 160
	for i := 0; i < nkeys && !w.failed; i++ {
		w.put(sess, fmt.Sprintf("key-%d", i))
	}
	for i := 0; i < nkeys && !w.failed; i += 9 {
		w.del(sess, fmt.Sprintf("key-%d", i))
	}
	w.checkReads(sess, 0)
	ctx.rep.Eval(1)

	steps := strings.Split(cs.Steps, ",")
	lossSoFar := false // a member has left or crashed: placement is no longer asserted, only readability
	for si, st := range steps {
		if w.failed {
			break
		}
		tag := fmt.Sprintf("%s%d", st, si)
		switch st {
		case "join":
			if cs.Crash != "" && si == len(steps)-1 {
				lossSoFar = true
				c03CrashJoin(w, sess, cs, tag)
				break
			}
			if _, err := c.AddMember(); err != nil {
				ctx.rep.Inconclusive(spec + ": join: " + err.Error())
				return
			}
			if err := c.WaitStable(30 * time.Second); err != nil {
				ctx.rep.Inconclusive(spec + ": " + err.Error())
				return
			}
			ctx.rep.Count("joins", 1)
			w.handOver(sess, tag)
			if !lossSoFar {
				// "after joins every live key is stored exactly once as a primary copy and keeps its backup copies"
				w.census(false)
			}
		case "join-janitor":
			// one join; before the first table of some partition arrives, the new owner's (empty) fragment of that
			// partition is busy with a Delete, its janitor queues on the fragment and the table arrives behind the janitor
			joined, err := c.AddMember()
			if err != nil {
				ctx.rep.Inconclusive(spec + ": join: " + err.Error())
				return
			}
			if err := c.WaitStable(30 * time.Second); err != nil {
				ctx.rep.Inconclusive(spec + ": " + err.Error())
				return
			}
			ctx.rep.Count("joins", 1)
			c03JanitorRace(w, sess, joined)
			w.handOver(sess, tag)
			if !lossSoFar {
				w.census(false)
			}
		case "join-busy":
			// one join; after the first balancer pass the previous owners (which still hold most of the data) fail to
			// answer the coordinator's LengthOfPart request while it recomputes and pushes the routing table
			if _, err := c.AddMember(); err != nil {
				ctx.rep.Inconclusive(spec + ": join: " + err.Error())
				return
			}
			if err := c.WaitStable(30 * time.Second); err != nil {
				ctx.rep.Inconclusive(spec + ": " + err.Error())
				return
			}
			ctx.rep.Count("joins", 1)
			w.slotOps(sess, "after-push-before-move#"+tag)
			w.balancePass()
			for _, m := range c.Live() {
				verifhook.SetFail(m.Name, "rt.length-of-part", true)
			}
			c.PushRouting()
			for _, m := range c.Live() {
				verifhook.SetFail(m.Name, "rt.length-of-part", false)
			}
			var failed uint64
			for k, v := range verifhook.Counts() {
				if strings.HasSuffix(k, "rt.length-of-part#failed") {
					failed += v
				}
			}
			ctx.rep.Count("length_of_part_requests_failed_during_a_push", int64(failed))
			w.slotOps(sess, "after-push-with-unanswered-length-requests#"+tag)
			w.handOver(sess, tag)
			if !lossSoFar {
				w.census(false)
			}
		case "join-early-leave", "join-early-crash":
			// the member that has just joined goes away again while the hand-over to it is still in progress: it has
			// received some tables and the writes of the last slots, the previous owners still hold the rest
			if cs.R < 2 {
				ctx.rep.Inconclusive(spec + ": needs R>=2")
				return
			}
			joined, err := c.AddMember()
			if err != nil {
				ctx.rep.Inconclusive(spec + ": join: " + err.Error())
				return
			}
			if err := c.WaitStable(30 * time.Second); err != nil {
				ctx.rep.Inconclusive(spec + ": " + err.Error())
				return
			}
			ctx.rep.Count("joins", 1)
			w.slotOps(sess, "after-push-before-move#"+tag)
			w.balancePass()
			w.slotOps(sess, "between-table-moves#"+tag+"/0")
			lossSoFar = true
			if st == "join-early-leave" {
				c.StopGraceful(joined)
			} else {
				c.StopAbrupt(joined)
			}
			if err := c.WaitStable(60 * time.Second); err != nil {
				ctx.rep.Inconclusive(spec + ": " + err.Error())
				return
			}
			ctx.rep.Count("members_gone_in_the_middle_of_the_hand-over_to_them", 1)
			w.handOver(sess, tag+"-gone")
		case "join2":
			// two joins in quick succession: the second member joins while the hand-over to the first one has only
			// begun, so that partitions get a chain of two previous owners that both hold data
			if _, err := c.AddMember(); err != nil {
				ctx.rep.Inconclusive(spec + ": join: " + err.Error())
				return
			}
			if err := c.WaitStable(30 * time.Second); err != nil {
				ctx.rep.Inconclusive(spec + ": " + err.Error())
				return
			}
			ctx.rep.Count("joins", 1)
			w.slotOps(sess, "after-push-before-move#"+tag+"a")
			w.balancePass()
			w.slotOps(sess, "between-table-moves#"+tag+"a/0")
			if _, err := c.AddMember(); err != nil {
				ctx.rep.Inconclusive(spec + ": join: " + err.Error())
				return
			}
			if err := c.WaitStable(30 * time.Second); err != nil {
				ctx.rep.Inconclusive(spec + ": " + err.Error())
				return
			}
			ctx.rep.Count("joins", 1)
			ctx.rep.Count("joins_before_the_previous_hand-over_finished", 1)
			for p := uint64(0); p < cs.P; p++ {
				if len(c.Live()[0].V.Primary.PartitionByID(p).Owners()) >= 3 {
					ctx.rep.Count("partitions_with_a_chain_of_three_owners", 1)
				}
			}
			w.handOver(sess, tag+"b")
			if !lossSoFar {
				w.census(false)
			}
		case "leave", "leave-coordinator":
			lossSoFar = true
			// leaves only once every asserted key has its backups: the previous hand-over ended with a census-like state
			if cs.R < 2 {
				ctx.rep.Inconclusive(spec + ": leave needs R>=2")
				return
			}
			var victim *cluster.Member
			if st == "leave-coordinator" {
				victim = c.Coordinator()
			} else {
				for _, m := range c.Live() {
					if m != c.Coordinator() {
						victim = m
					}
				}
			}
			if w.misplaced() != 0 {
				ctx.rep.Inconclusive(spec + ": balancing did not finish before the leave")
				return
			}
			c.StopGraceful(victim)
			if err := c.WaitStable(60 * time.Second); err != nil {
				ctx.rep.Inconclusive(spec + ": " + err.Error())
				return
			}
			ctx.rep.Count("leaves", 1)
			w.handOver(sess, tag)
		}
	}
	w.slot = "final"
	w.checkReads(sess, 0)
	w.census(true)
	if c.Flapped() {
		// a member was falsely declared dead at some point: the membership sequence was not the intended one
		if n := ctx.rep.DropViolations(); n > 0 || true {
			ctx.rep.Inconclusive(fmt.Sprintf("%s: a false failure suspicion changed the membership during the case; %d violation(s) dropped :: %s", spec, n, c.LeaveAccounting()))
		}
		return
	}
	if !w.failed {
		ctx.rep.Distinct(fmt.Sprintf("N0=%d|%s|R=%d|ts=%d|crash=%s|dmap=%s", cs.N0, cs.Steps, cs.R, cs.TS, cs.Crash, w.dmap))
	}
	if cs.Seed%3 == 0 {
		ctx.rep.Sample(map[string]interface{}{"case": spec, "live_keys": len(w.model), "deleted_keys": len(w.deleted)})
	}
}

// c03JanitorRace: see the "join-janitor" step.
func c03JanitorRace(w *c03World, sess *paths.Session, joined *cluster.Member) {
	var keys []string
	for k := range w.model {
		keys = append(keys, k)
	}
	sort.Strings(keys)
	done := map[uint64]bool{}
	races := 0
	for _, k := range keys {
		if races >= 3 || w.failed {
			break
		}
		p := w.c.PartOf(w.dmap, k)
		if done[p] || w.c.OwnerOf(w.dmap, k) != joined || w.location(k) != "previous-owner" {
			continue
		}
		if ents, ok := joined.V.DMap.VerifEntries(partitions.PRIMARY, p, w.dmap); ok && len(ents) != 0 {
			continue
		}
		done[p] = true
		races++
		reached, release := make(chan struct{}), make(chan struct{})
		var once sync.Once
		verifhook.Set(joined.Name, "del.local", func(member, name string) {
			fire := false
			once.Do(func() { fire = true })
			if fire {
				close(reached)
				<-release
			}
		})
		delDone := make(chan struct{})
		go func() {
			defer close(delDone)
			w.slot = "after-push-before-move#janitor-race"
			if _, err := sess.ViaMember("E", joined).Delete(context.Background(), k); err != nil {
				w.violate("delete-failed|slot=after-push-before-move", fmt.Sprintf("Delete(%s) failed: %v", k, err), nil)
			}
		}()
		select {
		case <-reached:
		case <-delDone:
			verifhook.Set(joined.Name, "del.local", nil)
			w.ctx.rep.Inconclusive(w.spec + ": janitor race: the Delete did not reach the hook")
			continue
		}
		delete(w.model, k)
		w.deleted[k] = true
		var bg sync.WaitGroup
		bg.Add(1)
		go func() { defer bg.Done(); joined.V.DMap.VerifJanitorOnce() }()
		time.Sleep(100 * time.Millisecond)
		for _, m := range w.c.Live() {
			if m != joined {
				bg.Add(1)
				go func(m *cluster.Member) { defer bg.Done(); m.V.Balancer.BalanceEagerly() }(m)
			}
		}
		time.Sleep(200 * time.Millisecond)
		close(release)
		<-delDone
		bg.Wait()
		verifhook.Set(joined.Name, "del.local", nil)
		w.ctx.rep.Count("table_moves_queued_behind_the_janitor_on_an_empty_fragment", 1)
	}
	w.checkReads(sess, 0)
}

// c03CrashJoin performs the last join of a case with a crash of the sender or the receiver in the middle of a fragment move.
func c03CrashJoin(w *c03World, sess *paths.Session, cs c03Case, tag string) {
	c := w.c
	parts := strings.SplitN(cs.Crash, ":", 2)
	role, point := parts[0], parts[1]
	before := map[string]bool{}
	for _, m := range c.Live() {
		before[m.Name] = true
	}
	newM, err := c.AddMember()
	if err != nil {
		w.ctx.rep.Inconclusive(w.spec + ": join: " + err.Error())
		w.failed = true
		return
	}
	if err := c.WaitStable(30 * time.Second); err != nil {
		w.ctx.rep.Inconclusive(w.spec + ": " + err.Error())
		w.failed = true
		return
	}
	// ReplicaCount 1, a single sender: the receiver dies at the first entry of the first table it is sent. It has
	// acknowledged nothing, so every key is still on the sender and must stay readable (nothing is written after the
	// join in this case: a key written to the new owner would legitimately die with it).
	exact := cs.R == 1 && cs.N0 == 1 && role == "receiver"
	if !exact {
		w.slotOps(sess, "after-push-before-move#"+tag)
		// one clean pass first so that the crash happens in the middle of the hand-over (with one table per fragment
		// the first pass is the whole hand-over)
		if cs.TS < 1<<20 {
			w.balancePass()
		}
	}
	var once sync.Once
	fired := make(chan *cluster.Member, 1)
	skip := 2 + w.rng.Intn(4)
	if exact {
		skip = 1
	}
	var cnt int
	var mu sync.Mutex
	handler := func(member, name string) {
		mu.Lock()
		cnt++
		n := cnt
		mu.Unlock()
		if n < skip {
			return
		}
		fire := false
		once.Do(func() { fire = true })
		if !fire {
			return
		}
		victim := c.ByName(member)
		if victim == nil {
			return
		}
		fired <- victim
		go c.StopAbrupt(victim)
		select {} // the member dies here
	}
	if role == "sender" {
		for n := range before {
			verifhook.Set(n, point, handler)
		}
	} else {
		verifhook.Set(newM.Name, point, handler)
	}
	// run passes in the background: the pass that hits the hook never returns
	passDone := make(chan struct{})
	go func() {
		defer close(passDone)
		for i := 0; i < 6; i++ {
			for _, m := range c.Live() {
				go m.V.Balancer.BalanceEagerly()
			}
			time.Sleep(150 * time.Millisecond)
		}
	}()
	var victim *cluster.Member
	select {
	case victim = <-fired:
	case <-time.After(8 * time.Second):
	}
	<-passDone
	verifhook.Clear()
	if victim == nil {
		w.ctx.rep.Inconclusive(w.spec + ": the crash hook was not reached")
		w.failed = true
		return
	}
	w.ctx.rep.Count("crash_injected_"+cs.Crash, 1)
	time.Sleep(300 * time.Millisecond)
	c.StopAbrupt(victim)
	if err := c.WaitStable(60 * time.Second); err != nil {
		w.ctx.rep.Inconclusive(w.spec + ": " + err.Error())
		w.failed = true
		return
	}
	w.slot = "after-crash#" + tag
	w.checkReads(sess, 0)
	// finish the hand-over among the survivors (includes re-delivery of tables that were already sent)
	w.handOver(sess, tag+"-after-crash")
}

func c03Cases(tier string, seed int64) []c03Case {
	var cs []c03Case
	i := int64(0)
	add := func(c c03Case) {
		i++
		c.Seed = seed*1000 + i
		if c.P == 0 {
			c.P = 7
		}
		cs = append(cs, c)
	}
	if tier == "quick" {
		add(c03Case{N0: 1, Steps: "join,join", R: 1, TS: 512})
		add(c03Case{N0: 2, Steps: "join,join", R: 2, TS: 1024})
		add(c03Case{N0: 2, Steps: "join", R: 1, TS: 1 << 20})
		add(c03Case{N0: 2, Steps: "join,leave", R: 2, TS: 512})
		add(c03Case{N0: 2, Steps: "join,leave-coordinator", R: 2, TS: 1024})
		add(c03Case{N0: 3, Steps: "join", R: 3, TS: 512, P: 13})
		add(c03Case{N0: 1, Steps: "join2", R: 1, TS: 512, P: 23})
		add(c03Case{N0: 2, Steps: "join2", R: 2, TS: 512, P: 23})
		add(c03Case{N0: 2, Steps: "join-early-leave", R: 2, TS: 512, P: 13})
		add(c03Case{N0: 3, Steps: "join-early-crash", R: 2, TS: 512, P: 13})
		add(c03Case{N0: 1, Steps: "join-janitor", R: 1, TS: 512})
		add(c03Case{N0: 2, Steps: "join-busy", R: 1, TS: 512, P: 13})
		add(c03Case{N0: 2, Steps: "join-busy", R: 2, TS: 512, P: 13})
		add(c03Case{N0: 2, Steps: "join-janitor", R: 2, TS: 512})
		add(c03Case{N0: 2, Steps: "join", R: 2, TS: 512, Crash: "sender:move.after-send"})
		add(c03Case{N0: 2, Steps: "join", R: 2, TS: 512, Crash: "sender:move.before-drop"})
		add(c03Case{N0: 2, Steps: "join", R: 2, TS: 512, Crash: "receiver:merge.entry"})
		// ReplicaCount 1: the only copy of a key is in the table that is being moved when the receiver dies
		add(c03Case{N0: 1, Steps: "join", R: 1, TS: 512, Crash: "receiver:merge.entry", P: 13})
		add(c03Case{N0: 1, Steps: "join", R: 1, TS: 2048, Crash: "receiver:merge.entry"})
		return cs
	}
	for _, ts := range []uint64{256, 1024, 1 << 20} {
		for _, r := range []int{1, 2} {
			add(c03Case{N0: 1, Steps: "join,join", R: r, TS: ts})
			add(c03Case{N0: 2, Steps: "join,join", R: r, TS: ts})
			add(c03Case{N0: 3, Steps: "join", R: r, TS: ts, P: 23})
			add(c03Case{N0: 1, Steps: "join2", R: r, TS: ts, P: 23})
			add(c03Case{N0: 2, Steps: "join-busy,join-busy", R: r, TS: ts, P: 13})
			if r == 2 {
				add(c03Case{N0: 2, Steps: "join-early-leave", R: r, TS: ts, P: 13})
				add(c03Case{N0: 3, Steps: "join-early-leave,join", R: r, TS: ts, P: 23})
				add(c03Case{N0: 2, Steps: "join-early-crash", R: r, TS: ts, P: 13})
				add(c03Case{N0: 3, Steps: "join,join-early-crash", R: r, TS: ts, P: 23})
			}
			add(c03Case{N0: 1, Steps: "join-janitor,join-janitor", R: r, TS: ts})
			add(c03Case{N0: 3, Steps: "join-janitor", R: r, TS: ts, P: 13})
			add(c03Case{N0: 2, Steps: "join2,join", R: r, TS: ts, P: 31})
			if r == 2 {
				add(c03Case{N0: 2, Steps: "join,leave", R: r, TS: ts})
				add(c03Case{N0: 2, Steps: "join,leave-coordinator", R: r, TS: ts})
				add(c03Case{N0: 3, Steps: "join,leave,join", R: r, TS: ts})
				add(c03Case{N0: 3, Steps: "leave,join", R: r, TS: ts})
				add(c03Case{N0: 1, Steps: "join", R: 1, TS: ts, Crash: "receiver:merge.entry", P: 13})
				for _, cr := range []string{"sender:move.after-send", "sender:move.before-drop", "receiver:merge.entry"} {
					add(c03Case{N0: 2, Steps: "join", R: r, TS: ts, Crash: cr})
					add(c03Case{N0: 3, Steps: "join", R: r, TS: ts, Crash: cr, P: 13})
				}
			}
		}
		add(c03Case{N0: 3, Steps: "join,join", R: 3, TS: ts, P: 13})
	}
	return cs
}

func c03Run(ctx *runCtx) int {
	ctx.rep.Rule = "cases = membership sequences (1->2->3, 2->3->4, 3->4, join then graceful leave of a member / of the coordinator, leave then join) x ReplicaCount x table size {256/512, 1024, 1 MiB: many moves vs one} x optional crash of the sender (at move.after-send / move.before-drop) or of the receiver (at the k-th merge.entry) during the last join; the hand-over is driven pass by pass; in the slots after-push-before-move / between-table-moves / after-last-move-before-pruning / after-pruning the harness puts new keys, overwrites keys, deletes keys living on a previous owner and keys already moved, and reads through every member against an exact map; final: reads from every member, full scan = model, white-box placement census; distinct_nontrivial = cases that completed with a verdict"
	ctx.rep.Assumptions = []string{
		"operations are sequential, so the model is exact; leaves happen only after balancing finished (every key has its backups)",
		"if balancing does not finish within 400 passes the placement census is skipped (inconclusive); reads are still judged",
		"crash cases use fast failure detection; stabilisation timeouts are inconclusive",
	}
	var batches []batch
	for _, c := range c03Cases(ctx.tier, ctx.seed) {
		batches = append(batches, batch{Spec: c.spec(), Timeout: 6 * time.Minute})
	}
	runBatches(ctx, batches, 5, func(b batch, res batchResult, tail string) {
		if res.TimedOut {
			ctx.rep.Violate("c03|hung|"+strings.Split(b.Spec, " seed=")[0], fmt.Sprintf("child %s did not finish within its time limit: %s", b.Spec, lastLines(tail, 10)), map[string]interface{}{"case": b.Spec, "log": res.LogPath})
			return
		}
		ctx.rep.Violate("c03|member-crashed|"+strings.Split(b.Spec, " seed=")[0], fmt.Sprintf("child %s died (exit %d): %s", b.Spec, res.ExitCode, lastLines(tail, 15)), map[string]interface{}{"case": b.Spec, "log": res.LogPath})
	})
	return ctx.rep.Finish(5)
}
