package main

// C11 — the storage engine behaves as a map under compaction and table transfer.
//
// Monitor: a reference map is kept next to two real kvstore engines (A and B,
// B being the peer that table transfers go to / come from). After EVERY step
// of an operation sequence the complete observable state of both engines is
// compared with the model (Get, GetRaw, GetTTL, GetKey, Check, Stats.Length,
// Range, RangeHKey, full Scan with several page sizes, regex scan).

import (
	"errors"
	"fmt"
	"io"
	"math/rand"
	"os"
	"runtime"
	"sort"
	"strings"
	"sync"
	"sync/atomic"
	"time"

	"github.com/olric-data/olric/internal/kvstore"
	"github.com/olric-data/olric/internal/kvstore/entry"
	"github.com/olric-data/olric/internal/kvstore/table"
	"github.com/olric-data/olric/pkg/storage"
)

func init() {
	register("C11", &checkFn{level: "exploration", run: c11Run, child: c11Child, replay: c11Replay})
}

type c11Op struct {
	K    string `json:"k"`              // put, putraw, del, ttl, cstep, call, tab, tba, drainab, drainba
	Key  int    `json:"key"`            // key index
	Size string `json:"size,omitempty"` // T, M, L, X
}

func (o c11Op) String() string {
	switch o.K {
	case "put", "putraw":
		return fmt.Sprintf("%s(k%d,%s)", o.K, o.Key, o.Size)
	case "del", "ttl":
		return fmt.Sprintf("%s(k%d)", o.K, o.Key)
	}
	return o.K
}

type c11Case struct {
	TS      uint64  `json:"table_size"`
	IdleNow bool    `json:"recycled_tables_freed_at_once"`
	Ops     []c11Op `json:"ops"`
}

func (c c11Case) String() string {
	var s []string
	for _, o := range c.Ops {
		s = append(s, o.String())
	}
	return fmt.Sprintf("ts=%d idle0=%v: %s", c.TS, c.IdleNow, strings.Join(s, " "))
}

type c11Ent struct {
	key   string
	value string
	ttl   int64
	ts    int64
}

type c11World struct {
	ts      uint64
	a, b    storage.Engine
	ma, mb  map[uint64]c11Ent
	counter int64
}

const c11NumKeys = 4

func c11HKey(i int) uint64    { return 0x9e3779b97f4a7c15*uint64(i+1) ^ 0xabcdef }
func c11KeyName(i int) string { return fmt.Sprintf("k%d", i) }

func newC11Engine(ts uint64, idleNow bool) storage.Engine {
	cfg := map[string]interface{}{"tableSize": ts, "maxIdleTableTimeout": 15 * time.Minute}
	if idleNow {
		cfg["maxIdleTableTimeout"] = time.Duration(0)
	}
	parent, err := kvstore.New(storage.NewConfig(cfg))
	if err != nil {
		panic(err)
	}
	cfg2 := map[string]interface{}{}
	for k, v := range cfg {
		cfg2[k] = v
	}
	child, err := parent.Fork(storage.NewConfig(cfg2))
	if err != nil {
		panic(err)
	}
	if err := child.Start(); err != nil {
		panic(err)
	}
	return child
}

func newC11World(ts uint64, idleNow bool) *c11World {
	return &c11World{
		ts: ts,
		a:  newC11Engine(ts, idleNow),
		b:  newC11Engine(ts, idleNow),
		ma: map[uint64]c11Ent{},
		mb: map[uint64]c11Ent{},
	}
}

// valueLen returns the value length for a size class so that the whole entry
// (key + value + 29 bytes of metadata) has the intended size.
func (w *c11World) valueLen(size string, klen int) int {
	meta := 29
	switch size {
	case "T":
		return 1
	case "Z": // empty value (the DMap layer never stores one, the engine accepts it)
		return 0
	case "M":
		return int(w.ts)/3 - meta - klen
	case "L": // just fits into an empty table: entry size = ts-1
		return int(w.ts) - 1 - meta - klen
	case "X": // exactly the table size: can never fit
		return int(w.ts) - meta - klen
	case "H": // half a table
		return int(w.ts)/2 - meta - klen
	}
	panic("size " + size)
}

func (w *c11World) mkEntry(o c11Op) (*entry.Entry, c11Ent) {
	w.counter++
	key := c11KeyName(o.Key)
	n := w.valueLen(o.Size, len(key))
	v := fmt.Sprintf("%d:", w.counter)
	if len(v) > n {
		v = v[:n]
	}
	v += strings.Repeat(string(rune('a'+w.counter%26)), n-len(v))
	e := entry.New()
	e.SetKey(key)
	e.SetValue([]byte(v))
	e.SetTTL(w.counter * 7)
	e.SetTimestamp(w.counter)
	return e, c11Ent{key: key, value: v, ttl: w.counter * 7, ts: w.counter}
}

type c11Viol struct {
	clause string
	detail string
}

func (w *c11World) transferStep(src, dst storage.Engine, msrc, mdst map[uint64]c11Ent) (moved bool, v *c11Viol) {
	it := src.TransferIterator()
	if !it.Next() {
		return false, nil
	}
	data, idx, err := it.Export()
	if err == io.EOF {
		return false, nil
	}
	if err != nil {
		return false, &c11Viol{"transfer-export-error", err.Error()}
	}
	err = dst.Import(data, func(hkey uint64, e storage.Entry) error {
		cur, err := dst.Get(hkey)
		if errors.Is(err, storage.ErrKeyNotFound) {
			return dst.Put(hkey, e)
		}
		if err != nil {
			return err
		}
		if e.Timestamp() > cur.Timestamp() {
			return dst.Put(hkey, e)
		}
		return nil
	})
	if err != nil {
		return false, &c11Viol{"transfer-import-error", err.Error()}
	}
	if err := it.Drop(idx); err != nil {
		return false, &c11Viol{"transfer-drop-error", err.Error()}
	}
	// Update the models from what left the source: a key that is no longer
	// in src has been moved; dst must now hold the newer of both versions.
	for hk, e := range msrc {
		if !src.Check(hk) {
			if cur, ok := mdst[hk]; !ok || e.ts > cur.ts {
				mdst[hk] = e
			}
			delete(msrc, hk)
		}
	}
	return true, nil
}

func numTables(e storage.Engine) int { return e.Stats().NumTables }

// apply executes one operation and returns a violation of an operation-level clause, if any.
func (w *c11World) apply(o c11Op) *c11Viol {
	hk := c11HKey(o.Key)
	switch o.K {
	case "put":
		e, m := w.mkEntry(o)
		err := w.a.Put(hk, e)
		if o.Size == "X" {
			if !errors.Is(err, storage.ErrEntryTooLarge) {
				return &c11Viol{"oversize-accepted", fmt.Sprintf("Put of an entry of exactly the table size returned %v", err)}
			}
			return nil
		}
		if err != nil {
			return &c11Viol{"put-error", err.Error()}
		}
		w.ma[hk] = m
	case "putraw":
		e, m := w.mkEntry(o)
		err := w.a.PutRaw(hk, e.Encode())
		if err != nil {
			return &c11Viol{"putraw-error", err.Error()}
		}
		w.ma[hk] = m
	case "del":
		if err := w.a.Delete(hk); err != nil {
			return &c11Viol{"delete-error", err.Error()}
		}
		delete(w.ma, hk)
	case "ttl":
		w.counter++
		e := entry.New()
		e.SetTTL(w.counter * 7)
		e.SetTimestamp(w.counter)
		err := w.a.UpdateTTL(hk, e)
		cur, ok := w.ma[hk]
		if !ok {
			if !errors.Is(err, storage.ErrKeyNotFound) {
				return &c11Viol{"updatettl-absent", fmt.Sprintf("UpdateTTL on an absent key returned %v", err)}
			}
			return nil
		}
		if err != nil {
			return &c11Viol{"updatettl-error", err.Error()}
		}
		cur.ttl = w.counter * 7
		cur.ts = w.counter
		w.ma[hk] = cur
	case "cstep":
		if _, err := w.a.Compaction(); err != nil {
			return &c11Viol{"compaction-error", err.Error()}
		}
	case "call":
		bound := 2*numTables(w.a) + len(w.ma)/1000 + 4
		done := false
		for i := 0; i < bound; i++ {
			d, err := w.a.Compaction()
			if err != nil {
				return &c11Viol{"compaction-error", err.Error()}
			}
			if d {
				done = true
				break
			}
		}
		if !done {
			return &c11Viol{"compaction-not-done", fmt.Sprintf("Compaction did not report done within %d steps (tables=%d)", bound, numTables(w.a))}
		}
	case "tab":
		if _, v := w.transferStep(w.a, w.b, w.ma, w.mb); v != nil {
			return v
		}
	case "tba":
		if _, v := w.transferStep(w.b, w.a, w.mb, w.ma); v != nil {
			return v
		}
	case "drainab", "drainba":
		src, dst, ms, md := w.a, w.b, w.ma, w.mb
		if o.K == "drainba" {
			src, dst, ms, md = w.b, w.a, w.mb, w.ma
		}
		bound := numTables(src) + 2
		for i := 0; i < bound; i++ {
			moved, v := w.transferStep(src, dst, ms, md)
			if v != nil {
				return v
			}
			if !moved {
				break
			}
		}
		if n := src.Stats().Length; n != 0 {
			return &c11Viol{"transfer-stranded", fmt.Sprintf("%d entries left in the source after exporting every table", n)}
		}
	default:
		panic("op " + o.K)
	}
	return nil
}

// compare checks the complete observable state of one engine against its model.
func c11Compare(name string, eng storage.Engine, model map[uint64]c11Ent) *c11Viol {
	// structure: the coefficient index refers to exactly the tables of the store that are in use (not recycled); a
	// table that is only reachable through the index is memory the statistics do not see
	if kv, ok := eng.(*kvstore.KVStore); ok {
		inUse := map[uint64]bool{}
		for _, t := range kv.VerifTables() {
			if t.State != table.RecycledState {
				inUse[t.Coefficient] = true
			}
		}
		cfs := kv.VerifCoefficients()
		for _, cf := range cfs {
			if !inUse[cf] {
				return &c11Viol{"index-refers-to-dropped-table", fmt.Sprintf("%s: the coefficient index has an entry %d that belongs to no table in use (index %d entries, %d tables in use): the table is unreachable for Stats and compaction but still referenced", name, cf, len(cfs), len(inUse))}
			}
		}
		if len(cfs) != len(inUse) {
			return &c11Viol{"index-misses-table", fmt.Sprintf("%s: %d tables in use but %d entries in the coefficient index", name, len(inUse), len(cfs))}
		}
	}
	for i := 0; i <= c11NumKeys; i++ { // one extra, never written key
		hk := c11HKey(i)
		want, present := model[hk]
		got, err := eng.Get(hk)
		if present {
			if err != nil {
				return &c11Viol{"get-missing", fmt.Sprintf("%s: Get(k%d)=%v, want %q", name, i, err, trunc40(want.value))}
			}
			if string(got.Value()) != want.value || got.Key() != want.key || got.TTL() != want.ttl || got.Timestamp() != want.ts {
				return &c11Viol{"get-stale", fmt.Sprintf("%s: Get(k%d)=(%q,key=%q,ttl=%d,ts=%d), want (%q,key=%q,ttl=%d,ts=%d)",
					name, i, trunc40(string(got.Value())), got.Key(), got.TTL(), got.Timestamp(), trunc40(want.value), want.key, want.ttl, want.ts)}
			}
			raw, err := eng.GetRaw(hk)
			if err != nil {
				return &c11Viol{"getraw-missing", fmt.Sprintf("%s: GetRaw(k%d)=%v", name, i, err)}
			}
			d := entry.New()
			d.Decode(raw)
			if string(d.Value()) != want.value || d.Key() != want.key || d.TTL() != want.ttl || d.Timestamp() != want.ts {
				return &c11Viol{"getraw-stale", fmt.Sprintf("%s: GetRaw(k%d) decodes to (%q,ttl=%d,ts=%d)", name, i, trunc40(string(d.Value())), d.TTL(), d.Timestamp())}
			}
			if ttl, err := eng.GetTTL(hk); err != nil || ttl != want.ttl {
				return &c11Viol{"getttl", fmt.Sprintf("%s: GetTTL(k%d)=(%d,%v), want %d", name, i, ttl, err, want.ttl)}
			}
			if k, err := eng.GetKey(hk); err != nil || k != want.key {
				return &c11Viol{"getkey", fmt.Sprintf("%s: GetKey(k%d)=(%q,%v)", name, i, k, err)}
			}
			if _, err := eng.GetLastAccess(hk); err != nil {
				return &c11Viol{"getlastaccess", fmt.Sprintf("%s: GetLastAccess(k%d)=%v", name, i, err)}
			}
			if !eng.Check(hk) {
				return &c11Viol{"check-missing", fmt.Sprintf("%s: Check(k%d)=false for a present key", name, i)}
			}
		} else {
			if err == nil {
				return &c11Viol{"get-resurrected", fmt.Sprintf("%s: Get(k%d)=%q for an absent/deleted key", name, i, trunc40(string(got.Value())))}
			}
			if !errors.Is(err, storage.ErrKeyNotFound) {
				return &c11Viol{"get-error", fmt.Sprintf("%s: Get(k%d)=%v", name, i, err)}
			}
			if _, err := eng.GetRaw(hk); !errors.Is(err, storage.ErrKeyNotFound) {
				return &c11Viol{"getraw-resurrected", fmt.Sprintf("%s: GetRaw(k%d) err=%v for an absent key", name, i, err)}
			}
			if _, err := eng.GetTTL(hk); !errors.Is(err, storage.ErrKeyNotFound) {
				return &c11Viol{"getttl-resurrected", fmt.Sprintf("%s: GetTTL(k%d) err=%v for an absent key", name, i, err)}
			}
			if _, err := eng.GetKey(hk); !errors.Is(err, storage.ErrKeyNotFound) {
				return &c11Viol{"getkey-resurrected", fmt.Sprintf("%s: GetKey(k%d) err=%v for an absent key", name, i, err)}
			}
			if eng.Check(hk) {
				return &c11Viol{"check-resurrected", fmt.Sprintf("%s: Check(k%d)=true for an absent key", name, i)}
			}
		}
	}
	if n := eng.Stats().Length; n != len(model) {
		return &c11Viol{"length", fmt.Sprintf("%s: Stats().Length=%d, %d keys present", name, n, len(model))}
	}
	// Range / RangeHKey
	seen := map[uint64]int{}
	var rv *c11Viol
	eng.Range(func(hk uint64, e storage.Entry) bool {
		seen[hk]++
		want, ok := model[hk]
		if !ok {
			rv = &c11Viol{"range-ghost", fmt.Sprintf("%s: Range visits %q which is not present", name, e.Key())}
			return false
		}
		if string(e.Value()) != want.value || e.Timestamp() != want.ts {
			rv = &c11Viol{"range-stale", fmt.Sprintf("%s: Range visits %q with value %q, want %q", name, e.Key(), trunc40(string(e.Value())), trunc40(want.value))}
			return false
		}
		return true
	})
	if rv != nil {
		return rv
	}
	for hk, n := range seen {
		if n != 1 {
			return &c11Viol{"range-dup", fmt.Sprintf("%s: Range visits %q %d times", name, model[hk].key, n)}
		}
	}
	if len(seen) != len(model) {
		return &c11Viol{"range-missing", fmt.Sprintf("%s: Range visits %d keys, %d present", name, len(seen), len(model))}
	}
	seen = map[uint64]int{}
	eng.RangeHKey(func(hk uint64) bool { seen[hk]++; return true })
	for hk, n := range seen {
		if _, ok := model[hk]; !ok {
			return &c11Viol{"rangehkey-ghost", fmt.Sprintf("%s: RangeHKey visits an absent hkey", name)}
		}
		if n != 1 {
			return &c11Viol{"rangehkey-dup", fmt.Sprintf("%s: RangeHKey visits %q %d times", name, model[hk].key, n)}
		}
	}
	if len(seen) != len(model) {
		return &c11Viol{"rangehkey-missing", fmt.Sprintf("%s: RangeHKey visits %d keys, %d present", name, len(seen), len(model))}
	}
	// Full scans
	tables := eng.Stats().NumTables
	for _, count := range []int{1, 2, 100} {
		keys := map[string]int{}
		bound := len(model) + 2*tables + 4
		cursor := uint64(0)
		steps := 0
		var sv *c11Viol
		for {
			steps++
			if steps > bound {
				return &c11Viol{"scan-no-termination", fmt.Sprintf("%s: Scan(count=%d) still running after %d calls (%d keys, %d tables)", name, count, bound, len(model), tables)}
			}
			var err error
			cursor, err = eng.Scan(cursor, count, func(e storage.Entry) bool {
				keys[e.Key()]++
				want, ok := model[c11HKeyByName(e.Key())]
				if !ok {
					sv = &c11Viol{"scan-ghost", fmt.Sprintf("%s: Scan(count=%d) yields %q which is not present", name, count, trunc40(e.Key()))}
				} else if string(e.Value()) != want.value {
					sv = &c11Viol{"scan-stale", fmt.Sprintf("%s: Scan(count=%d) yields %q with a stale value", name, count, e.Key())}
				}
				return true
			})
			if err != nil {
				return &c11Viol{"scan-error", fmt.Sprintf("%s: Scan: %v", name, err)}
			}
			if sv != nil {
				return sv
			}
			if cursor == 0 {
				break
			}
		}
		for _, m := range model {
			if keys[m.key] == 0 {
				return &c11Viol{"scan-missing", fmt.Sprintf("%s: Scan(count=%d) never yields %q (present); yielded %v", name, count, m.key, keys)}
			}
			if keys[m.key] > 1 {
				return &c11Viol{"scan-dup", fmt.Sprintf("%s: Scan(count=%d) yields %q %d times on a quiescent store", name, count, m.key, keys[m.key])}
			}
		}
	}
	// regex scan: only k1 and k3
	{
		keys := map[string]int{}
		cursor := uint64(0)
		bound := len(model) + 2*tables + 4
		for steps := 0; ; steps++ {
			if steps > bound {
				return &c11Viol{"scan-no-termination", fmt.Sprintf("%s: ScanRegexMatch still running after %d calls", name, bound)}
			}
			var err error
			cursor, err = eng.ScanRegexMatch(cursor, "^k[13]$", 1, func(e storage.Entry) bool {
				keys[e.Key()]++
				return true
			})
			if err != nil {
				return &c11Viol{"scan-error", fmt.Sprintf("%s: ScanRegexMatch: %v", name, err)}
			}
			if cursor == 0 {
				break
			}
		}
		want := map[string]bool{}
		for _, m := range model {
			if m.key == "k1" || m.key == "k3" {
				want[m.key] = true
			}
		}
		for k := range keys {
			if !want[k] {
				return &c11Viol{"scanmatch-ghost", fmt.Sprintf("%s: ScanRegexMatch(^k[13]$) yields %q", name, trunc40(k))}
			}
		}
		for k := range want {
			if keys[k] == 0 {
				return &c11Viol{"scanmatch-missing", fmt.Sprintf("%s: ScanRegexMatch(^k[13]$) never yields %q", name, k)}
			}
		}
	}
	return nil
}

func c11HKeyByName(k string) uint64 {
	for i := 0; i <= c11NumKeys; i++ {
		if c11KeyName(i) == k {
			return c11HKey(i)
		}
	}
	return 0
}

func trunc40(s string) string {
	if len(s) > 24 {
		return s[:24] + fmt.Sprintf("..(%d)", len(s))
	}
	return s
}

// c11Exec runs a case; it returns the first violation and the index of the step after which it was seen.
func c11Exec(c c11Case) (v *c11Viol, step int) { return c11ExecBeat(c, nil) }

func c11ExecBeat(c c11Case, beat *int64) (v *c11Viol, step int) {
	defer func() {
		if r := recover(); r != nil {
			v = &c11Viol{"panic", fmt.Sprint(r)}
		}
	}()
	w := newC11World(c.TS, c.IdleNow)
	for i, o := range c.Ops {
		step = i
		if beat != nil {
			atomic.AddInt64(beat, 1)
		}
		if v := w.apply(o); v != nil {
			return v, i
		}
		if v := c11Compare("A", w.a, w.ma); v != nil {
			return v, i
		}
		if v := c11Compare("B", w.b, w.mb); v != nil {
			return v, i
		}
		// compaction never changes the contents: checked by the comparison above,
		// because cstep/call do not touch the model.
	}
	return nil, len(c.Ops)
}

// c11Shrink removes operations while the same clause keeps failing.
func c11Shrink(c c11Case, clause string) c11Case {
	cur := c
	// cut after the failing step first
	if v, step := c11Exec(cur); v != nil && step+1 < len(cur.Ops) {
		cur.Ops = append([]c11Op(nil), cur.Ops[:step+1]...)
	}
	budget := 4000
	for changed := true; changed && budget > 0; {
		changed = false
		for i := len(cur.Ops) - 1; i >= 0 && budget > 0; i-- {
			budget--
			cand := c11Case{TS: cur.TS, IdleNow: cur.IdleNow}
			cand.Ops = append(cand.Ops, cur.Ops[:i]...)
			cand.Ops = append(cand.Ops, cur.Ops[i+1:]...)
			if v, _ := c11Exec(cand); v != nil && v.clause == clause {
				cur = cand
				changed = true
			}
		}
	}
	return cur
}

func c11Canonical(c c11Case) string {
	// rename keys in order of appearance
	ren := map[int]int{}
	var s []string
	for _, o := range c.Ops {
		switch o.K {
		case "put", "putraw", "del", "ttl":
			if _, ok := ren[o.Key]; !ok {
				ren[o.Key] = len(ren)
			}
			o.Key = ren[o.Key]
		}
		s = append(s, o.String())
	}
	return strings.Join(s, " ")
}

var c11ExhaustiveAlphabet = []c11Op{
	{K: "put", Key: 0, Size: "M"},
	{K: "put", Key: 1, Size: "M"},
	{K: "put", Key: 0, Size: "L"},
	{K: "put", Key: 1, Size: "T"},
	{K: "putraw", Key: 0, Size: "M"},
	{K: "putraw", Key: 1, Size: "M"},
	{K: "del", Key: 0},
	{K: "del", Key: 1},
	{K: "ttl", Key: 0},
	{K: "cstep"},
	{K: "call"},
	{K: "tab"},
	{K: "tba"},
	{K: "drainab"},
}

type c11Stats struct {
	evals      int64
	nontrivial sync.Map
}

// watchdog state: every worker publishes the case it is executing.
type c11Slot struct {
	mu   sync.Mutex
	cur  string
	beat int64
}

func c11RunCases(ctx *runCtx, gen func(emit func(c11Case)), workers int) {
	cases := make(chan c11Case, 1024)
	slots := make([]*c11Slot, workers)
	var wg sync.WaitGroup
	var vmu sync.Mutex
	reported := map[string]bool{}
	var evals int64
	for i := 0; i < workers; i++ {
		slots[i] = &c11Slot{}
		wg.Add(1)
		go func(s *c11Slot) {
			defer wg.Done()
			for c := range cases {
				s.mu.Lock()
				s.cur = c.String()
				s.mu.Unlock()
				atomic.AddInt64(&s.beat, 1)
				v, _ := c11ExecBeat(c, &s.beat)
				atomic.AddInt64(&evals, 1)
				c11Classify(ctx, c)
				if v == nil {
					continue
				}
				vmu.Lock()
				if len(reported) > 40 {
					vmu.Unlock()
					continue
				}
				vmu.Unlock()
				min := c11Shrink(c, v.clause)
				mv, _ := c11Exec(min)
				if mv == nil {
					mv = v
					min = c
				}
				key := fmt.Sprintf("c11|%s|%s", mv.clause, c11Canonical(min))
				vmu.Lock()
				if !reported[key] {
					reported[key] = true
					ctx.rep.Violate(key, mv.detail+" — minimal sequence: "+min.String(), map[string]interface{}{"minimal": min, "original": c})
				}
				vmu.Unlock()
			}
			s.mu.Lock()
			s.cur = ""
			s.mu.Unlock()
		}(slots[i])
	}
	// watchdog: a worker that makes no progress for 10 s is stuck inside the engine
	stop := make(chan struct{})
	go func() {
		last := make([]int64, workers)
		stall := make([]int, workers)
		for {
			select {
			case <-stop:
				return
			case <-time.After(time.Second):
			}
			for i, s := range slots {
				b := atomic.LoadInt64(&s.beat)
				s.mu.Lock()
				cur := s.cur
				s.mu.Unlock()
				if cur != "" && b == last[i] {
					stall[i]++
				} else {
					stall[i] = 0
				}
				last[i] = b
				if stall[i] >= 10 {
					ctx.rep.Violate("c11|no-return|"+cur, "a storage engine call did not return within 10 s while executing: "+cur, map[string]interface{}{"case": cur})
					ctx.rep.Eval(int(atomic.LoadInt64(&evals)))
					_ = ctx.rep.WritePartial(os.Getenv("C11_PARTIAL"))
					fmt.Fprintln(os.Stderr, "WATCHDOG: stuck in", cur)
					buf := make([]byte, 1<<20)
					buf = buf[:runtime.Stack(buf, true)]
					os.Stderr.Write(buf)
					os.Exit(4)
				}
			}
		}
	}()
	gen(func(c c11Case) { cases <- c })
	close(cases)
	wg.Wait()
	close(stop)
	ctx.rep.Eval(int(atomic.LoadInt64(&evals)))
}

// c11Classify records coverage: which structural situations a case produced.
func c11Classify(ctx *runCtx, c c11Case) {
	// replay cheaply on a fresh world to inspect table layout at the end: use op kinds instead (cheap)
	kinds := map[string]bool{}
	for _, o := range c.Ops {
		kinds[o.K] = true
	}
	var ks []string
	for k := range kinds {
		ks = append(ks, k)
	}
	sort.Strings(ks)
	if len(ks) >= 3 {
		ctx.rep.Distinct(fmt.Sprintf("ts=%d|idle0=%v|%s", c.TS, c.IdleNow, strings.Join(ks, "+")))
	}
}

func c11Enumerate(maxLen int, ts uint64, idleNow bool, emit func(c11Case)) int {
	n := 0
	var rec func(prefix []c11Op)
	rec = func(prefix []c11Op) {
		if len(prefix) > 0 {
			emit(c11Case{TS: ts, IdleNow: idleNow, Ops: append([]c11Op(nil), prefix...)})
			n++
		}
		if len(prefix) == maxLen {
			return
		}
		for _, o := range c11ExhaustiveAlphabet {
			rec(append(prefix, o))
		}
	}
	// Only maximal-length sequences need to run (every prefix is checked on the way)
	var rec2 func(prefix []c11Op)
	rec2 = func(prefix []c11Op) {
		if len(prefix) == maxLen {
			emit(c11Case{TS: ts, IdleNow: idleNow, Ops: append([]c11Op(nil), prefix...)})
			n++
			return
		}
		for _, o := range c11ExhaustiveAlphabet {
			rec2(append(prefix, o))
		}
	}
	_ = rec
	rec2(nil)
	return n
}

func c11RandomCase(rng *rand.Rand, n int) c11Case {
	tss := []uint64{128, 256, 1024}
	c := c11Case{TS: tss[rng.Intn(len(tss))], IdleNow: rng.Intn(2) == 0}
	sizes := []string{"T", "M", "M", "H", "L", "Z"}
	// each case has its own operation mix, so that some are put-heavy and others churn
	wPut, wRaw, wDel, wTTL, wC, wT := 4+rng.Intn(8), rng.Intn(4), 1+rng.Intn(5), rng.Intn(3), rng.Intn(4), rng.Intn(4)
	total := wPut + wRaw + wDel + wTTL + wC + wT
	for i := 0; i < n; i++ {
		r := rng.Intn(total)
		switch {
		case r < wPut:
			c.Ops = append(c.Ops, c11Op{K: "put", Key: rng.Intn(c11NumKeys), Size: sizes[rng.Intn(len(sizes))]})
		case r < wPut+wRaw:
			c.Ops = append(c.Ops, c11Op{K: "putraw", Key: rng.Intn(c11NumKeys), Size: sizes[rng.Intn(len(sizes))]})
		case r < wPut+wRaw+wDel:
			c.Ops = append(c.Ops, c11Op{K: "del", Key: rng.Intn(c11NumKeys)})
		case r < wPut+wRaw+wDel+wTTL:
			c.Ops = append(c.Ops, c11Op{K: "ttl", Key: rng.Intn(c11NumKeys)})
		case r < wPut+wRaw+wDel+wTTL+wC:
			if rng.Intn(2) == 0 {
				c.Ops = append(c.Ops, c11Op{K: "cstep"})
			} else {
				c.Ops = append(c.Ops, c11Op{K: "call"})
			}
		default:
			k := []string{"tab", "tba", "tab", "tba", "drainab", "drainba"}
			c.Ops = append(c.Ops, c11Op{K: k[rng.Intn(len(k))]})
		}
	}
	return c
}

func c11Child(ctx *runCtx, spec string) {
	os.Setenv("C11_PARTIAL", childOutPath())
	workers := 16
	switch {
	case strings.HasPrefix(spec, "exh:"):
		// exh:<len>:<ts>:<idle>
		var l int
		var ts uint64
		var idle int
		fmt.Sscanf(spec, "exh:%d:%d:%d", &l, &ts, &idle)
		c11RunCases(ctx, func(emit func(c11Case)) {
			n := c11Enumerate(l, ts, idle == 1, emit)
			ctx.rep.Count("exhaustive_sequences_len_"+fmt.Sprint(l), int64(n))
		}, workers)
		ctx.rep.Sample(map[string]interface{}{"kind": "exhaustive", "alphabet": fmt.Sprint(c11ExhaustiveAlphabet), "length": l, "table_size": ts, "idle0": idle == 1})
	case strings.HasPrefix(spec, "rnd:"):
		// rnd:<seed>:<count>:<minlen>:<maxlen>
		var seed int64
		var count, minl, maxl int
		fmt.Sscanf(spec, "rnd:%d:%d:%d:%d", &seed, &count, &minl, &maxl)
		rng := rand.New(rand.NewSource(seed))
		first := true
		c11RunCases(ctx, func(emit func(c11Case)) {
			for i := 0; i < count; i++ {
				c := c11RandomCase(rng, minl+rng.Intn(maxl-minl+1))
				if first {
					first = false
					ctx.rep.Sample(map[string]interface{}{"kind": "random", "case": c.String()})
				}
				emit(c)
			}
		}, workers)
		ctx.rep.Count("random_sequences", int64(count))
	case strings.HasPrefix(spec, "scale:"):
		var seed int64
		var n int
		var ts uint64
		fmt.Sscanf(spec, "scale:%d:%d:%d", &seed, &n, &ts)
		c11Scale(ctx, seed, n, ts)
		c11Scale(ctx, seed+1, n, ts)
	case spec == "oversize":
		// entries of exactly the table size (D4-style non-termination is caught by the watchdog)
		var cs []c11Case
		for _, ts := range []uint64{128, 256, 1024} {
			cs = append(cs, c11Case{TS: ts, Ops: []c11Op{{K: "put", Key: 0, Size: "T"}, {K: "put", Key: 1, Size: "X"}, {K: "put", Key: 2, Size: "T"}}})
			cs = append(cs, c11Case{TS: ts, Ops: []c11Op{{K: "put", Key: 1, Size: "X"}}})
		}
		c11RunCases(ctx, func(emit func(c11Case)) {
			for _, c := range cs {
				emit(c)
			}
		}, 1)
		ctx.rep.Count("oversize_cases", int64(len(cs)))
		ctx.rep.Distinct("oversize|exact-table-size")
	}
}

func childOutPath() string {
	for i, a := range os.Args {
		if a == "--out" && i+1 < len(os.Args) {
			return os.Args[i+1]
		}
	}
	return ""
}

func c11Run(ctx *runCtx) int {
	ctx.rep.Rule = "cases = operation sequences over {put,putraw,del,updatettl,compaction step,compaction to completion,table transfer A->B/B->A,drain} on 4 keys x 5 entry-size classes x table sizes {128,256,1024} x {recycled tables kept, freed at once}; " +
		"exhaustive = every sequence of the 14-symbol alphabet up to the stated length; after EVERY step both engines are fully compared with the reference map. " +
		"distinct_nontrivial counts distinct (table size, idle mode, set of operation kinds) combinations with >= 3 operation kinds"
	ctx.rep.Assumptions = []string{
		"hkeys are distinct for distinct keys (no 64-bit hash collision is simulated)",
		"the peer engine of a table transfer merges with put-if-newer, as fragmentMergeFunction does",
	}
	seed := ctx.seed
	var batches []batch
	if ctx.tier == "quick" {
		batches = append(batches,
			batch{Spec: "exh:4:128:0", Timeout: 3 * time.Minute},
			batch{Spec: "exh:4:128:1", Timeout: 3 * time.Minute},
			batch{Spec: "oversize", Timeout: time.Minute},
			batch{Spec: fmt.Sprintf("rnd:%d:300:100:600", seed*1000+1), Timeout: 3 * time.Minute},
			batch{Spec: fmt.Sprintf("scale:%d:25000:1048576", seed*10), Timeout: 5 * time.Minute},
			batch{Spec: fmt.Sprintf("scale:%d:6000:131072", seed*10+2), Timeout: 5 * time.Minute},
		)
	} else {
		batches = append(batches,
			batch{Spec: "exh:5:128:0", Timeout: 20 * time.Minute},
			batch{Spec: "exh:5:128:1", Timeout: 20 * time.Minute},
			batch{Spec: "exh:4:256:1", Timeout: 5 * time.Minute},
			batch{Spec: "oversize", Timeout: time.Minute},
			batch{Spec: fmt.Sprintf("scale:%d:25000:1048576", seed*10), Timeout: 10 * time.Minute},
			batch{Spec: fmt.Sprintf("scale:%d:120000:1048576", seed*10+2), Timeout: 10 * time.Minute},
			batch{Spec: fmt.Sprintf("scale:%d:40000:262144", seed*10+4), Timeout: 10 * time.Minute},
		)
		for i := 0; i < 6; i++ {
			batches = append(batches, batch{Spec: fmt.Sprintf("rnd:%d:500:200:1200", seed*1000+int64(i)+10), Timeout: 20 * time.Minute})
		}
		// the same random workload under the race detector (checkptr on)
		batches = append(batches, batch{Spec: fmt.Sprintf("rnd:%d:300:100:600", seed*1000+99), Timeout: 20 * time.Minute, Race: true})
	}
	parallel := 2
	results := runBatches(ctx, batches, parallel, func(b batch, res batchResult, tail string) {
		if res.Merged && res.ExitCode == 4 {
			return // watchdog already recorded the violation in the partial
		}
		key := "c11|child-died|" + b.Spec
		if strings.Contains(tail, "MEMGUARD") {
			key = "c11|unbounded-allocation|" + b.Spec
		}
		ctx.rep.Violate(key, fmt.Sprintf("child for batch %s died (exit %d, timeout=%v): %s", b.Spec, res.ExitCode, res.TimedOut, lastLines(tail, 12)), map[string]interface{}{"batch": b.Spec, "log": res.LogPath})
	})
	exh := true
	for _, r := range results {
		if !r.Merged {
			exh = false
		}
	}
	ctx.rep.Exhaustive = false
	ctx.rep.Extra("exhaustive_part_complete", exh)
	ctx.rep.Extra("race_detector_batches", countRace(batches))
	return ctx.rep.Finish(1000)
}

func countRace(bs []batch) int {
	n := 0
	for _, b := range bs {
		if b.Race {
			n++
		}
	}
	return n
}

func lastLines(s string, n int) string {
	lines := strings.Split(strings.TrimSpace(s), "\n")
	if len(lines) > n {
		lines = lines[len(lines)-n:]
	}
	return strings.Join(lines, " | ")
}

func c11Replay(ctx *runCtx, path string) int {
	var doc struct {
		Replay struct {
			Minimal c11Case `json:"minimal"`
		} `json:"replay"`
	}
	if err := readJSON(path, &doc); err != nil {
		fmt.Fprintln(os.Stderr, err)
		return 2
	}
	v, step := c11Exec(doc.Replay.Minimal)
	if v == nil {
		fmt.Println("replay: sequence holds:", doc.Replay.Minimal.String())
		return 0
	}
	fmt.Printf("replay: VIOLATION property=C11 replay=%s clause=%s after step %d: %s\n", path, v.clause, step, v.detail)
	return 1
}
