package main

// C20 — storage stays bounded under overwrite / delete / ttl churn.
//
// A conservation and bound monitor. Every case starts a real in-process cluster,
// runs 2L rounds of churn over a FIXED key set and, at 24 sampling points (every
// L/12 rounds), after eviction and compaction have run to completion, measures
// every fragment (member x side x partition) of the DMap white-box and through the
// public STATS command and compares it with a reference model of the present keys.

import (
	"context"
	"encoding/json"
	"fmt"
	"math/rand"
	"os"
	"path/filepath"
	"sort"
	"strings"
	"sync"
	"sync/atomic"
	"time"

	"github.com/olric-data/olric"
	"github.com/olric-data/olric/config"
	"github.com/olric-data/olric/internal/cluster/partitions"
	"github.com/olric-data/olric/internal/kvstore/table"
	"github.com/olric-data/olric/verif/cluster"
	"github.com/olric-data/olric/verif/ev"
)

func init() {
	register("C20", &checkFn{level: "exploration", run: c20Run, child: c20Child, replay: c20Replay})
}

const (
	c20DMap        = "c20"
	c20Meta        = 29   // table.MetadataLength
	c20Ratio       = 0.40 // kvstore.maxGarbageRatio
	c20Factor      = 2.5  // allowed allocated / live
	c20SlackTables = 3    // "+ 3 tables"
	c20GrowTables  = 2    // allowed growth between round L and 2L
	c20Samples     = 12   // sampling points per L rounds
	c20TTL         = 3 * time.Millisecond
)

type c20Case struct {
	ID      int    `json:"id"`
	Keys    int    `json:"keys"`
	Val     string `json:"val"` // fixed | vary
	TS      uint64 `json:"table_size"`
	R       int    `json:"replicas"`
	Members int    `json:"members"`
	Parts   uint64 `json:"partitions"`
	WL      string `json:"workload"`   // overwrite | delhalf | ttl | mixed
	Comp    string `json:"compaction"` // worker (real worker, 20 ms) | hook (driven after every round)
	Evict   string `json:"evict"`      // hook (VerifEvictScanAll) | workers (real eviction workers)
	Idle    string `json:"idle"`       // maxIdleTableTimeout: 0 | 30ms | default (15 min)
	L       int    `json:"L"`
	Writers int    `json:"writers"`
	Janitor bool   `json:"janitor"`
	Seed    int64  `json:"seed"`
}

func (c c20Case) String() string {
	return fmt.Sprintf("#%d keys=%d val=%s ts=%d R=%d members=%d parts=%d wl=%s comp=%s evict=%s idle=%s L=%d janitor=%v",
		c.ID, c.Keys, c.Val, c.TS, c.R, c.Members, c.Parts, c.WL, c.Comp, c.Evict, c.Idle, c.L, c.Janitor)
}

// cfgKey identifies the configuration class of a case (for distinct counting).
func (c c20Case) cfgKey() string {
	return fmt.Sprintf("keys=%d|val=%s|ts=%d|R=%d|wl=%s|comp=%s|evict=%s|idle=%s", c.Keys, c.Val, c.TS, c.R, c.WL, c.Comp, c.Evict, c.Idle)
}

// c20Cases is a pure function of (seed, tier).
func c20Cases(seed int64, tier string) []c20Case {
	var cs []c20Case
	wls := []string{"overwrite", "delhalf", "ttl", "mixed"}
	id := 0
	for ki, keys := range []int{50, 500} {
		for vi, val := range []string{"fixed", "vary"} {
			for ti, ts := range []uint64{4096, 65536} {
				for ri, r := range []int{1, 2} {
					for wi, wl := range wls {
						for ci, comp := range []string{"worker", "hook"} {
							id++
							sum := ki + vi + ti + ri + wi + ci + int(seed%4+4)
							if tier == "quick" && sum%4 != 0 {
								// orthogonal quarter of the grid: every pair of dimension values still occurs
								continue
							}
							rng := rand.New(rand.NewSource(seed*100003 + int64(id)))
							c := c20Case{ID: id, Keys: keys, Val: val, TS: ts, R: r, WL: wl, Comp: comp, Evict: "hook", Writers: 4, Seed: seed}
							c.Members = 2 + rng.Intn(2)
							c.Parts = []uint64{3, 5, 7}[rng.Intn(3)]
							if comp == "hook" {
								c.Idle = []string{"0", "30ms", "default"}[rng.Intn(3)]
							} else {
								c.Idle = []string{"0", "30ms"}[rng.Intn(2)]
							}
							c.Janitor = rng.Intn(2) == 0
							if (wl == "ttl" || wl == "mixed") && rng.Intn(4) == 0 {
								c.Evict = "workers"
							}
							// L is a multiple of 24 (12 sampling points, value-size cycle of 8, mixed cycle of 3)
							ttlish := wl == "ttl" || wl == "mixed"
							switch {
							case tier == "quick":
								c.L = 240
								if keys == 500 {
									c.L = 48
								}
							case sum%4 == 0: // the quarter of the grid that quick runs, now long
								c.L = 4800
								if ttlish {
									c.L = 1200 // a ttl round costs 10-25 ms of waiting and scanning
								}
								if keys == 500 {
									c.L = 240
									if ttlish {
										c.L = 120
									}
								}
							default: // the other three quarters run shorter
								c.L = 720
								if ttlish {
									c.L = 240
								}
								if keys == 500 {
									c.L = 72
								}
							}
							if c.Evict == "workers" {
								// real eviction workers remove at most 19 keys per worker and 100 ms
								c.L = 24
								if c.Idle == "default" {
									c.L = 48 // warm-up of L/2 rounds, see the growth clause
								}
								if tier != "quick" {
									c.L = 72
								}
							}
							cs = append(cs, c)
						}
					}
				}
			}
		}
	}
	// a few keys with entries that are large compared with a table
	for ri, r := range []int{1, 2} {
		for ci, comp := range []string{"hook", "worker"} {
			id++
			c := c20Case{ID: id, Keys: 12, Val: "big", TS: 4096, R: r, WL: "overwrite", Comp: comp, Evict: "hook", Writers: 2, Seed: seed,
				Members: 2, Parts: 3, Idle: []string{"0", "30ms"}[(ri+ci)%2], L: 240}
			if tier != "quick" {
				c.L = 1200
			}
			cs = append(cs, c)
		}
	}
	return cs
}

// ---------------------------------------------------------------------------------------------
// the world of one case

type c20Frag struct {
	Member int    `json:"member"`
	Side   string `json:"side"`
	Part   uint64 `json:"part"`
}

func (f c20Frag) String() string { return fmt.Sprintf("m%d/%s/p%d", f.Member, f.Side, f.Part) }

type c20FragObs struct {
	Exists    bool              `json:"exists"`
	Allocated int               `json:"allocated"`
	Inuse     int               `json:"inuse"`
	Garbage   int               `json:"garbage"`
	Length    int               `json:"length"`
	NumTables int               `json:"num_tables"`
	Tables    []table.VerifInfo `json:"tables,omitempty"`
	LiveBytes int               `json:"model_live_bytes"`
	LiveKeys  int               `json:"model_live_keys"`
}

type c20World struct {
	ctx  *runCtx
	cs   c20Case
	c    *cluster.Cluster
	dms  []olric.DMap // one handle per member
	keys []string

	// model (writers own disjoint key indexes; read only between rounds)
	present []bool
	vlen    []int
	ttlAt   []int64 // expiry (unix ms) upper bound of a ttl'd key, 0 = none

	// placement
	keyPart []uint64
	prim    []int   // partition -> member index
	backs   [][]int // partition -> member indexes holding a backup copy
	routeFP string

	// observations
	atL      map[string]map[c20Frag]int // sample slot -> fragment -> allocated, recorded in the first L rounds
	reported map[string]int
	viol     int
	aborted  bool
	abortWhy string
	halted   bool // a compaction-not-done violation ends the case: every later sampling point would wait again

	// counters
	nPut, nDel, nTTLPut, nEvicted, nCompSteps, nJanitor, nEvictPasses int64
	bytesWritten                                                      int64
	maxRatio                                                          float64
	maxTablesSeen                                                     int
	tablesRecycledSeen                                                int64
	traj                                                              []map[string]interface{}

	stallSum atomic.Int64 // cumulated oversleep of the stall detector (ns): time this process did not get the CPU
	stopCh   chan struct{}
}

func sideName(k partitions.Kind) string {
	if k == partitions.BACKUP {
		return "backup"
	}
	return "primary"
}

func (w *c20World) violate(clause, side, detail string, extra map[string]interface{}) {
	key := fmt.Sprintf("c20|%s|side=%s|workload=%s", clause, side, w.cs.WL)
	w.reported[key]++
	w.viol++
	if w.reported[key] > 1 {
		return // one report per (clause, side) and case
	}
	payload := map[string]interface{}{"case": w.cs}
	for k, v := range extra {
		payload[k] = v
	}
	w.ctx.rep.Violate(key, fmt.Sprintf("[%s] %s", w.cs.String(), detail), payload)
}

func (w *c20World) inconclusive(why string) {
	if !w.aborted {
		w.aborted = true
		w.abortWhy = why
	}
}

func (w *c20World) valueLen(i, round int) int {
	if w.cs.Val == "fixed" {
		return 100
	}
	if w.cs.Val == "big" {
		// entries of 28% and 75% of a table, alternating per key and round: a table is often retired long before it
		// is full, because the next entry does not fit
		return []int{int(w.cs.TS) * 28 / 100, int(w.cs.TS) * 75 / 100}[(i+round)%2]
	}
	// cyclic rotation: the multiset of sizes is the same in every round, the period (8) divides L/12·k
	sizes := []int{10, 40, 90, 150, 240, 330, 450, 600}
	if w.cs.TS > 4096 {
		sizes = []int{10, 100, 400, 900, 1500, 2400, 4000, 6000}
	}
	return sizes[(i+round)%len(sizes)]
}

func c20Value(n int, i, round int) []byte {
	b := make([]byte, n)
	for j := range b {
		b[j] = byte('a' + (i+round+j)%26)
	}
	return b
}

func (w *c20World) entrySize(i int) int { return len(w.keys[i]) + w.vlen[i] + c20Meta }

func (w *c20World) start() error {
	cs := w.cs
	cfg := cluster.Config{
		Replicas:   cs.R,
		Partitions: cs.Parts,
		TableSize:  cs.TS,
		DMaps: func(d *config.DMaps) {
			switch cs.Idle {
			case "0":
				d.Engine.Config["maxIdleTableTimeout"] = time.Duration(0)
			case "30ms":
				d.Engine.Config["maxIdleTableTimeout"] = 30 * time.Millisecond
			}
		},
	}
	if cs.Comp == "worker" {
		cfg.CompactionInterval = 20 * time.Millisecond
	}
	cfg.EvictionWorkers = 1
	if cs.Evict == "workers" {
		cfg.EvictionWorkers = 32
	}
	if lf := os.Getenv("C20_LOG"); lf != "" {
		f, _ := os.OpenFile(lf, os.O_CREATE|os.O_APPEND|os.O_WRONLY, 0o644)
		cfg.LogTo = f
	}
	c, err := cluster.Start(cfg, cs.Members)
	if err != nil {
		return err
	}
	w.c = c
	for _, m := range c.Members {
		dm, err := m.Emb.NewDMap(c20DMap)
		if err != nil {
			return err
		}
		w.dms = append(w.dms, dm)
	}
	w.keys = make([]string, cs.Keys)
	w.present = make([]bool, cs.Keys)
	w.vlen = make([]int, cs.Keys)
	w.ttlAt = make([]int64, cs.Keys)
	w.keyPart = make([]uint64, cs.Keys)
	for i := range w.keys {
		w.keys[i] = fmt.Sprintf("key-%04d", i)
		w.keyPart[i] = c.PartOf(c20DMap, w.keys[i])
	}
	w.prim, w.backs, w.routeFP = w.routing()
	w.atL = map[string]map[c20Frag]int{}
	w.reported = map[string]int{}
	w.stopCh = make(chan struct{})
	go func() { // stall detector
		for {
			select {
			case <-w.stopCh:
				return
			default:
			}
			t0 := time.Now()
			time.Sleep(5 * time.Millisecond)
			if over := time.Since(t0) - 5*time.Millisecond; over > 0 {
				w.stallSum.Add(int64(over))
			}
		}
	}()
	return nil
}

// stopwatch measures elapsed time minus the time the process was demonstrably not scheduled, so that
// a loaded machine stretches a deadline instead of producing a verdict. It gives up (ok=false) after
// six times the budget of wall time.
type c20Watch struct {
	w      *c20World
	t0     time.Time
	stall0 int64
}

func (w *c20World) watch() c20Watch { return c20Watch{w, time.Now(), w.stallSum.Load()} }

func (sw c20Watch) effective() time.Duration {
	return time.Since(sw.t0) - time.Duration(sw.w.stallSum.Load()-sw.stall0)
}

func (w *c20World) stop() {
	close(w.stopCh)
	if w.c != nil {
		w.c.Shutdown()
	}
}

func (w *c20World) memberIdx(id uint64) int {
	for i, m := range w.c.Members {
		if m.V.RT.This().ID == id {
			return i
		}
	}
	return -1
}

// routing reads the placement from member 0 and a fingerprint of every member's view.
func (w *c20World) routing() (prim []int, backs [][]int, fp string) {
	var sb strings.Builder
	for mi, m := range w.c.Members {
		for p := uint64(0); p < w.cs.Parts; p++ {
			po := m.V.Primary.PartitionByID(p).Owners()
			bo := m.V.Backup.PartitionByID(p).Owners()
			fmt.Fprintf(&sb, "m%d p%d P[", mi, p)
			for _, o := range po {
				fmt.Fprintf(&sb, "%d,", w.memberIdx(o.ID))
			}
			sb.WriteString("] B[")
			for _, o := range bo {
				fmt.Fprintf(&sb, "%d,", w.memberIdx(o.ID))
			}
			sb.WriteString("];")
			if mi == 0 {
				owner := -1
				if len(po) > 0 {
					owner = w.memberIdx(po[len(po)-1].ID)
				}
				prim = append(prim, owner)
				var bs []int
				for _, o := range bo {
					bs = append(bs, w.memberIdx(o.ID))
				}
				backs = append(backs, bs)
			}
		}
	}
	return prim, backs, sb.String()
}

// holders returns the fragments that must hold key i according to the routing table.
func (w *c20World) holders(i int) []c20Frag {
	p := w.keyPart[i]
	res := []c20Frag{{Member: w.prim[p], Side: "primary", Part: p}}
	for _, b := range w.backs[p] {
		res = append(res, c20Frag{Member: b, Side: "backup", Part: p})
	}
	return res
}

// ---------------------------------------------------------------------------------------------
// workload

// parallel runs f(i) for every key index, writer j handling the indexes i%Writers==j through
// the embedded client of member j%Members. Keys of one writer are processed in order.
func (w *c20World) parallel(f func(dm olric.DMap, i int) error) error {
	var wg sync.WaitGroup
	errs := make([]error, w.cs.Writers)
	for j := 0; j < w.cs.Writers; j++ {
		wg.Add(1)
		go func(j int) {
			defer wg.Done()
			dm := w.dms[j%len(w.dms)]
			for i := j; i < w.cs.Keys; i += w.cs.Writers {
				if err := f(dm, i); err != nil {
					errs[j] = err
					return
				}
			}
		}(j)
	}
	wg.Wait()
	for _, e := range errs {
		if e != nil {
			return e
		}
	}
	return nil
}

func (w *c20World) putAll(round int, sel func(i int) bool, ttl time.Duration) error {
	bg := context.Background()
	var puts, bytes int64
	err := w.parallel(func(dm olric.DMap, i int) error {
		if sel != nil && !sel(i) {
			return nil
		}
		n := w.valueLen(i, round)
		var err error
		if ttl > 0 {
			err = dm.Put(bg, w.keys[i], c20Value(n, i, round), olric.PX(ttl))
		} else {
			err = dm.Put(bg, w.keys[i], c20Value(n, i, round))
		}
		if err != nil {
			return fmt.Errorf("put %s: %w", w.keys[i], err)
		}
		w.present[i] = true
		w.vlen[i] = n
		w.ttlAt[i] = 0
		if ttl > 0 {
			w.ttlAt[i] = time.Now().Add(ttl).UnixMilli() + 1
		}
		atomic.AddInt64(&puts, 1)
		atomic.AddInt64(&bytes, int64(len(w.keys[i])+n+c20Meta))
		return nil
	})
	if ttl > 0 {
		w.nTTLPut += puts
	} else {
		w.nPut += puts
	}
	w.bytesWritten += bytes
	return err
}

// deleteSel deletes the selected keys; every writer alternates single-key and 8-key Delete calls.
func (w *c20World) deleteSel(sel func(i int) bool) error {
	bg := context.Background()
	var wg sync.WaitGroup
	errs := make([]error, w.cs.Writers)
	var dels int64
	for j := 0; j < w.cs.Writers; j++ {
		wg.Add(1)
		go func(j int) {
			defer wg.Done()
			dm := w.dms[j%len(w.dms)]
			var batch []int
			flush := func() error {
				if len(batch) == 0 {
					return nil
				}
				ks := make([]string, len(batch))
				for x, i := range batch {
					ks[x] = w.keys[i]
				}
				if _, err := dm.Delete(bg, ks...); err != nil {
					return fmt.Errorf("delete %v: %w", ks, err)
				}
				for _, i := range batch {
					w.present[i] = false
					w.ttlAt[i] = 0
				}
				atomic.AddInt64(&dels, int64(len(batch)))
				batch = batch[:0]
				return nil
			}
			want := 1
			for i := j; i < w.cs.Keys; i += w.cs.Writers {
				if !sel(i) {
					continue
				}
				batch = append(batch, i)
				if len(batch) >= want {
					if err := flush(); err != nil {
						errs[j] = err
						return
					}
					want = 9 - want // 1, 8, 1, 8 ...
				}
			}
			errs[j] = flush()
		}(j)
	}
	wg.Wait()
	w.nDel += dels
	for _, e := range errs {
		if e != nil {
			return e
		}
	}
	return nil
}

// roundType returns the workload of round r; for "mixed" the types rotate so that the last
// round of sampling block k has type k%3 and rounds r and r+L have the same type.
func (w *c20World) roundType(r int) string {
	if w.cs.WL != "mixed" {
		return w.cs.WL
	}
	s := w.cs.L / c20Samples
	k := (r + s - 1) / s
	// ... -> overwrite -> delhalf -> ttl -> overwrite -> ...
	return []string{"overwrite", "delhalf", "ttl"}[((k-(k*s-r))%3+3)%3]
}

// expire waits until every ttl'd key is past its deadline and then lets eviction remove them.
func (w *c20World) expireAndEvict() {
	var maxAt int64
	n := 0
	for i := range w.keys {
		if w.ttlAt[i] != 0 {
			n++
			if w.ttlAt[i] > maxAt {
				maxAt = w.ttlAt[i]
			}
		}
	}
	if n == 0 {
		return
	}
	for time.Now().UnixMilli() <= maxAt+1 {
		time.Sleep(time.Millisecond)
	}
	// from here on the model says: the ttl'd keys are gone
	for i := range w.keys {
		if w.ttlAt[i] != 0 {
			w.present[i] = false
			w.ttlAt[i] = 0
		}
	}
	wantLen := w.modelPrimaryLen()
	if w.cs.Evict == "workers" {
		// real eviction workers: wait while they make progress; 8 s (of CPU-granted time) without any
		// progress ends the wait and the sampling point reports what is left
		last, sw, wall := w.primaryLen(), w.watch(), time.Now()
		for {
			cur := w.primaryLen()
			if cur <= wantLen {
				break
			}
			if cur != last {
				last, sw, wall = cur, w.watch(), time.Now()
			}
			if sw.effective() > 8*time.Second {
				break
			}
			if time.Since(wall) > 60*time.Second {
				w.inconclusive("eviction workers: no progress, but the machine did not grant 8 s of CPU time within 60 s")
				break
			}
			time.Sleep(5 * time.Millisecond)
		}
		w.nEvicted += int64(n)
		return
	}
	// hook-driven: every pass scans at most 19 keys of every primary fragment. Passes continue while
	// they make progress; the number of passes without progress that is tolerated makes a miss of a
	// uniformly sampled expired key less likely than e^-25 (tables x ceil(keys per fragment / 19) x 25).
	maxTabs, maxLen := 1, 1
	for p := uint64(0); p < w.cs.Parts; p++ {
		if st, _, ok := w.c.Members[w.prim[p]].V.DMap.VerifStats(partitions.PRIMARY, p, c20DMap); ok {
			if st.NumTables > maxTabs {
				maxTabs = st.NumTables
			}
			if st.Length > maxLen {
				maxLen = st.Length
			}
		}
	}
	idleLimit := 25 * maxTabs * ((maxLen + 18) / 19)
	idle := 0
	last := w.primaryLen()
	passes := 0
	for last > wantLen && idle < idleLimit {
		for _, m := range w.c.Members {
			m.V.DMap.VerifEvictScanAll()
		}
		passes++
		cur := w.primaryLen()
		if cur == last {
			idle++
		} else {
			idle = 0
		}
		last = cur
	}
	w.nEvictPasses += int64(passes)
	w.nEvicted += int64(n)
}

func (w *c20World) modelPrimaryLen() int {
	n := 0
	for i := range w.keys {
		if w.present[i] {
			n++
		}
	}
	return n
}

func (w *c20World) primaryLen() int {
	n := 0
	for p := uint64(0); p < w.cs.Parts; p++ {
		m := w.c.Members[w.prim[p]]
		if st, _, ok := m.V.DMap.VerifStats(partitions.PRIMARY, p, c20DMap); ok {
			n += st.Length
		}
	}
	return n
}

// ---------------------------------------------------------------------------------------------
// compaction

func (w *c20World) fragments() []c20Frag {
	var fs []c20Frag
	for mi := range w.c.Members {
		for p := uint64(0); p < w.cs.Parts; p++ {
			fs = append(fs, c20Frag{mi, "primary", p}, c20Frag{mi, "backup", p})
		}
	}
	return fs
}

func kindOf(side string) partitions.Kind {
	if side == "backup" {
		return partitions.BACKUP
	}
	return partitions.PRIMARY
}

// compactHook drives compaction of every fragment to completion with a step bound derived from
// the fragment's own size: every step drains up to 1001 entries of one table or frees idle tables.
func (w *c20World) compactHook(sampleRound int) bool {
	allDone := true
	for _, f := range w.fragments() {
		m := w.c.Members[f.Member]
		st, tabs, ok := m.V.DMap.VerifStats(kindOf(f.Side), f.Part, c20DMap)
		if !ok {
			continue
		}
		bound := 2*len(tabs) + st.Length/500 + 8
		steps, done := m.V.DMap.VerifCompactFragment(kindOf(f.Side), f.Part, c20DMap, bound)
		w.nCompSteps += int64(steps)
		if !done {
			allDone = false
			w.halted = true
			st2, tabs2, _ := m.V.DMap.VerifStats(kindOf(f.Side), f.Part, c20DMap)
			w.violate("compaction-not-done|hook", f.Side,
				fmt.Sprintf("round %d fragment %s: Compaction did not report done within %d steps (tables before %d, after %d; garbage before %d, after %d)",
					sampleRound, f, bound, len(tabs), len(tabs2), st.Garbage, st2.Garbage),
				map[string]interface{}{"round": sampleRound, "fragment": f, "before": tabs, "after": tabs2})
		}
	}
	return allDone
}

// c20AboveThreshold: the garbage ratio of a table that is not written to anymore is the share of garbage in what has
// been written to it (the rest of its memory is never filled); compaction goes on while that share is >= 40%.
func c20AboveThreshold(t table.VerifInfo) bool {
	return t.Garbage > 0 && float64(t.Garbage) >= float64(t.Inuse+t.Garbage)*c20Ratio
}

// complete reports whether a fragment is in the state compaction converges to.
func (w *c20World) complete(tabs []table.VerifInfo, idleSeen bool) bool {
	for _, t := range tabs {
		if t.State == table.ReadOnlyState && c20AboveThreshold(t) {
			return false
		}
		if idleSeen && t.State == table.RecycledState && len(tabs) > 1 {
			return false
		}
	}
	return true
}

// awaitWorker waits until the real compaction worker has brought every fragment to completion:
// at most 10 s of CPU-granted time (500 cadences).
func (w *c20World) awaitWorker(sampleRound int) bool {
	sw := w.watch()
	state := func() (garbage int, incomplete []c20Frag) {
		for _, f := range w.fragments() {
			st, tabs, ok := w.c.Members[f.Member].V.DMap.VerifStats(kindOf(f.Side), f.Part, c20DMap)
			if !ok {
				continue
			}
			garbage += st.Garbage
			if !w.complete(tabs, w.cs.Idle != "default") {
				incomplete = append(incomplete, f)
			}
		}
		return
	}
	first, inc := state()
	for len(inc) > 0 && sw.effective() < 10*time.Second {
		if time.Since(sw.t0) > 60*time.Second {
			w.inconclusive(fmt.Sprintf("round %d: compaction worker not complete, but the machine did not grant 10 s of CPU time within 60 s", sampleRound))
			return false
		}
		time.Sleep(5 * time.Millisecond)
		_, inc = state()
	}
	if len(inc) == 0 {
		return true
	}
	last, _ := state()
	sides := map[string][]c20Frag{}
	for _, f := range inc {
		sides[f.Side] = append(sides[f.Side], f)
	}
	w.halted = true
	for side, fs := range sides {
		_, tabs, _ := w.c.Members[fs[0].Member].V.DMap.VerifStats(kindOf(side), fs[0].Part, c20DMap)
		w.violate("compaction-not-done|worker", side,
			fmt.Sprintf("round %d: the compaction worker (20 ms cadence) left %d %s fragments above the garbage threshold or with idle recycled tables for 10 s without writes (total garbage %d -> %d), e.g. %s",
				sampleRound, len(fs), side, first, last, fs[0]),
			map[string]interface{}{"round": sampleRound, "fragments": fs, "tables_of_first": tabs})
	}
	return false
}

// ---------------------------------------------------------------------------------------------
// sampling

func (w *c20World) sample(round int, slot string, secondHalf bool) {
	cs := w.cs
	// 0. routing must be what the model assumes
	if _, _, fp := w.routing(); fp != w.routeFP {
		w.inconclusive(fmt.Sprintf("round %d: routing table changed during the run", round))
		return
	}
	// 1. compaction to completion
	if cs.Comp == "hook" {
		if !w.compactHook(round) {
			return
		}
		if cs.Idle == "30ms" {
			time.Sleep(35 * time.Millisecond)
			if !w.compactHook(round) {
				return
			}
		}
	} else if !w.awaitWorker(round) {
		return
	}

	// A real eviction worker always runs in the background (NumEvictionWorkers >= 1). It is idle when no
	// expired key is left; otherwise it keeps deleting while we measure, and only the key-set and the
	// per-table conservation clauses are meaningful for this sampling point.
	settled := w.primaryLen() <= w.modelPrimaryLen()
	if !settled {
		w.ctx.rep.Count("sampling_points_with_expired_leftovers", 1)
	}

	// 2. model: live bytes / keys per fragment
	type live struct {
		bytes, keys int
		set         map[string]int
	}
	model := map[c20Frag]*live{}
	for i := range w.keys {
		if !w.present[i] {
			continue
		}
		for _, h := range w.holders(i) {
			l := model[h]
			if l == nil {
				l = &live{set: map[string]int{}}
				model[h] = l
			}
			l.bytes += w.entrySize(i)
			l.keys++
			l.set[w.keys[i]] = w.vlen[i]
		}
	}

	// 3. public STATS of every member, fetched through member 0 (own: direct call, others: STATS over RESP)
	public := map[c20Frag]c20Pub{}
	for mi := range w.c.Members {
		ps, err := w.publicStatsOf(mi)
		if err != nil {
			w.inconclusive(fmt.Sprintf("round %d: STATS of member %d failed: %v", round, mi, err))
			return
		}
		for f, p := range ps {
			public[f] = p
		}
	}

	// 4. per fragment checks
	sum := map[string]*[3]int{} // "m0/primary" -> allocated, model live, inuse
	nowMs := time.Now().UnixMilli()
	for _, f := range w.fragments() {
		m := w.c.Members[f.Member]
		st, tabs, ok := m.V.DMap.VerifStats(kindOf(f.Side), f.Part, c20DMap)
		ml := model[f]
		if ml == nil {
			ml = &live{}
		}
		obs := c20FragObs{Exists: ok, Allocated: st.Allocated, Inuse: st.Inuse, Garbage: st.Garbage, Length: st.Length, NumTables: st.NumTables, Tables: tabs, LiveBytes: ml.bytes, LiveKeys: ml.keys}
		ev := func() map[string]interface{} {
			return map[string]interface{}{"round": round, "round_type": w.roundType(round), "fragment": f, "observed": obs}
		}
		w.ctx.rep.Eval(1)
		w.ctx.rep.Count("fragment_samples_"+f.Side, 1)
		key := fmt.Sprintf("m%d/%s", f.Member, f.Side)
		if sum[key] == nil {
			sum[key] = &[3]int{}
		}
		sum[key][0] += st.Allocated
		sum[key][1] += ml.bytes
		sum[key][2] += st.Inuse

		// public STATS == white box. A real eviction worker always runs: when expired keys are left it may
		// delete between the two reads, so a mismatch counts only if the white-box numbers did not move.
		if p := public[f]; p.ok != ok || p.alloc != st.Allocated || p.inuse != st.Inuse || p.garbage != st.Garbage || p.length != st.Length || p.tables != st.NumTables {
			// a fragment may exist on a member that the routing table does not list as an owner; STATS skips it by design
			if !(ok && !p.ok && ml.keys == 0 && st.Length == 0) {
				for try := 0; try < 4; try++ {
					a, _, aok := m.V.DMap.VerifStats(kindOf(f.Side), f.Part, c20DMap)
					p2, err := w.publicStats(f)
					b, _, bok := m.V.DMap.VerifStats(kindOf(f.Side), f.Part, c20DMap)
					if err != nil || aok != bok || a.Allocated != b.Allocated || a.Inuse != b.Inuse || a.Garbage != b.Garbage || a.Length != b.Length || a.NumTables != b.NumTables {
						w.ctx.rep.Count("stats_crosschecks_repeated_concurrent_change", 1)
						continue
					}
					if p2.ok != aok || p2.alloc != a.Allocated || p2.inuse != a.Inuse || p2.garbage != a.Garbage || p2.length != a.Length || p2.tables != a.NumTables {
						w.violate("stats-mismatch", f.Side, fmt.Sprintf("round %d fragment %s: STATS reports %+v, white-box Stats %+v (exists=%v)", round, f, p2, a, aok), ev())
					}
					break
				}
			}
		}
		w.ctx.rep.Count("stats_crosschecks", 1)
		if !ok {
			if ml.keys > 0 {
				w.violate("model-mismatch|key-missing", f.Side, fmt.Sprintf("round %d fragment %s does not exist but the model has %d live keys there", round, f, ml.keys), ev())
			}
			continue
		}

		// per table: conservation, sizes, garbage threshold
		sa, si, sg, sl := 0, 0, 0, 0
		headSeen := false
		for ti, t := range tabs {
			sa += int(t.Allocated)
			si += int(t.Inuse)
			sg += int(t.Garbage)
			sl += t.HKeys
			w.ctx.rep.Count("tables_inspected", 1)
			if t.Inuse+t.Garbage != t.Offset {
				w.violate("garbage-not-accounted", f.Side, fmt.Sprintf("round %d fragment %s table %d (state %d): inuse %d + garbage %d != appended bytes %d", round, f, ti, t.State, t.Inuse, t.Garbage, t.Offset), ev())
			}
			if t.Allocated != cs.TS {
				w.violate("table-size", f.Side, fmt.Sprintf("round %d fragment %s table %d: allocated %d, configured table size %d", round, f, ti, t.Allocated, cs.TS), ev())
			}
			if uint64(t.HKeys) != t.OffsetIndex {
				w.violate("index-leak", f.Side, fmt.Sprintf("round %d fragment %s table %d: %d keys but %d offsets in the scan index", round, f, ti, t.HKeys, t.OffsetIndex), ev())
			}
			switch t.State {
			case table.ReadWriteState:
				headSeen = true
			case table.ReadOnlyState:
				if settled && c20AboveThreshold(t) {
					w.violate("garbage-left", f.Side, fmt.Sprintf("round %d fragment %s: after compaction completed, read-only table %d still has garbage %d of %d written bytes (>= 40%%)", round, f, ti, t.Garbage, t.Inuse+t.Garbage), ev())
				}
			case table.RecycledState:
				w.tablesRecycledSeen++
				if t.Inuse != 0 || t.Garbage != 0 || t.Offset != 0 || t.HKeys != 0 {
					w.violate("recycled-not-empty", f.Side, fmt.Sprintf("round %d fragment %s: recycled table %d is not empty: %+v", round, f, ti, t), ev())
				}
				if settled && cs.Idle != "default" && len(tabs) > 1 {
					w.violate("idle-table-left", f.Side, fmt.Sprintf("round %d fragment %s: recycled table %d still allocated although maxIdleTableTimeout=%s passed and compaction completed", round, f, ti, cs.Idle), ev())
				}
			}
		}
		_ = headSeen
		if sa != st.Allocated || si != st.Inuse || sg != st.Garbage || sl != st.Length || len(tabs) != st.NumTables {
			w.violate("stats-mismatch|tables", f.Side, fmt.Sprintf("round %d fragment %s: Stats %+v differ from the sum over tables (allocated %d inuse %d garbage %d length %d tables %d)", round, f, st, sa, si, sg, sl, len(tabs)), ev())
		}
		if len(tabs) > w.maxTablesSeen {
			w.maxTablesSeen = len(tabs)
		}

		// key set and in-use bytes against the model
		exact := true
		if st.Length != ml.keys || st.Inuse != ml.bytes {
			ents, _ := m.V.DMap.VerifEntries(kindOf(f.Side), f.Part, c20DMap)
			var expired, stale, wrongSize []string
			seen := map[string]bool{}
			for _, e := range ents {
				seen[e.Key] = true
				vl, has := ml.set[e.Key]
				switch {
				case !has && e.TTL != 0 && e.TTL <= nowMs:
					expired = append(expired, e.Key)
				case !has:
					stale = append(stale, e.Key)
				case vl != len(e.Value):
					wrongSize = append(wrongSize, e.Key)
				}
			}
			var missing []string
			for k := range ml.set {
				if !seen[k] {
					missing = append(missing, k)
				}
			}
			sort.Strings(expired)
			sort.Strings(stale)
			sort.Strings(missing)
			sort.Strings(wrongSize)
			x := ev()
			x["expired_left"], x["stale_left"], x["missing"], x["wrong_size"] = head(expired, 10), head(stale, 10), head(missing, 10), head(wrongSize, 10)
			if len(expired) > 0 && f.Side == "backup" {
				// a key that the primary still holds is the primary's finding, not the backup's
				var only []string
				for _, k := range expired {
					if _, has := w.c.Members[w.prim[f.Part]].V.DMap.VerifEntry(partitions.PRIMARY, c20DMap, k); !has {
						only = append(only, k)
					}
				}
				if len(only) < len(expired) {
					exact = false
				}
				expired = only
				x["expired_left"] = head(expired, 10)
			}
			switch {
			case len(expired) > 0:
				exact = false
				w.violate("expired-left", f.Side, fmt.Sprintf("round %d (%s) fragment %s: %d expired keys are still stored after eviction ran (%s mode, all primaries %s); e.g. %v; inuse %d, model live %d",
					round, w.roundType(round), f, len(expired), cs.Evict, map[bool]string{true: "clean", false: "not clean"}[w.primaryLen() <= w.modelPrimaryLen()], head(expired, 3), st.Inuse, ml.bytes), x)
			}
			if len(stale) > 0 {
				exact = false
				w.violate("stale-key-left", f.Side, fmt.Sprintf("round %d (%s) fragment %s: %d deleted keys are still stored, e.g. %v", round, w.roundType(round), f, len(stale), head(stale, 3)), x)
			}
			if len(missing) > 0 || len(wrongSize) > 0 {
				exact = false
				w.violate("model-mismatch|key-missing", f.Side, fmt.Sprintf("round %d (%s) fragment %s: %d acknowledged keys missing (e.g. %v), %d with a value of another round (e.g. %v) — outside the statement, reported because the live-bytes oracle depends on it",
					round, w.roundType(round), f, len(missing), head(missing, 3), len(wrongSize), head(wrongSize, 3)), x)
			}
			if exact && settled && st.Inuse != ml.bytes {
				w.violate("inuse-mismatch", f.Side, fmt.Sprintf("round %d fragment %s: key set equals the model but inuse is %d and the live entries sum to %d (superseded bytes not moved to garbage?)", round, f, st.Inuse, ml.bytes), x)
			}
		}

		// the bound: allocated <= 2.5 x live + 3 tables (checked where idle recycled tables time out within the run)
		liveForBound := ml.bytes
		if !exact && st.Inuse > liveForBound {
			liveForBound = st.Inuse // do not cascade: leftovers were reported above
		}
		if cs.Idle != "default" && settled {
			slack := c20SlackTables
			if cs.Val == "big" {
				slack += cs.Keys // an entry of a quarter of a table can keep a whole table alive
			}
			bound := int(c20Factor*float64(liveForBound)) + slack*int(cs.TS)
			w.ctx.rep.Count("bound_checks", 1)
			if st.Allocated > bound {
				w.violate("over-bound", f.Side, fmt.Sprintf("round %d (%s) fragment %s: allocated %d (%d tables) > 2.5 x live %d + 3 tables = %d", round, w.roundType(round), f, st.Allocated, st.NumTables, liveForBound, bound), ev())
			}
			if liveForBound > 0 {
				if r := float64(st.Allocated-int(cs.TS)) / float64(liveForBound); r > w.maxRatio {
					w.maxRatio = r
				}
			}
		}

		// growth between round r and r+L
		if !secondHalf {
			if w.atL[slot] == nil {
				w.atL[slot] = map[c20Frag]int{}
			}
			w.atL[slot][f] = st.Allocated
		} else if before, ok := w.atL[slot][f]; ok && exact && settled && !(cs.Idle == "default" && round-cs.L <= cs.L/2) {
			// (with the default idle timeout nothing is freed during the run: allocated is a high-water mark that
			// needs a warm-up of one full cycle of round types and value sizes, so only r > L/2 is compared with r+L)
			w.ctx.rep.Count("growth_checks", 1)
			if st.Allocated > before+c20GrowTables*int(cs.TS) {
				w.violate("growth", f.Side, fmt.Sprintf("round %d (%s) fragment %s: allocated %d, at round %d (same key set, same round type) it was %d: grew by %d tables (> %d)",
					round, w.roundType(round), f, st.Allocated, round-cs.L, before, (st.Allocated-before)/int(cs.TS), c20GrowTables), ev())
			}
		}
	}
	row := map[string]interface{}{"round": round, "type": w.roundType(round), "live_keys": w.modelPrimaryLen()}
	for k, v := range sum {
		row[k] = fmt.Sprintf("alloc=%d live=%d inuse=%d", v[0], v[1], v[2])
	}
	w.traj = append(w.traj, row)

	// 5. the empty-fragment janitor may remove what became empty (quiescent point)
	if cs.Janitor {
		for _, m := range w.c.Members {
			m.V.DMap.VerifJanitorOnce()
		}
		w.nJanitor++
	}
}

type c20Pub struct {
	alloc, inuse, garbage, length, tables int
	ok                                    bool
}

// publicStatsOf fetches the STATS of member mi through member 0 (own: direct call, others: STATS over RESP).
func (w *c20World) publicStatsOf(mi int) (map[c20Frag]c20Pub, error) {
	st, err := w.c.Members[0].Emb.Stats(context.Background(), w.c.Members[mi].Name)
	if err != nil {
		return nil, err
	}
	res := map[c20Frag]c20Pub{}
	for pid, part := range st.Partitions {
		if d, ok := part.DMaps[c20DMap]; ok {
			res[c20Frag{mi, "primary", uint64(pid)}] = c20Pub{d.SlabInfo.Allocated, d.SlabInfo.Inuse, d.SlabInfo.Garbage, d.Length, d.NumTables, true}
		}
	}
	for pid, part := range st.Backups {
		if d, ok := part.DMaps[c20DMap]; ok {
			res[c20Frag{mi, "backup", uint64(pid)}] = c20Pub{d.SlabInfo.Allocated, d.SlabInfo.Inuse, d.SlabInfo.Garbage, d.Length, d.NumTables, true}
		}
	}
	return res, nil
}

func (w *c20World) publicStats(f c20Frag) (c20Pub, error) {
	ps, err := w.publicStatsOf(f.Member)
	return ps[f], err
}

func head(s []string, n int) []string {
	if len(s) > n {
		return s[:n]
	}
	return s
}

// ---------------------------------------------------------------------------------------------
// one case

// c20RunCase runs one case; why != "" means the run was cut short for a reason that is not the
// property's business (inconclusive).
func c20RunCase(ctx *runCtx, cs c20Case) (violations int, why string) {
	w := &c20World{ctx: ctx, cs: cs}
	if err := w.start(); err != nil {
		if w.c != nil {
			w.c.Shutdown()
		}
		return 0, "cluster start: " + err.Error()
	}
	defer w.stop()
	s := cs.L / c20Samples
	t0 := time.Now()
	fail := func(err error) {
		w.inconclusive("workload operation failed: " + err.Error())
	}
	// initial fill
	if err := w.putAll(0, nil, 0); err != nil {
		fail(err)
		return w.viol, w.abortWhy
	}
	for r := 1; r <= 2*cs.L && !w.aborted && !w.halted; r++ {
		sampleHere := r%s == 0
		slot := fmt.Sprint((r - 1) % cs.L)
		half := func(i int) bool { return (i+r)%2 == 0 }
		var err error
		switch w.roundType(r) {
		case "overwrite":
			err = w.putAll(r, nil, 0)
			if err == nil && sampleHere {
				w.sample(r, slot, r > cs.L)
			}
		case "delhalf":
			err = w.deleteSel(half)
			if err == nil && sampleHere {
				w.sample(r, slot, r > cs.L) // live = the other half
			}
			if err == nil && !w.aborted {
				err = w.putAll(r, half, 0)
			}
		case "ttl":
			sel := func(i int) bool { return true }
			if cs.WL == "mixed" {
				sel = half // the other half stays live
			}
			err = w.putAll(r, sel, c20TTL)
			if err == nil && cs.WL == "mixed" {
				// the live half is overwritten after the ttl'd half: the newest tables hold live keys only
				err = w.putAll(r, func(i int) bool { return !half(i) }, 0)
			}
			if err == nil {
				w.expireAndEvict()
				if sampleHere && !w.aborted {
					w.sample(r, slot, r > cs.L)
				}
			}
		}
		if err != nil {
			fail(err)
			break
		}
		if cs.Comp == "hook" && !sampleHere && !w.aborted {
			// hook-driven compaction runs after every round (the sampling point does it itself)
			if !w.compactHook(r) {
				break
			}
		}
	}
	// evidence
	rep := ctx.rep
	rep.Count("cases", 1)
	rep.Count("rounds", int64(2*cs.L))
	rep.Count("puts", w.nPut)
	rep.Count("ttl_puts", w.nTTLPut)
	rep.Count("deletes", w.nDel)
	rep.Count("keys_expired", w.nEvicted)
	rep.Count("compaction_steps_hook", w.nCompSteps)
	rep.Count("janitor_runs", w.nJanitor)
	rep.Count("eviction_scan_passes_hook", w.nEvictPasses)
	rep.Count("bytes_written", w.bytesWritten)
	rep.Count("recycled_tables_seen_at_samples", w.tablesRecycledSeen)
	rep.Count("cases_comp_"+cs.Comp, 1)
	rep.Count("cases_idle_"+cs.Idle, 1)
	rep.Count("cases_wl_"+cs.WL, 1)
	rep.Count("cases_evict_"+cs.Evict, 1)
	rep.Count(fmt.Sprintf("cases_R%d_members%d", cs.R, cs.Members), 1)
	if !w.aborted && !w.halted {
		liveAll := 0
		for i := range w.keys {
			liveAll += len(w.keys[i]) + w.valueLen(i, 0) + c20Meta
		}
		// non-trivial: the churn wrote at least 20 x the size of the full key set
		if w.bytesWritten >= int64(20*liveAll) {
			rep.Distinct(cs.cfgKey())
		}
		rep.SetAdd("max_alloc_minus_head_over_live_x100", fmt.Sprintf("%s=%d", cs.cfgKey(), int(w.maxRatio*100)))
	}
	sm := map[string]interface{}{"case": cs, "wall_s": time.Since(t0).Seconds(), "bytes_written": w.bytesWritten, "max_tables_in_a_fragment_at_samples": w.maxTablesSeen, "violations": w.viol}
	if len(w.traj) > 0 {
		sm["first_sample"] = w.traj[0]
		sm["sample_at_L"] = w.traj[(len(w.traj)-1)/2]
		sm["last_sample"] = w.traj[len(w.traj)-1]
	}
	rep.Sample(sm)
	fmt.Printf("DONE %s wall=%.1fs viol=%d aborted=%v puts=%d dels=%d ttl=%d maxratio=%.2f\n", cs.String(), time.Since(t0).Seconds(), w.viol, w.aborted, w.nPut, w.nDel, w.nTTLPut, w.maxRatio)
	return w.viol, w.abortWhy
}

// ---------------------------------------------------------------------------------------------
// driver

func c20Child(ctx *runCtx, spec string) {
	// spec: comma separated case ids; "q<id>" takes the case from the quick list (shorter L);
	// "raceparse:<prefix>" only classifies existing race detector logs (self-test of the classifier)
	if strings.HasPrefix(spec, "worker ") {
		c20WorkerChild(ctx, spec)
		return
	}
	if strings.HasPrefix(spec, "raceparse:") {
		c20RaceReports(ctx, strings.TrimPrefix(spec, "raceparse:"))
		return
	}
	byID := map[string]c20Case{}
	for _, c := range c20Cases(ctx.seed, ctx.tier) {
		byID[fmt.Sprint(c.ID)] = c
	}
	for _, c := range c20Cases(ctx.seed, "quick") {
		byID[fmt.Sprintf("q%d", c.ID)] = c
	}
	for _, s := range strings.Split(spec, ",") {
		cs, ok := byID[strings.TrimSpace(s)]
		if !ok {
			continue
		}
		data, _ := json.Marshal(cs)
		fmt.Printf("CASE %s\n", data) // written before execution
		_, why := c20RunCase(ctx, cs)
		if why != "" {
			// infrastructure failure (cluster start, false failure detection under load, stall): one more try
			ctx.rep.Count("cases_retried", 1)
			fmt.Printf("RETRY %s: %s\n", cs.String(), why)
			if _, why = c20RunCase(ctx, cs); why != "" {
				ctx.rep.Inconclusive(fmt.Sprintf("[%s] %s", cs.String(), why))
			}
		}
	}
}

func c20Run(ctx *runCtx) int {
	ctx.rep.Rule = "case = (key count {50,500}, value sizes {fixed 100 B, 8 sizes rotating per round}, table size {4 KiB, 64 KiB}, ReplicaCount {1,2}, workload {overwrite-all, delete-half-then-reinsert, put-all-with-3ms-ttl-and-evict, mixed}, compaction {real worker at 20 ms, hook-driven after every round}) " +
		"+ seeded choice of members {2,3}, partitions {3,5,7}, maxIdleTableTimeout {0, 30 ms, default}, eviction {scan hook, 32 real workers}, janitor on/off; quick runs an orthogonal quarter of the 128-cell grid (every pair of values occurs), thorough all cells. " +
		"Each case runs 2L rounds over the fixed key set with 4 concurrent writers through the embedded clients of all members and samples every L/12 rounds after eviction and compaction completed. " +
		"evaluations = fragment samples (member x side x partition x sampling point), each checked for: allocated <= 2.5 x model live bytes + 3 tables; no read-only table with garbage >= 40%; per table inuse+garbage == bytes appended; inuse == model live bytes and key set == model (no expired/deleted key left, on backups too); " +
		"allocated(round r+L) <= allocated(round r) + 2 tables; STATS SlabInfo == white-box numbers. distinct_nontrivial = distinct case configurations whose churn wrote >= 20 x the bytes of the full key set and that ran to the end"
	ctx.rep.Assumptions = []string{
		"'of any length' is out of reach for a finite run: the claim is 'no growth between round r and r+L for the lengths tried' (L = 240/48 quick, up to 4800/480 thorough; 12 comparisons per fragment)",
		"the bounds are per storage instance (fragment = member x side x partition): a member holding P fragments holds at least P tables, so '+3 tables' is applied per fragment; member-level sums are in the samples",
		"allocated <= 2.5 x live + 3 tables is checked with maxIdleTableTimeout in {0, 30 ms} (idle recycled tables are part of allocated until they time out; the default of 15 min cannot be waited for); with the default timeout only growth, conservation, threshold and key-set clauses are checked",
		"entries are at most 16% of the table size (a read-only table wastes less than one entry, so 40% garbage threshold => allocated <= 2.5 x live holds by design only for entries <= 20% of a table)",
		"hook-driven compaction runs to completion after every round; the real worker runs at 20 ms; a sampling point waits for the worker at most 10 s and turns a machine stall into 'inconclusive'",
		"a ttl'd key counts as not live once the wall clock is past its deadline; eviction gets a bounded number of scan passes (passes continue while they make progress) or 8 s without progress for real workers",
		"with the default maxIdleTableTimeout (15 min) allocated is a high-water mark; the growth clause then compares round r with r+L only for r > L/2 (warm-up of at least one full cycle of round types and value sizes)",
		"the routing table does not change during a case (checked at every sampling point; otherwise inconclusive)",
	}
	cases := c20Cases(ctx.seed, ctx.tier)
	// distribute: heavy cases first, round robin over children
	sort.SliceStable(cases, func(i, j int) bool { return c20Cost(cases[i]) > c20Cost(cases[j]) })
	nChildren := 8
	if ctx.tier == "thorough" {
		nChildren = 15
	}
	specs := make([][]string, nChildren)
	loads := make([]int, nChildren)
	for _, c := range cases {
		// greedy: least loaded child
		best := 0
		for i := range loads {
			if loads[i] < loads[best] {
				best = i
			}
		}
		specs[best] = append(specs[best], fmt.Sprint(c.ID))
		loads[best] += c20Cost(c)
	}
	var batches []batch
	for _, s := range specs {
		if len(s) == 0 {
			continue
		}
		batches = append(batches, batch{Spec: strings.Join(s, ","), Timeout: 25 * time.Minute})
	}
	onDeath := func(b batch, res batchResult, tail string) {
		if b.Race && res.Merged && res.ExitCode == 66 {
			// the race detector reported something and the child finished its work: classify the reports
			c20RaceReports(ctx, strings.TrimSuffix(res.LogPath, ".log")+".race")
			return
		}
		last := ""
		for _, ln := range strings.Split(tail, "\n") {
			if strings.HasPrefix(ln, "CASE ") {
				last = ln
			}
		}
		ctx.rep.Violate("c20|member-crashed-or-hung", fmt.Sprintf("child %s died (exit %d timeout=%v) while running %s: %s", b.Spec, res.ExitCode, res.TimedOut, last, lastLines(tail, 12)),
			map[string]interface{}{"batch": b.Spec, "log": res.LogPath, "last_case": last})
	}
	if ctx.tier == "thorough" {
		// four cells (worker compaction, two replicas, one per workload) again under the race detector, at quick
		// length. The batch runs alone: under the race detector and the load of the other children memberlist
		// declares slow members dead, which makes the case inconclusive.
		var ids []string
		seen := map[string]bool{}
		for _, c := range c20Cases(ctx.seed, "quick") {
			if c.Comp == "worker" && c.R == 2 && c.Evict == "hook" && !seen[c.WL] {
				seen[c.WL] = true
				ids = append(ids, fmt.Sprintf("q%d", c.ID))
			}
		}
		if len(ids) > 0 {
			runBatches(ctx, []batch{{Spec: strings.Join(ids, ","), Timeout: 25 * time.Minute, Race: true}}, 1, onDeath)
			ctx.rep.Extra("race_detector_cases", ids)
		}
	}
	parallel := 4
	if ctx.tier == "thorough" {
		parallel = 5
	}
	wc := 12
	if ctx.tier == "thorough" {
		wc = 60
	}
	batches = append(batches,
		batch{Spec: fmt.Sprintf("worker N=1 R=1 cycles=%d seed=%d", wc, ctx.seed*10+1), Timeout: 10 * time.Minute},
		batch{Spec: fmt.Sprintf("worker N=2 R=2 cycles=%d seed=%d", wc, ctx.seed*10+2), Timeout: 10 * time.Minute})
	runBatches(ctx, batches, parallel, onDeath)
	ctx.rep.Extra("cases_planned", len(cases))
	min := 500
	return ctx.rep.Finish(min)
}

// c20RaceReports reads the race detector's log files. A report whose access stacks touch the storage
// engine or the DMap service is a finding of this property (the accounting is only meaningful if it is
// race free); reports elsewhere (memberlist, routing, ...) are listed in the evidence but are not C20's business.
func c20RaceReports(ctx *runCtx, prefix string) {
	files, _ := filepath.Glob(prefix + ".*")
	for _, fn := range files {
		data, err := os.ReadFile(fn)
		if err != nil {
			continue
		}
		for _, rep := range strings.Split(string(data), "==================") {
			if !strings.Contains(rep, "WARNING: DATA RACE") {
				continue
			}
			access := rep
			if i := strings.Index(rep, "\nGoroutine "); i >= 0 {
				access = rep[:i]
			}
			var funcs []string
			relevant := false
			lines := strings.Split(access, "\n")
			for i, ln := range lines {
				t := strings.TrimSpace(ln)
				if !strings.HasSuffix(t, "()") || i+1 >= len(lines) {
					continue
				}
				file := strings.TrimSpace(lines[i+1])
				if strings.Contains(file, "/internal/kvstore/") || strings.Contains(file, "/internal/dmap/") {
					relevant = true
				}
				if strings.Contains(t, "olric") || strings.Contains(t, "memberlist") {
					if i > 0 && (strings.HasPrefix(strings.TrimSpace(lines[i-1]), "Write at") || strings.HasPrefix(strings.TrimSpace(lines[i-1]), "Read at") ||
						strings.HasPrefix(strings.TrimSpace(lines[i-1]), "Previous ")) {
						funcs = append(funcs, strings.TrimSuffix(t[strings.LastIndex(t, "/")+1:], "()"))
					}
				}
			}
			pair := strings.Join(funcs, " <-> ")
			ctx.rep.Count("race_detector_reports", 1)
			if relevant {
				ctx.rep.Violate("c20|data-race|"+pair, "data race in the storage engine / DMap service under the churn workload: "+trunc40k(rep), map[string]interface{}{"file": fn})
			} else {
				ctx.rep.SetAdd("data_races_outside_storage_and_dmap", pair)
			}
		}
	}
}

func trunc40k(s string) string {
	if len(s) > 3000 {
		return s[:3000]
	}
	return s
}

// c20Cost estimates the wall time of a case in milliseconds (measured rates: a put costs about
// 100 us with one replica and 160 us with two, a ttl round 10-25 ms plus 300 us per key).
func c20Cost(c c20Case) int {
	opUs := 100
	if c.R == 2 {
		opUs = 160
	}
	plain := c.Keys * opUs
	ttl := 15000 + c.Keys*(opUs+200)
	if c.Evict == "workers" {
		ttl += 300000
	}
	perRound := plain
	switch c.WL {
	case "ttl":
		perRound = ttl
	case "mixed":
		perRound = (2*plain + ttl + plain/2) / 3
	}
	return 2*c.L*perRound/1000 + 1500
}

func c20Replay(ctx *runCtx, path string) int {
	var doc struct {
		Key    string `json:"key"`
		Replay struct {
			Case c20Case `json:"case"`
		} `json:"replay"`
	}
	if err := readJSON(path, &doc); err != nil {
		fmt.Fprintln(os.Stderr, err)
		return 2
	}
	if doc.Replay.Case.Keys == 0 {
		fmt.Fprintln(os.Stderr, "replay file has no case")
		return 2
	}
	ctx.rep = ev.New("C20", "exploration", "replay")
	fmt.Printf("replay: %s\n", doc.Replay.Case.String())
	n, why := c20RunCase(ctx, doc.Replay.Case)
	if n > 0 {
		fmt.Printf("replay: VIOLATION property=C20 replay=%s (%d violating observations; recorded key %s)\n", path, n, doc.Key)
		return 1
	}
	if why != "" {
		fmt.Println("replay: inconclusive:", why)
		return 2
	}
	fmt.Println("replay: case holds")
	return 0
}
