package main

// C01 — per-key linearizability in a stable cluster, from any entry point.
//
// Histories of Put / Put-NX / Put-XX / Get / Delete are recorded at the client
// boundary (call/return on one monotonic clock) from 10-12 concurrent logical
// clients using every entry path, on 3 keys, and checked per key with
// porcupine against a register model. Hooks add jitter between the code's own
// critical sections; background compaction / janitor run at hostile cadences
// in half of the configurations.

import (
	"context"
	"fmt"
	"math/rand"
	"path/filepath"
	"sort"
	"strings"
	"sync"
	"sync/atomic"
	"time"

	"github.com/anishathalye/porcupine"
	"github.com/olric-data/olric/internal/cluster/partitions"
	"github.com/olric-data/olric/internal/verifhook"
	"github.com/olric-data/olric/verif/cluster"
	"github.com/olric-data/olric/verif/paths"
)

func init() {
	register("C01", &checkFn{level: "exploration", run: c01Run, child: c01Child, replay: c01Replay})
}

type c01Cfg struct {
	N, R int
	P    uint64
	TS   uint64
	BG   bool // compaction + janitor at 20 ms cadence
	Hist int
	Seed int64
	Park bool // long delays at put.cond-write (inside the fragment lock) to queue competitors
	RR   bool // read repair enabled
}

func (c c01Cfg) spec() string {
	return fmt.Sprintf("N=%d R=%d P=%d ts=%d bg=%v hist=%d seed=%d park=%v rr=%v", c.N, c.R, c.P, c.TS, c.BG, c.Hist, c.Seed, c.Park, c.RR)
}

func parseC01Cfg(s string) c01Cfg {
	var c c01Cfg
	fmt.Sscanf(s, "N=%d R=%d P=%d ts=%d bg=%t hist=%d seed=%d park=%t rr=%t", &c.N, &c.R, &c.P, &c.TS, &c.BG, &c.Hist, &c.Seed, &c.Park, &c.RR)
	return c
}

func c01ValueSize(ts uint64) int {
	switch {
	case ts <= 512:
		return 90
	case ts <= 4096:
		return 300
	}
	return 16
}

func pad(s string, n int) string {
	if len(s) >= n {
		return s
	}
	return s + strings.Repeat(".", n-len(s))
}

// runKVHistory runs one concurrent history on a fresh DMap and returns the recorded operations.
func runKVHistory(c *cluster.Cluster, dmap string, keys []string, clients int, opsPerClient int, kinds []string, valueSize int, seed int64) ([]kvOp, int) {
	r := paths.NewRouter(c, dmap)
	defer r.Close()
	rec := newKVRecorder()
	var wg sync.WaitGroup
	var netErrs int32
	for ci := 0; ci < clients; ci++ {
		wg.Add(1)
		go func(ci int) {
			defer wg.Done()
			rng := rand.New(rand.NewSource(seed*1000 + int64(ci)))
			sess := r.NewSession()
			defer sess.Close()
			kind := kinds[ci%len(kinds)]
			cl := sess.Via(kind)
			for n := 0; n < opsPerClient; n++ {
				key := keys[rng.Intn(len(keys))]
				val := pad(fmt.Sprintf("c%d-%d", ci, n), valueSize)
				x := rng.Intn(100)
				op := kvOp{Client: ci, Path: kind, Key: key}
				ctx, cancel := context.WithTimeout(context.Background(), 20*time.Second)
				var err error
				switch {
				case x < 40:
					op.Op = "get"
					op.Call = rec.now()
					var g paths.GetResult
					g, err = cl.Get(ctx, key)
					op.Ret = rec.now()
					op.Val = string(g.Value)
				case x < 65:
					op.Op, op.Arg = "put", val
					op.Call = rec.now()
					err = cl.Put(ctx, key, []byte(val), paths.PutOpts{})
					op.Ret = rec.now()
				case x < 75:
					op.Op, op.Arg = "nx", val
					op.Call = rec.now()
					err = cl.Put(ctx, key, []byte(val), paths.PutOpts{NX: true})
					op.Ret = rec.now()
				case x < 85:
					op.Op, op.Arg = "xx", val
					op.Call = rec.now()
					err = cl.Put(ctx, key, []byte(val), paths.PutOpts{XX: true})
					op.Ret = rec.now()
				default:
					op.Op = "del"
					op.Call = rec.now()
					_, err = cl.Delete(ctx, key)
					op.Ret = rec.now()
				}
				cancel()
				op.Class = paths.Class(err)
				if op.Class == "net" {
					op.Open = true
					atomic.AddInt32(&netErrs, 1)
				}
				rec.add(op)
				if op.Open {
					return // retire this logical client
				}
			}
		}(ci)
	}
	wg.Wait()
	return rec.ops, int(netErrs)
}

func c01Child(ctx *runCtx, spec string) {
	cfg := parseC01Cfg(spec)
	ccfg := cluster.Config{Replicas: cfg.R, Partitions: cfg.P, TableSize: cfg.TS, EvictionWorkers: 2, ReadRepair: cfg.RR}
	if cfg.BG {
		ccfg.CompactionInterval = 20 * time.Millisecond
		ccfg.JanitorInterval = 20 * time.Millisecond
	}
	c, err := cluster.Start(ccfg, cfg.N)
	if err != nil {
		ctx.rep.Inconclusive("cluster start: " + err.Error())
		return
	}
	defer c.Shutdown()

	// jitter between the code's own critical sections
	jrng := rand.New(rand.NewSource(cfg.Seed))
	var jmu sync.Mutex
	jitter := func(maxUS int) func(string, string) {
		return func(string, string) {
			jmu.Lock()
			d := time.Duration(jrng.Intn(maxUS)) * time.Microsecond
			jmu.Unlock()
			time.Sleep(d)
		}
	}
	for _, p := range []string{"put.before-lock", "put.before-backup", "put.before-local", "get.local-replicas", "del.prev", "del.backups", "del.local"} {
		verifhook.Set("*", p, jitter(1500))
	}
	if cfg.Park {
		// lengthen the window between a conditional put's check and its write;
		// competitors must queue on the fragment lock
		verifhook.Set("*", "put.cond-write", jitter(8000))
	}

	kinds := []string{"EO", "EN", "CC", "RO", "RN", "PL"}
	if cfg.N == 1 {
		kinds = []string{"EO", "CC", "RO", "PL"}
	}
	vs := c01ValueSize(cfg.TS)
	for h := 0; h < cfg.Hist; h++ {
		dmap := fmt.Sprintf("c01-%d-%d", cfg.Seed, h)
		keys := []string{"k0", "k1", "k2"}
		fp := c.Fingerprint()
		ops, netErrs := runKVHistory(c, dmap, keys, 12, 28, kinds, vs, cfg.Seed*100+int64(h))
		ctx.rep.Eval(1)
		if c.Fingerprint() != fp {
			ctx.rep.Inconclusive(fmt.Sprintf("%s history %d: membership/routing changed during the history (not a stable cluster)", spec, h))
			_ = c.WaitStable(30 * time.Second)
			continue
		}
		for _, o := range ops {
			ctx.rep.Count("ops_"+o.Op+"_via_"+o.Path, 1)
		}
		pairs, ww := overlapStats(ops)
		ctx.rep.Count("overlapping_pairs_with_a_write", int64(pairs))
		ctx.rep.Count("overlapping_write_write_pairs", int64(ww))
		// white-box: how many tables do the fragments of this DMap span?
		maxTables := 0
		for _, k := range keys {
			o := c.OwnerOf(dmap, k)
			if st, _, ok := o.V.DMap.VerifStats(partitions.PRIMARY, c.PartOf(dmap, k), dmap); ok && st.NumTables > maxTables {
				maxTables = st.NumTables
			}
		}
		if maxTables > 1 {
			ctx.rep.Count("histories_with_multi_table_fragment", 1)
		}
		// Member-to-member requests are re-sent by the members' client library after its read timeout (3 s). On a
		// starved machine an operation that took longer may have been executed twice; such a history says nothing.
		var slowest time.Duration
		for _, o := range ops {
			if d := time.Duration(o.Ret - o.Call); d > slowest {
				slowest = d
			}
		}
		if slowest > 2500*time.Millisecond {
			ctx.rep.Inconclusive(fmt.Sprintf("%s history %d: an operation took %v (starved machine): requests between members may have been re-sent", spec, h, slowest.Round(time.Millisecond)))
			continue
		}
		if netErrs > 0 {
			ctx.rep.Inconclusive(fmt.Sprintf("%s history %d: %d operations ended with a transport error", spec, h, netErrs))
			continue
		}
		// unexpected error classes are violations by themselves
		bad := false
		for _, o := range ops {
			okc := o.Class == "ok" || (o.Op == "get" && o.Class == "key not found") || (o.Op == "nx" && o.Class == "key found") || (o.Op == "xx" && o.Class == "key not found")
			if !okc {
				bad = true
				cls := o.Class
				if strings.HasPrefix(cls, "other:") && len(cls) > 60 {
					cls = cls[:60]
				}
				ctx.rep.Violate(fmt.Sprintf("c01|unexpected-error|%s|%s", o.Op, cls),
					fmt.Sprintf("%s: %s returned %q in a stable cluster", spec, o.String(), o.Class),
					map[string]interface{}{"config": spec, "op": o})
				break
			}
		}
		if bad {
			continue
		}
		byKey := map[string][]kvOp{}
		for _, o := range ops {
			byKey[o.Key] = append(byKey[o.Key], o)
		}
		nontrivial := false
		for _, k := range keys {
			kops := byKey[k]
			_, w := overlapStats(kops)
			if w > 0 {
				nontrivial = true
			}
			res := checkKeyHistory(kops, 45*time.Second)
			switch res {
			case porcupine.Ok:
				ctx.rep.Count("key_histories_linearizable", 1)
			case porcupine.Unknown:
				ctx.rep.Count("key_histories_checker_timeout", 1)
				ctx.rep.Inconclusive(fmt.Sprintf("%s history %d key %s: checker timeout", spec, h, k))
			case porcupine.Illegal:
				label, wit := classifyAnomaly(kops)
				tables := "1"
				if maxTables > 1 {
					tables = "many"
				}
				sort.Slice(kops, func(i, j int) bool { return kops[i].Call < kops[j].Call })
				var ws []string
				for _, o := range wit {
					ws = append(ws, o.String())
				}
				ctx.rep.Violate(fmt.Sprintf("c01|%s|bg=%v|tables=%s|R=%d", label, cfg.BG, tables, cfg.R),
					fmt.Sprintf("%s dmap=%s key=%s: history of %d operations is not linearizable (%s); witness: %s", spec, dmap, k, len(kops), label, strings.Join(ws, " ; ")),
					map[string]interface{}{"config": spec, "dmap": dmap, "key": k, "history": kops, "witness": wit})
			}
		}
		if nontrivial {
			ctx.rep.Distinct(fmt.Sprintf("%s|h=%d", spec, h))
		}
		if h == 0 {
			n := len(ops)
			if n > 12 {
				n = 12
			}
			var ss []string
			for _, o := range ops[:n] {
				ss = append(ss, o.String())
			}
			ctx.rep.Sample(map[string]interface{}{"config": spec, "dmap": dmap, "first_operations": ss, "operations": len(ops)})
		}
	}
	for k, v := range verifhook.Counts() {
		name := k[strings.Index(k, "|")+1:]
		ctx.rep.Count("hook_hits_"+name, int64(v))
	}
}

func c01Configs(tier string, seed int64) []c01Cfg {
	var cs []c01Cfg
	type nr struct{ n, r int }
	nrs := []nr{{1, 1}, {2, 1}, {2, 2}, {3, 1}, {3, 2}, {3, 3}}
	ps := []uint64{1, 7, 13, 271}
	tss := []uint64{512, 2048, 1 << 20}
	i := 0
	for _, x := range nrs {
		for _, p := range ps {
			for _, ts := range tss {
				if uint64(x.n) > p {
					continue // the consistent-hash ring cannot place more members than partitions
				}
				i++
				bg := i%2 == 0
				c := c01Cfg{N: x.n, R: x.r, P: p, TS: ts, BG: bg, Seed: seed*10000 + int64(i), Park: i%3 == 0, RR: x.r > 1 && (i/2)%2 == 0}
				cs = append(cs, c)
			}
		}
	}
	return cs
}

func c01Run(ctx *runCtx) int {
	ctx.rep.Rule = "one evaluation = one concurrent history (12 logical clients over paths EO/EN/CC/RO/RN/PL, 3 keys, ~336 operations: 40% Get, 25% Put, 10% NX, 10% XX, 15% Delete, unique values) on a fresh DMap; each key's sub-history is checked with porcupine against a register model; " +
		"configurations = {N,R} x PartitionCount {1,7,13,271} x tableSize {512,2048,1MiB} with compaction+janitor at 20 ms cadence in every second one and seeded jitter at hook points; distinct_nontrivial = histories containing at least one pair of overlapping mutating operations on the same key"
	ctx.rep.Assumptions = []string{
		"membership is stable during a history (no member is started or stopped)",
		"a history in which any operation ended with a transport error is dropped as inconclusive",
		"checker timeout (45 s per key) is inconclusive",
	}
	all := c01Configs(ctx.tier, ctx.seed)
	var batches []batch
	if ctx.tier == "quick" {
		// every third configuration, 3 histories each; 6 of them under the race detector
		k := 0
		for i, c := range all {
			if i%2 != int(ctx.seed%2) {
				continue
			}
			c.Hist = 5
			b := batch{Spec: c.spec(), Timeout: 4 * time.Minute}
			if k%4 == 0 {
				b.Race = true
				c.Hist = 2
				b.Spec = c.spec()
			}
			k++
			batches = append(batches, b)
		}
	} else {
		for i, c := range all {
			c.Hist = 25
			batches = append(batches, batch{Spec: c.spec(), Timeout: 15 * time.Minute})
			if i%3 == 0 {
				c.Hist = 6
				c.Seed += 5000
				batches = append(batches, batch{Spec: c.spec(), Timeout: 15 * time.Minute, Race: true})
			}
		}
	}
	results := runBatches(ctx, batches, 8, func(b batch, res batchResult, tail string) {
		ctx.rep.Violate("c01|member-crashed-or-hung", fmt.Sprintf("child for %s died (exit %d timeout=%v): %s", b.Spec, res.ExitCode, res.TimedOut, lastLines(tail, 15)),
			map[string]interface{}{"config": b.Spec, "log": res.LogPath})
	})
	_ = results
	// race reports: a violation only when both sides are inside the storage engine or the fragment map
	reports, total := parseRaceLogs(filepath.Join(ctx.outDir, "b"))
	ctx.rep.Extra("race_reports_total", total)
	var diag []string
	for _, r := range reports {
		engine := func(i int) bool {
			return r.sideHas(i, "internal/kvstore", "internal/cluster/partitions")
		}
		if engine(0) && engine(1) {
			ctx.rep.Violate("c01|race|"+r.Key(), "data race inside the storage engine / fragment map: the fragment lock did not serialise these accesses: "+r.Key(), map[string]interface{}{"report": r})
		} else {
			diag = append(diag, r.Key())
		}
	}
	ctx.rep.Extra("race_reports_other_diagnostics", diag)
	return ctx.rep.Finish(10)
}

func c01Replay(ctx *runCtx, path string) int {
	var doc struct {
		Replay struct {
			History []kvOp `json:"history"`
		} `json:"replay"`
	}
	if err := readJSON(path, &doc); err != nil {
		fmt.Println(err)
		return 2
	}
	res := checkKeyHistory(doc.Replay.History, 2*time.Minute)
	label, _ := classifyAnomaly(doc.Replay.History)
	fmt.Printf("replay: re-checking stored history of %d operations: porcupine=%v label=%s\n", len(doc.Replay.History), res, label)
	if res == porcupine.Illegal {
		fmt.Printf("VIOLATION property=C01 replay=%s\n", path)
		return 1
	}
	return 0
}
