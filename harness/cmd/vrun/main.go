// vrun is the single harness binary. Usage:
//
//	vrun <property> <quick|thorough>            run the check for a property
//	vrun <property> <tier> --child <spec> --out <file>   (internal) run one batch in a child process
//	vrun <property> --replay <path>             re-check a stored replay file
package main

import (
	"bytes"
	"fmt"
	"os"
	"os/exec"
	"path/filepath"
	"runtime"
	"runtime/debug"
	"sort"
	"strings"
	"sync"
	"syscall"
	"time"

	"github.com/olric-data/olric/verif/ev"
)

type checkFn struct {
	level string
	// run executes the check in the parent process and returns the exit code.
	run func(ctx *runCtx) int
	// child executes one batch; spec is the batch descriptor.
	child func(ctx *runCtx, spec string)
	// replay re-checks a stored replay file.
	replay func(ctx *runCtx, path string) int
}

type runCtx struct {
	prop   string
	tier   string
	seed   int64
	rep    *ev.Report
	outDir string
	race   bool
}

var checks = map[string]*checkFn{}

func register(prop string, c *checkFn) { checks[prop] = c }

func main() {
	if len(os.Args) < 3 {
		fmt.Fprintln(os.Stderr, "usage: vrun <property> <quick|thorough> | vrun <property> --replay <path>")
		os.Exit(2)
	}
	prop := strings.ToUpper(os.Args[1])
	c, ok := checks[prop]
	if !ok {
		var ids []string
		for k := range checks {
			ids = append(ids, k)
		}
		sort.Strings(ids)
		fmt.Fprintf(os.Stderr, "unknown property %s (have %v)\n", prop, ids)
		os.Exit(2)
	}
	// keep the harness itself from being the memory hog
	debug.SetMemoryLimit(6 << 30)

	if os.Args[2] == "--replay" {
		if len(os.Args) < 4 || c.replay == nil {
			fmt.Fprintln(os.Stderr, "replay not supported for", prop)
			os.Exit(2)
		}
		ctx := &runCtx{prop: prop, tier: "quick", seed: ev.Seed(), outDir: filepath.Join(ev.Root(), "out", prop)}
		os.Exit(c.replay(ctx, os.Args[3]))
	}
	tier := os.Args[2]
	if tier != "quick" && tier != "thorough" {
		fmt.Fprintln(os.Stderr, "tier must be quick or thorough")
		os.Exit(2)
	}
	ctx := &runCtx{
		prop:   prop,
		tier:   tier,
		seed:   ev.Seed(),
		rep:    ev.New(prop, c.level, tier),
		outDir: filepath.Join(ev.Root(), "out", prop, tier),
		race:   raceEnabled,
	}
	var childSpec, outFile string
	for i := 3; i < len(os.Args); i++ {
		switch os.Args[i] {
		case "--child":
			childSpec = os.Args[i+1]
			i++
		case "--out":
			outFile = os.Args[i+1]
			i++
		}
	}
	if childSpec != "" {
		if c.child == nil {
			fmt.Fprintln(os.Stderr, "no child mode for", prop)
			os.Exit(2)
		}
		startMemGuard(ctx, outFile)
		c.child(ctx, childSpec)
		if err := ctx.rep.WritePartial(outFile); err != nil {
			fmt.Fprintln(os.Stderr, "write partial:", err)
			os.Exit(2)
		}
		os.Exit(0)
	}
	// one directory per tier, emptied first: child logs, partial reports and above all the race detector's logs of an
	// earlier run (perhaps of a different tree) must never be read as results of this one
	_ = os.RemoveAll(ctx.outDir)
	_ = os.MkdirAll(ctx.outDir, 0o755)
	os.Exit(c.run(ctx))
}

// startMemGuard exits the child (code 3) when the heap exceeds 3 GiB; the
// parent attributes the death to the case the child logged last.
func startMemGuard(ctx *runCtx, outFile string) {
	go func() {
		var ms runtime.MemStats
		for {
			time.Sleep(200 * time.Millisecond)
			runtime.ReadMemStats(&ms)
			if ms.HeapAlloc > 3<<30 {
				fmt.Fprintf(os.Stderr, "MEMGUARD: heap %d MiB, giving up\n", ms.HeapAlloc>>20)
				os.Exit(3)
			}
		}
	}()
}

// batch is one unit of child work.
type batch struct {
	Spec    string
	Timeout time.Duration
	Race    bool // run with the -race binary
}

type batchResult struct {
	Spec     string
	ExitCode int
	TimedOut bool
	LogPath  string
	Merged   bool
	Wall     time.Duration
}

func selfPath(race bool) string {
	exe, _ := os.Executable()
	dir := filepath.Dir(exe)
	if race {
		return filepath.Join(dir, "vrun-race")
	}
	return filepath.Join(dir, "vrun")
}

// portRangeStart returns the first port of the 4000-port range of this
// invocation; VERIF_PORT_OFFSET (0..9) lets several invocations run side by side.
func portRangeStart() int {
	off := 0
	fmt.Sscanf(os.Getenv("VERIF_PORT_OFFSET"), "%d", &off)
	if off < 0 || off > 9 {
		off = 0
	}
	return 20000 + off*4000
}

var portBaseMu sync.Mutex
var nextPortSlot = 0

// runBatches runs every batch in a child process (at most parallel at a time),
// merges their partial reports into ctx.rep and returns per-batch results.
// onDeath is called for a child that died without writing its partial.
func runBatches(ctx *runCtx, batches []batch, parallel int, onDeath func(b batch, res batchResult, logTail string)) []batchResult {
	_ = os.MkdirAll(ctx.outDir, 0o755)
	results := make([]batchResult, len(batches))
	sem := make(chan struct{}, parallel)
	var wg sync.WaitGroup
	var mergeMu sync.Mutex
	for i := range batches {
		wg.Add(1)
		sem <- struct{}{}
		go func(i int) {
			defer wg.Done()
			defer func() { <-sem }()
			b := batches[i]
			tag := fmt.Sprintf("b%03d", i)
			if b.Race {
				tag += "r"
			}
			out := filepath.Join(ctx.outDir, tag+".partial.json")
			logPath := filepath.Join(ctx.outDir, tag+".log")
			_ = os.Remove(out)
			logf, err := os.Create(logPath)
			if err != nil {
				results[i] = batchResult{Spec: b.Spec, ExitCode: 2}
				return
			}
			portBaseMu.Lock()
			slot := nextPortSlot
			nextPortSlot++
			portBaseMu.Unlock()
			cmd := exec.Command(selfPath(b.Race), ctx.prop, ctx.tier, "--child", b.Spec, "--out", out)
			cmd.Stdout = logf
			cmd.Stderr = logf
			cmd.Env = append(os.Environ(),
				fmt.Sprintf("VERIF_PORT_BASE=%d", portRangeStart()+(slot%20)*200),
				"GORACE=halt_on_error=0 log_path="+filepath.Join(ctx.outDir, tag+".race"),
			)
			cmd.SysProcAttr = &syscall.SysProcAttr{Setpgid: true}
			start := time.Now()
			res := batchResult{Spec: b.Spec, LogPath: logPath}
			if err := cmd.Start(); err != nil {
				res.ExitCode = 2
				results[i] = res
				logf.Close()
				return
			}
			done := make(chan error, 1)
			go func() { done <- cmd.Wait() }()
			timeout := b.Timeout
			if timeout == 0 {
				timeout = 10 * time.Minute
			}
			select {
			case err := <-done:
				if err != nil {
					if ee, ok := err.(*exec.ExitError); ok {
						res.ExitCode = ee.ExitCode()
					} else {
						res.ExitCode = 2
					}
				}
			case <-time.After(timeout):
				res.TimedOut = true
				// goroutine dump into the log, then kill
				_ = syscall.Kill(-cmd.Process.Pid, syscall.SIGQUIT)
				select {
				case <-done:
				case <-time.After(5 * time.Second):
					_ = syscall.Kill(-cmd.Process.Pid, syscall.SIGKILL)
					<-done
				}
				res.ExitCode = -1
			}
			res.Wall = time.Since(start)
			logf.Close()
			mergeMu.Lock()
			if err := ctx.rep.MergeFile(out); err == nil {
				res.Merged = true
			}
			mergeMu.Unlock()
			if b.Race && res.Merged && res.ExitCode == 66 {
				// the race detector's exit code when it reported races (halt_on_error=0):
				// the workload itself completed; the reports are read from the log files
				res.ExitCode = 0
			}
			if (!res.Merged || res.ExitCode != 0) && onDeath != nil {
				onDeath(b, res, tailFile(logPath, 6000))
			}
			results[i] = res
		}(i)
	}
	wg.Wait()
	return results
}

func tailFile(path string, n int) string {
	data, err := os.ReadFile(path)
	if err != nil {
		return ""
	}
	if len(data) > n {
		data = data[len(data)-n:]
	}
	return string(bytes.ToValidUTF8(data, []byte("?")))
}

// headFile returns the first n bytes of a file.
func headFile(path string, n int) string {
	data, err := os.ReadFile(path)
	if err != nil {
		return ""
	}
	if len(data) > n {
		data = data[:n]
	}
	return string(bytes.ToValidUTF8(data, []byte("?")))
}
