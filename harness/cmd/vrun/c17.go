package main

// C17 — values and keys read back identical to what was written.
//
// One child process per configuration (table size, write quorum): a 2-member
// cluster with ReplicaCount=2. Every generated (key, value) pair is written
// through the embedded client on the owner (EO), on the non-owner (EN) and
// through the cluster client (CC) — one DMap per write path — and read back
// through each of the three with the typed accessor and with Scan(&v); the
// backup copy is read raw (DM.GETENTRY ... RC) and white-box. Pairs that must
// be rejected (key longer than 255 bytes, entry that cannot fit a table) are
// then tried on every path: the documented error is required, nothing may be
// stored on any member, and every neighbour is re-verified. A third member
// joins, the balancer is driven until the data has moved, and everything is
// read again from every member (thorough: once more after stopping a member).

import (
	"context"
	"encoding/json"
	"errors"
	"fmt"
	"os"
	"sort"
	"strings"
	"sync"
	"sync/atomic"
	"time"

	"github.com/olric-data/olric"
	"github.com/olric-data/olric/internal/cluster/partitions"
	"github.com/olric-data/olric/internal/dmap"
	"github.com/olric-data/olric/internal/kvstore/entry"
	"github.com/olric-data/olric/internal/resp"
	"github.com/olric-data/olric/verif/cluster"
	"github.com/olric-data/olric/verif/ev"
	"github.com/olric-data/olric/verif/paths"
	"github.com/olric-data/olric/verif/respc"
)

func init() {
	register("C17", &checkFn{level: "exploration", run: c17Run, child: c17Child, replay: c17Replay})
}

const (
	c17OpTimeout  = 120 * time.Second
	c17Partitions = 11
)

var c17WritePaths = []string{"EO", "EN", "CC"}

type c17Cfg struct {
	TS    uint64 `json:"table_size"`
	W     int    `json:"write_quorum"`
	Shard int    `json:"shard"`
	Stop  bool   `json:"stop_member,omitempty"` // phase C: stop a member and read again
}

func (c c17Cfg) spec() string {
	s := fmt.Sprintf("ts=%d,W=%d,shard=%d", c.TS, c.W, c.Shard)
	if c.Stop {
		s += ",stop=1"
	}
	return s
}

func c17ParseSpec(spec string) (c c17Cfg) {
	for _, f := range strings.Split(spec, ",") {
		kv := strings.SplitN(f, "=", 2)
		if len(kv) != 2 {
			continue
		}
		switch kv[0] {
		case "ts":
			fmt.Sscan(kv[1], &c.TS)
		case "W":
			fmt.Sscan(kv[1], &c.W)
		case "shard":
			fmt.Sscan(kv[1], &c.Shard)
		case "stop":
			c.Stop = kv[1] == "1"
		}
	}
	return
}

// ------------------------------------------------------------------ typed reads

func c17rd[T any](g *olric.GetResponse, acc func() (T, error)) (a interface{}, aerr error, s interface{}, serr error) {
	if acc != nil {
		a, aerr = acc()
	}
	var v T
	serr = g.Scan(&v)
	return a, aerr, v, serr
}

// c17Read reads a GetResponse with the typed accessor (if the type has one) and with Scan into the same type.
func c17Read(g *olric.GetResponse, want interface{}) (a interface{}, aerr error, s interface{}, serr error, hasAcc bool) {
	hasAcc = true
	switch want.(type) {
	case int:
		a, aerr, s, serr = c17rd(g, g.Int)
	case int8:
		a, aerr, s, serr = c17rd(g, g.Int8)
	case int16:
		a, aerr, s, serr = c17rd(g, g.Int16)
	case int32:
		a, aerr, s, serr = c17rd(g, g.Int32)
	case int64:
		a, aerr, s, serr = c17rd(g, g.Int64)
	case uint:
		a, aerr, s, serr = c17rd(g, g.Uint)
	case uint8:
		a, aerr, s, serr = c17rd(g, g.Uint8)
	case uint16:
		a, aerr, s, serr = c17rd(g, g.Uint16)
	case uint32:
		a, aerr, s, serr = c17rd(g, g.Uint32)
	case uint64:
		a, aerr, s, serr = c17rd(g, g.Uint64)
	case float32:
		a, aerr, s, serr = c17rd(g, g.Float32)
	case float64:
		a, aerr, s, serr = c17rd(g, g.Float64)
	case bool:
		a, aerr, s, serr = c17rd(g, g.Bool)
	case string:
		a, aerr, s, serr = c17rd(g, g.String)
	case []byte:
		a, aerr, s, serr = c17rd(g, g.Byte)
	case time.Time:
		a, aerr, s, serr = c17rd(g, g.Time)
	case time.Duration:
		a, aerr, s, serr = c17rd(g, g.Duration)
	case c17Blob:
		hasAcc = false
		a, aerr, s, serr = c17rd[c17Blob](g, nil)
	default:
		panic(fmt.Sprintf("c17: no reader for %T", want))
	}
	return
}

func c17sb[T any](b []byte) (interface{}, error) {
	var v T
	err := resp.Scan(b, &v)
	return v, err
}

// c17Decode decodes stored value bytes into the Go type of want (the same decoder the clients use).
func c17Decode(b []byte, want interface{}) (interface{}, error) {
	switch want.(type) {
	case int:
		return c17sb[int](b)
	case int8:
		return c17sb[int8](b)
	case int16:
		return c17sb[int16](b)
	case int32:
		return c17sb[int32](b)
	case int64:
		return c17sb[int64](b)
	case uint:
		return c17sb[uint](b)
	case uint8:
		return c17sb[uint8](b)
	case uint16:
		return c17sb[uint16](b)
	case uint32:
		return c17sb[uint32](b)
	case uint64:
		return c17sb[uint64](b)
	case float32:
		return c17sb[float32](b)
	case float64:
		return c17sb[float64](b)
	case bool:
		return c17sb[bool](b)
	case string:
		return c17sb[string](b)
	case []byte:
		return c17sb[[]byte](b)
	case time.Time:
		return c17sb[time.Time](b)
	case time.Duration:
		return c17sb[time.Duration](b)
	case c17Blob:
		return c17sb[c17Blob](b)
	}
	panic(fmt.Sprintf("c17: no decoder for %T", want))
}

// ------------------------------------------------------------------ environment

type c17Stall struct{ maxGap, total atomic.Int64 }

func (s *c17Stall) run() {
	last := time.Now()
	for {
		time.Sleep(50 * time.Millisecond)
		now := time.Now()
		if gap := int64(now.Sub(last) - 50*time.Millisecond); gap > s.maxGap.Load() {
			s.maxGap.Store(gap)
		}
		if gap := int64(now.Sub(last) - 50*time.Millisecond); gap > s.total.Load() {
			s.total.Store(gap)
		}
		last = now
	}
}

type c17Env struct {
	ctx   *runCtx
	cfg   c17Cfg
	c     *cluster.Cluster
	items []c17Item
	dmaps []string // one per write path

	mu    sync.Mutex
	emb   map[string]olric.DMap // member name + "|" + dmap
	cc    *olric.ClusterClient
	ccd   map[string]olric.DMap
	conns map[string]*respc.Conn

	stored   []map[int][]byte // per dmap: item id -> value bytes as first observed on the primary
	reported map[string]bool  // (dmap, item) pairs that already have a mismatch violation
	out      string
	stall    *c17Stall
	samples  int

	expectMembers atomic.Int32 // 0 = membership is being changed by the harness
	unstable      atomic.Bool  // membership changed by itself (stalled process -> false failure detection)
	unstableWhy   atomic.Value
	abandoned     bool
	reachedB      bool
	lossSeen      int
}

// watch flags membership changes the harness did not ask for. On a stalled machine memberlist declares a
// healthy member dead; writes acknowledged meanwhile land on other owners, so "lost"-type observations made
// afterwards say nothing about C17.
func (e *c17Env) watch() {
	for {
		time.Sleep(40 * time.Millisecond)
		n := e.expectMembers.Load()
		if n == 0 || e.unstable.Load() {
			continue
		}
		for _, m := range e.c.Live() {
			if got := m.V.RT.NumMembers(); got != n {
				e.unstableWhy.Store(fmt.Sprintf("%s sees %d members instead of %d (longest scheduling gap so far %s)", m.Name, got, n, time.Duration(e.stall.total.Load())))
				e.unstable.Store(true)
				fmt.Println("UNSTABLE", e.unstableWhy.Load())
				break
			}
		}
	}
}

// giveUp reports (once) that the rest of the scenario is skipped because the membership changed by itself.
func (e *c17Env) giveUp(where string) bool {
	if !e.unstable.Load() {
		return false
	}
	if !e.abandoned {
		e.abandoned = true
		e.ctx.rep.Inconclusive(fmt.Sprintf("scenario ts=%d W=%d abandoned in %s: %v", e.cfg.TS, e.cfg.W, where, e.unstableWhy.Load()))
		e.flush()
	}
	return true
}

// lossViolate records a violation of the "copy is missing" family unless the membership changed by itself.
func (e *c17Env) lossViolate(key, detail string, it *c17Item, extra map[string]interface{}) {
	if e.lossSeen++; e.lossSeen <= 20 {
		time.Sleep(100 * time.Millisecond) // let the watcher see a change that just happened
	}
	if e.unstable.Load() {
		e.ctx.rep.Count("loss_observations_dropped_unstable_membership", 1)
		return
	}
	e.violate(key, detail, it, extra)
}

func (e *c17Env) flush() {
	if e.out != "" {
		_ = e.ctx.rep.WritePartial(e.out)
	}
}

func (e *c17Env) violate(key, detail string, it *c17Item, extra map[string]interface{}) {
	payload := map[string]interface{}{"cfg": e.cfg, "seed": e.ctx.seed, "tier": e.ctx.tier}
	if it != nil {
		payload["item"] = it
	}
	for k, v := range extra {
		payload[k] = v
	}
	e.ctx.rep.Violate(key, fmt.Sprintf("[ts=%d W=%d] %s", e.cfg.TS, e.cfg.W, detail), payload)
	fmt.Printf("VIOLATION-FOUND %s :: %s\n", key, detail)
	e.flush()
}

// guard runs f with a watchdog. It returns false if f did not return (the child cannot continue then).
func (e *c17Env) guard(what string, it *c17Item, f func()) bool {
	done := make(chan interface{}, 1)
	go func() {
		defer func() { done <- recover() }()
		f()
	}()
	e.stall.maxGap.Store(0)
	select {
	case p := <-done:
		if p != nil {
			e.violate("c17|panic|"+what+"|"+c17Clause(it), fmt.Sprintf("%s panicked in the client: %v (%s)", what, p, it), it, nil)
		}
		return true
	case <-time.After(c17OpTimeout):
	}
	if gap := time.Duration(e.stall.maxGap.Load()); gap > 3*time.Second {
		e.ctx.rep.Inconclusive(fmt.Sprintf("%s did not return within %s but the process was stalled for %s", what, c17OpTimeout, gap))
	} else {
		e.violate("c17|hang|"+what+"|"+c17Clause(it), fmt.Sprintf("%s did not return within %s (%s)", what, c17OpTimeout, it), it, nil)
	}
	e.flush()
	os.Exit(4)
	return false
}

// c17Clause is the item-specific part of finding keys.
func c17Clause(it *c17Item) string {
	if it == nil {
		return "-"
	}
	if it.Expect != "ok" {
		return it.What
	}
	return "type=" + it.Val.T + "|class=" + it.Class
}

func (e *c17Env) embDMap(m *cluster.Member, dm string) olric.DMap {
	e.mu.Lock()
	defer e.mu.Unlock()
	k := m.Name + "|" + dm
	if d, ok := e.emb[k]; ok {
		return d
	}
	d, err := m.Emb.NewDMap(dm)
	if err != nil {
		panic("c17: NewDMap: " + err.Error())
	}
	e.emb[k] = d
	return d
}

func (e *c17Env) ccDMap(dm string) (olric.DMap, error) {
	e.mu.Lock()
	defer e.mu.Unlock()
	if d, ok := e.ccd[dm]; ok {
		return d, nil
	}
	if e.cc == nil {
		cc, err := e.c.NewClusterClient()
		if err != nil {
			return nil, err
		}
		e.cc = cc
	}
	d, err := e.cc.NewDMap(dm)
	if err != nil {
		return nil, err
	}
	e.ccd[dm] = d
	return d, nil
}

func (e *c17Env) resetCC() {
	e.mu.Lock()
	defer e.mu.Unlock()
	if e.cc != nil {
		ctx, cancel := context.WithTimeout(context.Background(), 2*time.Second)
		_ = e.cc.Close(ctx)
		cancel()
	}
	e.cc = nil
	e.ccd = map[string]olric.DMap{}
}

func (e *c17Env) conn(m *cluster.Member) (*respc.Conn, error) {
	if c, ok := e.conns[m.Name]; ok {
		return c, nil
	}
	c, err := respc.Dial(m.Name)
	if err != nil {
		return nil, err
	}
	e.conns[m.Name] = c
	return c, nil
}

// handle returns the DMap handle of a path for a key (EO / EN relative to the current owner, or CC).
func (e *c17Env) handle(path, dm, key string) (olric.DMap, error) {
	switch path {
	case "EO":
		return e.embDMap(e.c.OwnerOf(dm, key), dm), nil
	case "EN":
		m := e.c.NonOwner(dm, key)
		if m == nil {
			return nil, errors.New("no non-owner")
		}
		return e.embDMap(m, dm), nil
	case "CC":
		return e.ccDMap(dm)
	}
	panic("c17: path " + path)
}

type c17WB struct {
	present  bool
	panicked interface{}
	ent      dmap.VerifEntry
}

// wb reads one copy white-box; a panic while decoding the stored bytes is reported, not propagated.
func (e *c17Env) wb(m *cluster.Member, kind partitions.Kind, dm, key string) (r c17WB) {
	defer func() {
		if p := recover(); p != nil {
			r.panicked = p
		}
	}()
	r.ent, r.present = m.V.DMap.VerifEntry(kind, dm, key)
	return
}

// census counts the entries of a DMap per member, kind and partition.
func (e *c17Env) census(dm string) map[string]int {
	res := map[string]int{}
	for _, m := range e.c.Live() {
		for _, kind := range []partitions.Kind{partitions.PRIMARY, partitions.BACKUP} {
			for p := uint64(0); p < c17Partitions; p++ {
				if st, _, ok := m.V.DMap.VerifStats(kind, p, dm); ok && st.Length > 0 {
					res[fmt.Sprintf("%s|%s|%d", m.Name, kind, p)] = st.Length
				}
			}
		}
	}
	return res
}

func c17CensusDiff(a, b map[string]int) string {
	var d []string
	for k, v := range b {
		if a[k] != v {
			d = append(d, fmt.Sprintf("%s: %d -> %d", k, a[k], v))
		}
	}
	for k, v := range a {
		if _, ok := b[k]; !ok {
			d = append(d, fmt.Sprintf("%s: %d -> 0", k, v))
		}
	}
	sort.Strings(d)
	return strings.Join(d, "; ")
}

func (e *c17Env) logCase(phase, path string, di int, it *c17Item) {
	b, _ := json.Marshal(map[string]interface{}{"phase": phase, "path": path, "dmap": e.dmaps[di], "item": it})
	fmt.Printf("CASE %s\n", b)
}

// ------------------------------------------------------------------ phases

func (e *c17Env) put(path string, di int, it *c17Item) (error, bool) {
	dm := e.dmaps[di]
	d, err := e.handle(path, dm, it.key)
	if err != nil {
		return err, true
	}
	var perr error
	ctx, cancel := context.WithTimeout(context.Background(), c17OpTimeout)
	defer cancel()
	ok := e.guard("Put", it, func() { perr = d.Put(ctx, it.key, it.val) })
	return perr, ok
}

// phasePut writes every acceptable item through every write path and takes the white-box snapshot.
func (e *c17Env) phasePut() {
	rep := e.ctx.rep
	for di, wp := range c17WritePaths {
		dm := e.dmaps[di]
		for i := range e.items {
			it := &e.items[i]
			if it.Expect != "ok" {
				continue
			}
			if e.giveUp("put") {
				return
			}
			it.materialize()
			e.logCase("put", wp, di, it)
			err, _ := e.put(wp, di, it)
			rep.Count("puts_via_"+wp, 1)
			if err != nil {
				cls := paths.Class(err)
				if cls == "net" || cls == "write quorum" || cls == "cluster quorum" {
					// not a verdict about the value: retry once on a stable cluster
					_ = e.c.WaitStable(10 * time.Second)
					err, _ = e.put(wp, di, it)
					cls = paths.Class(err)
				}
				if err != nil {
					if cls == "net" || cls == "cluster quorum" {
						rep.Inconclusive(fmt.Sprintf("put %s via %s: %v", it, wp, err))
					} else {
						e.violate(fmt.Sprintf("c17|put-failed|%s|err=%s", c17Clause(it), c17ErrKey(cls)),
							fmt.Sprintf("Put of an acceptable pair via %s failed: %v (%s; key length %d, value %s)", wp, err, it, len(it.key), c17Show(it.val)), it, map[string]interface{}{"write_path": wp})
					}
					it.release()
					continue
				}
			}
			// white-box: primary and backup copies right after the write
			owner := e.c.OwnerOf(dm, it.key)
			p := e.wb(owner, partitions.PRIMARY, dm, it.key)
			if p.panicked != nil || !p.present {
				if ok, why := e.c.StableOnce(); !ok || e.c.OwnerOf(dm, it.key) != owner {
					rep.Inconclusive(fmt.Sprintf("put %s via %s: no copy on %s but the routing is changing (%s)", it, wp, owner.Name, why))
				} else {
					e.lossViolate("c17|not-stored|"+c17Clause(it), fmt.Sprintf("Put via %s returned nil but the owner %s has no readable copy (present=%v panic=%v) %s", wp, owner.Name, p.present, p.panicked, it), it, map[string]interface{}{"write_path": wp})
				}
				it.release()
				continue
			}
			e.stored[di][it.ID] = p.ent.Value
			e.checkCopy("A", "primary-whitebox", di, it, p.ent.Key, p.ent.Value)
			for _, b := range e.c.BackupsOf(dm, it.key) {
				r := e.wb(b, partitions.BACKUP, dm, it.key)
				rep.Count("backup_whitebox_reads", 1)
				if r.panicked != nil {
					e.violate("c17|backup-undecodable|"+c17Clause(it)+"|phase=A", fmt.Sprintf("decoding the backup copy on %s panicked: %v (%s, written via %s)", b.Name, r.panicked, it, wp), it, map[string]interface{}{"write_path": wp})
					continue
				}
				if !r.present {
					// whether an acknowledged write has reached the backup is a replication property, not C17's
					rep.Count("backup_copy_absent_after_put", 1)
					continue
				}
				e.checkCopy("A", "backup-whitebox", di, it, r.ent.Key, r.ent.Value)
			}
			rep.Eval(1)
			rep.Distinct(fmt.Sprintf("ts=%d|W=%d|%s|%s|%s", e.cfg.TS, e.cfg.W, wp, it.Val.T, c17DistinctClass(it)))
			if e.samples < 2 && (it.Class == "nan" || strings.HasPrefix(it.Class, "key:len=255")) {
				e.samples++
				rep.Sample(map[string]interface{}{"cfg": e.cfg, "write_path": wp, "item": it, "value": c17Show(it.val), "key_len": len(it.key), "stored_bytes": c17ShowBytes(p.ent.Value)})
			}
			it.release()
		}
		e.flush()
	}
}

// c17DistinctClass folds per-case classes into a bounded set for the distinct counter.
func c17DistinctClass(it *c17Item) string {
	c := it.Class
	if strings.HasPrefix(c, "key:len=") {
		// key:len=255/rand -> key length and pattern
		return c
	}
	return c
}

func c17ErrKey(cls string) string {
	if strings.HasPrefix(cls, "other:") {
		s := strings.TrimPrefix(cls, "other:")
		if len(s) > 40 {
			s = s[:40]
		}
		return "other:" + s
	}
	return cls
}

// checkCopy judges one stored copy (key as stored, value bytes as stored) against the written pair.
func (e *c17Env) checkCopy(phase, how string, di int, it *c17Item, gotKey string, gotVal []byte) bool {
	rk := fmt.Sprintf("%d|%d", di, it.ID)
	if gotKey != it.key {
		if !e.reported[rk] {
			e.reported[rk] = true
			e.violate(fmt.Sprintf("c17|key-mangled|%s|via=%s|phase=%s", c17Clause(it), how, phase),
				fmt.Sprintf("%s copy holds key %s, written key was %s (%s)", how, c17ShowBytes([]byte(gotKey)), c17ShowBytes([]byte(it.key)), it), it, map[string]interface{}{"write_path": c17WritePaths[di]})
		}
		return false
	}
	got, err := c17Decode(gotVal, it.val)
	if err != nil || !c17Equal(it.val, got) {
		if !e.reported[rk] {
			e.reported[rk] = true
			e.violate(fmt.Sprintf("c17|mismatch|%s|read=%s|phase=%s", c17Clause(it), how, phase),
				fmt.Sprintf("%s copy decodes to %s (err=%v), written %s; stored bytes %s (%s, written via %s)", how, c17Show(got), err, c17Show(it.val), c17ShowBytes(gotVal), it, c17WritePaths[di]), it, map[string]interface{}{"write_path": c17WritePaths[di]})
		} else {
			e.ctx.rep.Count("mismatch_followups", 1)
		}
		return false
	}
	return true
}

// readVia reads one item through an API handle and judges accessor and Scan results.
func (e *c17Env) readVia(phase, label string, d olric.DMap, di int, it *c17Item) (found bool) {
	rep := e.ctx.rep
	var g *olric.GetResponse
	var err error
	ctx, cancel := context.WithTimeout(context.Background(), c17OpTimeout)
	defer cancel()
	e.guard("Get", it, func() { g, err = d.Get(ctx, it.key) })
	rep.Count("reads_"+phase+"_"+label, 1)
	rk := fmt.Sprintf("%d|%d", di, it.ID)
	if err != nil {
		cls := paths.Class(err)
		switch {
		case cls == "key not found" && phase == "C":
			rep.Count("unavailable_after_member_stop", 1)
		case cls == "key not found":
			if !e.reported[rk] {
				e.reported[rk] = true
				e.lossViolate(fmt.Sprintf("c17|not-found|%s|read=%s|phase=%s", c17Clause(it), label, phase),
					fmt.Sprintf("Get via %s: key not found for a stored pair (%s, written via %s)", label, it, c17WritePaths[di]), it, map[string]interface{}{"write_path": c17WritePaths[di]})
			}
		case cls == "net" || cls == "read quorum" || cls == "cluster quorum":
			rep.Inconclusive(fmt.Sprintf("get %s via %s in phase %s: %v", it, label, phase, err))
		default:
			if !e.reported[rk] {
				e.reported[rk] = true
				e.violate(fmt.Sprintf("c17|get-failed|%s|read=%s|phase=%s|err=%s", c17Clause(it), label, phase, c17ErrKey(cls)),
					fmt.Sprintf("Get via %s failed: %v (%s)", label, err, it), it, map[string]interface{}{"write_path": c17WritePaths[di]})
			}
		}
		return false
	}
	var a, s interface{}
	var aerr, serr error
	var hasAcc bool
	e.guard("Scan", it, func() { a, aerr, s, serr, hasAcc = c17Read(g, it.val) })
	bad := ""
	switch {
	case hasAcc && (aerr != nil || !c17Equal(it.val, a)):
		bad = fmt.Sprintf("typed accessor returned %s (err=%v)", c17Show(a), aerr)
	case serr != nil || !c17Equal(it.val, s):
		bad = fmt.Sprintf("Scan(&v) returned %s (err=%v)", c17Show(s), serr)
	}
	if hasAcc {
		rep.Count("accessor_reads", 1)
	}
	rep.Count("scan_reads", 1)
	if bad != "" {
		if !e.reported[rk] {
			e.reported[rk] = true
			raw, _ := g.Byte()
			e.violate(fmt.Sprintf("c17|mismatch|%s|read=%s|phase=%s", c17Clause(it), label, phase),
				fmt.Sprintf("Get via %s: %s, written %s; raw value %s (%s, written via %s)", label, bad, c17Show(it.val), c17ShowBytes(raw), it, c17WritePaths[di]), it, map[string]interface{}{"write_path": c17WritePaths[di], "read_path": label})
		} else {
			rep.Count("mismatch_followups", 1)
		}
	}
	return true
}

// phaseRead reads every stored pair through EO, EN and CC.
func (e *c17Env) phaseRead(phase string) {
	for di := range c17WritePaths {
		dm := e.dmaps[di]
		for i := range e.items {
			it := &e.items[i]
			if _, ok := e.stored[di][it.ID]; !ok {
				continue
			}
			if e.giveUp("read " + phase) {
				return
			}
			it.materialize()
			for _, rp := range c17WritePaths {
				d, err := e.handle(rp, dm, it.key)
				if err != nil {
					e.ctx.rep.Inconclusive("handle " + rp + ": " + err.Error())
					continue
				}
				e.readVia(phase, rp, d, di, it)
			}
			it.release()
		}
		e.flush()
	}
}

// phaseBackup reads the backup copies: DM.GETENTRY <dmap> <key> RC on the backup owner, decoded with
// the entry codec, and white-box.
func (e *c17Env) phaseBackup(phase string) {
	rep := e.ctx.rep
	for di := range c17WritePaths {
		dm := e.dmaps[di]
		for i := range e.items {
			it := &e.items[i]
			if _, ok := e.stored[di][it.ID]; !ok {
				continue
			}
			if e.giveUp("backup read " + phase) {
				return
			}
			it.materialize()
			holders := 0
			for _, b := range e.c.BackupsOf(dm, it.key) {
				r := e.wb(b, partitions.BACKUP, dm, it.key)
				if r.panicked != nil {
					e.violate(fmt.Sprintf("c17|backup-undecodable|%s|phase=%s", c17Clause(it), phase), fmt.Sprintf("decoding the backup copy on %s panicked: %v (%s)", b.Name, r.panicked, it), it, nil)
					continue
				}
				if !r.present {
					continue // not (yet / any more) on this listed owner: availability is not C17's business
				}
				holders++
				rep.Count("backup_whitebox_reads", 1)
				e.checkCopy(phase, "backup-whitebox", di, it, r.ent.Key, r.ent.Value)
				conn, err := e.conn(b)
				if err != nil {
					rep.Inconclusive("dial backup owner: " + err.Error())
					continue
				}
				reply, err := conn.DoBytes(c17OpTimeout, []byte("DM.GETENTRY"), []byte(dm), []byte(it.key), []byte("RC"))
				rep.Count("backup_getentry_reads", 1)
				if err != nil {
					rep.Inconclusive(fmt.Sprintf("GETENTRY RC on %s: %v", b.Name, err))
					delete(e.conns, b.Name)
					_ = conn.Close()
					continue
				}
				if reply.IsErr() || reply.Null {
					e.violate(fmt.Sprintf("c17|backup-getentry-failed|%s|phase=%s", c17Clause(it), phase), fmt.Sprintf("DM.GETENTRY RC on %s answered %s although the backup fragment holds the key (%s)", b.Name, reply.String(), it), it, nil)
					continue
				}
				var dk string
				var dv []byte
				var pan interface{}
				func() {
					defer func() { pan = recover() }()
					en := entry.New()
					en.Decode([]byte(reply.Str))
					dk, dv = en.Key(), en.Value()
				}()
				if pan != nil {
					e.violate(fmt.Sprintf("c17|backup-undecodable|%s|phase=%s", c17Clause(it), phase), fmt.Sprintf("entry.Decode of the GETENTRY RC reply from %s panicked: %v (%s)", b.Name, pan, it), it, nil)
					continue
				}
				e.checkCopy(phase, "backup-getentry", di, it, dk, dv)
			}
			if holders == 0 {
				rep.Count("backup_copy_absent_"+phase, 1)
			}
			it.release()
		}
		e.flush()
	}
}

// verifyNeighbours re-reads every stored pair white-box (primary and backups) and compares it with the snapshot.
//
// full=false restricts the check to the fragments the rejected write was addressed to (same DMap, same partition).
func (e *c17Env) verifyNeighbours(after *c17Item, wp string, rdi int, full bool) int {
	changed := 0
	rpart := e.c.PartOf(e.dmaps[rdi], after.key)
	for di := range c17WritePaths {
		dm := e.dmaps[di]
		if !full && di != rdi {
			continue
		}
		for i := range e.items {
			it := &e.items[i]
			snap, ok := e.stored[di][it.ID]
			if !ok {
				continue
			}
			if !full && e.c.PartOf(dm, it.key) != rpart {
				continue
			}
			if it.key == "" && it.Key.Len != 0 {
				it.materialize()
				it.release()
			}
			check := func(where string, r c17WB) {
				e.ctx.rep.Count("neighbour_checks", 1)
				switch {
				case r.panicked != nil:
					changed++
					e.violate("c17|reject|neighbour-corrupted|"+after.What, fmt.Sprintf("after the rejected write (%s via %s) the %s copy of neighbour %s cannot be decoded: %v", after, wp, where, it, r.panicked), after, map[string]interface{}{"neighbour": it})
				case !r.present:
					changed++
					e.lossViolate("c17|reject|neighbour-lost|"+after.What, fmt.Sprintf("after the rejected write (%s via %s) the %s copy of neighbour %s is gone", after, wp, where, it), after, map[string]interface{}{"neighbour": it})
				case r.ent.Key != it.key || string(r.ent.Value) != string(snap):
					changed++
					e.violate("c17|reject|neighbour-changed|"+after.What, fmt.Sprintf("after the rejected write (%s via %s) the %s copy of neighbour %s changed: key %s value %s, was key %s value %s", after, wp, where, it,
						c17ShowBytes([]byte(r.ent.Key)), c17ShowBytes(r.ent.Value), c17ShowBytes([]byte(it.key)), c17ShowBytes(snap)), after, map[string]interface{}{"neighbour": it})
				}
			}
			check("primary", e.wb(e.c.OwnerOf(dm, it.key), partitions.PRIMARY, dm, it.key))
			for _, b := range e.c.BackupsOf(dm, it.key) {
				check("backup", e.wb(b, partitions.BACKUP, dm, it.key))
			}
			if changed > 3 {
				return changed
			}
		}
	}
	return changed
}

// phaseReject tries every pair that must be rejected on every write path.
func (e *c17Env) phaseReject() {
	rep := e.ctx.rep
	bg := context.Background()
	nrej := 0
	defer func() {
		// the complete neighbour set once more at the end
		for i := range e.items {
			if it := &e.items[i]; it.Expect != "ok" {
				it.materialize()
				if e.verifyNeighbours(it, "-", 0, true) == 0 {
					rep.Count("neighbour_sets_verified_full", 1)
				}
				it.val = nil
				break
			}
		}
	}()
	for di, wp := range c17WritePaths {
		dm := e.dmaps[di]
		for i := range e.items {
			it := &e.items[i]
			if it.Expect == "ok" {
				continue
			}
			if e.giveUp("reject") {
				return
			}
			it.materialize()
			before := e.census(dm)
			e.logCase("reject", wp, di, it)
			err, _ := e.put(wp, di, it)
			cls := paths.Class(err)
			rep.Eval(1)
			rep.Count("rejections_tried_via_"+wp, 1)
			rep.Count("rejections_"+strings.ReplaceAll(it.Expect, " ", "_"), 1)
			rep.Distinct(fmt.Sprintf("ts=%d|W=%d|%s|reject|%s", e.cfg.TS, e.cfg.W, wp, it.What))
			extra := map[string]interface{}{"write_path": wp}
			dirty := false
			switch {
			case err == nil:
				dirty = true
				e.violate(fmt.Sprintf("c17|accepted|%s|W=%d", it.What, e.cfg.W),
					fmt.Sprintf("Put via %s returned nil for a pair that must be rejected with %q (%s; key length %d, value length %d)", wp, it.Expect, it, len(it.key), it.Val.encodedLen()), it, extra)
			case cls == "net":
				// e.g. the 3 s read timeout between members while a 16 MiB value is in flight on a loaded machine
				rep.Inconclusive(fmt.Sprintf("reject %s via %s: transport error %v", it, wp, err))
			case cls != it.Expect:
				// is the cluster healthy? a control write to the same partition owner must work
				ck := fmt.Sprintf("control-%d", it.ID)
				cd, herr := e.handle(wp, dm, ck)
				var cerr error
				if herr == nil {
					cerr = cd.Put(bg, ck, "x")
					_, _ = cd.Delete(bg, ck)
				}
				if herr != nil || cerr != nil {
					rep.Inconclusive(fmt.Sprintf("reject %s via %s: got %v and the control write failed too (%v %v)", it, wp, err, herr, cerr))
				} else {
					dirty = true
					e.violate(fmt.Sprintf("c17|wrong-error|%s|W=%d|got=%s", it.What, e.cfg.W, c17ErrKey(cls)),
						fmt.Sprintf("Put via %s of a pair that must be rejected with %q failed with %q instead (%s; key length %d, value length %d)", wp, it.Expect, err, it, len(it.key), it.Val.encodedLen()), it, extra)
				}
			default:
				rep.Count("rejections_with_documented_error", 1)
			}
			// nothing may be stored anywhere
			after := e.census(dm)
			if diff := c17CensusDiff(before, after); diff != "" {
				dirty = true
				where := map[string]bool{}
				for _, m := range e.c.Live() {
					for _, kind := range []partitions.Kind{partitions.PRIMARY, partitions.BACKUP} {
						for p := uint64(0); p < c17Partitions; p++ {
							k := fmt.Sprintf("%s|%s|%d", m.Name, kind, p)
							if after[k] != before[k] {
								where[strings.ToLower(kind.String())] = true
								// Remove it so that the rest of the run judges the other cases. The copy is not
								// decoded here: a stored entry whose key length byte wrapped around makes GetRaw
								// allocate whatever the misread value length says.
								_ = m.V.DMap.VerifDeleteEntryAt(kind, dm, it.key)
								rep.Count("cleanup_after_violation", 1)
							}
						}
					}
				}
				var ws []string
				for k := range where {
					ws = append(ws, k)
				}
				sort.Strings(ws)
				e.violate(fmt.Sprintf("c17|reject-stored|%s|W=%d|where=%s", it.What, e.cfg.W, strings.Join(ws, "+")),
					fmt.Sprintf("the write that must be rejected (%s via %s, result: %v) changed the number of stored entries (member|kind|partition): %s", it, wp, err, diff), it, extra)
			} else {
				for _, m := range e.c.Live() {
					for _, kind := range []partitions.Kind{partitions.PRIMARY, partitions.BACKUP} {
						r := e.wb(m, kind, dm, it.key)
						rep.Count("reject_whitebox_probes", 1)
						if r.present || r.panicked != nil {
							dirty = true
							e.violate(fmt.Sprintf("c17|reject-stored|%s|W=%d|where=%s", it.What, e.cfg.W, strings.ToLower(kind.String())),
								fmt.Sprintf("the write that must be rejected (%s via %s, result: %v) left an entry in the %s fragment of %s (stored key %s, value length %d, decode panic: %v)", it, wp, err, kind, m.Name,
									c17ShowBytes([]byte(r.ent.Key)), len(r.ent.Value), r.panicked), it, extra)
							_ = m.V.DMap.VerifDeleteEntryAt(kind, dm, it.key)
							rep.Count("cleanup_after_violation", 1)
						}
					}
				}
			}
			if !dirty {
				// the rejected key must not be readable
				d, herr := e.handle("EO", dm, it.key)
				if herr == nil {
					var g *olric.GetResponse
					var gerr error
					e.guard("Get", it, func() { g, gerr = d.Get(bg, it.key) })
					if gerr == nil && g != nil {
						raw, _ := g.Byte()
						e.violate(fmt.Sprintf("c17|reject-readable|%s|W=%d", it.What, e.cfg.W), fmt.Sprintf("Get of the rejected key returns a value %s (%s)", c17ShowBytes(raw), it), it, extra)
					}
				}
			}
			nrej++
			full := e.ctx.tier == "quick" || nrej%8 == 0
			if n := e.verifyNeighbours(it, wp, di, full); n == 0 {
				if full {
					rep.Count("neighbour_sets_verified_full", 1)
				} else {
					rep.Count("neighbour_sets_verified_same_fragments", 1)
				}
			}
			it.val = nil // big rejected values are rebuilt on demand
		}
		e.flush()
	}
}

// phaseScanKeys lists the keys of every DMap with the public iterator (embedded on the first live member and
// cluster client). A key that was never written is a mangled key; keys the iterator does not yield are only
// counted (completeness of Scan is not C17's business).
func (e *c17Env) phaseScanKeys(phase string) {
	rep := e.ctx.rep
	if e.giveUp("key listing " + phase) {
		return
	}
	for di := range c17WritePaths {
		dm := e.dmaps[di]
		want := map[string]*c17Item{}
		for i := range e.items {
			it := &e.items[i]
			if _, ok := e.stored[di][it.ID]; ok {
				if it.key == "" && it.Key.Len != 0 {
					it.materialize()
					it.release()
				}
				want[it.key] = it
			}
		}
		for _, via := range []string{"E", "CC"} {
			var d olric.DMap
			var err error
			if via == "E" {
				d = e.embDMap(e.c.Live()[0], dm)
			} else if d, err = e.ccDMap(dm); err != nil {
				rep.Inconclusive("cluster client: " + err.Error())
				continue
			}
			seen := map[string]bool{}
			var unexpected []string
			e.guard("Scan", nil, func() {
				ctx, cancel := context.WithTimeout(context.Background(), 2*c17OpTimeout)
				defer cancel()
				iter, err := d.Scan(ctx)
				if err != nil {
					rep.Inconclusive(fmt.Sprintf("Scan via %s: %v", via, err))
					return
				}
				defer iter.Close()
				for iter.Next() {
					k := iter.Key()
					rep.Count("keys_listed_via_"+via, 1)
					if _, ok := want[k]; ok {
						seen[k] = true
					} else if len(unexpected) < 5 {
						unexpected = append(unexpected, k)
					}
				}
			})
			for _, k := range unexpected {
				// which written key is it a mangled form of?
				near := "?"
				var nit *c17Item
				for wk, it := range want {
					if !seen[wk] && (strings.HasPrefix(wk, k) || strings.HasPrefix(k, wk) || strings.TrimSpace(wk) == strings.TrimSpace(k)) {
						near, nit = c17ShowBytes([]byte(wk)), it
						break
					}
				}
				cl := "-"
				if nit != nil {
					cl = c17Clause(nit)
				}
				e.violate(fmt.Sprintf("c17|listed-key-never-written|%s|phase=%s", cl, phase),
					fmt.Sprintf("the key iterator (via %s) of DMap %s yields key %s which was never written (closest missing written key: %s)", via, dm, c17ShowBytes([]byte(k)), near), nit, map[string]interface{}{"write_path": c17WritePaths[di]})
			}
			rep.Count("keys_not_listed_"+phase, int64(len(want)-len(seen)))
		}
	}
}

// settled reports whether every entry of our DMaps sits only on current owners.
func (e *c17Env) settled() (bool, string) {
	if ok, why := e.c.StableOnce(); !ok {
		return false, why
	}
	live := e.c.Live()
	for _, m := range live {
		for p := uint64(0); p < c17Partitions; p++ {
			for _, dm := range e.dmaps {
				if st, _, ok := m.V.DMap.VerifStats(partitions.PRIMARY, p, dm); ok && st.Length > 0 {
					owners := live[0].V.Primary.PartitionByID(p).Owners()
					if len(owners) != 1 || owners[0].Name != m.Name {
						return false, fmt.Sprintf("%s still holds primary data of partition %d", m.Name, p)
					}
				}
				if st, _, ok := m.V.DMap.VerifStats(partitions.BACKUP, p, dm); ok && st.Length > 0 {
					owners := live[0].V.Backup.PartitionByID(p).Owners()
					if len(owners) != 1 || owners[0].Name != m.Name {
						return false, fmt.Sprintf("%s still holds backup data of partition %d", m.Name, p)
					}
				}
			}
		}
	}
	return true, ""
}

// misplaced counts the entries of our DMaps held by members that are not the current owner of the partition.
func (e *c17Env) misplaced() int {
	n := 0
	live := e.c.Live()
	for _, m := range live {
		for p := uint64(0); p < c17Partitions; p++ {
			po := live[0].V.Primary.PartitionByID(p).Owners()
			bo := live[0].V.Backup.PartitionByID(p).Owners()
			for _, dm := range e.dmaps {
				if st, _, ok := m.V.DMap.VerifStats(partitions.PRIMARY, p, dm); ok && st.Length > 0 && (len(po) == 0 || po[len(po)-1].Name != m.Name) {
					n += st.Length
				}
				if st, _, ok := m.V.DMap.VerifStats(partitions.BACKUP, p, dm); ok && st.Length > 0 && (len(bo) == 0 || bo[len(bo)-1].Name != m.Name) {
					n += st.Length
				}
			}
		}
	}
	return n
}

// phaseMigrate joins a third member and drives the balancer until the data has moved.
func (e *c17Env) phaseMigrate() bool {
	rep := e.ctx.rep
	// where is everything now?
	ownerBefore := map[string]string{}
	for di := range c17WritePaths {
		for i := range e.items {
			it := &e.items[i]
			if _, ok := e.stored[di][it.ID]; ok {
				if it.key == "" && it.Key.Len != 0 {
					it.materialize()
					it.release()
				}
				ownerBefore[fmt.Sprintf("%d|%d", di, it.ID)] = e.c.OwnerOf(e.dmaps[di], it.key).Name
			}
		}
	}
	if e.giveUp("migrate") {
		return false
	}
	e.expectMembers.Store(0)
	fmt.Println("PHASE migrate: adding a member")
	nm, err := e.c.AddMember()
	if err != nil {
		rep.Inconclusive("add member: " + err.Error())
		return false
	}
	if err := e.c.WaitStable(30 * time.Second); err != nil {
		rep.Inconclusive("not stable after join: " + err.Error())
		return false
	}
	ok, why := false, ""
	rounds, best, sinceBest := 0, -1, 0
	for rounds = 1; rounds <= 5000; rounds++ {
		for _, m := range e.c.Live() {
			m.V.Balancer.BalanceEagerly()
		}
		e.c.PushRouting()
		time.Sleep(10 * time.Millisecond)
		if ok, why = e.settled(); ok {
			break
		}
		// one balancer pass moves one table per fragment: keep going while entries are still leaving the previous owners
		mis := e.misplaced()
		if best < 0 || mis < best {
			best, sinceBest = mis, 0
		} else if sinceBest++; sinceBest > 150 {
			break
		}
	}
	rep.Count("balancer_rounds", int64(rounds))
	if !ok {
		rep.Inconclusive(fmt.Sprintf("data did not settle after the join (%d balancer rounds, no progress in the last 150): %s", rounds, why))
		return false
	}
	moved, toNew := 0, 0
	for di := range c17WritePaths {
		for i := range e.items {
			it := &e.items[i]
			if _, ok := e.stored[di][it.ID]; ok {
				now := e.c.OwnerOf(e.dmaps[di], it.key).Name
				if now != ownerBefore[fmt.Sprintf("%d|%d", di, it.ID)] {
					moved++
					if now == nm.Name {
						toNew++
					}
				}
			}
		}
	}
	rep.Count("pairs_whose_primary_migrated", int64(moved))
	rep.Count("pairs_migrated_to_new_member", int64(toNew))
	fmt.Printf("PHASE migrate: settled after %d rounds, %d pairs migrated (%d to the new member)\n", rounds, moved, toNew)
	if moved == 0 {
		rep.Inconclusive("the join moved no pair")
		return false
	}
	e.resetCC()
	e.expectMembers.Store(int32(len(e.c.Live())))
	return true
}

// phaseReadAll reads every stored pair from every live member (embedded) and through a fresh cluster client.
func (e *c17Env) phaseReadAll(phase string) {
	for di := range c17WritePaths {
		dm := e.dmaps[di]
		ccd, ccErr := e.ccDMap(dm)
		if ccErr != nil {
			e.ctx.rep.Inconclusive("cluster client: " + ccErr.Error())
		}
		for i := range e.items {
			it := &e.items[i]
			if _, ok := e.stored[di][it.ID]; !ok {
				continue
			}
			if e.giveUp("read " + phase) {
				return
			}
			it.materialize()
			owner := e.c.OwnerOf(dm, it.key)
			for _, m := range e.c.Live() {
				label := "EN"
				if m == owner {
					label = "EO"
				}
				e.readVia(phase, label, e.embDMap(m, dm), di, it)
			}
			if ccErr == nil {
				e.readVia(phase, "CC", ccd, di, it)
			}
			if phase == "B" {
				// the migrated primary copy, white-box
				if r := e.wb(owner, partitions.PRIMARY, dm, it.key); r.present && r.panicked == nil {
					e.ctx.rep.Count("primary_whitebox_reads_after_migration", 1)
					e.checkCopy(phase, "primary-whitebox", di, it, r.ent.Key, r.ent.Value)
				}
			}
			it.release()
		}
		e.flush()
	}
}

// c17Scenario runs one configuration. It returns false if it was abandoned because the membership changed by itself.
func c17Scenario(ctx *runCtx, cfg c17Cfg, items []c17Item, out string) (completed bool) {
	rep := ctx.rep
	stall := &c17Stall{}
	go stall.run()
	t0 := time.Now()
	c, err := cluster.Start(cluster.Config{Replicas: 2, Partitions: c17Partitions, TableSize: cfg.TS, WriteQuorum: cfg.W, ReadQuorum: 1}, 2)
	if err != nil {
		rep.Inconclusive("cluster start: " + err.Error())
		return true
	}
	defer c.Shutdown()
	e := &c17Env{ctx: ctx, cfg: cfg, c: c, items: items, emb: map[string]olric.DMap{}, ccd: map[string]olric.DMap{}, conns: map[string]*respc.Conn{},
		reported: map[string]bool{}, out: out, stall: stall}
	for _, wp := range c17WritePaths {
		e.dmaps = append(e.dmaps, "c17."+strings.ToLower(wp))
		e.stored = append(e.stored, map[int][]byte{})
	}
	defer e.resetCC()
	nOK, nRej := 0, 0
	for _, it := range items {
		if it.Expect == "ok" {
			nOK++
		} else {
			nRej++
		}
	}
	e.expectMembers.Store(2)
	go e.watch()
	fmt.Printf("PHASE start cfg=%s items=%d (acceptable %d, to be rejected %d)\n", cfg.spec(), len(items), nOK, nRej)
	e.phasePut()
	fmt.Printf("PHASE put done %.1fs\n", time.Since(t0).Seconds())
	e.phaseRead("A")
	e.phaseBackup("A")
	e.phaseScanKeys("A")
	fmt.Printf("PHASE read done %.1fs\n", time.Since(t0).Seconds())
	e.phaseReject()
	fmt.Printf("PHASE reject done %.1fs\n", time.Since(t0).Seconds())
	e.phaseRead("A2")
	fmt.Printf("PHASE re-read done %.1fs\n", time.Since(t0).Seconds())
	if e.phaseMigrate() {
		e.reachedB = true
		e.phaseReadAll("B")
		e.phaseBackup("B")
		e.phaseScanKeys("B")
		fmt.Printf("PHASE read after migration done %.1fs\n", time.Since(t0).Seconds())
		if cfg.Stop {
			victim := c.Members[0]
			e.expectMembers.Store(0)
			fmt.Println("PHASE stop: stopping", victim.Name)
			c.StopAbrupt(victim)
			// memberlist needs a few seconds to notice
			if err := c.WaitStable(60 * time.Second); err != nil {
				rep.Inconclusive("not stable after stopping a member: " + err.Error())
			} else {
				c.PushRouting()
				_ = c.WaitStable(10 * time.Second)
				e.resetCC()
				rep.Count("member_stops", 1)
				e.expectMembers.Store(int32(len(e.c.Live())))
				e.phaseReadAll("C")
				fmt.Printf("PHASE read after stop done %.1fs\n", time.Since(t0).Seconds())
			}
		}
	}
	for _, cn := range e.conns {
		_ = cn.Close()
	}
	e.flush()
	return !e.abandoned || e.reachedB
}

func c17Child(ctx *runCtx, spec string) {
	if strings.HasPrefix(spec, "conc ") {
		c17ConcChild(ctx, spec)
		return
	}
	if strings.HasPrefix(spec, "pipe ") {
		c17PipeChild(ctx, spec)
		return
	}
	if strings.HasPrefix(spec, "async ") {
		c17AsyncChild(ctx, spec)
		return
	}
	cfg := c17ParseSpec(spec)
	tier := ctx.tier
	if strings.Contains(spec, "race=1") {
		// the race/checkptr binary is ~10x slower: the quick case list is enough
		tier = "quick"
	}
	items := c17Items(cfg.TS, ctx.seed, tier, cfg.Shard)
	for attempt := 1; attempt <= 3; attempt++ {
		if c17Scenario(ctx, cfg, items, childOutPath()) {
			return
		}
		// memberlist declared a healthy member dead (stalled machine): the observations made so far stay in
		// the report, the scenario is run again on a fresh cluster
		ctx.rep.Count("scenario_restarts_after_spurious_membership_change", 1)
		fmt.Printf("RESTART attempt %d abandoned\n", attempt)
		for i := range items {
			items[i].val = nil
		}
		time.Sleep(2 * time.Second)
	}
}

func c17Run(ctx *runCtx) int {
	ctx.rep.Rule = "a case = one (key, typed value) pair written through one write path (EO, EN, CC; one DMap per write path) on a 2-member cluster with ReplicaCount=2 for one (table size, WriteQuorum); " +
		"it is read back through EO, EN and CC with the typed accessor and with Scan(&v) into the same Go type, from the backup copy (DM.GETENTRY RC decoded with the entry codec, and white-box), " +
		"again after all rejection attempts, and after a third member joined and the balancer moved the data (from every member and a fresh cluster client; thorough: once more after stopping a member). " +
		"The keys of every DMap are listed with the public iterator: a listed key that was never written is a mangled key. " +
		"Pairs that must be rejected (key > 255 bytes, key+value+29 >= table size) are tried on every write path: documented error, entry census unchanged, no copy on any member (primary or backup), every stored neighbour unchanged (white-box; quick: the full set after every rejection; thorough: the fragments addressed by the rejected write after every rejection and the full set after every 8th and at the end). " +
		"evaluations = pairs written or rejected; distinct_nontrivial = distinct (table size, W, write path, type, value/key class) combinations"
	ctx.rep.Assumptions = []string{
		"the maximum key length is 255 bytes: table.Put rejects len(key) >= 256 (the key length is stored in one byte); 255-byte keys must round-trip, 256-byte keys must be rejected cleanly",
		"time values are limited to years 0..9999 (what RFC 3339 can express); zone offsets with seconds are included because they are silently accepted",
		"floats are compared with == (NaN equals NaN); +0 and -0 compare equal",
		"a key that is not found after a member was stopped (thorough, phase C) is counted, not judged: availability is not part of C17",
		"whether an acknowledged write reached the backup is not judged (a present backup copy must be equal); observations of missing copies made after memberlist changed the membership by itself (stalled machine) are dropped and the scenario is abandoned as inconclusive",
		"transport errors (timeouts between members while a multi-megabyte value is in flight) are inconclusive, never a verdict",
	}
	var batches []batch
	type tc struct {
		ts uint64
		w  int
	}
	if ctx.tier == "quick" {
		for _, c := range []tc{{4096, 1}, {4096, 2}, {1 << 20, 1}, {1 << 20, 2}} {
			batches = append(batches, batch{Spec: c17Cfg{TS: c.ts, W: c.w}.spec(), Timeout: 6 * time.Minute})
		}
	} else {
		for _, c := range []tc{{4096, 1}, {4096, 2}, {1 << 16, 1}, {1 << 16, 2}, {1 << 20, 1}, {1 << 20, 2}} {
			stop := (c.ts == 4096 && c.w == 2) || (c.ts == 1<<20 && c.w == 1)
			batches = append(batches, batch{Spec: c17Cfg{TS: c.ts, W: c.w, Stop: stop}.spec(), Timeout: 25 * time.Minute})
			if c.ts != 1<<16 {
				// a second list of random pairs
				batches = append(batches, batch{Spec: c17Cfg{TS: c.ts, W: c.w, Shard: 1}.spec(), Timeout: 25 * time.Minute})
			}
		}
		// the race/checkptr binary over the unsafe string<->bytes conversions and the table code
		batches = append(batches, batch{Spec: c17Cfg{TS: 4096, W: 1, Shard: 7}.spec() + ",race=1", Timeout: 25 * time.Minute, Race: true})
		batches = append(batches, batch{Spec: c17Cfg{TS: 1 << 16, W: 2, Shard: 7}.spec() + ",race=1", Timeout: 25 * time.Minute, Race: true})
	}
	// concurrent writers sharing one client; asynchronous replication (c17_more.go)
	cr, ak := 4, 1500
	if ctx.tier == "thorough" {
		cr, ak = 30, 8000
	}
	batches = append(batches,
		batch{Spec: fmt.Sprintf("conc N=2 R=2 workers=16 rounds=%d seed=%d", cr, ctx.seed*100+1), Timeout: 10 * time.Minute},
		batch{Spec: fmt.Sprintf("conc N=3 R=1 workers=32 rounds=%d seed=%d", cr, ctx.seed*100+2), Timeout: 10 * time.Minute},
		batch{Spec: fmt.Sprintf("async N=2 keys=%d seed=%d", ak, ctx.seed*100+3), Timeout: 10 * time.Minute},
		batch{Spec: fmt.Sprintf("async N=3 keys=%d seed=%d", ak, ctx.seed*100+4), Timeout: 10 * time.Minute},
		batch{Spec: fmt.Sprintf("pipe N=2 R=2 rounds=%d seed=%d", cr*5, ctx.seed*100+5), Timeout: 10 * time.Minute})
	parallel := 4
	runBatches(ctx, batches, parallel, func(b batch, res batchResult, tail string) {
		if res.Merged && res.ExitCode == 4 {
			return // the watchdog recorded the hang in the partial
		}
		last := c17LastCase(res.LogPath)
		clause := "-"
		var item interface{}
		if last != nil {
			clause = fmt.Sprintf("phase=%v|%s", last["phase"], c17ClauseOfLogged(last))
			item = last
		}
		key := "c17|child-died|" + clause
		switch {
		case strings.Contains(tail, "MEMGUARD"):
			key = "c17|unbounded-allocation|" + clause
		case res.TimedOut:
			key = "c17|batch-timeout|" + clause
		case strings.Contains(tail, "checkptr"):
			key = "c17|checkptr|" + clause
		}
		ctx.rep.Violate(key, fmt.Sprintf("child %s died (exit %d, timeout=%v); last case: %v; log tail: %s", b.Spec, res.ExitCode, res.TimedOut, clause, lastLines(tail, 14)),
			map[string]interface{}{"batch": b.Spec, "log": res.LogPath, "last_case": item, "seed": ctx.seed, "tier": ctx.tier})
	})
	ctx.rep.Extra("race_detector_batches", countRace(batches))
	ctx.rep.Extra("configurations", len(batches))
	min := 1500
	if ctx.tier == "thorough" {
		min = 25000
	}
	return ctx.rep.Finish(min)
}

// c17LastCase returns the last case a child logged before it died.
func c17LastCase(logPath string) map[string]interface{} {
	tail := tailFile(logPath, 1<<20)
	idx := strings.LastIndex(tail, "\nCASE ")
	if idx < 0 {
		if !strings.HasPrefix(tail, "CASE ") {
			return nil
		}
		idx = -1
	}
	line := tail[idx+1+len("CASE "):]
	if nl := strings.IndexByte(line, '\n'); nl >= 0 {
		line = line[:nl]
	}
	var m map[string]interface{}
	if json.Unmarshal([]byte(line), &m) != nil {
		return nil
	}
	return m
}

func c17ClauseOfLogged(m map[string]interface{}) string {
	b, _ := json.Marshal(m["item"])
	var it c17Item
	if json.Unmarshal(b, &it) != nil {
		return "-"
	}
	return c17Clause(&it)
}

// c17Replay re-runs the configuration of a stored violation with the failing pair (and a few neighbours).
func c17Replay(ctx *runCtx, path string) int {
	var doc struct {
		Key    string `json:"key"`
		Replay struct {
			Cfg  c17Cfg   `json:"cfg"`
			Item *c17Item `json:"item"`
			Last struct {
				Item *c17Item `json:"item"`
			} `json:"last_case"`
			Batch string `json:"batch"`
			Seed  int64  `json:"seed"`
			Tier  string `json:"tier"`
		} `json:"replay"`
	}
	if err := readJSON(path, &doc); err != nil {
		fmt.Fprintln(os.Stderr, err)
		return 2
	}
	cfg := doc.Replay.Cfg
	it := doc.Replay.Item
	if it == nil {
		it = doc.Replay.Last.Item
		cfg = c17ParseSpec(doc.Replay.Batch)
	}
	if it == nil || cfg.TS == 0 {
		fmt.Fprintln(os.Stderr, "replay file has no case")
		return 2
	}
	// neighbours: the first scalar and payload pairs of the generated list, then the failing pair
	all := c17Items(cfg.TS, doc.Replay.Seed, "quick", 0)
	var items []c17Item
	for _, n := range all {
		if n.Expect == "ok" && (n.ID%9 == 0) && len(items) < 40 {
			items = append(items, n)
		}
	}
	cp := *it
	cp.ID = 1 << 20
	items = append(items, cp)
	ctx.rep = ev.New("C17", "exploration", "quick")
	cfg.Stop = false
	c17Scenario(ctx, cfg, items, "")
	if n := ctx.rep.NumViolations(); n > 0 {
		fmt.Printf("replay: VIOLATION property=C17 replay=%s reproduced (%d violations, see VIOLATION-FOUND lines above)\n", path, n)
		return 1
	}
	fmt.Println("replay: the case holds:", cp.String())
	return 0
}
