package main

// C19, "destroy-join" batches: Destroy issued while a hand-over is pending.
//
// A member joins; the routing table already names it as the owner of some partitions, but the balancer of the
// previous owner is held back (the harness drives it), so the entries still live on the previous owner. Destroy
// is issued in that window through the old member, the new member or a cluster client; afterwards the balancers
// run to completion. Destroy "removes every entry of the named DMap from every member": no member may hold an
// entry of the DMap after the acknowledged Destroy or after the hand-over, every key reads not-found through every
// member, the sibling DMap (same keys) keeps every value, and the DMap accepts new writes.

import (
	"context"
	"fmt"

	"github.com/olric-data/olric/internal/cluster/partitions"
	"github.com/olric-data/olric/verif/cluster"
)

func c19JoinChild(ctx *runCtx, spec string) {
	var n, r, rounds int
	var p uint64
	var seed int64
	fmt.Sscanf(spec, "destroy-join N=%d R=%d P=%d rounds=%d seed=%d", &n, &r, &p, &rounds, &seed)
	bg := context.Background()
	for round := 0; round < rounds; round++ {
		via := []string{"old-member", "new-member", "cluster-client"}[round%3]
		func() {
			c, err := cluster.Start(cluster.Config{Replicas: r, Partitions: p, TableSize: 1 << 12}, n)
			if err != nil {
				ctx.rep.Inconclusive(spec + ": cluster start: " + err.Error())
				return
			}
			defer c.Shutdown()
			name := fmt.Sprintf("c19j-%d-%d", seed, round)
			sibling := name + "x"
			old := c.Live()[0]
			wd, err1 := old.Emb.NewDMap(name)
			sd, err2 := old.Emb.NewDMap(sibling)
			if err1 != nil || err2 != nil {
				ctx.rep.Inconclusive(fmt.Sprintf("%s: NewDMap: %v %v", spec, err1, err2))
				return
			}
			nkeys := 60
			var keys []string
			for i := 0; i < nkeys; i++ {
				k := fmt.Sprintf("k%d-%d", round, i)
				keys = append(keys, k)
				if err := wd.Put(bg, k, "v-"+k); err != nil {
					ctx.rep.Inconclusive(spec + ": Put: " + err.Error())
					return
				}
				if err := sd.Put(bg, k, "sibling-"+k); err != nil {
					ctx.rep.Inconclusive(spec + ": Put: " + err.Error())
					return
				}
			}
			nm, err := c.AddMember()
			if err != nil {
				ctx.rep.Inconclusive(spec + ": join: " + err.Error())
				return
			}
			// keys whose partition now belongs to the new member while the entry is still on a previous owner
			pending := 0
			for _, k := range keys {
				if c.OwnerOf(name, k) == nm {
					if _, ok := nm.V.DMap.VerifEntry(partitions.PRIMARY, name, k); !ok {
						pending++
					}
				}
			}
			ctx.rep.Count("keys_pending_hand_over_at_destroy", int64(pending))
			if pending == 0 {
				ctx.rep.Inconclusive(fmt.Sprintf("%s round %d: no key was pending a hand-over when Destroy was issued", spec, round))
				return
			}
			var derr error
			switch via {
			case "old-member":
				derr = wd.Destroy(bg)
			case "new-member":
				d, err := nm.Emb.NewDMap(name)
				if err == nil {
					derr = d.Destroy(bg)
				} else {
					derr = err
				}
			case "cluster-client":
				cc, err := c.NewClusterClient()
				if err != nil {
					ctx.rep.Inconclusive(spec + ": cluster client: " + err.Error())
					return
				}
				defer cc.Close(bg)
				d, err := cc.NewDMap(name)
				if err == nil {
					derr = d.Destroy(bg)
				} else {
					derr = err
				}
			}
			ctx.rep.Eval(1)
			ctx.rep.Distinct(fmt.Sprintf("destroy-join|via=%s|N=%d|R=%d|P=%d", via, n, r, p))
			ctx.rep.Count("destroys_during_pending_hand_over_via_"+via, 1)
			failed := false
			fail := func(clause, detail string) {
				if failed {
					return
				}
				failed = true
				ctx.rep.Violate("c19|destroy|"+clause+"|hand-over-pending|via="+via, fmt.Sprintf("%s round %d: DMap %q (%d keys, %d of them pending a hand-over to the joined member %s) destroyed via %s: %s", spec, round, name, nkeys, pending, nm.Name, via, detail),
					map[string]interface{}{"batch": spec, "round": round, "via": via})
			}
			if derr != nil {
				fail("failed", "Destroy returned "+derr.Error())
				return
			}
			census := func(when string) {
				for _, m := range c.Live() {
					for _, kind := range []partitions.Kind{partitions.PRIMARY, partitions.BACKUP} {
						for _, k := range keys {
							if e, ok := m.V.DMap.VerifEntry(kind, name, k); ok {
								fail("entry-left|copy="+kind.String(), fmt.Sprintf("%s %s still holds the %s copy of %s = %q", when, m.Name, kind, k, e.Value))
								return
							}
						}
					}
				}
				for _, m := range c.Live() {
					d, err := m.Emb.NewDMap(name)
					if err != nil {
						continue
					}
					for _, k := range keys {
						g, err := d.Get(bg, k)
						ctx.rep.Count("reads_after_destroy", 1)
						if err == nil {
							s, _ := g.String()
							fail("key-readable", fmt.Sprintf("%s Get(%s) through %s returns %q", when, k, m.Name, s))
							return
						}
					}
				}
			}
			census("right after the acknowledged Destroy")
			for pass := 0; pass < 3; pass++ {
				for _, m := range c.Live() {
					m.V.Balancer.BalanceEagerly()
				}
			}
			census("after the hand-over completed")
			// the sibling keeps every value, wherever it lives now
			for _, m := range c.Live() {
				d, err := m.Emb.NewDMap(sibling)
				if err != nil {
					continue
				}
				for _, k := range keys {
					g, err := d.Get(bg, k)
					s := ""
					if err == nil {
						s, _ = g.String()
					}
					if s != "sibling-"+k {
						fail("sibling-changed", fmt.Sprintf("after the hand-over the sibling DMap's %s reads (%q,%v) through %s", k, s, err, m.Name))
					}
				}
			}
			// the DMap stays usable
			if err := wd.Put(bg, keys[0], "again"); err != nil {
				fail("unusable", "Put after Destroy: "+err.Error())
			} else if g, err := wd.Get(bg, keys[0]); err != nil {
				fail("unusable", "Get after Put after Destroy: "+err.Error())
			} else if s, _ := g.String(); s != "again" {
				fail("unusable", fmt.Sprintf("Get after Put after Destroy returned %q", s))
			}
		}()
	}
}
