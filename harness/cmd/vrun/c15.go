package main

// C15 — an operation means the same thing through every client path.
//
// Exhaustive grid: operation x options x prior state x path x replica count.
// Each (case, path) runs on its own fresh key; the outcome tuple (result class,
// returned value, stored presence / value / expiry class) is compared with a
// small explicit model of the documented semantics and across paths.

import (
	"context"
	"fmt"
	"sort"
	"strings"
	"sync"
	"time"

	"github.com/olric-data/olric/internal/cluster/partitions"
	"github.com/olric-data/olric/verif/cluster"
	"github.com/olric-data/olric/verif/paths"
)

func init() {
	register("C15", &checkFn{level: "exploration", run: c15Run, child: c15Child})
}

type c15Case struct {
	Op    string        `json:"op"`               // Put, Expire, GetPut, Incr, Decr, IncrByFloat, LockUnlock, LockLease, Delete
	Opts  string        `json:"opts"`             // e.g. NX+PX
	Prior string        `json:"prior"`            // absent, present, present+ttl, int, int+ttl, nonint, float
	N     int           `json:"n,omitempty"`      // Delete: number of keys
	Own   int           `json:"owners,omitempty"` // Delete: number of distinct owners
	Miss  bool          `json:"some_missing,omitempty"`
	Dup   bool          `json:"repeated_key,omitempty"` // Delete: the first key is named once more at the end
	D     time.Duration `json:"d,omitempty"`
}

func (c c15Case) ID() string {
	s := c.Op
	if c.Opts != "" && c.Opts != "-" {
		s += " " + c.Opts
	}
	if c.Op == "Delete" {
		s += fmt.Sprintf("x%d/owners=%d", c.N, c.Own)
		if c.Miss {
			s += "/some-missing"
		}
		if c.Dup {
			s += "/first-key-named-twice"
		}
	}
	if c.D != 0 && c.Op == "Expire" {
		s += " " + c.D.String()
	}
	return s + "|prior=" + c.Prior
}

func c15Cases() []c15Case {
	var cs []c15Case
	for _, cond := range []string{"", "NX", "XX"} {
		for _, exp := range []string{"", "EX", "PX", "EXAT", "PXAT"} {
			o := strings.Trim(cond+"+"+exp, "+")
			if o == "" {
				o = "-"
			}
			for _, prior := range []string{"absent", "present", "present+ttl"} {
				cs = append(cs, c15Case{Op: "Put", Opts: o, Prior: prior})
			}
		}
	}
	for _, d := range []time.Duration{40 * time.Second, 45500 * time.Millisecond} {
		for _, prior := range []string{"absent", "present", "present+ttl"} {
			cs = append(cs, c15Case{Op: "Expire", Prior: prior, D: d})
		}
	}
	for _, prior := range []string{"absent", "present", "present+ttl"} {
		cs = append(cs, c15Case{Op: "GetPut", Prior: prior})
	}
	for _, op := range []string{"Incr", "Decr"} {
		for _, prior := range []string{"absent", "int", "int+ttl", "nonint", "negint"} {
			cs = append(cs, c15Case{Op: op, Prior: prior})
		}
	}
	for _, prior := range []string{"absent", "float", "float+ttl"} {
		cs = append(cs, c15Case{Op: "IncrByFloat", Prior: prior})
	}
	for _, timeout := range []string{"-", "PX"} {
		cs = append(cs, c15Case{Op: "LockUnlock", Opts: timeout, Prior: "absent"})
		cs = append(cs, c15Case{Op: "LockLease", Opts: timeout, Prior: "absent"})
		cs = append(cs, c15Case{Op: "LockBusy", Opts: timeout, Prior: "locked"})
	}
	for _, n := range []int{1, 2, 8} {
		for _, own := range []int{1, 2, 3} {
			if own > n {
				continue
			}
			for _, miss := range []bool{false, true} {
				cs = append(cs, c15Case{Op: "Delete", N: n, Own: own, Miss: miss, Prior: "present"})
			}
			if n >= 2 {
				// the caller concatenated two key lists: a key named twice is counted like any named key
				cs = append(cs, c15Case{Op: "Delete", N: n, Own: own, Dup: true, Prior: "present"})
			}
		}
	}
	return cs
}

// outcome of one (case, path) execution
type c15Out struct {
	Result string `json:"result"` // error class
	Ret    string `json:"ret"`    // returned value / count, normalised
	Stored string `json:"stored"` // absent | value class
	TTL    string `json:"ttl"`    // none | ok(<what>) | off(<delta ms>)
	Extra  string `json:"extra,omitempty"`
}

func (o c15Out) String() string {
	return fmt.Sprintf("result=%s ret=%s stored=%s ttl=%s %s", o.Result, o.Ret, o.Stored, o.TTL, o.Extra)
}

type c15Env struct {
	c    *cluster.Cluster
	r    *paths.Router
	dmap string
	mu   sync.Mutex
	next int
}

const c15LongTTL = 120 * time.Second

func (e *c15Env) freshKey(tag string) string {
	e.mu.Lock()
	defer e.mu.Unlock()
	e.next++
	return fmt.Sprintf("%s-%d", tag, e.next)
}

// keyOwnedBy returns a fresh key owned by the given member.
func (e *c15Env) keyOwnedBy(m *cluster.Member, tag string) string {
	for {
		k := e.freshKey(tag)
		if e.c.OwnerOf(e.dmap, k) == m {
			return k
		}
	}
}

// whiteBox reads the primary copy of a key on its owner.
func (e *c15Env) whiteBox(key string) (present bool, value string, ttl int64) {
	o := e.c.OwnerOf(e.dmap, key)
	ent, ok := o.V.DMap.VerifEntry(partitions.PRIMARY, e.dmap, key)
	if !ok {
		return false, "", 0
	}
	return true, string(ent.Value), ent.TTL
}

func ttlClass(ttl int64, lo, hi time.Time, d time.Duration, tol time.Duration) string {
	if ttl == 0 {
		return "none"
	}
	min := lo.Add(d).Add(-tol).UnixMilli()
	max := hi.Add(d).Add(tol).UnixMilli()
	if ttl >= min && ttl <= max {
		return "ok"
	}
	return fmt.Sprintf("off(%+dms)", ttl-lo.Add(d).UnixMilli())
}

func (e *c15Env) setPrior(ctx context.Context, sess *paths.Session, key, prior string) (value string, priorTTL int64, err error) {
	eo := sess.Via("EO")
	switch prior {
	case "absent":
		return "", 0, nil
	case "present":
		return "old", 0, eo.Put(ctx, key, []byte("old"), paths.PutOpts{})
	case "present+ttl":
		err = eo.Put(ctx, key, []byte("old"), paths.PutOpts{PX: c15LongTTL})
		value = "old"
	case "int":
		return "41", 0, eo.Put(ctx, key, []byte("41"), paths.PutOpts{})
	case "negint":
		return "-5", 0, eo.Put(ctx, key, []byte("-5"), paths.PutOpts{})
	case "int+ttl":
		err = eo.Put(ctx, key, []byte("41"), paths.PutOpts{PX: c15LongTTL})
		value = "41"
	case "nonint":
		return "abc", 0, eo.Put(ctx, key, []byte("abc"), paths.PutOpts{})
	case "float":
		return "1.5", 0, eo.Put(ctx, key, []byte("1.5"), paths.PutOpts{})
	case "float+ttl":
		err = eo.Put(ctx, key, []byte("1.5"), paths.PutOpts{PX: c15LongTTL})
		value = "1.5"
	default:
		panic("prior " + prior)
	}
	if err != nil {
		return
	}
	_, _, priorTTL = e.whiteBox(key)
	return
}

// exec runs one case through one path and returns the outcome and the model's expectation ("" fields = not judged by the model).
func (e *c15Env) exec(c c15Case, kind string) (got c15Out, want c15Out, keys []string, err error) {
	ctx, cancel := context.WithTimeout(context.Background(), 20*time.Second)
	defer cancel()
	sess := e.r.NewSession()
	defer sess.Close()
	cl := sess.Via(kind)
	tag := strings.ToLower(c.Op) + "-" + strings.ToLower(kind)
	const d = 50*time.Second + 500*time.Millisecond // relative expiry used by options (not a whole number of seconds)
	tol := 3 * time.Millisecond

	switch c.Op {
	case "Put":
		key := e.freshKey(tag)
		keys = []string{key}
		pv, pttl, perr := e.setPrior(ctx, sess, key, c.Prior)
		if perr != nil {
			return got, want, keys, fmt.Errorf("prior: %w", perr)
		}
		var o paths.PutOpts
		o.NX = strings.Contains(c.Opts, "NX")
		o.XX = strings.Contains(c.Opts, "XX")
		now := time.Now()
		abs := now.Add(d)
		hasExp := true
		switch {
		case strings.Contains(c.Opts, "EXAT"):
			o.EXAT = time.Duration(abs.Unix()) * time.Second
			abs = time.Unix(abs.Unix(), 0)
		case strings.Contains(c.Opts, "PXAT"):
			o.PXAT = time.Duration(abs.UnixMilli()) * time.Millisecond
			abs = time.UnixMilli(abs.UnixMilli())
		case strings.Contains(c.Opts, "EX"):
			o.EX = d
		case strings.Contains(c.Opts, "PX"):
			o.PX = d
		default:
			hasExp = false
		}
		t0 := time.Now()
		err := cl.Put(ctx, key, []byte("new"), o)
		t1 := time.Now()
		got.Result = paths.Class(err)
		present, val, ttl := e.whiteBox(key)
		got.Stored = "absent"
		if present {
			got.Stored = val
		}
		// model
		applies := true
		want.Result = "ok"
		if o.NX && c.Prior != "absent" {
			want.Result, applies = "key found", false
		}
		if o.XX && c.Prior == "absent" {
			want.Result, applies = "key not found", false
		}
		if applies {
			want.Stored = "new"
			if hasExp {
				want.TTL = "ok"
				if o.EXAT != 0 || o.PXAT != 0 {
					got.TTL = ttlClass(ttl, abs, abs, 0, tol)
				} else {
					got.TTL = ttlClass(ttl, t0, t1, d, tol)
				}
			} else {
				want.TTL = "none"
				got.TTL = ttlClass(ttl, t0, t1, 0, tol)
			}
		} else {
			want.Stored = "absent"
			if c.Prior != "absent" {
				want.Stored = pv
			}
			// expiry must be untouched
			want.TTL = "unchanged"
			got.TTL = "unchanged"
			if ttl != pttl {
				got.TTL = fmt.Sprintf("changed(%d->%d)", pttl, ttl)
			}
		}
	case "Expire":
		key := e.freshKey(tag)
		keys = []string{key}
		pv, _, perr := e.setPrior(ctx, sess, key, c.Prior)
		if perr != nil {
			return got, want, keys, fmt.Errorf("prior: %w", perr)
		}
		t0 := time.Now()
		err := cl.Expire(ctx, key, c.D)
		t1 := time.Now()
		got.Result = paths.Class(err)
		present, val, ttl := e.whiteBox(key)
		got.Stored = "absent"
		if present {
			got.Stored = val
		}
		if c.Prior == "absent" {
			want = c15Out{Result: "key not found", Stored: "absent", TTL: "none"}
			got.TTL = ttlClass(ttl, t0, t1, 0, tol)
		} else {
			want = c15Out{Result: "ok", Stored: pv, TTL: "ok"}
			got.TTL = ttlClass(ttl, t0, t1, c.D, tol)
		}
	case "GetPut":
		key := e.freshKey(tag)
		keys = []string{key}
		pv, _, perr := e.setPrior(ctx, sess, key, c.Prior)
		if perr != nil {
			return got, want, keys, fmt.Errorf("prior: %w", perr)
		}
		t0 := time.Now()
		old, had, err := cl.GetPut(ctx, key, []byte("new"))
		t1 := time.Now()
		got.Result = paths.Class(err)
		got.Ret = "none"
		if had {
			got.Ret = string(old)
		}
		present, val, ttl := e.whiteBox(key)
		got.Stored = "absent"
		if present {
			got.Stored = val
		}
		got.TTL = ttlClass(ttl, t0, t1, 0, tol)
		want = c15Out{Result: "ok", Ret: "none", Stored: "new", TTL: "none"}
		if c.Prior != "absent" {
			want.Ret = pv
		}
	case "Incr", "Decr":
		key := e.freshKey(tag)
		keys = []string{key}
		_, pttl, perr := e.setPrior(ctx, sess, key, c.Prior)
		if perr != nil {
			return got, want, keys, fmt.Errorf("prior: %w", perr)
		}
		var n int
		var err error
		if c.Op == "Incr" {
			n, err = cl.Incr(ctx, key, 3)
		} else {
			n, err = cl.Decr(ctx, key, 3)
		}
		got.Result = paths.Class(err)
		got.Ret = fmt.Sprint(n)
		present, val, ttl := e.whiteBox(key)
		got.Stored = "absent"
		if present {
			got.Stored = val
		}
		base := map[string]int{"absent": 0, "int": 41, "int+ttl": 41, "negint": -5}
		if b, ok := base[c.Prior]; ok {
			exp := b + 3
			if c.Op == "Decr" {
				exp = b - 3
			}
			want = c15Out{Result: "ok", Ret: fmt.Sprint(exp), Stored: fmt.Sprint(exp)}
			if c.Prior == "int+ttl" {
				want.TTL = "kept"
				got.TTL = "kept"
				if diff := ttl - pttl; diff < -5 || diff > 5 {
					got.TTL = fmt.Sprintf("changed(%+dms)", diff)
				}
			} else {
				want.TTL = "none"
				got.TTL = "none"
				if ttl != 0 {
					got.TTL = fmt.Sprintf("set(%d)", ttl)
				}
			}
		} else {
			// non-integer base: the documentation is silent; differential only
			got.TTL = fmt.Sprint(ttl != 0)
		}
	case "IncrByFloat":
		key := e.freshKey(tag)
		keys = []string{key}
		_, pttl, perr := e.setPrior(ctx, sess, key, c.Prior)
		if perr != nil {
			return got, want, keys, fmt.Errorf("prior: %w", perr)
		}
		f, err := cl.IncrByFloat(ctx, key, 2.25)
		got.Result = paths.Class(err)
		got.Ret = fmt.Sprint(f)
		present, val, ttl := e.whiteBox(key)
		got.Stored = "absent"
		if present {
			got.Stored = val
		}
		exp := "2.25"
		if c.Prior != "absent" {
			exp = "3.75"
		}
		want = c15Out{Result: "ok", Ret: exp, Stored: exp}
		if c.Prior == "float+ttl" {
			// The statement lists Incr/Decr as keeping the expiry; for IncrByFloat it is silent: differential only.
			got.TTL = fmt.Sprint(ttl != 0 && abs64(ttl-pttl) <= 5)
		} else {
			want.TTL = "none"
			got.TTL = "none"
			if ttl != 0 {
				got.TTL = fmt.Sprintf("set(%d)", ttl)
			}
		}
	case "LockUnlock", "LockLease", "LockBusy":
		if kind == "PL" {
			return got, want, nil, errSkip
		}
		key := e.freshKey(tag)
		keys = []string{key}
		timeout := time.Duration(0)
		if c.Opts == "PX" {
			timeout = 60*time.Second + 250*time.Millisecond
		}
		if c.Op == "LockBusy" {
			// someone else holds it (taken through the owner); a second Lock with a 300 ms deadline must fail
			holder, err := sess.Via("EO").Lock(ctx, key, timeout, time.Second)
			if err != nil {
				return got, want, keys, fmt.Errorf("prior lock: %w", err)
			}
			t0 := time.Now()
			_, err = cl.Lock(ctx, key, timeout, 300*time.Millisecond)
			waited := time.Since(t0)
			got.Result = paths.Class(err)
			got.Extra = "waited>=deadline:" + fmt.Sprint(waited >= 299*time.Millisecond)
			want = c15Out{Result: "lock not acquired", Extra: "waited>=deadline:true"}
			present, _, _ := e.whiteBox(key)
			got.Stored = fmt.Sprint(present)
			want.Stored = "true"
			_ = holder.Unlock(ctx)
			break
		}
		t0 := time.Now()
		lk, err := cl.Lock(ctx, key, timeout, time.Second)
		t1 := time.Now()
		got.Result = paths.Class(err)
		want.Result = "ok"
		if err != nil {
			break
		}
		present, _, ttl := e.whiteBox(key)
		got.Stored = fmt.Sprint(present)
		want.Stored = "true"
		if timeout == 0 {
			want.TTL = "none"
		} else {
			want.TTL = "ok"
		}
		got.TTL = ttlClass(ttl, t0, t1, timeout, tol)
		if c.Op == "LockUnlock" {
			err = lk.Unlock(ctx)
			got.Extra = "unlock=" + paths.Class(err)
			want.Extra = "unlock=ok"
			present, _, _ := e.whiteBox(key)
			got.Extra += " after=" + fmt.Sprint(present)
			want.Extra += " after=false"
			// a second unlock with the same (now stale) token must fail
			err = lk.Unlock(ctx)
			got.Extra += " stale=" + paths.Class(err)
			want.Extra += " stale=no such lock"
		} else {
			t0 = time.Now()
			err = lk.Lease(ctx, 90*time.Second)
			t1 = time.Now()
			got.Extra = "lease=" + paths.Class(err)
			want.Extra = "lease=ok"
			present, _, ttl := e.whiteBox(key)
			got.Extra += " present=" + fmt.Sprint(present) + " ttl=" + ttlClass(ttl, t0, t1, 90*time.Second, tol)
			want.Extra += " present=true ttl=ok"
			err = lk.Unlock(ctx)
			got.Extra += " unlock=" + paths.Class(err)
			want.Extra += " unlock=ok"
		}
	case "Delete":
		live := e.c.Live()
		// owners[0] is "the" owner for path selection (first key)
		var ks []string
		for i := 0; i < c.N; i++ {
			m := live[i%c.Own]
			ks = append(ks, e.keyOwnedBy(m, tag))
		}
		keys = ks
		eo := sess.Via("EO")
		for i, k := range ks {
			if c.Miss && i%2 == 1 {
				continue
			}
			if err := eo.Put(ctx, k, []byte("old"), paths.PutOpts{}); err != nil {
				return got, want, keys, fmt.Errorf("prior: %w", err)
			}
		}
		if c.Dup {
			ks = append(ks, ks[0])
		}
		n, err := cl.Delete(ctx, ks...)
		got.Result = paths.Class(err)
		got.Ret = fmt.Sprint(n)
		left := 0
		for _, k := range ks {
			if p, _, _ := e.whiteBox(k); p {
				left++
			}
		}
		got.Stored = fmt.Sprintf("left=%d", left)
		// The count reported for keys owned by the serving member is the number of
		// keys named (present or not); the statement requires the same count on every path.
		want = c15Out{Result: "ok", Ret: fmt.Sprint(len(ks)), Stored: "left=0"}
	default:
		panic("op " + c.Op)
	}
	return got, want, keys, nil
}

func abs64(x int64) int64 {
	if x < 0 {
		return -x
	}
	return x
}

var errSkip = fmt.Errorf("skip")

func c15Field(got, want c15Out) (string, string, string) {
	switch {
	case want.Result != "" && got.Result != want.Result:
		return "result", got.Result, want.Result
	case want.Ret != "" && got.Ret != want.Ret:
		return "ret", got.Ret, want.Ret
	case want.Stored != "" && got.Stored != want.Stored:
		return "stored", got.Stored, want.Stored
	case want.TTL != "" && got.TTL != want.TTL:
		g := got.TTL
		if strings.HasPrefix(g, "off(") {
			g = "off"
		}
		if strings.HasPrefix(g, "changed(") {
			g = "changed"
		}
		if strings.HasPrefix(g, "set(") {
			g = "set"
		}
		return "ttl", g, want.TTL
	case want.Extra != "" && got.Extra != want.Extra:
		return "extra", got.Extra, want.Extra
	}
	return "", "", ""
}

func c15Child(ctx *runCtx, spec string) {
	var replicas int
	var parts, ts uint64 = 7, 1 << 20
	fmt.Sscanf(spec, "R=%d P=%d ts=%d", &replicas, &parts, &ts)
	c, err := cluster.Start(cluster.Config{Replicas: replicas, Partitions: parts, TableSize: ts}, 3)
	if err != nil {
		ctx.rep.Inconclusive("cluster start: " + err.Error())
		return
	}
	defer c.Shutdown()
	env := &c15Env{c: c, dmap: fmt.Sprintf("c15-r%d", replicas)}
	env.r = paths.NewRouter(c, env.dmap)
	defer env.r.Close()

	cases := c15Cases()
	type job struct {
		c    c15Case
		kind string
	}
	jobs := make(chan job, 64)
	var wg sync.WaitGroup
	var omu sync.Mutex
	outs := map[string]map[string]c15Out{} // case id -> path -> outcome
	sampled := 0
	for w := 0; w < 8; w++ {
		wg.Add(1)
		go func() {
			defer wg.Done()
			for j := range jobs {
				got, want, keys, err := env.exec(j.c, j.kind)
				if err == errSkip {
					continue
				}
				ctx.rep.Eval(1)
				ctx.rep.Count("executions_path_"+j.kind, 1)
				ctx.rep.Count("executions_op_"+j.c.Op, 1)
				if err != nil {
					ctx.rep.Inconclusive(fmt.Sprintf("%s via %s: %v", j.c.ID(), j.kind, err))
					continue
				}
				ctx.rep.Distinct(fmt.Sprintf("R=%d|P=%d|ts=%d|%s|%s", replicas, parts, ts, j.c.ID(), j.kind))
				omu.Lock()
				if outs[j.c.ID()] == nil {
					outs[j.c.ID()] = map[string]c15Out{}
				}
				outs[j.c.ID()][j.kind] = got
				if sampled < 4 && (j.kind == "EN" || j.kind == "RN") {
					sampled++
					ctx.rep.Sample(map[string]interface{}{"case": j.c, "path": j.kind, "replicas": replicas, "keys": keys, "outcome": got.String()})
				}
				omu.Unlock()
				if f, g, w := c15Field(got, want); f != "" {
					key := fmt.Sprintf("c15|%s|%s|%s=%s", j.c.ID(), j.kind, f, g)
					ctx.rep.Violate(key, fmt.Sprintf("R=%d %s via %s: %s is %q, model says %q (full outcome: %s)", replicas, j.c.ID(), j.kind, f, g, w, got.String()),
						map[string]interface{}{"case": j.c, "path": j.kind, "replicas": replicas, "keys": keys, "got": got, "want": want})
				}
			}
		}()
	}
	for _, cs := range cases {
		for _, k := range paths.Kinds {
			jobs <- job{cs, k}
		}
	}
	close(jobs)
	wg.Wait()

	// one pipeline with many different commands over all partitions
	mixRounds := 6
	if ctx.tier == "thorough" {
		mixRounds = 30
	}
	c15PipelineMix(ctx, env, replicas, ctx.seed*100+int64(replicas), mixRounds, 66)

	// differential comparison for what the model does not judge
	for id, byPath := range outs {
		var kinds []string
		for k := range byPath {
			kinds = append(kinds, k)
		}
		sort.Strings(kinds)
		ref := byPath["EO"]
		for _, k := range kinds {
			o := byPath[k]
			if o.Result != ref.Result || o.Ret != ref.Ret || o.Stored != ref.Stored || normTTL(o.TTL) != normTTL(ref.TTL) {
				key := fmt.Sprintf("c15|%s|%s|differs-from-EO", id, k)
				ctx.rep.Violate(key, fmt.Sprintf("R=%d %s: path %s gives {%s} but EO gives {%s}", replicas, id, k, o.String(), ref.String()),
					map[string]interface{}{"case": id, "replicas": replicas, "by_path": byPath})
			}
		}
	}
}

func normTTL(s string) string {
	for _, p := range []string{"off(", "changed(", "set("} {
		if strings.HasPrefix(s, p) {
			return strings.TrimSuffix(p, "(")
		}
	}
	return s
}

func c15Run(ctx *runCtx) int {
	ctx.rep.Rule = "exhaustive grid: {Put x {-,NX,XX} x {-,EX,PX,EXAT,PXAT}, Expire (s and ms form), GetPut, Incr, Decr, IncrByFloat, Lock/Unlock/Lease with and without timeout, Lock on a busy key, multi-key Delete of 1/2/8 keys over 1/2/3 owners with and without missing keys} x prior states x paths {EO,EN,CC,RO,RN,PL} x ReplicaCount; " +
		"plus pipelines of 66 different commands (11 kinds x prior absent/present, unique keys, values and deltas, shuffled) whose every future and stored entry is compared with the model; " +
		"each execution uses a fresh key; outcome = (error class, returned value/count, stored value and expiry class read white-box on the owner); distinct_nontrivial = distinct (replicas, case, path) triples executed with a verdict"
	ctx.rep.Assumptions = []string{
		"expiry classes use a 3 ms tolerance around [call+d, return+d]; EXAT/PXAT are compared exactly",
		"Incr/Decr on a non-integer base and IncrByFloat's expiry handling are compared across paths only (the statement is silent)",
	}
	ctx.rep.Exhaustive = true
	var batches []batch
	rs := []int{1}
	if ctx.tier == "thorough" {
		rs = []int{1, 2}
	} else {
		rs = []int{1, 2}
	}
	for _, r := range rs {
		batches = append(batches, batch{Spec: fmt.Sprintf("R=%d", r), Timeout: 5 * time.Minute})
	}
	if ctx.tier == "thorough" {
		// the same grid on other cluster shapes: ReplicaCount 3, many partitions, small tables
		for _, r := range []int{1, 2, 3} {
			for _, p := range []uint64{7, 31, 271} {
				for _, ts := range []uint64{1 << 20, 8 << 10} {
					if r <= 2 && p == 7 && ts == 1<<20 {
						continue
					}
					batches = append(batches, batch{Spec: fmt.Sprintf("R=%d P=%d ts=%d", r, p, ts), Timeout: 5 * time.Minute})
				}
			}
		}
	}
	runBatches(ctx, batches, 4, func(b batch, res batchResult, tail string) {
		ctx.rep.Violate("c15|member-crashed|"+b.Spec, fmt.Sprintf("child %s died (exit %d timeout=%v): %s", b.Spec, res.ExitCode, res.TimedOut, lastLines(tail, 15)), map[string]interface{}{"batch": b.Spec, "log": res.LogPath})
	})
	return ctx.rep.Finish(200)
}
