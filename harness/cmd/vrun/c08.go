package main

// C08 — distributed lock: mutual exclusion, token safety and timeout behaviour.
//
// Interval oracle over recorded lock histories (call/return on one monotonic
// clock) plus an online critical-section counter. Time-based clauses use
// margins and a scheduler-stall detector: a stalled case is inconclusive.

import (
	"context"
	"encoding/hex"
	"fmt"
	"math/rand"
	"path/filepath"
	"strings"
	"sync"
	"sync/atomic"
	"time"

	"github.com/olric-data/olric/internal/cluster/partitions"
	"github.com/olric-data/olric/verif/cluster"
	"github.com/olric-data/olric/verif/paths"
)

func init() {
	register("C08", &checkFn{level: "exploration", run: c08Run, child: c08Child})
}

// stallMeter measures scheduling delays: a goroutine sleeps 5 ms in a loop and
// records the largest overshoot since the last reset.
type stallMeter struct {
	max  int64
	stop chan struct{}
}

func newStallMeter() *stallMeter {
	s := &stallMeter{stop: make(chan struct{})}
	go func() {
		last := time.Now()
		for {
			select {
			case <-s.stop:
				return
			default:
			}
			time.Sleep(5 * time.Millisecond)
			now := time.Now()
			over := int64(now.Sub(last) - 5*time.Millisecond)
			last = now
			for {
				cur := atomic.LoadInt64(&s.max)
				if over <= cur || atomic.CompareAndSwapInt64(&s.max, cur, over) {
					break
				}
			}
		}
	}()
	return s
}

func (s *stallMeter) window() func() time.Duration {
	// returns a function giving the largest stall observed since now; approximate
	// (shared max), which only makes the monitor more conservative
	atomic.StoreInt64(&s.max, 0)
	return func() time.Duration { return time.Duration(atomic.LoadInt64(&s.max)) }
}

type c08Env struct {
	ctx    *runCtx
	c      *cluster.Cluster
	r      *paths.Router
	dmap   string
	t0     time.Time
	stall  *stallMeter
	seq    int64
	kinds  []string
	margin time.Duration
}

func (e *c08Env) now() time.Duration { return time.Since(e.t0) }
func (e *c08Env) key(tag string) string {
	return fmt.Sprintf("%s-%d", tag, atomic.AddInt64(&e.seq, 1))
}

func (e *c08Env) violate(clause, detail string, replay map[string]interface{}) {
	e.ctx.rep.Violate("c08|"+clause, detail, replay)
}

// ---- scenario A: contention, certain tenures must not overlap
func (e *c08Env) scenarioContention(rng *rand.Rand, timed bool) {
	key := e.key("contend")
	n := 4 + rng.Intn(6)
	var inside int32
	var wg sync.WaitGroup
	type tenure struct {
		Who      int
		Path     string
		From, To time.Duration
	}
	var mu sync.Mutex
	var tenures []tenure
	var overlapSeen int32
	timeout := time.Duration(0)
	if timed {
		timeout = 5 * time.Second // far longer than any hold below
	}
	for i := 0; i < n; i++ {
		wg.Add(1)
		kind := e.kinds[(i+rng.Intn(2))%len(e.kinds)]
		hold := time.Duration(2+rng.Intn(12)) * time.Millisecond
		go func(i int, kind string, hold time.Duration) {
			defer wg.Done()
			sess := e.r.NewSession()
			defer sess.Close()
			cl := sess.Via(kind)
			for round := 0; round < 4; round++ {
				cx, cancel := context.WithTimeout(context.Background(), 20*time.Second)
				lk, err := cl.Lock(cx, key, timeout, 2500*time.Millisecond)
				from := e.now()
				if err != nil {
					cancel()
					if paths.Class(err) != "lock not acquired" {
						e.ctx.rep.Inconclusive(fmt.Sprintf("contention %s: Lock via %s: %v", key, kind, err))
					}
					e.ctx.rep.Count("contention_lock_not_acquired", 1)
					continue
				}
				if atomic.AddInt32(&inside, 1) != 1 {
					atomic.StoreInt32(&overlapSeen, 1)
				}
				time.Sleep(hold)
				atomic.AddInt32(&inside, -1)
				to := e.now()
				err = lk.Unlock(cx)
				cancel()
				mu.Lock()
				tenures = append(tenures, tenure{Who: i, Path: kind, From: from, To: to})
				mu.Unlock()
				e.ctx.rep.Count("tenures_via_"+kind, 1)
				if err != nil {
					e.violate("unlock-failed|own-token|path="+kind, fmt.Sprintf("key %s: Unlock with the holder's own token via %s failed: %v", key, kind, err), map[string]interface{}{"key": key})
				}
			}
		}(i, kind, hold)
	}
	wg.Wait()
	e.ctx.rep.Eval(1)
	if len(tenures) >= 2 && !timed {
		n := len(tenures)
		if n > 5 {
			n = 5
		}
		e.ctx.rep.Sample(map[string]interface{}{"scenario": "contention", "key": key, "competitors": len(tenures), "first_tenures": fmt.Sprint(tenures[:n])})
	}
	if len(tenures) >= 2 {
		e.ctx.rep.Distinct(fmt.Sprintf("contention|timed=%v|n=%d|tenures=%d", timed, n, len(tenures)))
	}
	for a := range tenures {
		for b := a + 1; b < len(tenures); b++ {
			x, y := tenures[a], tenures[b]
			if x.From < y.To && y.From < x.To {
				e.violate(fmt.Sprintf("overlap|timed=%v", timed),
					fmt.Sprintf("key %s: client %d (%s) held the lock during [%v,%v] and client %d (%s) during [%v,%v]", key, x.Who, x.Path, x.From, x.To, y.Who, y.Path, y.From, y.To),
					map[string]interface{}{"key": key, "tenures": tenures})
				return
			}
		}
	}
	if atomic.LoadInt32(&overlapSeen) == 1 {
		e.violate(fmt.Sprintf("overlap-counter|timed=%v", timed), "two clients were inside the critical section at once (online counter)", map[string]interface{}{"key": key, "tenures": tenures})
	}
}

// ---- scenario B/E: deadline behaviour against a held (untimed) lock
func (e *c08Env) scenarioDeadline(rng *rand.Rand) {
	key := e.key("deadline")
	sess := e.r.NewSession()
	defer sess.Close()
	hk := e.kinds[rng.Intn(len(e.kinds))]
	ck := e.kinds[rng.Intn(len(e.kinds))]
	bg := context.Background()
	holder, err := sess.Via(hk).Lock(bg, key, 0, time.Second)
	if err != nil {
		e.ctx.rep.Inconclusive("deadline: holder could not lock: " + err.Error())
		return
	}
	e.ctx.rep.Eval(1)
	for _, d := range []time.Duration{0, 50 * time.Millisecond, 300 * time.Millisecond} {
		stalled := e.stall.window()
		t0 := e.now()
		lk, err := sess.Via(ck).Lock(bg, key, 0, d)
		t1 := e.now()
		e.ctx.rep.Count("deadline_attempts", 1)
		if err == nil {
			e.violate("acquired-while-held|untimed", fmt.Sprintf("key %s is held (untimed, via %s) but Lock via %s with deadline %v succeeded", key, hk, ck, d), map[string]interface{}{"key": key, "holder_path": hk, "competitor_path": ck})
			_ = lk.Unlock(bg)
			return
		}
		if paths.Class(err) != "lock not acquired" {
			e.ctx.rep.Inconclusive(fmt.Sprintf("deadline: Lock via %s: %v", ck, err))
			continue
		}
		if t1-t0 < d-time.Millisecond {
			if stalled() > 20*time.Millisecond {
				e.ctx.rep.Inconclusive("deadline: machine stalled")
				continue
			}
			e.violate("early-not-acquired|path="+ck, fmt.Sprintf("key %s: Lock via %s with deadline %v returned lock-not-acquired after only %v", key, ck, d, t1-t0), map[string]interface{}{"key": key, "deadline": d.String(), "waited": (t1 - t0).String()})
		}
		e.ctx.rep.Distinct(fmt.Sprintf("deadline|holder=%s|competitor=%s|d=%v", hk, ck, d))
	}
	// a waiter with a long deadline must get the lock once the holder unlocks, and not before
	var got paths.Lock
	var gotErr error
	var acqRet time.Duration
	done := make(chan struct{})
	go func() {
		defer close(done)
		s2 := e.r.NewSession()
		defer s2.Close()
		got, gotErr = s2.Via(ck).Lock(bg, key, 0, 2500*time.Millisecond)
		acqRet = e.now()
		if gotErr == nil {
			_ = got.Unlock(bg)
		}
	}()
	time.Sleep(150 * time.Millisecond)
	unlockCall := e.now()
	if err := holder.Unlock(bg); err != nil {
		e.violate("unlock-failed|own-token|path="+hk, fmt.Sprintf("key %s: Unlock via %s failed: %v", key, hk, err), map[string]interface{}{"key": key})
	}
	<-done
	if gotErr != nil {
		if paths.Class(gotErr) == "lock not acquired" {
			e.violate("not-acquired-after-unlock|path="+ck, fmt.Sprintf("key %s: waiter via %s (deadline 2.5 s) did not get the lock although the holder unlocked after 150 ms", key, ck), map[string]interface{}{"key": key})
		} else {
			e.ctx.rep.Inconclusive("deadline waiter: " + gotErr.Error())
		}
		return
	}
	if acqRet < unlockCall {
		e.violate("acquired-while-held|waiter", fmt.Sprintf("key %s: waiter acquired at %v before the holder called Unlock at %v", key, acqRet, unlockCall), map[string]interface{}{"key": key})
	}
}

// ---- scenario C: stale and forged tokens
func (e *c08Env) scenarioTokens(rng *rand.Rand) {
	key := e.key("token")
	bg := context.Background()
	sess := e.r.NewSession()
	defer sess.Close()
	rawKinds := []string{"RO", "RN"}
	rk := rawKinds[rng.Intn(2)]
	raw := sess.Via(rk)
	first, err := raw.Lock(bg, key, 0, time.Second)
	if err != nil {
		e.ctx.rep.Inconclusive("tokens: " + err.Error())
		return
	}
	stale := first.Token()
	if err := first.Unlock(bg); err != nil {
		e.violate("unlock-failed|own-token|path="+rk, "Unlock with the own token failed: "+err.Error(), map[string]interface{}{"key": key})
		return
	}
	timeout := []time.Duration{0, 30 * time.Second}[rng.Intn(2)]
	second, err := sess.Via(e.kinds[rng.Intn(len(e.kinds))]).Lock(bg, key, timeout, time.Second)
	if err != nil {
		e.ctx.rep.Inconclusive("tokens: second lock: " + err.Error())
		return
	}
	e.ctx.rep.Eval(1)
	owner := e.c.OwnerOf(e.dmap, key)
	before, ok := owner.V.DMap.VerifEntry(partitions.PRIMARY, e.dmap, key)
	if !ok {
		e.violate("lock-not-stored", "the lock key is not stored on the owner after Lock returned", map[string]interface{}{"key": key})
		return
	}
	forged := make([]byte, 16)
	rng.Read(forged)
	tokens := map[string]string{
		"stale":        stale,
		"forged":       hex.EncodeToString(forged),
		"wrong-length": hex.EncodeToString(forged[:7]),
		"empty":        "",
		"non-hex":      "zz-not-hex-zz",
		"prefix":       hex.EncodeToString(before.Value)[:16],
	}
	for name, tok := range tokens {
		for _, op := range []string{"Unlock", "Lease"} {
			p := rawKinds[rng.Intn(2)]
			var err error
			if op == "Unlock" {
				err = sess.Via(p).UnlockToken(bg, key, tok)
			} else {
				err = sess.Via(p).LeaseToken(bg, key, tok, 700*time.Millisecond)
			}
			e.ctx.rep.Count("bad_token_attempts", 1)
			e.ctx.rep.Distinct(fmt.Sprintf("token|%s|%s", name, op))
			after, ok := owner.V.DMap.VerifEntry(partitions.PRIMARY, e.dmap, key)
			if err == nil {
				e.violate(fmt.Sprintf("bad-token-accepted|op=%s|token=%s", op, name), fmt.Sprintf("key %s: %s with a %s token via %s succeeded", key, op, name, p), map[string]interface{}{"key": key, "token_kind": name})
				return
			}
			if !ok || string(after.Value) != string(before.Value) || after.TTL != before.TTL {
				e.violate(fmt.Sprintf("bad-token-changed-lock|op=%s|token=%s", op, name), fmt.Sprintf("key %s: %s with a %s token was refused (%v) but the lock changed: present=%v ttl %d->%d", key, op, name, err, ok, before.TTL, after.TTL), map[string]interface{}{"key": key, "token_kind": name})
				return
			}
			cls := paths.Class(err)
			if cls != "no such lock" && name != "non-hex" && name != "wrong-length" && name != "empty" {
				// well-formed but wrong tokens must be answered with no-such-lock
				e.violate(fmt.Sprintf("bad-token-wrong-error|op=%s|token=%s", op, name), fmt.Sprintf("key %s: %s with a %s token returned %q instead of no-such-lock", key, op, name, cls), map[string]interface{}{"key": key})
				return
			}
		}
	}
	if err := second.Unlock(bg); err != nil {
		e.violate("unlock-failed|own-token|after-bad-tokens", "the real holder could not unlock after the bad-token attempts: "+err.Error(), map[string]interface{}{"key": key})
	}
}

// ---- scenario D: timed lock is released automatically, no earlier than its timeout and shortly after it
func (e *c08Env) scenarioTimed(rng *rand.Rand, lease string) {
	key := e.key("timed")
	bg := context.Background()
	sess := e.r.NewSession()
	defer sess.Close()
	hk := e.kinds[rng.Intn(len(e.kinds))]
	ck := e.kinds[rng.Intn(len(e.kinds))]
	T := []time.Duration{400 * time.Millisecond, 800 * time.Millisecond}[rng.Intn(2)]
	stalled := e.stall.window()
	hCall := e.now()
	holder, err := sess.Via(hk).Lock(bg, key, T, time.Second)
	hRet := e.now()
	if err != nil {
		e.ctx.rep.Inconclusive("timed: holder: " + err.Error())
		return
	}
	e.ctx.rep.Eval(1)
	// the expiry may be changed by a Lease
	expFrom, expTo := hCall+T, hRet+T // the expiry instant lies in [expFrom, expTo]
	switch lease {
	case "longer", "shorter":
		time.Sleep(100 * time.Millisecond)
		nt := T + 500*time.Millisecond
		if lease == "shorter" {
			nt = 250 * time.Millisecond
		}
		lc := e.now()
		err := holder.Lease(bg, nt)
		lr := e.now()
		if err != nil {
			if stalled() > 50*time.Millisecond || lr-hCall > T-50*time.Millisecond {
				e.ctx.rep.Inconclusive(fmt.Sprintf("timed: Lease came too close to the expiry (%v after Lock, timeout %v, stall %v)", lr-hCall, T, stalled()))
				return
			}
			ent, present := e.c.OwnerOf(e.dmap, key).V.DMap.VerifEntry(partitions.PRIMARY, e.dmap, key)
			e.violate("lease-failed|own-token|path="+hk, fmt.Sprintf("key %s: Lease(%v) by the holder via %s failed %v after Lock (timeout %v): %v; stored: present=%v ttl=%d now=%d", key, nt, hk, lr-hCall, T, err, present, ent.TTL, time.Now().UnixMilli()), map[string]interface{}{"key": key})
			return
		}
		expFrom, expTo = lc+nt, lr+nt
	}
	// competitor keeps trying with a deadline well beyond the expiry
	wait := expTo - e.now() + e.margin + 500*time.Millisecond
	cCall := e.now()
	lk, err := sess.Via(ck).Lock(bg, key, 0, wait)
	cRet := e.now()
	label := fmt.Sprintf("holder=%s|competitor=%s|lease=%s", hk, ck, lease)
	e.ctx.rep.Distinct("timed|" + label)
	e.ctx.rep.Count("timed_cases_holder_via_"+hk, 1)
	if stalled() > e.margin/3 {
		e.ctx.rep.Inconclusive("timed: machine stalled for " + stalled().String())
		if err == nil {
			_ = lk.Unlock(bg)
		}
		return
	}
	if err != nil {
		if paths.Class(err) == "lock not acquired" {
			e.violate("timed-lock-never-expires|taken-via="+hk+"|lease="+lease,
				fmt.Sprintf("key %s: lock taken via %s with timeout %v (lease=%s) should have expired by %v, but a competitor via %s waiting from %v to %v never got it", key, hk, T, lease, expTo, ck, cCall, cRet),
				map[string]interface{}{"key": key, "timeout": T.String(), "lease": lease, "holder_path": hk, "competitor_path": ck})
		} else {
			e.ctx.rep.Inconclusive("timed: competitor: " + err.Error())
		}
		return
	}
	_ = lk.Unlock(bg)
	if cRet < expFrom-2*time.Millisecond {
		e.violate("timed-lock-released-early|taken-via="+hk+"|lease="+lease,
			fmt.Sprintf("key %s: lock with timeout %v (expiry no earlier than %v) was acquired by a competitor that returned at %v", key, T, expFrom, cRet),
			map[string]interface{}{"key": key, "timeout": T.String(), "lease": lease})
		return
	}
	if cRet > expTo+e.margin {
		e.violate("timed-lock-expires-late|taken-via="+hk+"|lease="+lease,
			fmt.Sprintf("key %s: lock expired at the latest at %v but the competitor (retrying every 10 ms) only got it at %v", key, expTo, cRet),
			map[string]interface{}{"key": key, "timeout": T.String(), "lease": lease})
	}
}

func c08Child(ctx *runCtx, spec string) {
	if strings.HasPrefix(spec, "janitor ") {
		c08JanitorChild(ctx, spec)
		return
	}
	if strings.HasPrefix(spec, "leaserace ") {
		c08LeaseRaceChild(ctx, spec)
		return
	}
	if strings.HasPrefix(spec, "evict ") {
		c08EvictChild(ctx, spec)
		return
	}
	var n, r, rounds int
	var seed int64
	fmt.Sscanf(spec, "N=%d R=%d rounds=%d seed=%d", &n, &r, &rounds, &seed)
	c, err := cluster.Start(cluster.Config{Replicas: r, Partitions: 13, TableSize: 1 << 20, EvictionWorkers: 2, ReadRepair: r > 1 && seed%2 == 1}, n)
	if err != nil {
		ctx.rep.Inconclusive("cluster start: " + err.Error())
		return
	}
	defer c.Shutdown()
	env := &c08Env{ctx: ctx, c: c, dmap: fmt.Sprintf("c08-%d", seed), t0: time.Now(), stall: newStallMeter(), margin: time.Second}
	env.r = paths.NewRouter(c, env.dmap)
	defer env.r.Close()
	defer close(env.stall.stop)
	env.kinds = []string{"EO", "EN", "CC", "RO", "RN"}
	if n == 1 {
		env.kinds = []string{"EO", "CC", "RO"}
	}
	fp := c.Fingerprint()
	// the time-judged scenarios run a few at a time so that the machine is not what is being measured
	var wg sync.WaitGroup
	sem := make(chan struct{}, 6)
	run := func(f func(rng *rand.Rand), s int64) {
		wg.Add(1)
		sem <- struct{}{}
		go func() {
			defer wg.Done()
			defer func() { <-sem }()
			f(rand.New(rand.NewSource(s)))
		}()
	}
	for i := 0; i < rounds; i++ {
		s := seed*1000 + int64(i)*10
		run(func(rng *rand.Rand) { env.scenarioContention(rng, false) }, s+1)
		run(func(rng *rand.Rand) { env.scenarioContention(rng, true) }, s+2)
		run(env.scenarioDeadline, s+3)
		run(env.scenarioTokens, s+4)
		run(func(rng *rand.Rand) { env.scenarioTimed(rng, "none") }, s+5)
		run(func(rng *rand.Rand) { env.scenarioTimed(rng, "longer") }, s+6)
		run(func(rng *rand.Rand) { env.scenarioTimed(rng, "shorter") }, s+7)
		run(env.scenarioWaiterTimeout, s+8)
		run(env.scenarioWaiterTimeout, s+9)
	}
	wg.Wait()
	if c.Fingerprint() != fp {
		// membership was not stable: nothing this child saw can be trusted as a verdict
		p := ctx.rep.Partial()
		if len(p.Violations) > 0 {
			ctx.rep.Inconclusive(fmt.Sprintf("%s: membership/routing changed during the run; %d violation(s) dropped", spec, len(p.Violations)))
		}
		dropViolations(ctx)
	}
}

func c08Run(ctx *runCtx) int {
	ctx.rep.Rule = "evaluations = scenario instances on fresh keys: contention (4-9 competitors x 4 rounds over EO/EN/CC/RO/RN, untimed and long-timed locks; certain tenures [acquire.return, unlock.call] must not overlap + online counter), deadline (lock-not-acquired no earlier than the deadline for 0/50/300 ms; a 2.5 s waiter gets the lock after the unlock and not before), tokens (stale/forged/wrong-length/empty/non-hex/prefix tokens for Unlock and Lease must fail and leave value and expiry unchanged), timed (timeout 400/800 ms with no / longer / shorter Lease: a competitor gets the lock no earlier than the expiry and within 1 s after it); distinct_nontrivial = distinct (scenario, holder path, competitor path, parameter) combinations"
	ctx.rep.Assumptions = []string{
		"time-based clauses: margin 1 s for 'acquirable shortly after', 2 ms slack for 'no earlier than'; a case during which a scheduling stall above margin/3 was measured is inconclusive",
		"stable membership (cluster fingerprint unchanged), otherwise the child's verdicts are dropped as inconclusive",
	}
	rounds := 4
	if ctx.tier == "thorough" {
		rounds = 40
	}
	var batches []batch
	for i, nr := range [][2]int{{3, 1}, {3, 2}, {2, 2}, {1, 1}} {
		batches = append(batches, batch{Spec: fmt.Sprintf("N=%d R=%d rounds=%d seed=%d", nr[0], nr[1], rounds, ctx.seed*100+int64(i)), Timeout: 20 * time.Minute})
	}
	batches = append(batches, batch{Spec: fmt.Sprintf("N=3 R=2 rounds=%d seed=%d", (rounds+3)/4, ctx.seed*100+50), Timeout: 20 * time.Minute, Race: true})
	er := 40
	if ctx.tier == "thorough" {
		er = 300
	}
	batches = append(batches,
		batch{Spec: fmt.Sprintf("evict N=2 R=2 workers=96 rounds=%d seed=%d", er, ctx.seed*100+60), Timeout: 20 * time.Minute},
		batch{Spec: fmt.Sprintf("evict N=3 R=1 workers=64 rounds=%d seed=%d", er, ctx.seed*100+61), Timeout: 20 * time.Minute},
		batch{Spec: fmt.Sprintf("janitor N=2 R=2 workers=8 rounds=%d seed=%d", er*15, ctx.seed*100+62), Timeout: 20 * time.Minute},
		batch{Spec: fmt.Sprintf("janitor N=1 R=1 workers=8 rounds=%d seed=%d", er*15, ctx.seed*100+63), Timeout: 20 * time.Minute},
		batch{Spec: fmt.Sprintf("leaserace N=2 R=2 workers=16 rounds=%d seed=%d", er/4, ctx.seed*100+64), Timeout: 20 * time.Minute},
		batch{Spec: fmt.Sprintf("leaserace N=1 R=1 workers=16 rounds=%d seed=%d", er/4, ctx.seed*100+65), Timeout: 20 * time.Minute})
	runBatches(ctx, batches, 4, func(b batch, res batchResult, tail string) {
		ctx.rep.Violate("c08|member-crashed-or-hung", fmt.Sprintf("child %s died (exit %d timeout=%v): %s", b.Spec, res.ExitCode, res.TimedOut, lastLines(tail, 12)), map[string]interface{}{"batch": b.Spec})
	})
	reports, total := parseRaceLogs(filepath.Join(ctx.outDir, "b"))
	ctx.rep.Extra("race_reports_total", total)
	var diag []string
	for _, r := range reports {
		diag = append(diag, r.Key())
	}
	ctx.rep.Extra("race_reports_diagnostics", diag)
	return ctx.rep.Finish(20)
}

var _ = strings.Contains
