package main

// C10, idle part: with MaxIdleDuration a key read or written within the window is
// never evicted for idleness, and a key left untouched for longer than the window
// eventually disappears (restated: within window + 5 s with eager eviction workers).

import (
	"context"
	"fmt"
	"math/rand"
	"sort"
	"sync"
	"time"

	"github.com/olric-data/olric/config"
	"github.com/olric-data/olric/internal/cluster/partitions"
	"github.com/olric-data/olric/verif/cluster"
	"github.com/olric-data/olric/verif/paths"
)

const c10IdleBound = 5 * time.Second

// c10IdleDMap is one DMap under test in an idle scenario.
type c10IdleDMap struct {
	Name   string        `json:"name"`
	Source string        `json:"source"` // global | custom | custom-over-global | custom-beside-global | global-beside-custom
	Window time.Duration `json:"window"`
}

type c10IdleCase struct {
	Idx          int           `json:"idx"`
	N            int           `json:"members"`
	R            int           `json:"replicas"`
	P            int           `json:"partitions"`
	GlobalWindow time.Duration `json:"global_window"` // 0 = no global MaxIdleDuration
	DMaps        []c10IdleDMap `json:"dmaps"`
	NT           int           `json:"touched_keys"`
	NU           int           `json:"untouched_keys"`
	Touch        string        `json:"touch"`  // get | put | mix
	Layout       string        `json:"layout"` // flat | cold-in-older-table
	TableSize    uint64        `json:"table_size"`
	ValLen       int           `json:"val_len"`
	Seed         int64         `json:"seed"`
}

func (c c10IdleCase) label() string {
	var s []string
	for _, d := range c.DMaps {
		s = append(s, fmt.Sprintf("%s:%s", d.Source, d.Window))
	}
	return fmt.Sprintf("N=%d,R=%d,P=%d,global=%s,%v,touch=%s,layout=%s", c.N, c.R, c.P, c.GlobalWindow, s, c.Touch, c.Layout)
}

func c10IdleCases(tier string, seed int64) []c10IdleCase {
	var res []c10IdleCase
	add := func(c c10IdleCase) {
		c.Idx = len(res)
		c.Seed = seed*104729 + int64(c.Idx)
		if c.P == 0 {
			c.P = 3
		}
		if c.R == 0 {
			c.R = 1
		}
		if c.TableSize == 0 {
			c.TableSize = 1 << 20
		}
		if c.ValLen == 0 {
			c.ValLen = 24
		}
		if c.Layout == "" {
			c.Layout = "flat"
		}
		for i := range c.DMaps {
			c.DMaps[i].Name = fmt.Sprintf("c10i-%d-%d", c.Idx, i)
		}
		res = append(res, c)
	}
	ms := time.Millisecond
	touches := []string{"mix", "get", "put"}
	ti := int(seed % 3)
	nextTouch := func() string { ti++; return touches[ti%3] }
	ns := []int{1, 2}
	reps := 1
	if tier == "thorough" {
		reps = 3
	}
	for rep := 0; rep < reps; rep++ {
		nt, nu := 12, 12
		if rep == 1 {
			nt, nu = 30, 60
		}
		if rep == 2 {
			nt, nu = 6, 90
		}
		w := time.Duration(900+100*((int(seed)+rep)%3)) * ms
		for _, n := range ns {
			r := 1
			if n == 2 && rep == 2 {
				r = 2
			}
			add(c10IdleCase{N: n, R: r, GlobalWindow: w, DMaps: []c10IdleDMap{{Source: "global", Window: w}}, NT: nt, NU: nu, Touch: nextTouch()})
			add(c10IdleCase{N: n, R: r, DMaps: []c10IdleDMap{{Source: "custom", Window: w}}, NT: nt, NU: nu, Touch: nextTouch()})
			add(c10IdleCase{N: n, R: r, GlobalWindow: 500 * ms, DMaps: []c10IdleDMap{{Source: "custom-over-global", Window: 2400 * ms}}, NT: nt, NU: nu, Touch: nextTouch()})
			add(c10IdleCase{N: n, R: r, GlobalWindow: w + 400*ms, DMaps: []c10IdleDMap{{Source: "global-beside-custom", Window: w + 400*ms}, {Source: "custom-beside-global", Window: w}}, NT: nt, NU: nu, Touch: nextTouch()})
		}
		// untouched keys that live in an older table of the fragment than >= 19 keys which are kept alive by reads
		add(c10IdleCase{N: 1, P: 1, GlobalWindow: w, DMaps: []c10IdleDMap{{Source: "global", Window: w}}, NT: 30, NU: 30, Touch: "get", Layout: "cold-in-older-table", TableSize: 4096, ValLen: 64})
		// keys that are kept alive by reads only and live in an older (read-only) table of the fragment
		add(c10IdleCase{N: 1, P: 1, GlobalWindow: w, DMaps: []c10IdleDMap{{Source: "global", Window: w}}, NT: 20, NU: 10, Touch: "get", Layout: "hot-in-older-table", TableSize: 4096, ValLen: 64})
		add(c10IdleCase{N: 2, R: 2, P: 3, DMaps: []c10IdleDMap{{Source: "custom", Window: w}}, NT: 30, NU: 10, Touch: "get", Layout: "hot-in-older-table", TableSize: 2048, ValLen: 64})
	}
	return res
}

type c10Heartbeat struct {
	mu   sync.Mutex
	gaps []struct {
		at  time.Time
		gap time.Duration
	}
	stop chan struct{}
}

func c10StartHeartbeat() *c10Heartbeat {
	h := &c10Heartbeat{stop: make(chan struct{})}
	go func() {
		last := time.Now()
		for {
			select {
			case <-h.stop:
				return
			default:
			}
			time.Sleep(10 * time.Millisecond)
			now := time.Now()
			if g := now.Sub(last); g > 100*time.Millisecond {
				h.mu.Lock()
				h.gaps = append(h.gaps, struct {
					at  time.Time
					gap time.Duration
				}{now, g})
				h.mu.Unlock()
			}
			last = now
		}
	}()
	return h
}

// lost returns the longest and the summed scheduling gap (> 100 ms) observed in [from, to].
func (h *c10Heartbeat) lost(from, to time.Time) (max, sum time.Duration) {
	h.mu.Lock()
	defer h.mu.Unlock()
	for _, g := range h.gaps {
		if g.at.After(from) && g.at.Add(-g.gap).Before(to) {
			sum += g.gap
			if g.gap > max {
				max = g.gap
			}
		}
	}
	return
}

type c10IdleResult struct {
	Viols        []c10Viol
	Inconclusive []string
	Touches      map[string]int64
	CensusRounds int64
	TouchRounds  int64
	UEvicted     int64
	UDelayMaxMs  int64 // max (first seen missing - (put end + window))
	UDelaySumMs  int64
	TSurvived    int64
	TTracked     int64
	WatchedFor   time.Duration
	Verdicts     []string // distinct keys
	Layout       string
}

type c10IdleKey struct {
	key       string
	val       []byte
	touched   bool
	lastStart time.Time // start of the last successful access
	lastEnd   time.Time
	lastKind  string
	gone      bool
	abandoned bool
	goneAt    time.Time
}

func c10StartIdleCluster(cs c10IdleCase) (*cluster.Cluster, error) {
	return cluster.Start(cluster.Config{
		Replicas:          cs.R,
		NoInternalRetries: true,
		Partitions:        uint64(cs.P),
		TableSize:         cs.TableSize,
		EvictionWorkers:   8,
		DMaps: func(d *config.DMaps) {
			d.MaxIdleDuration = cs.GlobalWindow
			d.Custom = map[string]config.DMap{}
			for _, dm := range cs.DMaps {
				if dm.Source == "custom" || dm.Source == "custom-over-global" || dm.Source == "custom-beside-global" {
					d.Custom[dm.Name] = config.DMap{MaxIdleDuration: dm.Window}
				}
			}
		},
	}, cs.N)
}

func c10IdleCensus(c *cluster.Cluster, p int, dmap string) map[string]bool {
	present := map[string]bool{}
	for _, m := range c.Live() {
		id := m.V.RT.This().ID
		for part := uint64(0); part < uint64(p); part++ {
			if m.V.Primary.PartitionByID(part).Owner().ID != id {
				continue
			}
			ents, ok := m.V.DMap.VerifEntries(partitions.PRIMARY, part, dmap)
			if !ok {
				continue
			}
			for _, e := range ents {
				present[e.Key] = true
			}
		}
	}
	return present
}

func c10RunIdleCase(cs c10IdleCase) *c10IdleResult {
	res := &c10IdleResult{Touches: map[string]int64{}, Layout: cs.Layout}
	c, err := c10StartIdleCluster(cs)
	if err != nil {
		res.Inconclusive = append(res.Inconclusive, "cluster start: "+err.Error())
		return res
	}
	defer c.Shutdown()
	hb := c10StartHeartbeat()
	defer close(hb.stop)
	snap := c10Snapshot(c)
	defer func() {
		if !c10Unchanged(c, snap, cs.N) {
			res.Inconclusive = append(res.Inconclusive, fmt.Sprintf("[%s] membership or routing changed during the scenario (%d candidate findings dropped)", cs.label(), len(res.Viols)))
			res.Viols = nil
			res.Verdicts = nil
		}
	}()
	var mu sync.Mutex
	var wg sync.WaitGroup
	for i, dm := range cs.DMaps {
		wg.Add(1)
		go func(i int, dm c10IdleDMap) {
			defer wg.Done()
			c10IdleTrack(c, cs, dm, hb, rand.New(rand.NewSource(cs.Seed*13+int64(i))), res, &mu)
		}(i, dm)
	}
	wg.Wait()
	return res
}

func c10IdleTrack(c *cluster.Cluster, cs c10IdleCase, dm c10IdleDMap, hb *c10Heartbeat, rng *rand.Rand, res *c10IdleResult, mu *sync.Mutex) {
	w := dm.Window
	margin := w / 4
	if margin > 200*time.Millisecond {
		margin = 200 * time.Millisecond
	}
	period := w / 3
	router := paths.NewRouter(c, dm.Name)
	defer router.Close()
	sess := router.NewSession()
	defer sess.Close()
	ctx, cancel := context.WithTimeout(context.Background(), 2*time.Minute)
	defer cancel()

	violate := func(key, detail string) {
		mu.Lock()
		defer mu.Unlock()
		for _, v := range res.Viols {
			if v.Key == key {
				return
			}
		}
		res.Viols = append(res.Viols, c10Viol{Key: key, Detail: fmt.Sprintf("[%s dmap=%s window=%s] %s", cs.label(), dm.Name, w, detail),
			Replay: map[string]interface{}{"kind": "idle", "idle": cs}})
	}
	inconclusive := func(s string) {
		mu.Lock()
		res.Inconclusive = append(res.Inconclusive, fmt.Sprintf("[%s dmap=%s] %s", cs.label(), dm.Name, s))
		mu.Unlock()
	}
	count := func(k string, n int64) {
		mu.Lock()
		res.Touches[k] += n
		mu.Unlock()
	}
	verdict := func(s string) {
		mu.Lock()
		res.Verdicts = append(res.Verdicts, s)
		mu.Unlock()
	}

	getPaths := []string{"EO", "EN", "RO", "RN", "CC"}
	putPaths := []string{"EO", "EN", "RO", "RN", "CC"}
	pick := func(list []string) string {
		k := list[rng.Intn(len(list))]
		if cs.N == 1 && (k == "EN" || k == "RN") {
			k = k[:1] + "O"
		}
		return k
	}
	mkval := func(key string, n int) []byte {
		s := fmt.Sprintf("%s#%d#", key, n)
		for len(s) < cs.ValLen {
			s += "."
		}
		return []byte(s)
	}

	// key sets: untouched first (so that, in the cold-in-older-table layout, they fill the older table)
	var us, ts []*c10IdleKey
	for i := 0; i < cs.NU; i++ {
		us = append(us, &c10IdleKey{key: fmt.Sprintf("u%04d", i)})
	}
	for i := 0; i < cs.NT; i++ {
		ts = append(ts, &c10IdleKey{key: fmt.Sprintf("t%04d", i), touched: true})
	}
	put := func(k *c10IdleKey, n int) bool {
		pk := pick(putPaths)
		v := mkval(k.key, n)
		t0 := time.Now()
		err := sess.Via(pk).Put(ctx, k.key, v, paths.PutOpts{})
		t1 := time.Now()
		count("put_"+pk, 1)
		if err != nil {
			inconclusive(fmt.Sprintf("put %s via %s: %v", k.key, pk, err))
			k.abandoned = true
			return false
		}
		k.val, k.lastStart, k.lastEnd, k.lastKind = v, t0, t1, "put"
		return true
	}
	start := time.Now()
	if cs.Layout == "cold-in-older-table" {
		// fill: untouched keys, then padding up to the end of the table, then the touched keys
		for _, k := range us {
			put(k, 0)
		}
		entry := 5 + cs.ValLen + 29
		perTable := int(cs.TableSize) / entry
		for i := cs.NU; i%perTable != 0 && i < cs.NU+perTable; i++ {
			// padding keys are untouched keys as well
			k := &c10IdleKey{key: fmt.Sprintf("u%04d", i)}
			us = append(us, k)
			put(k, 0)
		}
		for _, k := range ts {
			put(k, 0)
		}
	} else if cs.Layout == "hot-in-older-table" {
		// fill: the touched keys, then untouched keys up to well beyond the end of the table: the keys that are kept
		// alive (by reads only) live in a table that is no longer written to
		for _, k := range ts {
			put(k, 0)
		}
		entry := 5 + cs.ValLen + 29
		perTable := int(cs.TableSize) / entry
		for _, k := range us {
			put(k, 0)
		}
		for i := cs.NU; i < cs.NU+perTable+4; i++ {
			k := &c10IdleKey{key: fmt.Sprintf("u%04d", i)}
			us = append(us, k)
			put(k, 0)
		}
	} else {
		all := append(append([]*c10IdleKey{}, us...), ts...)
		rng.Shuffle(len(all), func(i, j int) { all[i], all[j] = all[j], all[i] })
		for _, k := range all {
			put(k, 0)
		}
	}
	var lastUPut time.Time
	for _, k := range us {
		if k.lastEnd.After(lastUPut) {
			lastUPut = k.lastEnd
		}
	}
	deadline := lastUPut.Add(w + c10IdleBound)
	minWatch := start.Add(w*3 + w/4)
	if cs.Layout != "" && cs.Layout != "flat" {
		// record the table layout as evidence that the scenario is what it claims to be
		for _, m := range c.Live() {
			_, tables, ok := m.V.DMap.VerifStats(partitions.PRIMARY, 0, dm.Name)
			if ok {
				var s []string
				for _, t := range tables {
					s = append(s, fmt.Sprintf("%d keys", t.HKeys))
				}
				verdict(fmt.Sprintf("layout tables(oldest first)=%v", s))
			}
		}
	}

	nextTouch := start.Add(period)
	touchN := 0
	var delays []time.Duration
	for {
		now := time.Now()
		// ---- census (white-box, does not refresh last access)
		present := c10IdleCensus(c, cs.P, dm.Name)
		tc := time.Now()
		mu.Lock()
		res.CensusRounds++
		mu.Unlock()
		for _, k := range us {
			if k.gone || k.abandoned || present[k.key] {
				continue
			}
			k.gone, k.goneAt = true, tc
			idle := tc.Sub(k.lastStart)
			if idle < w-margin {
				violate(fmt.Sprintf("c10|touched-key-evicted|config=%s|touch=initial-put", dm.Source),
					fmt.Sprintf("key %s was written %s ago (window %s) and is gone from its primary fragment", k.key, idle.Round(time.Millisecond), w))
			} else {
				delays = append(delays, tc.Sub(k.lastEnd.Add(w)))
			}
		}
		for _, k := range ts {
			if k.gone || k.abandoned || present[k.key] {
				continue
			}
			k.gone, k.goneAt = true, tc
			idle := tc.Sub(k.lastStart)
			if idle < w-margin {
				violate(fmt.Sprintf("c10|touched-key-evicted|config=%s|touch=%s", dm.Source, k.lastKind),
					fmt.Sprintf("key %s was last accessed (%s) %s ago (window %s) and is gone from its primary fragment", k.key, k.lastKind, idle.Round(time.Millisecond), w))
			} else {
				inconclusive(fmt.Sprintf("touched key %s gone, but its last access began %s ago (window %s): the harness was too slow", k.key, idle.Round(time.Millisecond), w))
			}
		}
		// ---- touch round
		if !now.Before(nextTouch) {
			touchN++
			mu.Lock()
			res.TouchRounds++
			mu.Unlock()
			for _, k := range ts {
				if k.gone || k.abandoned {
					continue
				}
				kind := cs.Touch
				if kind == "mix" {
					kind = []string{"get", "put"}[rng.Intn(2)]
				}
				if kind == "put" {
					put(k, touchN)
					continue
				}
				gk := pick(getPaths)
				t0 := time.Now()
				g, err := sess.Via(gk).Get(ctx, k.key)
				t1 := time.Now()
				count("get_"+gk, 1)
				switch {
				case err != nil && paths.Class(err) == "key not found":
					k.gone, k.goneAt = true, t1
					idle := t1.Sub(k.lastStart)
					if idle < w-margin {
						violate(fmt.Sprintf("c10|touched-key-evicted|config=%s|touch=%s", dm.Source, k.lastKind),
							fmt.Sprintf("Get(%s) via %s: key not found, although its last access (%s) began %s ago (window %s)", k.key, gk, k.lastKind, idle.Round(time.Millisecond), w))
					} else {
						inconclusive(fmt.Sprintf("Get(%s): not found, last access began %s ago (window %s): the harness was too slow", k.key, idle.Round(time.Millisecond), w))
					}
				case err != nil:
					inconclusive(fmt.Sprintf("get %s via %s: %v", k.key, gk, err))
					k.abandoned = true
				default:
					if string(g.Value) != string(k.val) {
						violate(fmt.Sprintf("c10|touched-key-wrong-value|config=%s", dm.Source), fmt.Sprintf("Get(%s) via %s returned %q, last written %q", k.key, gk, g.Value, k.val))
					}
					k.lastStart, k.lastEnd, k.lastKind = t0, t1, "get"
				}
			}
			nextTouch = nextTouch.Add(period)
			if time.Now().After(nextTouch) {
				nextTouch = time.Now().Add(period / 2)
			}
		}
		// ---- done?
		pending := 0
		for _, k := range us {
			if !k.gone && !k.abandoned {
				pending++
			}
		}
		now = time.Now()
		if (pending == 0 && now.After(minWatch)) || now.After(deadline) {
			break
		}
		time.Sleep(30 * time.Millisecond)
	}
	end := time.Now()

	// ---- verdicts
	var left []string
	for _, k := range us {
		if !k.gone && !k.abandoned {
			left = append(left, k.key)
		}
	}
	mu.Lock()
	for _, k := range us {
		if k.gone {
			res.UEvicted++
		}
	}
	for _, d := range delays {
		ms := d.Milliseconds()
		res.UDelaySumMs += ms
		if ms > res.UDelayMaxMs {
			res.UDelayMaxMs = ms
		}
	}
	for _, k := range ts {
		if !k.abandoned {
			res.TTracked++
			if !k.gone {
				res.TSurvived++
			}
		}
	}
	if d := end.Sub(start); d > res.WatchedFor {
		res.WatchedFor = d
	}
	mu.Unlock()
	if len(left) > 0 {
		sort.Strings(left)
		max, sum := hb.lost(lastUPut.Add(w), end)
		if max > time.Second || sum > 1500*time.Millisecond {
			inconclusive(fmt.Sprintf("%d untouched keys still present at the deadline, but the process was stalled (longest gap %s, total %s)", len(left), max, sum))
		} else {
			fk := fmt.Sprintf("c10|idle-never-evicted|config=%s", dm.Source)
			if cs.Layout != "flat" {
				fk += "|layout=" + cs.Layout
			}
			show := left
			if len(show) > 8 {
				show = show[:8]
			}
			violate(fk, fmt.Sprintf("%d of %d untouched keys are still in their primary fragment %s after their last write (window %s + bound %s; longest scheduling gap %s): %v",
				len(left), len(us), end.Sub(lastUPut).Round(time.Millisecond), w, c10IdleBound, max, show))
		}
	}
	verdict(fmt.Sprintf("idle|%s|N=%d|R=%d|touch=%s|layout=%s", dm.Source, cs.N, cs.R, cs.Touch, cs.Layout))
}

func c10ReportIdle(ctx *runCtx, cs c10IdleCase, res *c10IdleResult) {
	rep := ctx.rep
	rep.Eval(1)
	rep.Count("idle_cases", 1)
	rep.Count("idle_census_rounds", res.CensusRounds)
	rep.Count("idle_touch_rounds", res.TouchRounds)
	rep.Count("idle_untouched_keys_seen_evicted", res.UEvicted)
	rep.Count("idle_touched_keys_tracked", res.TTracked)
	rep.Count("idle_touched_keys_alive_at_end", res.TSurvived)
	rep.Count("idle_eviction_delay_after_window_ms_sum", res.UDelaySumMs)
	rep.Count("idle_watch_ms", res.WatchedFor.Milliseconds())
	for k, v := range res.Touches {
		rep.Count("idle_access_"+k, v)
	}
	for _, v := range res.Verdicts {
		if len(v) > 5 && v[:5] == "idle|" {
			rep.Distinct(v)
		}
	}
	for _, s := range res.Inconclusive {
		rep.Inconclusive(s)
	}
	for _, v := range res.Viols {
		rep.Violate(v.Key, v.Detail, v.Replay)
	}
	if cs.Idx < 3 || cs.Layout != "flat" {
		rep.Sample(map[string]interface{}{"kind": "idle", "case": cs, "untouched_evicted": res.UEvicted, "max_delay_after_window_ms": res.UDelayMaxMs,
			"touched_tracked": res.TTracked, "touched_alive_at_end": res.TSurvived, "watched_ms": res.WatchedFor.Milliseconds(), "notes": res.Verdicts, "inconclusive": res.Inconclusive})
	}
}
