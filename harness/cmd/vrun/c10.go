package main

// C10 — eviction keeps a DMap within its configured bounds without harming fresh keys.
//
// LRU part (this file): clusters of 1–2 members with P in {3,7,31}; every DMap of a
// cluster has its own LRU configuration (one through the global DMaps config, the
// others through DMaps.Custom[name]). After EVERY Put:
//   (a) the Put did not fail,
//   (b) an immediate Get of the key returns the value just written,
//   (c) white-box census of every owned partition's primary fragment:
//       live keys <= max(1, MaxKeys/owned), bytes in use <= MaxInuse/owned + one entry.
// With 4 concurrent writers (b) is judged only when no other writer's Put on the same
// partition overlapped [Put start, Get end], and (c) at barriers only.
//
// Idle part: c10_idle.go.

import (
	"context"
	"encoding/json"
	"fmt"
	"math/rand"
	"os"
	"strings"
	"sync"
	"sync/atomic"
	"time"

	"github.com/olric-data/olric/config"
	"github.com/olric-data/olric/internal/cluster/partitions"
	"github.com/olric-data/olric/verif/cluster"
	"github.com/olric-data/olric/verif/paths"
)

func init() {
	register("C10", &checkFn{level: "exploration", run: c10Run, child: c10Child, replay: c10Replay})
}

const (
	c10KeyLen   = 6  // "k%05d"
	c10ValLen   = 24 // fixed-size values
	c10EntryLen = c10KeyLen + c10ValLen + 29
)

// c10Conf is the LRU configuration of one DMap.
type c10Conf struct {
	Mode       string `json:"mode"`        // keys | inuse | both
	KeysSym    string `json:"keys_sym"`    // 1 | 3 | P-1 | P | 10P
	InuseSym   string `json:"inuse_sym"`   // e/2 | 3e+7 | 4eP
	MaxKeys    int    `json:"max_keys"`    // resolved
	MaxInuse   int    `json:"max_inuse"`   // resolved
	LRUSamples int    `json:"lru_samples"` // 1,2,5,20
}

func (c c10Conf) String() string {
	switch c.Mode {
	case "keys":
		return fmt.Sprintf("MaxKeys=%s(%d),LRUSamples=%d", c.KeysSym, c.MaxKeys, c.LRUSamples)
	case "inuse":
		return fmt.Sprintf("MaxInuse=%s(%d),LRUSamples=%d", c.InuseSym, c.MaxInuse, c.LRUSamples)
	}
	return fmt.Sprintf("MaxKeys=%s(%d)+MaxInuse=%s(%d),LRUSamples=%d", c.KeysSym, c.MaxKeys, c.InuseSym, c.MaxInuse, c.LRUSamples)
}

func c10ResolveKeys(sym string, p int) int {
	switch sym {
	case "1":
		return 1
	case "3":
		return 3
	case "P-1":
		return p - 1
	case "P":
		return p
	case "10P":
		return 10 * p
	}
	panic("keys sym " + sym)
}

func c10ResolveInuse(sym string, p int) int {
	switch sym {
	case "e/2":
		return c10EntryLen / 2
	case "3e+7":
		return 3*c10EntryLen + 7
	case "4eP":
		return 4 * c10EntryLen * p
	}
	panic("inuse sym " + sym)
}

// c10Grid is the full configuration grid for a partition count.
func c10Grid(p int) []c10Conf {
	var g []c10Conf
	for _, ks := range []string{"1", "3", "P-1", "P", "10P"} {
		for _, s := range []int{1, 2, 5, 20} {
			g = append(g, c10Conf{Mode: "keys", KeysSym: ks, MaxKeys: c10ResolveKeys(ks, p), LRUSamples: s})
		}
	}
	for _, is := range []string{"e/2", "3e+7", "4eP"} {
		for _, s := range []int{1, 2, 5, 20} {
			g = append(g, c10Conf{Mode: "inuse", InuseSym: is, MaxInuse: c10ResolveInuse(is, p), LRUSamples: s})
		}
	}
	// both limits at once ("MaxKeys and MaxInuse properties of LRU can be used in the same time")
	for _, b := range []struct {
		ks, is string
		s      int
	}{{"P", "3e+7", 5}, {"10P", "4eP", 2}, {"3", "4eP", 20}, {"10P", "e/2", 5}} {
		g = append(g, c10Conf{Mode: "both", KeysSym: b.ks, MaxKeys: c10ResolveKeys(b.ks, p), InuseSym: b.is, MaxInuse: c10ResolveInuse(b.is, p), LRUSamples: b.s})
	}
	return g
}

// c10Case is one put sequence on one DMap.
type c10Case struct {
	DMap    string  `json:"dmap"`
	Source  string  `json:"source"` // global | custom
	Conf    c10Conf `json:"conf"`
	Dist    string  `json:"dist"` // uniform | skew | onepart
	Writers int     `json:"writers"`
	Puts    int     `json:"puts"` // total
	Seed    int64   `json:"seed"`
}

// c10Cluster is one child batch: a cluster and the cases that run on it.
type c10Cluster struct {
	Idx       int       `json:"idx"`
	P         int       `json:"partitions"`
	N         int       `json:"members"`
	R         int       `json:"replicas"`
	TableSize uint64    `json:"table_size"`
	Compact   bool      `json:"compact"` // run compaction at quiescent points
	Cases     []c10Case `json:"cases"`   // Cases[0] is the global one
}

func (cl c10Cluster) label() string {
	return fmt.Sprintf("P=%d,N=%d,R=%d,ts=%d", cl.P, cl.N, cl.R, cl.TableSize)
}

// c10LRUClusters is a pure function of (seed, tier).
func c10LRUClusters(tier string, seed int64) []c10Cluster {
	rng := rand.New(rand.NewSource(seed*7919 + 17))
	var res []c10Cluster
	puts := 400
	globalsPerPN := 2 // clusters per (P,N); each has a different global configuration
	customsPer := 1000
	if tier == "thorough" {
		puts = 5000
		globalsPerPN = 8
		customsPer = 10
	}
	idx := 0
	for _, p := range []int{3, 7, 31} {
		grid := c10Grid(p)
		for _, n := range []int{1, 2} {
			perm := rng.Perm(len(grid))
			for g := 0; g < globalsPerPN; g++ {
				cl := c10Cluster{Idx: idx, P: p, N: n, R: 1, TableSize: 1 << 20}
				if n == 2 && g%2 == 1 {
					cl.R = 2
				}
				if (g+idx)%2 == 1 {
					cl.TableSize = 2048
					cl.Compact = g%4 == 1
				}
				// global configuration: walk through the permuted grid so that, over the
				// clusters of one (P,N), different grid points are the global one
				var order []int
				order = append(order, perm[(g*len(grid)/globalsPerPN)%len(grid)])
				for _, k := range perm {
					if k != order[0] {
						order = append(order, k)
					}
				}
				if len(order)-1 > customsPer {
					// rotate which customs are taken so that all grid points appear as customs over the clusters
					rest := order[1:]
					off := (g * customsPer) % len(rest)
					rest = append(append([]int(nil), rest[off:]...), rest[:off]...)
					order = append(order[:1:1], rest[:customsPer]...)
				}
				for j, k := range order {
					cs := c10Case{
						DMap:    fmt.Sprintf("c10-%d-%d", idx, j),
						Source:  "custom",
						Conf:    grid[k],
						Writers: 1,
						Puts:    puts,
						Seed:    seed*1000003 + int64(idx)*1009 + int64(j),
					}
					if j == 0 {
						cs.Source = "global"
					}
					switch rng.Intn(5) {
					case 0, 1:
						cs.Dist = "uniform"
					case 2, 3:
						cs.Dist = "skew"
					default:
						cs.Dist = "onepart"
					}
					if tier == "thorough" && rng.Intn(3) == 0 {
						cs.Writers = 4
					}
					if tier == "quick" && rng.Intn(8) == 0 {
						cs.Writers = 4
					}
					cl.Cases = append(cl.Cases, cs)
				}
				res = append(res, cl)
				idx++
			}
		}
	}
	return res
}

func c10ApplyConf(c c10Conf) config.DMap {
	d := config.DMap{EvictionPolicy: config.LRUEviction, LRUSamples: c.LRUSamples}
	if c.Mode == "keys" || c.Mode == "both" {
		d.MaxKeys = c.MaxKeys
	}
	if c.Mode == "inuse" || c.Mode == "both" {
		d.MaxInuse = c.MaxInuse
	}
	return d
}

func c10StartLRUCluster(cl c10Cluster) (*cluster.Cluster, error) {
	return cluster.Start(cluster.Config{
		Replicas:          cl.R,
		Partitions:        uint64(cl.P),
		TableSize:         cl.TableSize,
		NoInternalRetries: true, // a silently retried forwarded Put could land twice
		DMaps: func(d *config.DMaps) {
			g := c10ApplyConf(cl.Cases[0].Conf)
			d.EvictionPolicy = g.EvictionPolicy
			d.MaxKeys = g.MaxKeys
			d.MaxInuse = g.MaxInuse
			d.LRUSamples = g.LRUSamples
			d.Custom = map[string]config.DMap{}
			for _, cs := range cl.Cases[1:] {
				d.Custom[cs.DMap] = c10ApplyConf(cs.Conf)
			}
		},
	}, cl.N)
}

// ---------------------------------------------------------------- LRU case runner

type c10Viol struct {
	Key    string
	Detail string
	Replay interface{}
}

type c10LRUResult struct {
	Puts, Gets, GetsJudged, Census, FullCensus int64
	PutErrors                                  int64
	Inserts, Overwrites                        int64
	AtLimit                                    int64 // census observations of a fragment exactly at its bound
	Evictions                                  int64 // puts after which the total number of keys did not grow although the key was new
	MaxFill                                    float64
	Viols                                      []c10Viol
	ViolCount                                  map[string]int
	Inconclusive                               []string
	PathsUsed                                  map[string]int64
	Unstable                                   bool
}

type c10Owned struct {
	m     *cluster.Member
	parts []uint64
}

func c10OwnedParts(c *cluster.Cluster, p int) []c10Owned {
	var res []c10Owned
	for _, m := range c.Live() {
		o := c10Owned{m: m}
		id := m.V.RT.This().ID
		for part := uint64(0); part < uint64(p); part++ {
			if m.V.Primary.PartitionByID(part).Owner().ID == id {
				o.parts = append(o.parts, part)
			}
		}
		res = append(res, o)
	}
	return res
}

// c10Membership is a snapshot of what every member believes about the cluster.
type c10Membership struct {
	sigs    []uint64
	members []int32
}

func c10Snapshot(c *cluster.Cluster) c10Membership {
	var s c10Membership
	for _, m := range c.Live() {
		s.sigs = append(s.sigs, m.V.RT.Signature())
		s.members = append(s.members, m.V.RT.NumMembers())
	}
	return s
}

// c10Unchanged reports whether no member has installed a different routing table or
// seen a different member count since the snapshot.
func c10Unchanged(c *cluster.Cluster, s c10Membership, n int) bool {
	now := c10Snapshot(c)
	if len(now.sigs) != len(s.sigs) {
		return false
	}
	for i := range now.sigs {
		if now.sigs[i] != s.sigs[i] || now.members[i] != s.members[i] || int(now.members[i]) != n {
			return false
		}
	}
	return true
}

func c10Value(dmap string, w, seq int) []byte {
	s := fmt.Sprintf("%s/w%d/%d/", dmap, w, seq)
	if len(s) > c10ValLen {
		s = s[len(s)-c10ValLen:]
	}
	for len(s) < c10ValLen {
		s += "."
	}
	return []byte(s)
}

type c10Runner struct {
	cl    c10Cluster
	cs    c10Case
	c     *cluster.Cluster
	owned []c10Owned
	res   *c10LRUResult
	mu    sync.Mutex

	keysByPart [][]string
	allKeys    []string
	hotParts   []int

	begun []atomic.Int64 // per partition: puts begun
	done  []atomic.Int64 // per partition: put+get sequences finished

	snap     c10Membership
	unstable atomic.Bool // membership changed: the case yields no verdict
	netErr   atomic.Bool // a transport error happened: the case stops
}

func (r *c10Runner) violate(key, detail string, replay map[string]interface{}) {
	if r.unstable.Load() || !c10Unchanged(r.c, r.snap, r.cl.N) {
		r.unstable.Store(true)
		return
	}
	r.mu.Lock()
	defer r.mu.Unlock()
	if r.res.ViolCount == nil {
		r.res.ViolCount = map[string]int{}
	}
	r.res.ViolCount[key]++
	if r.res.ViolCount[key] > 1 {
		return
	}
	replay["kind"] = "lru"
	replay["cluster"] = c10Cluster{Idx: r.cl.Idx, P: r.cl.P, N: r.cl.N, R: r.cl.R, TableSize: r.cl.TableSize, Compact: r.cl.Compact, Cases: []c10Case{r.cs}}
	r.res.Viols = append(r.res.Viols, c10Viol{Key: key, Detail: fmt.Sprintf("[%s %s %s dist=%s writers=%d dmap=%s] %s", r.cl.label(), r.cs.Source, r.cs.Conf, r.cs.Dist, r.cs.Writers, r.cs.DMap, detail), Replay: replay})
}

// bounds returns the per-fragment bounds for a member owning `owned` partitions (0 = unbounded).
func (r *c10Runner) bounds(owned int) (maxLen int, maxInuse int) {
	cf := r.cs.Conf
	if cf.Mode == "keys" || cf.Mode == "both" {
		maxLen = cf.MaxKeys / owned
		if maxLen < 1 {
			maxLen = 1
		}
	}
	if cf.Mode == "inuse" || cf.Mode == "both" {
		maxInuse = cf.MaxInuse/owned + c10EntryLen
	}
	return
}

func (r *c10Runner) overKey(kind string) string {
	cf := r.cs.Conf
	if kind == "inuse" {
		return "c10|over-bound|MaxInuse"
	}
	if cf.MaxKeys < r.cl.P {
		return "c10|over-bound|MaxKeys<P"
	}
	return "c10|over-bound|MaxKeys>=P"
}

// census checks every owned primary fragment of the DMap. full: count distinct keys by
// decoding every entry; otherwise on `fullPart` only and Stats().Length elsewhere.
func (r *c10Runner) census(step int, lastKey string, fullPart int64, full bool) (total int) {
	atomic.AddInt64(&r.res.Census, 1)
	if full {
		atomic.AddInt64(&r.res.FullCensus, 1)
	}
	for _, o := range r.owned {
		if len(o.parts) == 0 {
			continue
		}
		maxLen, maxInuse := r.bounds(len(o.parts))
		for _, part := range o.parts {
			st, _, ok := o.m.V.DMap.VerifStats(partitions.PRIMARY, part, r.cs.DMap)
			if !ok {
				continue
			}
			n := st.Length
			if full || int64(part) == fullPart {
				ents, ok := o.m.V.DMap.VerifEntries(partitions.PRIMARY, part, r.cs.DMap)
				if ok {
					distinct := map[string]struct{}{}
					for _, e := range ents {
						distinct[e.Key] = struct{}{}
					}
					n = len(distinct)
				}
			}
			total += n
			if maxLen > 0 {
				if n > maxLen {
					r.violate(r.overKey("keys"), fmt.Sprintf("after put #%d (key %s): fragment of partition %d on %s holds %d live keys, bound max(1, MaxKeys %d / owned %d) = %d (RT.OwnedPartitionCount=%d)",
						step, lastKey, part, o.m.Name, n, r.cs.Conf.MaxKeys, len(o.parts), maxLen, o.m.V.RT.OwnedPartitionCount()),
						map[string]interface{}{"step": step, "partition": part, "live_keys": n, "bound": maxLen, "owned": len(o.parts)})
				}
				if n == maxLen {
					atomic.AddInt64(&r.res.AtLimit, 1)
				}
				if f := float64(n) / float64(maxLen); f > r.res.MaxFill {
					r.res.MaxFill = f
				}
			}
			if maxInuse > 0 {
				if st.Inuse > maxInuse {
					r.violate(r.overKey("inuse"), fmt.Sprintf("after put #%d (key %s): fragment of partition %d on %s has %d bytes in use (%d entries of %d bytes), bound MaxInuse %d / owned %d + one entry = %d",
						step, lastKey, part, o.m.Name, st.Inuse, st.Length, c10EntryLen, r.cs.Conf.MaxInuse, len(o.parts), maxInuse),
						map[string]interface{}{"step": step, "partition": part, "inuse": st.Inuse, "bound": maxInuse, "owned": len(o.parts)})
				}
				if st.Inuse+c10EntryLen >= maxInuse-c10EntryLen {
					// the next insert of a new key would reach the share
					atomic.AddInt64(&r.res.AtLimit, 1)
				}
				if f := float64(st.Inuse) / float64(maxInuse); f > r.res.MaxFill && maxLen == 0 {
					r.res.MaxFill = f
				}
			}
		}
	}
	return total
}

func (r *c10Runner) prepareKeys(rng *rand.Rand) {
	p := r.cl.P
	cf := r.cs.Conf
	// effective node-wide limit in keys
	lim := 0
	if cf.Mode == "keys" || cf.Mode == "both" {
		lim = cf.MaxKeys
	}
	if cf.Mode == "inuse" || cf.Mode == "both" {
		l2 := cf.MaxInuse/c10EntryLen + p
		if lim == 0 || l2 < lim {
			lim = l2
		}
	}
	if lim < p {
		lim = p
	}
	space := 3*lim*r.cl.N + 8
	if space > 4000 {
		space = 4000
	}
	r.keysByPart = make([][]string, p)
	for i := 0; i < space; i++ {
		k := fmt.Sprintf("k%05d", i)
		part := int(partitions.HKey(r.cs.DMap, k) % uint64(p))
		r.keysByPart[part] = append(r.keysByPart[part], k)
		r.allKeys = append(r.allKeys, k)
	}
	// top up so that every partition has enough keys for the skewed distributions
	for i := space; i < space+200000; i++ {
		short := false
		for part := 0; part < p; part++ {
			if len(r.keysByPart[part]) < 3*(lim/p+2) {
				short = true
			}
		}
		if !short {
			break
		}
		k := fmt.Sprintf("k%05d", i)
		part := int(partitions.HKey(r.cs.DMap, k) % uint64(p))
		if len(r.keysByPart[part]) < 3*(lim/p+2) {
			r.keysByPart[part] = append(r.keysByPart[part], k)
			r.allKeys = append(r.allKeys, k)
		}
	}
	nh := 1
	if r.cs.Dist == "skew" && p > 3 {
		nh = 2
	}
	for _, h := range rng.Perm(p)[:nh] {
		r.hotParts = append(r.hotParts, h)
	}
}

func (r *c10Runner) pickKey(rng *rand.Rand) string {
	switch r.cs.Dist {
	case "skew":
		if rng.Intn(100) < 85 {
			ks := r.keysByPart[r.hotParts[rng.Intn(len(r.hotParts))]]
			return ks[rng.Intn(len(ks))]
		}
	case "onepart":
		if rng.Intn(100) < 97 {
			ks := r.keysByPart[r.hotParts[0]]
			return ks[rng.Intn(len(ks))]
		}
	}
	return r.allKeys[rng.Intn(len(r.allKeys))]
}

var c10PutPaths = []string{"EO", "EO", "EN", "RO", "RN", "CC"}
var c10GetPaths = []string{"EO", "EN", "RO", "RN", "CC"}

func (r *c10Runner) countPath(what, kind string) {
	r.mu.Lock()
	if r.res.PathsUsed == nil {
		r.res.PathsUsed = map[string]int64{}
	}
	r.res.PathsUsed[what+"_"+kind]++
	r.mu.Unlock()
}

// step performs one Put + immediate Get. It returns the key and whether the key was new
// for this runner (only meaningful with one writer).
func (r *c10Runner) step(sess *paths.Session, rng *rand.Rand, w, seq int, concurrent bool) (key string, putOK bool) {
	key = r.pickKey(rng)
	val := c10Value(r.cs.DMap, w, seq)
	part := int(partitions.HKey(r.cs.DMap, key) % uint64(r.cl.P))
	pk := c10PutPaths[rng.Intn(len(c10PutPaths))]
	gk := c10GetPaths[rng.Intn(len(c10GetPaths))]
	if r.cl.N == 1 {
		// with a single member "non-owner" paths degenerate to the owner
		pk = strings.Replace(pk, "N", "O", 1)
		gk = strings.Replace(gk, "N", "O", 1)
	}
	ctx, cancel := context.WithTimeout(context.Background(), 20*time.Second)
	defer cancel()

	var d0, b0 int64
	if concurrent {
		d0 = r.done[part].Load()
		b0 = r.begun[part].Add(1) - 1
	}
	err := sess.Via(pk).Put(ctx, key, val, paths.PutOpts{})
	atomic.AddInt64(&r.res.Puts, 1)
	r.countPath("put", pk)
	if err != nil {
		if concurrent {
			r.done[part].Add(1)
		}
		atomic.AddInt64(&r.res.PutErrors, 1)
		cls := paths.Class(err)
		if cls == "net" {
			r.mu.Lock()
			r.res.Inconclusive = append(r.res.Inconclusive, fmt.Sprintf("%s put #%d via %s: transport error %v (case stopped here)", r.cs.DMap, seq, pk, err))
			r.mu.Unlock()
			r.netErr.Store(true)
			return key, false
		}
		fk := fmt.Sprintf("c10|put-failed|mode=%s|LRUSamples=%d", r.cs.Conf.Mode, r.cs.Conf.LRUSamples)
		if r.cs.Conf.LRUSamples == 1 {
			fk = "c10|put-failed|LRUSamples=1"
		} else if r.cs.Conf.Mode == "both" {
			fk = "c10|put-failed|MaxKeys+MaxInuse"
		}
		r.violate(fk, fmt.Sprintf("put #%d of key %s via %s failed: %v", seq, key, pk, err),
			map[string]interface{}{"step": seq, "key": key, "path": pk, "error": err.Error()})
		return key, false
	}
	g, gerr := sess.Via(gk).Get(ctx, key)
	atomic.AddInt64(&r.res.Gets, 1)
	r.countPath("get", gk)
	judge := true
	if concurrent {
		b1 := r.begun[part].Load()
		r.done[part].Add(1)
		// nobody was in flight on this partition when we began and nobody else began meanwhile
		judge = d0 == b0 && b1 == b0+1
	}
	if !judge {
		return key, true
	}
	atomic.AddInt64(&r.res.GetsJudged, 1)
	switch {
	case gerr != nil && paths.Class(gerr) == "net":
		r.mu.Lock()
		r.res.Inconclusive = append(r.res.Inconclusive, fmt.Sprintf("%s get #%d via %s: transport error %v (case stopped here)", r.cs.DMap, seq, gk, gerr))
		r.mu.Unlock()
		r.netErr.Store(true)
	case gerr != nil:
		sub := "error"
		if paths.Class(gerr) == "key not found" {
			sub = "not-found"
		}
		r.violate("c10|fresh-key-unreadable|"+sub, fmt.Sprintf("put #%d of key %s via %s succeeded, the immediate Get via %s returned: %v", seq, key, pk, gk, gerr),
			map[string]interface{}{"step": seq, "key": key, "put_path": pk, "get_path": gk, "error": gerr.Error()})
	case string(g.Value) != string(val):
		r.violate("c10|fresh-key-unreadable|wrong-value", fmt.Sprintf("put #%d of key %s=%q via %s succeeded, the immediate Get via %s returned %q", seq, key, val, pk, gk, g.Value),
			map[string]interface{}{"step": seq, "key": key, "put_path": pk, "get_path": gk, "got": string(g.Value), "want": string(val)})
	}
	return key, true
}

func c10RunLRUCase(c *cluster.Cluster, cl c10Cluster, cs c10Case) *c10LRUResult {
	res := &c10LRUResult{}
	r := &c10Runner{cl: cl, cs: cs, c: c, res: res}
	r.snap = c10Snapshot(c)
	r.owned = c10OwnedParts(c, cl.P)
	sumOwned := 0
	for _, o := range r.owned {
		sumOwned += len(o.parts)
		if got := int(o.m.V.RT.OwnedPartitionCount()); got != len(o.parts) {
			res.Inconclusive = append(res.Inconclusive, fmt.Sprintf("%s: OwnedPartitionCount()=%d but the routing table lists %d owned partitions", o.m.Name, got, len(o.parts)))
		}
	}
	if sumOwned != cl.P {
		res.Inconclusive = append(res.Inconclusive, fmt.Sprintf("members own %d of %d partitions: membership not stable", sumOwned, cl.P))
		return res
	}
	rng := rand.New(rand.NewSource(cs.Seed))
	r.prepareKeys(rng)
	r.begun = make([]atomic.Int64, cl.P)
	r.done = make([]atomic.Int64, cl.P)
	router := paths.NewRouter(c, cs.DMap)
	defer router.Close()

	if cs.Writers <= 1 {
		sess := router.NewSession()
		defer sess.Close()
		prevTotal := 0
		for i := 0; i < cs.Puts && !r.netErr.Load() && !r.unstable.Load(); i++ {
			// peek at the key the step is going to use (same PRNG stream) to learn, white-box, whether it exists
			save := *rng
			peek := r.pickKey(rng)
			*rng = save
			existed := false
			if o := c.OwnerOf(cs.DMap, peek); o != nil {
				_, existed = o.V.DMap.VerifEntry(partitions.PRIMARY, cs.DMap, peek)
			}
			key, ok := r.step(sess, rng, 0, i, false)
			part := int64(partitions.HKey(cs.DMap, key) % uint64(cl.P))
			total := r.census(i, key, part, i%64 == 63 || i == cs.Puts-1)
			if ok {
				if existed {
					res.Overwrites++
				} else {
					res.Inserts++
					if total <= prevTotal {
						res.Evictions++
					}
				}
			}
			prevTotal = total
			if cl.Compact && i%200 == 199 {
				for _, m := range c.Live() {
					m.V.DMap.VerifCompactAll(50)
				}
				r.census(i, key, part, true)
			}
		}
	} else {
		const round = 25
		per := cs.Puts / cs.Writers
		sessions := make([]*paths.Session, cs.Writers)
		rngs := make([]*rand.Rand, cs.Writers)
		for w := range sessions {
			sessions[w] = router.NewSession()
			rngs[w] = rand.New(rand.NewSource(cs.Seed*31 + int64(w) + 1))
		}
		defer func() {
			for _, s := range sessions {
				s.Close()
			}
		}()
		for base := 0; base < per && !r.netErr.Load() && !r.unstable.Load(); base += round {
			var wg sync.WaitGroup
			for w := 0; w < cs.Writers; w++ {
				wg.Add(1)
				go func(w int) {
					defer wg.Done()
					for i := base; i < base+round && i < per && !r.netErr.Load(); i++ {
						r.step(sessions[w], rngs[w], w, i, true)
					}
				}(w)
			}
			wg.Wait()
			// quiescent point
			r.census(base+round-1, "(barrier)", -1, true)
			if cl.Compact && (base/round)%8 == 7 {
				for _, m := range c.Live() {
					m.V.DMap.VerifCompactAll(50)
				}
				r.census(base+round-1, "(barrier after compaction)", -1, true)
			}
		}
	}
	// membership must still be what it was, otherwise nothing observed in this case counts
	if r.unstable.Load() || !c10Unchanged(c, r.snap, cl.N) {
		res.Inconclusive = append(res.Inconclusive, fmt.Sprintf("%s: membership or routing changed during the case (%d candidate findings dropped)", cs.DMap, len(res.Viols)))
		res.Viols, res.ViolCount = nil, nil
		res.Unstable = true
	}
	return res
}

// ---------------------------------------------------------------- child / run / replay

func c10Report(ctx *runCtx, cl c10Cluster, cs c10Case, res *c10LRUResult) {
	rep := ctx.rep
	if res.Unstable {
		rep.Count("lru_cases_dropped_membership_changed", 1)
		for _, s := range res.Inconclusive {
			rep.Inconclusive(s)
		}
		return
	}
	rep.Eval(1)
	rep.Count("lru_cases", 1)
	rep.Count("lru_puts", res.Puts)
	rep.Count("lru_put_errors", res.PutErrors)
	rep.Count("lru_gets_after_put", res.Gets)
	rep.Count("lru_gets_judged", res.GetsJudged)
	rep.Count("lru_census_rounds", res.Census)
	rep.Count("lru_census_full_decode", res.FullCensus)
	rep.Count("lru_inserts_of_new_keys", res.Inserts)
	rep.Count("lru_overwrites", res.Overwrites)
	rep.Count("lru_fragment_at_bound_observations", res.AtLimit)
	rep.Count("lru_puts_that_displaced_a_key", res.Evictions)
	rep.Count(fmt.Sprintf("lru_cases_writers_%d", cs.Writers), 1)
	rep.Count("lru_cases_dist_"+cs.Dist, 1)
	rep.Count("lru_cases_source_"+cs.Source, 1)
	for k, v := range res.PathsUsed {
		rep.Count("lru_path_"+k, v)
	}
	lim := cs.Conf.KeysSym
	if cs.Conf.Mode == "inuse" {
		lim = cs.Conf.InuseSym
	} else if cs.Conf.Mode == "both" {
		lim = cs.Conf.KeysSym + "+" + cs.Conf.InuseSym
	}
	rep.SetAdd("lru_grid_points", fmt.Sprintf("P=%d|N=%d|%s=%s|S=%d", cl.P, cl.N, cs.Conf.Mode, lim, cs.Conf.LRUSamples))
	if res.AtLimit > 0 {
		rep.Distinct(fmt.Sprintf("lru|P=%d|N=%d|R=%d|%s=%s|S=%d|%s|%s|w=%d", cl.P, cl.N, cl.R, cs.Conf.Mode, lim, cs.Conf.LRUSamples, cs.Source, cs.Dist, cs.Writers))
	} else {
		rep.Count("lru_cases_limit_never_reached", 1)
	}
	for _, s := range res.Inconclusive {
		rep.Inconclusive(s)
	}
	for _, v := range res.Viols {
		n := res.ViolCount[v.Key]
		rep.Violate(v.Key, fmt.Sprintf("%s (%d occurrences in this case)", v.Detail, n), v.Replay)
	}
	for k, n := range res.ViolCount {
		rep.Count("violating_steps_"+k, int64(n))
	}
}

func c10Child(ctx *runCtx, spec string) {
	var kind string
	var idx int
	fmt.Sscanf(strings.Replace(spec, ":", " ", 1), "%s %d", &kind, &idx)
	switch kind {
	case "lru":
		cls := c10LRUClusters(ctx.tier, ctx.seed)
		cl := cls[idx]
		c, err := c10StartLRUCluster(cl)
		if err != nil {
			ctx.rep.Inconclusive("cluster start: " + err.Error())
			return
		}
		defer c.Shutdown()
		// cases on one cluster run 3 at a time (they use different DMaps)
		sem := make(chan struct{}, 3)
		var wg sync.WaitGroup
		sampled := int32(0)
		for _, cs := range cl.Cases {
			wg.Add(1)
			sem <- struct{}{}
			go func(cs c10Case) {
				defer wg.Done()
				defer func() { <-sem }()
				js, _ := json.Marshal(cs)
				fmt.Printf("CASE lru cluster=%s %s\n", cl.label(), js)
				if ok, why := c.StableOnce(); !ok {
					// a member was declared dead under load; give the cluster a chance to heal
					if err := c.WaitStable(20 * time.Second); err != nil {
						ctx.rep.Inconclusive(fmt.Sprintf("%s: cluster not stable before the case (%s)", cs.DMap, why))
						ctx.rep.Count("lru_cases_skipped_unstable_cluster", 1)
						return
					}
				}
				res := c10RunLRUCase(c, cl, cs)
				fmt.Printf("DONE %s puts=%d errors=%d atlimit=%d viol=%d\n", cs.DMap, res.Puts, res.PutErrors, res.AtLimit, len(res.Viols))
				c10Report(ctx, cl, cs, res)
				if res.AtLimit > 0 && atomic.AddInt32(&sampled, 1) == 1 && idx%5 == 0 {
					ctx.rep.Sample(map[string]interface{}{"kind": "lru", "cluster": cl.label(), "case": cs, "puts": res.Puts, "gets_judged": res.GetsJudged,
						"census_rounds": res.Census, "fragment_at_bound_observations": res.AtLimit, "puts_that_displaced_a_key": res.Evictions, "max_fill_ratio": res.MaxFill})
				}
			}(cs)
		}
		wg.Wait()
	case "idle":
		cases := c10IdleCases(ctx.tier, ctx.seed)
		cs := cases[idx]
		js, _ := json.Marshal(cs)
		fmt.Printf("CASE idle %s\n", js)
		res := c10RunIdleCase(cs)
		c10ReportIdle(ctx, cs, res)
	case "revive":
		c10RunRevive(ctx, idx)
	default:
		fmt.Fprintln(os.Stderr, "bad spec", spec)
		os.Exit(2)
	}
}

func c10Run(ctx *runCtx) int {
	ctx.rep.Rule = "LRU: one evaluation = one put sequence (quick 400, thorough 5000 puts; uniform / 85% on 1-2 hot partitions / 97% on one partition; fresh keys mixed with overwrites; paths EO/EN/RO/RN/CC) on a DMap with its own configuration " +
		"{MaxKeys in {1,3,P-1,P,10P} | MaxInuse in {e/2,3e+7,4eP} (e = entry size 59) | both} x LRUSamples {1,2,5,20} x P {3,7,31} x members {1,2} x config source {global, Custom[name]} x writers {1,4}; after every Put: error check, immediate Get, white-box census of every owned primary fragment. " +
		"Idle: one evaluation = one scenario (touched set refreshed every window/3 by Get/Put, untouched set polled white-box) x config source {global, custom, custom-longer-than-global, custom-next-to-global} x members {1,2}. " +
		"distinct_nontrivial = LRU tuples (P,N,R,limit,LRUSamples,source,distribution,writers) in which a fragment reached its bound + idle tuples (source,N,R,touch mix) with a verdict"
	ctx.rep.Assumptions = []string{
		"membership is stable: members are started before the first Put and never stopped; a case whose ownership changed is inconclusive",
		"equal share = floor(limit / partitions owned by the member), owned counted from the member's routing table",
		"with 4 concurrent writers the immediate Get is judged only if no other writer's Put on the same partition overlapped [Put start, Get end]; bounds are checked at barriers every 25 puts per writer",
		"idle: 'eventually' is restated as window + 5 s with 8 eviction workers and P=3; a scheduling stall (heartbeat gap) turns a missed deadline into inconclusive; a touched key counts as protected only if its previous touch began less than window - margin before it was seen missing",
		"transport errors are inconclusive",
	}
	var lru, idle []batch
	for _, cl := range c10LRUClusters(ctx.tier, ctx.seed) {
		lru = append(lru, batch{Spec: fmt.Sprintf("lru:%d", cl.Idx), Timeout: 12 * time.Minute})
	}
	for _, ic := range c10IdleCases(ctx.tier, ctx.seed) {
		idle = append(idle, batch{Spec: fmt.Sprintf("idle:%d", ic.Idx), Timeout: 5 * time.Minute})
	}
	for i := 0; i < 4; i++ {
		idle = append(idle, batch{Spec: fmt.Sprintf("revive:%d", i), Timeout: 5 * time.Minute})
	}
	// idle cases are timing-sensitive: they run first, without the CPU-bound LRU batches next to them
	onDeath := func(b batch, res batchResult, tail string) {
		ctx.rep.Violate("c10|member-crashed-or-hung", fmt.Sprintf("child %s died (exit %d timeout=%v): %s", b.Spec, res.ExitCode, res.TimedOut, lastLines(tail, 12)),
			map[string]interface{}{"batch": b.Spec, "log": res.LogPath})
	}
	ictx := *ctx
	ictx.outDir = ctx.outDir + "/idle"
	runBatches(&ictx, idle, 5, onDeath)
	runBatches(ctx, lru, 6, onDeath)
	min := 40
	if ctx.tier == "thorough" {
		min = 300
	}
	return ctx.rep.Finish(min)
}

func c10Replay(ctx *runCtx, path string) int {
	var doc struct {
		Key    string `json:"key"`
		Replay struct {
			Kind    string      `json:"kind"`
			Cluster c10Cluster  `json:"cluster"`
			Idle    c10IdleCase `json:"idle"`
		} `json:"replay"`
	}
	if err := readJSON(path, &doc); err != nil {
		fmt.Println(err)
		return 2
	}
	switch doc.Replay.Kind {
	case "lru":
		cl := doc.Replay.Cluster
		if len(cl.Cases) != 1 {
			fmt.Println("replay: no case in file")
			return 2
		}
		cs := cl.Cases[0]
		// the case runs alone: as the global configuration or as the only custom one
		run := cl
		if cs.Source == "custom" {
			dummy := cs
			dummy.DMap = cs.DMap + "-unused-global"
			dummy.Conf = c10Conf{Mode: "keys", KeysSym: "10P", MaxKeys: 10 * cl.P, LRUSamples: 5}
			run.Cases = []c10Case{dummy, cs}
		}
		c, err := c10StartLRUCluster(run)
		if err != nil {
			fmt.Println("cluster start:", err)
			return 2
		}
		defer c.Shutdown()
		res := c10RunLRUCase(c, cl, cs)
		fmt.Printf("replay: %s %s: %d puts, %d violating finding keys\n", cl.label(), cs.Conf, res.Puts, len(res.Viols))
		for _, v := range res.Viols {
			fmt.Printf("VIOLATION property=C10 replay=%s key=%q detail=%q\n", path, v.Key, v.Detail)
		}
		if len(res.Viols) > 0 {
			return 1
		}
		return 0
	case "idle":
		res := c10RunIdleCase(doc.Replay.Idle)
		for _, v := range res.Viols {
			fmt.Printf("VIOLATION property=C10 replay=%s key=%q detail=%q\n", path, v.Key, v.Detail)
		}
		for _, s := range res.Inconclusive {
			fmt.Println("replay: inconclusive:", s)
		}
		if len(res.Viols) > 0 {
			return 1
		}
		return 0
	}
	fmt.Println("replay: unknown kind", doc.Replay.Kind)
	return 2
}
