package main

// C12, "mid" batches: the table a cursor points into disappears in the middle of an iteration.
//
// Keys are written in a known order, so the oldest table of every fragment holds a known prefix of the
// partition's keys. An iteration is started and stopped after a few keys, i.e. with its cursor inside the
// oldest table of the partition that is being scanned. Then exactly the keys of the oldest table(s) are
// deleted and the fragments are compacted to completion (the emptied tables are recycled), and the iteration
// is resumed. Every key that was never deleted was present during the whole iteration and has to be yielded.

import (
	"context"
	"fmt"
	"math/rand"
	"sort"
	"strconv"
	"strings"
	"time"

	"github.com/olric-data/olric"
	"github.com/olric-data/olric/internal/cluster/partitions"
	"github.com/olric-data/olric/internal/kvstore/table"
	"github.com/olric-data/olric/verif/cluster"
	"github.com/olric-data/olric/verif/respc"
)

type c12MidWorld struct {
	ctx     *runCtx
	spec    string
	c       *cluster.Cluster
	name    string
	order   map[uint64][]string // partition -> keys in insertion order
	deleted map[string]bool
	all     map[string]bool
}

func (w *c12MidWorld) fill(nkeys int, vlen int) error {
	d, err := w.c.Live()[0].Emb.NewDMap(w.name)
	if err != nil {
		return err
	}
	w.order, w.deleted, w.all = map[uint64][]string{}, map[string]bool{}, map[string]bool{}
	for i := 0; i < nkeys; i++ {
		k := fmt.Sprintf("mid-%04d", i)
		if err := d.Put(context.Background(), k, strings.Repeat("v", vlen)); err != nil {
			return err
		}
		p := w.c.PartOf(w.name, k)
		w.order[p] = append(w.order[p], k)
		w.all[k] = true
	}
	return nil
}

// dropOldest deletes the keys that live in the oldest `tables` tables of every primary fragment (plus `extra` keys
// of the following table) and compacts every fragment to completion.
func (w *c12MidWorld) dropOldest(tables, extra int) (dropped int, tablesBefore, tablesAfter int) {
	d, _ := w.c.Live()[0].Emb.NewDMap(w.name)
	counted := map[uint64]bool{}
	for p, keys := range w.order {
		owner := w.c.Live()[0].V.Primary.PartitionByID(p).Owner()
		m := w.c.ByID(owner.ID)
		if m == nil {
			continue
		}
		_, infos, ok := m.V.DMap.VerifStats(partitions.PRIMARY, p, w.name)
		if !ok || len(infos) < tables+2 {
			continue
		}
		for _, ti := range infos {
			if ti.State != table.RecycledState {
				tablesBefore++
			}
		}
		counted[p] = true
		sort.Slice(infos, func(i, j int) bool { return infos[i].Coefficient < infos[j].Coefficient })
		n := extra
		for i := 0; i < tables; i++ {
			n += infos[i].HKeys
		}
		live := 0
		for _, k := range keys {
			if w.deleted[k] {
				continue
			}
			if live >= n {
				break
			}
			live++
			if _, err := d.Delete(context.Background(), k); err == nil {
				w.deleted[k] = true
				dropped++
			}
		}
	}
	for _, m := range w.c.Live() {
		for i := 0; i < 50; i++ {
			if _, done := m.V.DMap.VerifCompactAll(1000); done {
				break
			}
		}
	}
	for p := range w.order {
		if !counted[p] {
			continue
		}
		owner := w.c.Live()[0].V.Primary.PartitionByID(p).Owner()
		if m := w.c.ByID(owner.ID); m != nil {
			if _, infos, ok := m.V.DMap.VerifStats(partitions.PRIMARY, p, w.name); ok {
				for _, ti := range infos {
					if ti.State != table.RecycledState {
						tablesAfter++
					}
				}
			}
		}
	}
	return
}

func (w *c12MidWorld) judge(kind string, count int, pause int, yielded []string, preDeleted map[string]bool, terminated bool, detail string) {
	w.ctx.rep.Eval(1)
	w.ctx.rep.Count("mid_iterations_"+kind, 1)
	w.ctx.rep.Count("mid_keys_yielded", int64(len(yielded)))
	if !terminated {
		w.ctx.rep.Violate("c12|mid|non-termination|iter="+kind, fmt.Sprintf("%s: %s count=%d: %s", w.spec, kind, count, detail), map[string]interface{}{"batch": w.spec})
		return
	}
	seen := map[string]int{}
	for _, k := range yielded {
		seen[k]++
	}
	var missed, ghosts []string
	for k := range w.all {
		if !w.deleted[k] && seen[k] == 0 {
			missed = append(missed, k)
		}
	}
	for k := range seen {
		if !w.all[k] || preDeleted[k] {
			ghosts = append(ghosts, k)
		}
	}
	sort.Strings(missed)
	sort.Strings(ghosts)
	w.ctx.rep.Distinct(fmt.Sprintf("mid|%s|count=%d|pause-after=%d|%s", kind, count, pause, strings.SplitN(w.spec, " seed=", 2)[0]))
	if len(missed) > 0 {
		ex := missed
		if len(ex) > 5 {
			ex = ex[:5]
		}
		w.ctx.rep.Violate("c12|missed|iter="+kind+"|cursor-table-compacted-away-mid-iteration",
			fmt.Sprintf("%s: %s iteration (count=%d) paused after %d keys; the keys of the oldest table(s) were deleted and the fragments compacted, then the iteration was resumed: %d keys that were never deleted were not yielded, e.g. %v %s", w.spec, kind, count, pause, len(missed), ex, detail),
			map[string]interface{}{"batch": w.spec, "missed": ex})
	}
	if len(ghosts) > 0 {
		w.ctx.rep.Violate("c12|ghost|iter="+kind+"|mid", fmt.Sprintf("%s: %s iteration yielded keys that were deleted before it began or never existed: %v", w.spec, kind, ghosts), map[string]interface{}{"batch": w.spec})
	}
}

func c12MidChild(ctx *runCtx, spec string) {
	var n, r, rounds int
	var p, ts uint64
	var seed int64
	fmt.Sscanf(spec, "mid N=%d R=%d P=%d ts=%d rounds=%d seed=%d", &n, &r, &p, &ts, &rounds, &seed)
	c, err := cluster.Start(cluster.Config{Replicas: r, Partitions: p, TableSize: ts}, n)
	if err != nil {
		ctx.rep.Inconclusive(spec + ": cluster start: " + err.Error())
		return
	}
	defer c.Shutdown()
	fp := c.Fingerprint()
	rng := rand.New(rand.NewSource(seed))
	kinds := []string{"raw", "emb", "cc"}
	for round := 0; round < rounds; round++ {
		kind := kinds[round%3]
		count := []int{1, 3, 7, 10, 2, 5}[rng.Intn(6)]
		w := &c12MidWorld{ctx: ctx, spec: spec, c: c, name: fmt.Sprintf("c12-mid-%d-%d", seed, round)}
		perTable := int(ts) / 90
		if err := w.fill(int(p)*perTable*4+rng.Intn(perTable), 40); err != nil {
			ctx.rep.Inconclusive(spec + ": fill: " + err.Error())
			return
		}
		// some keys are deleted before the iteration begins: they must never be yielded
		pre := map[string]bool{}
		d0, _ := c.Live()[0].Emb.NewDMap(w.name)
		for _, keys := range w.order {
			if len(keys) > 3 {
				k := keys[len(keys)-2]
				if _, err := d0.Delete(context.Background(), k); err == nil {
					pre[k] = true
					w.deleted[k] = true
				}
			}
		}
		pause := 2 + rng.Intn(perTable-4)
		tables := 1 + rng.Intn(2)
		extra := rng.Intn(4)
		var yielded []string
		terminated := true
		detail := ""
		switch kind {
		case "raw":
			// one cursor loop per partition against its owner; the pause happens inside every partition's loop
			for part := uint64(0); part < p && terminated; part++ {
				owner := c.Live()[0].V.Primary.PartitionByID(part).Owner()
				cn, err := respc.Dial(owner.Name)
				if err != nil {
					ctx.rep.Inconclusive(spec + ": dial: " + err.Error())
					return
				}
				cursor, got, paused, trips := "0", 0, false, 0
				for {
					rp, err := cn.Do(30*time.Second, "DM.SCAN", strconv.FormatUint(part, 10), w.name, cursor, "COUNT", strconv.Itoa(count))
					trips++
					if err != nil || rp.IsErr() || len(rp.Array) != 2 {
						ctx.rep.Inconclusive(fmt.Sprintf("%s: DM.SCAN: %v %s", spec, err, rp.String()))
						_ = cn.Close()
						return
					}
					for _, k := range rp.Array[1].Array {
						yielded = append(yielded, k.Str)
						got++
					}
					cursor = rp.Array[0].Str
					if cursor == "0" {
						break
					}
					if !paused && got >= pause {
						paused = true
						dr, tb, ta := w.dropOldest(tables, extra)
						ctx.rep.Count("mid_keys_deleted_during_iterations", int64(dr))
						ctx.rep.Count("mid_tables_recycled_during_iterations", int64(tb-ta))
						detail = fmt.Sprintf("(partition %d: cursor %s when the iteration was paused; tables before/after %d/%d)", part, cursor, tb, ta)
					}
					if trips > 100000 {
						terminated = false
						detail = fmt.Sprintf("partition %d: %d round trips, cursor still %s", part, trips, cursor)
						break
					}
				}
				_ = cn.Close()
			}
		default:
			var dm olric.DMap
			var cc *olric.ClusterClient
			if kind == "emb" {
				dm, err = c.Live()[round%len(c.Live())].Emb.NewDMap(w.name)
			} else {
				cc, err = c.NewClusterClient()
				if err == nil {
					dm, err = cc.NewDMap(w.name)
				}
			}
			if err != nil {
				ctx.rep.Inconclusive(spec + ": NewDMap: " + err.Error())
				return
			}
			it, err := dm.Scan(context.Background(), olric.Count(count))
			if err != nil {
				ctx.rep.Inconclusive(spec + ": Scan: " + err.Error())
				return
			}
			paused := false
			for it.Next() {
				yielded = append(yielded, it.Key())
				if !paused && len(yielded) >= pause {
					paused = true
					dr, tb, ta := w.dropOldest(tables, extra)
					ctx.rep.Count("mid_keys_deleted_during_iterations", int64(dr))
					ctx.rep.Count("mid_tables_recycled_during_iterations", int64(tb-ta))
					detail = fmt.Sprintf("(tables before/after %d/%d)", tb, ta)
				}
				if len(yielded) > 50*len(w.all)+1000 {
					terminated = false
					detail = fmt.Sprintf("%d keys yielded for %d keys stored", len(yielded), len(w.all))
					break
				}
			}
			it.Close()
			if cc != nil {
				_ = cc.Close(context.Background())
			}
		}
		if c.Fingerprint() != fp {
			ctx.rep.Inconclusive(spec + ": membership/routing changed during the run")
			return
		}
		w.judge(kind, count, pause, yielded, pre, terminated, detail)
		if d, err := c.Live()[0].Emb.NewDMap(w.name); err == nil {
			_ = d.Destroy(context.Background())
		}
	}
	ctx.rep.Sample(map[string]interface{}{"config": spec, "rounds": rounds})
}
