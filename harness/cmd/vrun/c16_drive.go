package main

// C16 driver: owns a server child, sends requests, applies the liveness protocol.

import (
	"bufio"
	"encoding/hex"
	"encoding/json"
	"errors"
	"fmt"
	"io"
	"net"
	"os"
	"os/exec"
	"path/filepath"
	"regexp"
	"strconv"
	"strings"
	"sync"
	"syscall"
	"time"

	"github.com/olric-data/olric/verif/ev"
	"github.com/olric-data/olric/verif/respc"
)

// ---------------------------------------------------------------- server child handle

type c16Server struct {
	cmd     *exec.Cmd
	stdin   io.WriteCloser
	ready   c16Ready
	logPath string
	exited  chan struct{}
	keepLog bool
	snaps   chan string
}

func c16Spawn(ctx *runCtx, race bool, tag string, seq int) (*c16Server, error) {
	logPath := filepath.Join(ctx.outDir, fmt.Sprintf("srv-%s-%03d.log", tag, seq))
	logf, err := os.Create(logPath)
	if err != nil {
		return nil, err
	}
	cmd := exec.Command(selfPath(race), "C16", ctx.tier, "--child", "serve", "--out", os.DevNull)
	cmd.Stderr = logf
	cmd.Env = append(os.Environ(), "GORACE=halt_on_error=0 log_path="+filepath.Join(ctx.outDir, fmt.Sprintf("srv-%s-%03d.race", tag, seq)))
	stdin, err := cmd.StdinPipe()
	if err != nil {
		return nil, err
	}
	stdout, err := cmd.StdoutPipe()
	if err != nil {
		return nil, err
	}
	if err := cmd.Start(); err != nil {
		logf.Close()
		return nil, err
	}
	logf.Close()
	s := &c16Server{cmd: cmd, stdin: stdin, logPath: logPath, exited: make(chan struct{}), snaps: make(chan string, 4)}
	readyCh := make(chan error, 1)
	go func() {
		br := bufio.NewReaderSize(stdout, 4<<20)
		got := false
		for {
			line, err := br.ReadString('\n')
			if strings.HasPrefix(line, "READY ") && !got {
				got = true
				readyCh <- json.Unmarshal([]byte(strings.TrimSpace(strings.TrimPrefix(line, "READY "))), &s.ready)
			} else if strings.HasPrefix(line, "SNAP ") {
				select {
				case s.snaps <- strings.TrimSpace(strings.TrimPrefix(line, "SNAP ")):
				default:
				}
			}
			if err != nil {
				break
			}
		}
		if !got {
			readyCh <- errors.New("server child ended before READY")
		}
		_ = cmd.Wait()
		close(s.exited)
	}()
	select {
	case err := <-readyCh:
		if err != nil {
			s.kill()
			return nil, fmt.Errorf("%v: %s", err, lastLines(tailFile(logPath, 2000), 6))
		}
	case <-time.After(120 * time.Second):
		s.kill()
		return nil, errors.New("server child not ready within 120 s")
	}
	return s, nil
}

func (s *c16Server) alive() bool {
	select {
	case <-s.exited:
		return false
	default:
		return true
	}
}

func (s *c16Server) waitExit(d time.Duration) bool {
	select {
	case <-s.exited:
		return true
	case <-time.After(d):
		return false
	}
}

func (s *c16Server) kill() {
	if s == nil {
		return
	}
	_ = s.stdin.Close()
	if s.cmd.Process != nil {
		_ = s.cmd.Process.Kill()
	}
	s.waitExit(10 * time.Second)
	if !s.keepLog {
		_ = os.Remove(s.logPath)
	}
}

// quitDump sends SIGQUIT (goroutine dump into the log) and waits for the exit.
func (s *c16Server) quitDump() {
	if s.cmd.Process != nil {
		_ = s.cmd.Process.Signal(syscall.SIGQUIT)
	}
	if !s.waitExit(20 * time.Second) {
		_ = s.cmd.Process.Kill()
		s.waitExit(10 * time.Second)
	}
}

// snap asks the server for its goroutines that are busy inside redcon/olric code.
func (s *c16Server) snap() ([]c16Busy, bool) {
	for len(s.snaps) > 0 {
		<-s.snaps
	}
	if _, err := io.WriteString(s.stdin, "SNAP\n"); err != nil {
		return nil, false
	}
	select {
	case l := <-s.snaps:
		var res []c16Busy
		if json.Unmarshal([]byte(l), &res) != nil {
			return nil, false
		}
		return res, true
	case <-s.exited:
		return nil, false
	case <-time.After(20 * time.Second):
		return nil, false
	}
}

// cpu returns the CPU time consumed by the server process so far.
func (s *c16Server) cpu() time.Duration { u, k := s.cpu2(); return u + k }

// cpu2 returns user and system CPU time of the server process.
func (s *c16Server) cpu2() (time.Duration, time.Duration) {
	data, err := os.ReadFile(fmt.Sprintf("/proc/%d/stat", s.cmd.Process.Pid))
	if err != nil {
		return 0, 0
	}
	str := string(data)
	i := strings.LastIndexByte(str, ')')
	if i < 0 {
		return 0, 0
	}
	f := strings.Fields(str[i+1:])
	if len(f) < 13 {
		return 0, 0
	}
	ut, _ := strconv.ParseInt(f[11], 10, 64)
	st, _ := strconv.ParseInt(f[12], 10, 64)
	return time.Duration(ut) * 10 * time.Millisecond, time.Duration(st) * 10 * time.Millisecond
}

// ---------------------------------------------------------------- stall detector

type c16Heartbeat struct {
	mu   sync.Mutex
	gaps []struct {
		at  time.Time
		gap time.Duration
	}
}

func newC16Heartbeat() *c16Heartbeat {
	h := &c16Heartbeat{}
	go func() {
		last := time.Now()
		for {
			time.Sleep(20 * time.Millisecond)
			now := time.Now()
			if g := now.Sub(last) - 20*time.Millisecond; g > 100*time.Millisecond {
				h.mu.Lock()
				h.gaps = append(h.gaps, struct {
					at  time.Time
					gap time.Duration
				}{now, g})
				if len(h.gaps) > 1000 {
					h.gaps = h.gaps[500:]
				}
				h.mu.Unlock()
			}
			last = now
		}
	}()
	return h
}

func (h *c16Heartbeat) maxSince(t time.Time) time.Duration {
	h.mu.Lock()
	defer h.mu.Unlock()
	var m time.Duration
	for _, g := range h.gaps {
		if g.at.After(t) && g.gap > m {
			m = g.gap
		}
	}
	return m
}

// ---------------------------------------------------------------- log analysis

var (
	c16ReDigits = regexp.MustCompile(`\[[^\]]*\]|0x[0-9a-f]+|[0-9]+`)
	c16ReFrame  = regexp.MustCompile(`^github\.com/olric-data/olric(/[^\s(]*)?\.`)
)

func c16NormPanic(msg string) string {
	msg = strings.TrimSpace(msg)
	msg = strings.TrimPrefix(msg, "runtime error: ")
	switch {
	case strings.HasPrefix(msg, "index out of range"):
		return "index out of range"
	case strings.HasPrefix(msg, "slice bounds out of range"):
		return "slice bounds out of range"
	case strings.Contains(msg, "nil pointer dereference"):
		return "nil dereference"
	case strings.HasPrefix(msg, "makeslice"):
		return "makeslice: len out of range"
	}
	if i := strings.Index(msg, " [recovered]"); i > 0 {
		msg = msg[:i]
	}
	msg = c16ReDigits.ReplaceAllString(msg, "#")
	if len(msg) > 80 {
		msg = msg[:80]
	}
	return msg
}

// olricFrame returns the short name of the first olric (non-harness) function in a stack excerpt.
func c16OlricFrame(lines []string) string {
	for _, l := range lines {
		l = strings.TrimSpace(l)
		if !c16ReFrame.MatchString(l) || strings.HasPrefix(l, "github.com/olric-data/olric/verif/") {
			continue
		}
		if i := strings.LastIndexByte(l, '('); i > 0 {
			// cut the argument list
			depth := 0
			for j := len(l) - 1; j >= 0; j-- {
				if l[j] == ')' {
					depth++
				} else if l[j] == '(' {
					depth--
					if depth == 0 {
						i = j
						break
					}
				}
			}
			l = l[:i]
		}
		l = strings.TrimPrefix(l, "github.com/olric-data/olric/")
		if i := strings.LastIndexByte(l, '/'); i >= 0 {
			l = l[i+1:]
		}
		if l == "olric" || l == "" {
			continue
		}
		return l
	}
	return ""
}

// c16ParseCrash extracts (normalised panic, call site, excerpt) from a dead server's log.
func c16ParseCrash(log string) (string, string, string) {
	lines := strings.Split(log, "\n")
	idx := -1
	for i, l := range lines {
		if strings.HasPrefix(l, "panic: ") || strings.HasPrefix(l, "fatal error: ") || strings.HasPrefix(l, "MEMGUARD:") || strings.HasPrefix(l, "runtime: out of memory") {
			idx = i
			break
		}
	}
	if idx < 0 {
		return "", "", lastLines(log, 12)
	}
	msg := lines[idx]
	msg = strings.TrimPrefix(strings.TrimPrefix(msg, "panic: "), "fatal error: ")
	end := idx + 40
	if end > len(lines) {
		end = len(lines)
	}
	// the panicking goroutine is the first one printed
	stack := lines[idx:end]
	for i := 1; i < len(stack); i++ {
		if strings.HasPrefix(stack[i], "goroutine ") && i > 3 {
			// next goroutine begins: stop after the first block (the first "goroutine N [running]" header is within 3 lines)
			stack = stack[:i]
			break
		}
	}
	return c16NormPanic(msg), c16OlricFrame(stack), strings.Join(lines[idx:end], "\n")
}

// c16ParseWedge finds, in a SIGQUIT dump, the goroutine that is inside a command handler.
func c16ParseWedge(log string) (site, excerpt string) {
	i := strings.Index(log, "SIGQUIT: quit")
	if i < 0 {
		return "", lastLines(log, 10)
	}
	blocks := strings.Split(log[i:], "\n\n")
	best := ""
	for _, b := range blocks {
		if !strings.Contains(b, "ServeMux).ServeRESP") && !strings.Contains(b, "pubSubConn).bgrunner") {
			continue
		}
		if strings.Contains(b, "pubSubConn).bgrunner") && strings.Contains(b, "ReadCommand") {
			continue // idle subscriber loop
		}
		if best == "" || strings.Contains(b, "[running]") || strings.Contains(b, "[runnable]") {
			best = b
		}
	}
	if best == "" {
		return "", lastLines(log[i:], 10)
	}
	ls := strings.Split(best, "\n")
	if len(ls) > 30 {
		ls = ls[:30]
	}
	return c16OlricFrame(ls), strings.Join(ls, "\n")
}

// ---------------------------------------------------------------- driver

const (
	c16FastWait = 2 * time.Second
	c16CtlWait  = 2 * time.Second
	c16MaxStall = 2 * time.Second // a driver stall this long voids a "no reply" observation
)

type c16Status int

const (
	stOK c16Status = iota
	stEOF
	stWedge
	stCtlDead
	stInconclusive
	stGarbled
)

type c16Driver struct {
	ctx            *runCtx
	tag            string
	race           bool
	srv            *c16Server
	spareCh        chan *c16Server
	spawnSeq       int
	seqMu          sync.Mutex
	conns          [2]*respc.Conn
	drains         []net.Conn
	logf           *os.File
	findf          *os.File
	prev           []c16LoggedReq
	nonce          int
	hb             *c16Heartbeat
	sinceCtl       int
	sampled        int
	replay         bool
	curCmd         string
	wedgeConfirmed map[string]bool
	wedgeCount     map[string]int
	found          []c16Finding
	lastReq        *c16Req
}

func (d *c16Driver) nextSeq() int {
	d.seqMu.Lock()
	defer d.seqMu.Unlock()
	d.spawnSeq++
	return d.spawnSeq
}

func (d *c16Driver) spawnSpare() {
	go func() {
		for attempt := 0; attempt < 3; attempt++ {
			s, err := c16Spawn(d.ctx, d.race, d.tag, d.nextSeq())
			if err == nil {
				d.spareCh <- s
				return
			}
			fmt.Fprintln(os.Stderr, "spawn spare:", err)
			time.Sleep(time.Second)
		}
		d.spareCh <- nil
	}()
}

// swapServer discards the current server and switches to the spare.
func (d *c16Driver) swapServer() bool {
	d.closeConns()
	if d.srv != nil {
		d.srv.kill()
		d.srv = nil
	}
	s := <-d.spareCh
	if s == nil || !s.alive() {
		// last resort: synchronous start
		var err error
		s, err = c16Spawn(d.ctx, d.race, d.tag, d.nextSeq())
		if err != nil {
			d.ctx.rep.Inconclusive("cannot start a server child: " + err.Error())
			return false
		}
	}
	d.srv = s
	d.ctx.rep.Count("server_starts", 1)
	d.spawnSpare()
	d.startDrains()
	d.preload()
	d.sinceCtl = 0
	return true
}

// preload gives every per-command DMap two keys (numbers where the command
// needs one) and the scanned DMaps enough keys to populate every partition on
// both members, so that the handlers work on existing fragments and entries.
func (d *c16Driver) preload() {
	c, err := respc.Dial(d.srv.ready.Addrs[0])
	if err != nil {
		return
	}
	defer c.Close()
	var cmds [][]string
	for _, s := range c16Specs() {
		hasD := false
		for _, k := range s.Pos {
			if k == "D" {
				hasD = true
			}
		}
		if !hasD {
			continue
		}
		v := "value-0"
		switch s.Name {
		case "dm.incr", "dm.decr", "dm.incrbyfloat":
			v = "10"
		}
		cmds = append(cmds, []string{"DM.PUT", s.dmapName(), "k1", v}, []string{"DM.PUT", s.dmapName(), "k2", v})
	}
	for i := 0; i < 40; i++ {
		cmds = append(cmds, []string{"DM.PUT", "c16-dm.scan", fmt.Sprintf("sk%d", i), "v"}, []string{"DM.PUT", "c16-shared", fmt.Sprintf("sk%d", i), "v"})
	}
	var buf []byte
	for _, a := range cmds {
		buf = append(buf, respc.EncodeStrings(a...)...)
	}
	if err := c.WriteRaw(buf, 10*time.Second); err != nil {
		return
	}
	for range cmds {
		if _, err := c.Read(10 * time.Second); err != nil {
			return
		}
	}
	d.ctx.rep.Count("preloaded_entries", int64(len(cmds)))
}

func (d *c16Driver) closeConns() {
	for i := range d.conns {
		if d.conns[i] != nil {
			d.conns[i].Close()
			d.conns[i] = nil
		}
	}
	for _, c := range d.drains {
		c.Close()
	}
	d.drains = nil
}

// startDrains keeps one drained subscriber per member, so that PUBLISH has somebody to write to.
func (d *c16Driver) startDrains() {
	for _, addr := range d.srv.ready.Addrs {
		c, err := net.DialTimeout("tcp", addr, 2*time.Second)
		if err != nil {
			continue
		}
		_, _ = c.Write(respc.EncodeStrings("SUBSCRIBE", "c16ch"))
		_, _ = c.Write(respc.EncodeStrings("PSUBSCRIBE", "c16*"))
		go func() { _, _ = io.Copy(io.Discard, c) }()
		d.drains = append(d.drains, c)
	}
}

func (d *c16Driver) conn(target int) (*respc.Conn, error) {
	if d.conns[target] != nil {
		return d.conns[target], nil
	}
	c, err := respc.Dial(d.srv.ready.Addrs[target])
	if err != nil {
		return nil, err
	}
	d.conns[target] = c
	return c, nil
}

func (d *c16Driver) dropConn(target int) {
	if d.conns[target] != nil {
		d.conns[target].Close()
		d.conns[target] = nil
	}
}

func (d *c16Driver) newNonce() string {
	d.nonce++
	return fmt.Sprintf("c16n-%s-%d", d.tag, d.nonce)
}

func replyHas(r respc.Reply, s string) bool {
	if (r.Kind == '+' || r.Kind == '$') && r.Str == s {
		return true
	}
	for _, e := range r.Array {
		if replyHas(e, s) {
			return true
		}
	}
	return false
}

// controlPing: does a fresh connection to the member answer PING?
func (d *c16Driver) controlPing(target int) bool {
	c, err := respc.Dial(d.srv.ready.Addrs[target])
	if err != nil {
		return false
	}
	defer c.Close()
	n := d.newNonce()
	r, err := c.Do(c16CtlWait, "PING", n)
	return err == nil && replyHas(r, n)
}

// await reads replies until pred holds. A missing reply becomes stWedge only
// when the control connection kept answering and no stall was seen.
func (d *c16Driver) await(c *respc.Conn, target int, pred func(respc.Reply) bool) (c16Status, respc.Reply, string) {
	t0 := time.Now()
	var last respc.Reply
	ctlOK, ctlBad := 0, 0
	waits := []time.Duration{c16FastWait, c16FastWait, 1500 * time.Millisecond}
	if d.wedgeConfirmed[d.curCmd] {
		waits = []time.Duration{1500 * time.Millisecond, 1500 * time.Millisecond}
	} else {
		// The first suspicion for a command is confirmed the long way (25 s, 7 control
		// pings): a wedged handler never answers, so patience only costs time when the
		// defect is real. Later suspicions for the same command join the same finding.
		waits = append(waits, 5*time.Second, 5*time.Second, 5*time.Second, 5*time.Second)
	}
	for round := 0; round < len(waits); round++ {
		for n := 0; n < 100000; n++ {
			r, err := c.Read(waits[round])
			if err == nil {
				last = r
				if pred(r) {
					if round > 0 {
						d.ctx.rep.Count("slow_replies", 1)
					}
					return stOK, r, ""
				}
				continue
			}
			if errors.Is(err, respc.ErrTimeout) {
				break
			}
			var ne net.Error
			if err == io.EOF || errors.Is(err, io.ErrUnexpectedEOF) || errors.Is(err, syscall.ECONNRESET) || errors.Is(err, syscall.EPIPE) || errors.As(err, &ne) {
				return stEOF, last, err.Error()
			}
			return stGarbled, last, err.Error()
		}
		if !d.srv.alive() {
			return stEOF, last, "server process exited"
		}
		if d.controlPing(target) {
			ctlOK++
		} else {
			ctlBad++
		}
	}
	waited := time.Since(t0)
	stall := d.hb.maxSince(t0)
	info := fmt.Sprintf("no reply for %.1fs; control connection answered %d/%d PINGs; max driver stall %v", waited.Seconds(), ctlOK, ctlOK+ctlBad, stall)
	if stall > c16MaxStall {
		return stInconclusive, last, info
	}
	if ctlOK == len(waits) {
		d.wedgeConfirmed[d.curCmd] = true
		return stWedge, last, info
	}
	if ctlBad == len(waits) {
		return stCtlDead, last, info
	}
	return stInconclusive, last, info
}

func (d *c16Driver) resolve(r *c16Req) [][]byte {
	args := [][]byte{[]byte(r.Name)}
	for _, t := range r.Toks {
		switch {
		case strings.HasPrefix(t.Dyn, "payload:"):
			b, _ := hex.DecodeString(d.srv.ready.Payloads[r.Target][strings.TrimPrefix(t.Dyn, "payload:")])
			args = append(args, b)
		case t.Dyn == "coord":
			args = append(args, []byte(d.srv.ready.Coordinator))
		default:
			args = append(args, []byte(t.B))
		}
	}
	return args
}

func quoteArgs(args [][]byte) []string {
	res := make([]string, len(args))
	for i, a := range args {
		if len(a) > 600 {
			res[i] = strconv.Quote(string(a[:200])) + fmt.Sprintf("...(%d bytes, hex in replay)", len(a))
		} else {
			res[i] = strconv.Quote(string(a))
		}
	}
	return res
}

func (d *c16Driver) logReq(lr c16LoggedReq) {
	if d.logf != nil {
		b, _ := json.Marshal(lr)
		_, _ = d.logf.Write(append(b, '\n'))
	}
	d.prev = append(d.prev, lr)
	if len(d.prev) > 12 {
		d.prev = d.prev[len(d.prev)-12:]
	}
}

func (d *c16Driver) finding(r *c16Req, clause, panicMsg, site, detail, excerpt string) {
	prev := append([]c16LoggedReq(nil), d.prev...)
	var cur c16LoggedReq
	if len(prev) > 0 {
		cur = prev[len(prev)-1]
		prev = prev[:len(prev)-1]
	}
	f := c16Finding{Clause: clause, Cmd: r.Cmd, Shape: r.shape(), Ctx: r.Ctx, Panic: panicMsg, Site: site, Race: d.race, Phase: r.Phase,
		Detail: detail, Req: cur, Prev: prev, LogPath: d.srv.logPath, LogTail: excerpt}
	d.srv.keepLog = true
	d.ctx.rep.Count("finding_"+clause, 1)
	d.found = append(d.found, f)
	if d.findf != nil {
		b, _ := json.Marshal(f)
		_, _ = d.findf.Write(append(b, '\n'))
	}
}

type c16Verdict int

const (
	vdOK c16Verdict = iota
	vdViolation
	vdInconclusive
)

// judge turns a non-OK status into a finding (or an inconclusive) and replaces the server.
func (d *c16Driver) judge(r *c16Req, st c16Status, stage, info string) c16Verdict {
	what := fmt.Sprintf("%s %s %s (target member %d, %s server)", r.Cmd, r.shape(), r.Ctx, r.Target, map[bool]string{false: "normal", true: "-race"}[d.race])
	switch st {
	case stEOF:
		wait := 5 * time.Second
		if d.race {
			wait = 20 * time.Second
		}
		if d.srv.waitExit(wait) {
			log := headFileAfter(d.srv.logPath)
			pm, site, ex := c16ParseCrash(log)
			if pm == "" {
				pm = "unknown (no panic line in the server log)"
			}
			d.finding(r, "crash", pm, site, fmt.Sprintf("member process died while handling %s at stage %s: %s at %s", what, stage, pm, site), ex)
			d.swapServer()
			return vdViolation
		}
		// the connection was closed but the process lives
		if stage == "request" || stage == "ping" {
			// is the member still serving others?
			if d.controlPing(r.Target) {
				d.finding(r, "closed", "", "", fmt.Sprintf("connection closed without a reply at stage %s for %s (%s); the member is alive", stage, what, info), "")
				d.dropConn(r.Target)
				return vdViolation
			}
		}
		d.ctx.rep.Inconclusive(fmt.Sprintf("connection error at stage %s for %s: %s", stage, what, info))
		d.swapServer()
		return vdInconclusive
	case stWedge, stCtlDead:
		c0 := d.srv.cpu()
		time.Sleep(300 * time.Millisecond)
		burn := d.srv.cpu() - c0
		kind := "blocked"
		if burn > 60*time.Millisecond {
			kind = "spinning"
		}
		site, ex := "", ""
		d.wedgeCount[r.Cmd]++
		if d.wedgeCount[r.Cmd] <= 3 {
			d.srv.quitDump()
			site, ex = c16ParseWedge(headFileAfter(d.srv.logPath))
		} // later wedges of the same command: no goroutine dump, the server is just replaced
		clause := "wedge"
		if st == stCtlDead {
			clause = "wedge-member"
		}
		if stage == "ping" {
			clause = "noping"
		}
		if stage == "request-unanswered-but-connection-serves-ping" {
			clause = "noreply"
		}
		d.finding(r, clause, "", site, fmt.Sprintf("%s at stage %s for %s: %s; handler goroutine is %s (server CPU %v in 300 ms) in %s", clause, stage, what, info, kind, burn, site), ex)
		d.swapServer()
		return vdViolation
	case stGarbled:
		d.ctx.rep.Count("garbled_replies", 1)
		d.dropConn(r.Target)
		return vdOK
	}
	d.swapServer()
	return vdInconclusive
}

func headFileAfter(path string) string {
	data, err := os.ReadFile(path)
	if err != nil {
		return ""
	}
	if len(data) > 8<<20 {
		data = data[len(data)-(8<<20):]
	}
	return string(data)
}

func isSubscribeName(n string) bool {
	l := strings.ToLower(n)
	return l == "subscribe" || l == "psubscribe"
}

// execStructured runs one argument-vector request with the full oracle.
func (d *c16Driver) execStructured(r *c16Req) c16Verdict {
	if !d.srv.alive() {
		// died between requests: attribute to the previous request
		pm, site, ex := c16ParseCrash(headFileAfter(d.srv.logPath))
		if d.lastReq != nil {
			rr := *d.lastReq
			rr.Ctx = "async"
			d.finding(&rr, "crash", pm, site, "member process died after this request had been answered (asynchronous): "+pm, ex)
		}
		d.swapServer()
	}
	args := d.resolve(r)
	lr := c16LoggedReq{N: r.N, Target: r.Target, Sub: r.Sub, Args: quoteArgs(args)}
	d.logReq(lr)

	var c *respc.Conn
	var err error
	if r.Sub {
		c, err = respc.Dial(d.srv.ready.Addrs[r.Target])
		if err == nil {
			defer c.Close()
		}
	} else {
		c, err = d.conn(r.Target)
	}
	if err != nil {
		return d.judge(r, stEOF, "dial", err.Error())
	}
	any := func(respc.Reply) bool { return true }
	if r.Sub {
		if err := c.WriteRaw(respc.EncodeStrings("SUBSCRIBE", "c16sub"), 5*time.Second); err != nil {
			return d.judge(r, stEOF, "enter-subscribed-mode", err.Error())
		}
		if st, _, info := d.await(c, r.Target, any); st != stOK {
			return d.judge(r, st, "enter-subscribed-mode", info)
		}
	}
	lname := strings.ToLower(r.Name)
	if lname == "dm.lock" && len(args) >= 3 && !r.Sub && r.Ctx != "held-lock" {
		// make sure the lock is free: the deadline must never be legitimately waited on
		if err := c.WriteRaw(respc.Encode([]byte("DM.DEL"), args[1], args[2]), 5*time.Second); err != nil {
			return d.judge(r, stEOF, "pre-clean", err.Error())
		}
		if st, _, info := d.await(c, r.Target, any); st != stOK {
			return d.judge(r, st, "pre-clean", info)
		}
	}
	if err := c.WriteRaw(respc.Encode(args...), 10*time.Second); err != nil {
		return d.judge(r, stEOF, "write", err.Error())
	}
	st, reply, info := d.await(c, r.Target, any)
	if st != stOK {
		if !r.Sub {
			d.conns[r.Target] = nil
			defer c.Close()
		}
		if st == stWedge {
			// is the connection stuck, or was the request just never answered?
			n := d.newNonce()
			if err := c.WriteRaw(respc.EncodeStrings("PING", n), 3*time.Second); err == nil {
				deadline := time.Now().Add(3 * time.Second)
				for time.Now().Before(deadline) {
					x, err := c.Read(time.Until(deadline))
					if err != nil {
						break
					}
					if replyHas(x, n) {
						return d.judge(r, st, "request-unanswered-but-connection-serves-ping", info+"; a PING sent afterwards on the same connection was answered")
					}
				}
			}
		}
		return d.judge(r, st, "request", info)
	}
	d.prev[len(d.prev)-1].Reply = trunc200(reply.String())
	if reply.IsErr() {
		d.ctx.rep.Count("replies_error", 1)
		d.ctx.rep.SetAdd("error_reply_heads", errHead(reply.Str))
	} else {
		d.ctx.rep.Count("replies_ok", 1)
	}
	if r.Sub && lname == "quit" {
		// the detached loop answers +OK and closes: nothing more to ask on this connection
		d.ctx.rep.Count("subscribed_quit", 1)
	} else {
		n := d.newNonce()
		if err := c.WriteRaw(respc.EncodeStrings("PING", n), 5*time.Second); err != nil {
			if !r.Sub {
				d.conns[r.Target] = nil
				defer c.Close()
			}
			return d.judge(r, stEOF, "ping", err.Error())
		}
		st, pong, info := d.await(c, r.Target, func(x respc.Reply) bool { return replyHas(x, n) })
		if st != stOK {
			if !r.Sub {
				d.conns[r.Target] = nil
				defer c.Close()
			}
			return d.judge(r, st, "ping", info)
		}
		if pong.Kind == '*' {
			d.ctx.rep.Count("pong_pushes_in_subscribed_mode", 1)
		}
	}
	if !r.Sub && isSubscribeName(r.Name) {
		d.dropConn(r.Target) // the connection is in subscribed mode now
	}
	if d.sampled < 2 && (r.Phase == "random" || r.Phase == "tail") && len(r.Toks) >= 3 && r.N%97 == 0 {
		d.sampled++
		d.ctx.rep.Sample(map[string]interface{}{"request": d.prev[len(d.prev)-1], "cmd": r.Cmd, "shape": r.shape(), "phase": r.Phase, "race_server": d.race})
	}
	return vdOK
}

func trunc200(s string) string {
	if len(s) > 200 {
		return s[:200] + "..."
	}
	return s
}

func errHead(s string) string {
	f := strings.Fields(s)
	n := 4
	if len(f) < n {
		n = len(f)
	}
	h := strings.Join(f[:n], " ")
	h = c16ReDigits.ReplaceAllString(h, "#")
	if len(h) > 48 {
		h = h[:48]
	}
	return strings.ToValidUTF8(h, "?")
}

// execRaw writes a raw byte stream on a fresh connection.
func (d *c16Driver) execRaw(r *c16Req) c16Verdict {
	if !d.srv.alive() {
		d.swapServer()
	}
	d.logReq(c16LoggedReq{N: r.N, Target: r.Target, Raw: strconv.Quote(trunc2k(r.Raw))})
	addr := d.srv.ready.Addrs[r.Target]
	nc, err := net.DialTimeout("tcp", addr, 2*time.Second)
	if err != nil {
		return d.judge(r, stEOF, "dial", err.Error())
	}
	_ = nc.SetWriteDeadline(time.Now().Add(10 * time.Second))
	_, _ = nc.Write([]byte(r.Raw)) // the server may close early: not an error
	t0 := time.Now()
	buf := make([]byte, 4096)
	got := 0
	if r.RawComplete {
		// a reply or a close is due
		deadline := []time.Duration{c16FastWait, c16FastWait, 1500 * time.Millisecond}
		if !d.wedgeConfirmed["raw"] {
			deadline = append(deadline, 5*time.Second, 5*time.Second, 5*time.Second, 5*time.Second)
		}
		ctlOK := 0
		answered := false
		for round := 0; round < len(deadline) && !answered; round++ {
			_ = nc.SetReadDeadline(time.Now().Add(deadline[round]))
			n, err := nc.Read(buf)
			got += n
			if n > 0 || err == io.EOF || (err != nil && !isTimeout(err)) {
				answered = true
				break
			}
			if d.controlPing(r.Target) {
				ctlOK++
			}
		}
		if !answered {
			nc.Close()
			stall := d.hb.maxSince(t0)
			info := fmt.Sprintf("no byte and no close for %.1fs after a stream that ends on a command boundary; control answered %d/%d; stall %v", time.Since(t0).Seconds(), ctlOK, len(deadline), stall)
			if stall > c16MaxStall || (ctlOK != 0 && ctlOK != len(deadline)) {
				return d.judge(r, stInconclusive, "raw", info)
			}
			if ctlOK == len(deadline) {
				d.wedgeConfirmed["raw"] = true
				return d.judge(r, stWedge, "request", info)
			}
			return d.judge(r, stCtlDead, "request", info)
		}
	} else {
		_ = nc.SetReadDeadline(time.Now().Add(15 * time.Millisecond))
		n, _ := nc.Read(buf)
		got += n
	}
	if got > 0 {
		d.ctx.rep.Count("raw_streams_answered", 1)
	}
	nc.Close()
	// the member must still serve a fresh connection
	c, err := respc.Dial(addr)
	if err != nil {
		return d.judge(r, stEOF, "dial-after-raw", err.Error())
	}
	defer c.Close()
	n := d.newNonce()
	if err := c.WriteRaw(respc.EncodeStrings("PING", n), 5*time.Second); err != nil {
		return d.judge(r, stEOF, "ping-after-raw", err.Error())
	}
	st, _, info := d.await(c, r.Target, func(x respc.Reply) bool { return replyHas(x, n) })
	if st != stOK {
		return d.judge(r, st, "ping-after-raw", info)
	}
	c.Close()
	if d.spinProbe(r) {
		return vdViolation
	}
	return vdOK
}

func trunc2k(s string) string {
	if len(s) > 2000 {
		return s[:2000]
	}
	return s
}

func isTimeout(err error) bool {
	var ne net.Error
	return errors.As(err, &ne) && ne.Timeout()
}

// control: fresh connections to both members must serve PING and a write/read pair.
func (d *c16Driver) control(r *c16Req) c16Verdict {
	d.ctx.rep.Count("fresh_connection_checks", 1)
	for t, addr := range d.srv.ready.Addrs {
		c, err := respc.Dial(addr)
		if err != nil {
			return d.judge(r, stEOF, "control-dial", err.Error())
		}
		n := d.newNonce()
		steps := [][]string{{"PING", n}, {"DM.PUT", "c16-ctl", "ck" + strconv.Itoa(t), n}, {"DM.GET", "c16-ctl", "ck" + strconv.Itoa(t)}}
		for _, s := range steps {
			if err := c.WriteRaw(respc.EncodeStrings(s...), 5*time.Second); err != nil {
				c.Close()
				return d.judge(r, stEOF, "control", err.Error())
			}
			st, rep, info := d.await(c, t, func(respc.Reply) bool { return true })
			if st != stOK {
				c.Close()
				if st == stWedge || st == stCtlDead {
					// a fresh connection is not served although PING is: some shared resource is stuck
					rr := *r
					d.srv.quitDump()
					site, ex := c16ParseWedge(headFileAfter(d.srv.logPath))
					d.finding(&rr, "ctl-dead", "", site, fmt.Sprintf("fresh connection to member %d got no reply to %v after the request: %s", t, s[0], info), ex)
					d.swapServer()
					return vdViolation
				}
				return d.judge(r, st, "control", info)
			}
			if s[0] == "DM.GET" && !(rep.Kind == '$' && rep.Str == n) {
				d.ctx.rep.Count("control_get_mismatch", 1)
			}
		}
		c.Close()
	}
	if d.spinProbe(r) {
		return vdViolation
	}
	return vdOK
}

// spinProbe: with no request in flight and the client side of every test
// connection closed, no goroutine of the RESP server or of olric may stay busy.
// The server child lists its goroutines that are running or runnable inside
// redcon/olric code; one that is in that list in four snapshots spread over
// >= 1.5 s, always in the same function, is spinning. This does not depend on
// how much CPU the loaded machine grants the process.
func (d *c16Driver) spinProbe(r *c16Req) bool {
	if !d.srv.alive() {
		return false
	}
	d.ctx.rep.Count("busy_goroutine_probes", 1)
	busy, ok := d.srv.snap()
	if !ok || len(busy) == 0 {
		return false
	}
	cand := map[string]c16Busy{}
	for _, b := range busy {
		cand[b.ID] = b
	}
	for _, w := range []time.Duration{300 * time.Millisecond, 500 * time.Millisecond, 700 * time.Millisecond} {
		time.Sleep(w)
		busy, ok = d.srv.snap()
		if !ok {
			return false
		}
		next := map[string]c16Busy{}
		for _, b := range busy {
			if c, in := cand[b.ID]; in && c.Top == b.Top {
				next[b.ID] = b
			}
		}
		cand = next
		if len(cand) == 0 {
			d.ctx.rep.Count("busy_goroutine_probes_transient", 1)
			return false
		}
	}
	// "Forever" is judged in CPU time, which does not depend on the machine load: the
	// goroutine must still be busy in the same function after the process has burnt
	// 5 s of user CPU since it was first seen (the longest finite loop seen, 2^31 iterations, needs < 1 s) (a long but finite loop is a diagnostic).
	t0 := time.Now()
	c0, _ := d.srv.cpu2()
	for {
		time.Sleep(500 * time.Millisecond)
		busy, ok = d.srv.snap()
		if !ok {
			return false
		}
		next := map[string]c16Busy{}
		for _, b := range busy {
			if c, in := cand[b.ID]; in && c.Top == b.Top {
				next[b.ID] = b
			}
		}
		cand = next
		c1, _ := d.srv.cpu2()
		if len(cand) == 0 {
			d.ctx.rep.Count("busy_goroutine_long_but_finite(diagnostic)", 1)
			fmt.Fprintf(os.Stderr, "LONG-BUT-FINITE request %d %s %s: a goroutine stayed busy for %v (%v user CPU) after the connection was closed\n", r.N, r.Cmd, r.shape(), time.Since(t0)+1500*time.Millisecond, c1-c0)
			return false
		}
		if c1-c0 >= 5*time.Second {
			break
		}
		if time.Since(t0) > 4*time.Minute {
			d.ctx.rep.Inconclusive(fmt.Sprintf("request %d %s %s: a goroutine stays busy but the server got only %v CPU in 4 minutes", r.N, r.Cmd, r.shape(), c1-c0))
			d.swapServer()
			return false
		}
	}
	var first c16Busy
	for _, b := range cand {
		if first.ID == "" || b.ID < first.ID {
			first = b
		}
	}
	c1, _ := d.srv.cpu2()
	d.finding(r, "spin", "", first.Top, fmt.Sprintf("after %s %s the server keeps %d goroutine(s) busy in %s although the client has closed the connection and nothing is in flight: still there after %v and %v of user CPU", r.Cmd, r.shape(), len(cand), first.Top, time.Since(t0)+1500*time.Millisecond, c1-c0), first.Stack)
	d.swapServer()
	return true
}

func (d *c16Driver) run(r *c16Req) {
	d.curCmd = r.Cmd
	for attempt := 0; attempt < 2; attempt++ {
		var v c16Verdict
		t0 := time.Now()
		defer func() {
			el := time.Since(t0)
			d.ctx.rep.Count("ms_phase_"+r.Phase, el.Milliseconds())
			if el > 500*time.Millisecond {
				fmt.Fprintf(os.Stderr, "SLOW %v request %d %s %s %s sub=%v\n", el, r.N, r.Phase, r.Cmd, r.shape(), r.Sub)
			}
		}()
		if r.Phase == "raw" {
			v = d.execRaw(r)
		} else {
			v = d.execStructured(r)
		}
		if v == vdInconclusive {
			if d.srv == nil {
				return
			}
			if attempt == 0 {
				d.ctx.rep.Count("reruns_after_inconclusive", 1)
				continue
			}
			d.ctx.rep.Inconclusive(fmt.Sprintf("request %d (%s %s) gave no verdict twice", r.N, r.Cmd, r.shape()))
			return
		}
		d.lastReq = r
		d.ctx.rep.Eval(1)
		sub := ""
		if r.Sub {
			sub = "|subscribed"
		}
		d.ctx.rep.Distinct(r.Cmd + sub + "|" + r.shape())
		d.ctx.rep.Count("requests_phase_"+r.Phase, 1)
		d.ctx.rep.Count(fmt.Sprintf("requests_to_member_%d", r.Target), 1)
		if d.race {
			d.ctx.rep.Count("requests_on_race_server", 1)
		} else {
			d.ctx.rep.Count("requests_on_normal_server", 1)
		}
		d.ctx.rep.SetAdd("commands", r.Cmd)
		if v == vdOK {
			d.sinceCtl++
			if d.sinceCtl >= 200 {
				d.sinceCtl = 0
				d.control(r)
			}
		}
		return
	}
}

func c16Drive(ctx *runCtx, spec string) {
	var shard, nshards, race int
	if _, err := fmt.Sscanf(spec, "drive:shard=%d/%d:race=%d", &shard, &nshards, &race); err != nil {
		fmt.Fprintln(os.Stderr, "bad spec", spec)
		os.Exit(2)
	}
	tag := fmt.Sprintf("s%02d", shard)
	d := &c16Driver{ctx: ctx, tag: tag, race: race == 1, spareCh: make(chan *c16Server, 1), hb: newC16Heartbeat(), wedgeConfirmed: map[string]bool{}, wedgeCount: map[string]int{}}
	var err error
	d.logf, err = os.Create(filepath.Join(ctx.outDir, "requests-"+tag+".log"))
	if err != nil {
		fmt.Fprintln(os.Stderr, err)
		os.Exit(2)
	}
	d.findf, err = os.Create(filepath.Join(ctx.outDir, "findings-"+tag+".jsonl"))
	if err != nil {
		fmt.Fprintln(os.Stderr, err)
		os.Exit(2)
	}
	defer d.logf.Close()
	defer d.findf.Close()

	plan := c16BuildPlan(ctx.seed, ctx.tier)
	d.spawnSpare()
	if !d.swapServer() {
		return
	}
	defer func() {
		d.closeConns()
		if d.srv != nil {
			d.srv.kill()
		}
		select {
		case s := <-d.spareCh:
			s.kill()
		case <-time.After(130 * time.Second):
		}
		// race reports are diagnostics only
		if rf, _ := filepath.Glob(filepath.Join(ctx.outDir, "srv-"+tag+"-*.race.*")); len(rf) > 0 {
			ctx.rep.Count("race_report_files(diagnostic)", int64(len(rf)))
		}
	}()
	var last *c16Req
	only := map[int]bool{}
	for _, f := range strings.Split(os.Getenv("C16_ONLY"), ",") {
		if n, err := strconv.Atoi(strings.TrimSpace(f)); err == nil {
			only[n] = true
		}
	}
	for i := range plan.Reqs {
		r := &plan.Reqs[i]
		if r.Unit%nshards != shard || (len(only) > 0 && !only[r.N]) {
			continue
		}
		if d.srv == nil {
			ctx.rep.Inconclusive("no server: stopping driver " + tag)
			return
		}
		d.run(r)
		last = r
	}
	_ = last
}

// ---------------------------------------------------------------- replay

// c16Replay re-sends the stored request sequence (previous requests, then the
// culprit) to a fresh server and reports whether the member dies or wedges again.
func c16Replay(ctx *runCtx, path string) int {
	var doc struct {
		Key    string `json:"key"`
		Replay struct {
			Finding c16Finding `json:"finding"`
		} `json:"replay"`
	}
	if err := readJSON(path, &doc); err != nil {
		fmt.Fprintln(os.Stderr, err)
		return 2
	}
	f := doc.Replay.Finding
	_ = os.MkdirAll(ctx.outDir, 0o755)
	ctx.rep = nil
	fmt.Printf("replaying %s\n", doc.Key)
	// The argument vectors in a finding are Go-quoted; payload arguments depend on the
	// server instance (member ids), so the culprit is re-generated from the plan by its number.
	seed := ctx.seed
	for _, tier := range []string{"quick", "thorough"} {
		plan := c16BuildPlan(seed, tier)
		if f.Req.N >= len(plan.Reqs) {
			continue
		}
		r := plan.Reqs[f.Req.N]
		if r.Cmd != f.Cmd || r.shape() != f.Shape {
			continue
		}
		rc := &runCtx{prop: "C16", tier: tier, seed: seed, outDir: ctx.outDir, rep: ev.New("C16", "exploration", tier)}
		d := &c16Driver{ctx: rc, tag: "replay", race: f.Race, spareCh: make(chan *c16Server, 1), hb: newC16Heartbeat(), replay: true, wedgeConfirmed: map[string]bool{}, wedgeCount: map[string]int{}}
		d.spawnSpare()
		if !d.swapServer() {
			return 2
		}
		// previous requests of the same shard give the state context
		var seq []c16Req
		for _, p := range f.Prev {
			if p.N < len(plan.Reqs) {
				seq = append(seq, plan.Reqs[p.N])
			}
		}
		seq = append(seq, r)
		for i := range seq {
			d.run(&seq[i])
			if d.srv == nil {
				break
			}
		}
		d.closeConns()
		if d.srv != nil {
			d.srv.kill()
		}
		select {
		case s := <-d.spareCh:
			s.kill()
		case <-time.After(130 * time.Second):
		}
		if len(d.found) > 0 {
			for _, x := range d.found {
				fmt.Printf("REPRODUCED %s\n  %s\n", x.key(), x.Detail)
			}
			return 1
		}
		fmt.Println("not reproduced: every request was answered and the member stayed alive")
		return 0
	}
	fmt.Fprintln(os.Stderr, "the stored request does not belong to the plan of this seed (set VERIF_SEED to the seed in the replay file)")
	return 2
}
