package main

// C11 scale cases (added after a red-team change that only shows with more than 1000 live
// entries in a compacted table): default-sized tables with tens of thousands of small
// entries, deletes and overwrites that push tables over the garbage threshold, compaction
// to completion, comparison with the reference map by Length, Range, Get and full Scan.

import (
	"fmt"
	"math/rand"

	"github.com/olric-data/olric/internal/kvstore/entry"
	"github.com/olric-data/olric/pkg/storage"
)

func c11Scale(ctx *runCtx, seed int64, n int, ts uint64) {
	rng := rand.New(rand.NewSource(seed))
	eng := newC11Engine(ts, seed%2 == 0)
	model := map[uint64]string{}
	hk := func(i int) uint64 { return 0x9e3779b97f4a7c15*uint64(i+1) ^ 0x5bd1e995 }
	put := func(i int, v string) bool {
		e := entry.New()
		e.SetKey(fmt.Sprintf("key-%07d", i))
		e.SetValue([]byte(v))
		e.SetTimestamp(int64(i))
		if err := eng.Put(hk(i), e); err != nil {
			ctx.rep.Violate("c11|scale|put-error", err.Error(), map[string]interface{}{"seed": seed})
			return false
		}
		model[hk(i)] = v
		return true
	}
	spec := fmt.Sprintf("scale seed=%d n=%d ts=%d", seed, n, ts)
	check := func(phase string) bool {
		if l := eng.Stats().Length; l != len(model) {
			ctx.rep.Violate("c11|scale|length|"+phase, fmt.Sprintf("%s: Stats().Length=%d, %d keys present", spec, l, len(model)), map[string]interface{}{"seed": seed, "n": n, "ts": ts, "phase": phase})
			return false
		}
		seen := 0
		bad := ""
		eng.Range(func(h uint64, e storage.Entry) bool {
			seen++
			if want, ok := model[h]; !ok || want != string(e.Value()) {
				bad = e.Key()
				return false
			}
			return true
		})
		if bad != "" || seen != len(model) {
			ctx.rep.Violate("c11|scale|range|"+phase, fmt.Sprintf("%s: Range visited %d keys (%d present), first wrong key %q", spec, seen, len(model), bad), map[string]interface{}{"seed": seed, "n": n, "ts": ts, "phase": phase})
			return false
		}
		miss := 0
		for h, want := range model {
			e, err := eng.Get(h)
			if err != nil || string(e.Value()) != want {
				miss++
			}
		}
		if miss != 0 {
			ctx.rep.Violate("c11|scale|get-missing|"+phase, fmt.Sprintf("%s: %d of %d present keys cannot be read back", spec, miss, len(model)), map[string]interface{}{"seed": seed, "n": n, "ts": ts, "phase": phase})
			return false
		}
		// full scan
		keys := 0
		cursor := uint64(0)
		for steps := 0; steps < len(model)+4*eng.Stats().NumTables+16; steps++ {
			var err error
			cursor, err = eng.Scan(cursor, 1000, func(e storage.Entry) bool { keys++; return true })
			if err != nil || cursor == 0 {
				break
			}
		}
		if keys != len(model) {
			ctx.rep.Violate("c11|scale|scan|"+phase, fmt.Sprintf("%s: a full scan yields %d keys, %d present", spec, keys, len(model)), map[string]interface{}{"seed": seed, "n": n, "ts": ts, "phase": phase})
			return false
		}
		return true
	}
	compact := func() bool {
		bound := 4*eng.Stats().NumTables + len(model)/500 + 16
		for i := 0; i < bound; i++ {
			done, err := eng.Compaction()
			if err != nil {
				ctx.rep.Violate("c11|scale|compaction-error", err.Error(), map[string]interface{}{"seed": seed})
				return false
			}
			if done {
				return true
			}
		}
		ctx.rep.Violate("c11|scale|compaction-not-done", fmt.Sprintf("%s: compaction not done within %d steps", spec, bound), map[string]interface{}{"seed": seed, "n": n, "ts": ts})
		return false
	}
	val := func(i, gen int) string {
		return fmt.Sprintf("value-%d-%d-%s", i, gen, "xxxxxxxxxxxxxxxxxxxxxxxx"[:rng.Intn(24)])
	}
	for i := 0; i < n; i++ {
		if !put(i, val(i, 0)) {
			return
		}
	}
	if !check("filled") {
		return
	}
	// delete every second key: every table is at ~50% garbage with thousands of live entries
	for i := 0; i < n; i += 2 {
		_ = eng.Delete(hk(i))
		delete(model, hk(i))
	}
	if !compact() || !check("deleted-half+compacted") {
		return
	}
	// overwrite a random third, delete a random tenth, compact again (recycled tables are reused)
	for i := 1; i < n; i += 2 {
		switch rng.Intn(10) {
		case 0, 1, 2:
			if !put(i, val(i, 1)) {
				return
			}
		case 3:
			_ = eng.Delete(hk(i))
			delete(model, hk(i))
		}
	}
	if !compact() || !check("churned+compacted") {
		return
	}
	for i := 0; i < n; i += 3 {
		if !put(i, val(i, 2)) {
			return
		}
	}
	if !compact() || !check("refilled+compacted") {
		return
	}
	ctx.rep.Eval(1)
	ctx.rep.Distinct(fmt.Sprintf("scale|n=%d|ts=%d|idle0=%v", n, ts, seed%2 == 0))
	ctx.rep.Count("scale_entries_written", int64(n))
}
