package main

// C14 oracle: judges the recorded connection logs and publish records.

import (
	"fmt"
	"strings"
)

const (
	c14Never = iota
	c14PendingOpen
	c14Open
	c14PendingClose
	c14Closed
)

type c14SubKey struct {
	pat  bool
	name string
}

type c14DKey struct {
	uid  int
	pat  bool
	name string
}

func c14Kind(pat bool) string {
	if pat {
		return "pmessage"
	}
	return "message"
}

func c14Tail(evs []c14Event, upto, n int) string {
	from := upto - n
	if from < 0 {
		from = 0
	}
	var s []string
	for _, e := range evs[from : upto+1] {
		s = append(s, e.String())
	}
	return strings.Join(s, " ")
}

func (x *c14Exec) memberRel(r *c14PubRec, subscriberMember int) string {
	switch {
	case r.Via < 0:
		return "subscriber-on-some-member"
	case r.Via == subscriberMember:
		return "subscriber-on-same-member"
	}
	return "subscriber-on-other-member"
}

func (x *c14Exec) analyze() {
	byPayload := map[string]*c14PubRec{}
	for _, r := range x.pubs {
		byPayload[r.Payload] = r
	}
	deliv := map[string]map[c14DKey]int{} // payload -> (connection, subscription) -> deliveries
	perConn := map[string]map[int]int{}   // payload -> connection -> deliveries
	connByUID := map[int]*c14ConnRec{}

	for _, cr := range x.all {
		connByUID[cr.UID] = cr
		evs := cr.lg.snapshot()
		status := map[c14SubKey]int{}
		lastSeq := map[int]int{}
		for i, e := range evs {
			switch e.K {
			case "send":
				pat := e.Op == "psub" || e.Op == "punsub"
				switch e.Op {
				case "sub", "psub":
					for _, n := range e.Names {
						k := c14SubKey{pat, n}
						if status[k] != c14Open {
							status[k] = c14PendingOpen
						}
					}
				case "unsub", "punsub":
					if len(e.Names) == 0 {
						for k, s := range status {
							if k.pat == pat && (s == c14Open || s == c14PendingOpen) {
								status[k] = c14PendingClose
							}
						}
					}
					for _, n := range e.Names {
						k := c14SubKey{pat, n}
						if s := status[k]; s == c14Open || s == c14PendingOpen {
							status[k] = c14PendingClose
						}
					}
				}
			case "sub", "psub":
				status[c14SubKey{e.K == "psub", e.Name}] = c14Open
			case "unsub", "punsub":
				if !e.Null {
					status[c14SubKey{e.K == "punsub", e.Name}] = c14Closed
				}
			case "pong":
				// the server has processed everything sent before the PING
				for k, s := range status {
					switch s {
					case c14PendingClose:
						status[k] = c14Closed
					case c14PendingOpen:
						status[k] = c14Open
					}
				}
			case "other":
				x.fail("connection c%d (member %d) received an unexpected reply: %s", cr.Slot, cr.Member, e.Payload)
			case "msg", "pmsg":
				pat := e.K == "pmsg"
				x.res.Counters["deliveries_observed"]++
				if pat {
					x.res.Counters["deliveries_via_pattern"]++
				}
				r := byPayload[e.Payload]
				if r == nil {
					x.violate("c14|corrupt|unknown-payload", "connection c%d (member %d) received %s, which nobody published", cr.Slot, cr.Member, e.String())
					continue
				}
				if r.Chan != e.Chan {
					x.violate("c14|corrupt|wrong-channel", "connection c%d (member %d) received %s, but that message was published on %q", cr.Slot, cr.Member, e.String(), r.Chan)
					continue
				}
				if r.Via >= 0 && r.Via != cr.Member {
					x.res.Counters["deliveries_cross_member"]++
					x.res.Features["cross-member-delivery"] = true
				}
				matches := (!pat && e.Name == e.Chan) || (pat && c14Glob(e.Name, e.Chan))
				if !matches {
					x.violate("c14|spurious|nonmatching-"+c14Kind(pat), "connection c%d (member %d) received %s through a subscription that does not match the channel; stream: %s", cr.Slot, cr.Member, e.String(), c14Tail(evs, i, 6))
				}
				k := c14SubKey{pat, e.Name}
				switch status[k] {
				case c14Closed:
					x.violate("c14|spurious|after-unsubscribe|"+c14Kind(pat), "connection c%d (member %d) received %s (published at step %d via member %d) after its %s of %q had been acknowledged; stream: %s",
						cr.Slot, cr.Member, e.String(), r.Step, r.Via, map[bool]string{false: "UNSUBSCRIBE", true: "PUNSUBSCRIBE"}[pat], e.Name, c14Tail(evs, i, 8))
				case c14Never:
					x.violate("c14|spurious|never-subscribed|"+c14Kind(pat), "connection c%d (member %d) received %s without ever having subscribed to %q; stream: %s", cr.Slot, cr.Member, e.String(), e.Name, c14Tail(evs, i, 8))
				}
				if last, ok := lastSeq[r.Publisher]; ok && r.Seq < last {
					x.violate("c14|order|"+c14Kind(pat)+"|"+x.memberRel(r, cr.Member), "connection c%d (member %d) received message %d of publisher P%d after message %d of the same publisher; stream: %s", cr.Slot, cr.Member, r.Seq, r.Publisher, last, c14Tail(evs, i, 8))
				} else {
					lastSeq[r.Publisher] = r.Seq
				}
				if deliv[e.Payload] == nil {
					deliv[e.Payload] = map[c14DKey]int{}
					perConn[e.Payload] = map[int]int{}
				}
				deliv[e.Payload][c14DKey{cr.UID, pat, e.Name}]++
				perConn[e.Payload][cr.UID]++
			}
		}
	}

	for _, r := range x.pubs {
		if r.Err != "" {
			continue
		}
		x.res.Counters["publishes"]++
		x.res.Counters["publishes_"+r.Phase]++
		d := deliv[r.Payload]
		total := int64(0)
		for k, n := range d {
			total += int64(n)
			if n > 1 {
				cr := connByUID[k.uid]
				x.violate("c14|duplicate|"+c14Kind(k.pat)+"|"+x.memberRel(r, cr.Member)+"|"+r.Phase,
					"message %s (channel %q, step %d, via member %d) was delivered %d times to connection c%d (member %d) through its %s subscription %q", r.Payload, r.Chan, r.Step, r.Via, n, cr.Slot, cr.Member, c14Kind(k.pat), k.name)
			}
		}
		// situations
		if r.NonMatchingPats > 0 {
			x.res.Features["nonmatching-pattern-at-publish"] = true
			x.res.Counters["publishes_with_nonmatching_pattern"]++
		}
		if len(r.Must) == 0 && len(r.May) == 0 {
			x.res.Features["publish-without-subscriber"] = true
		}
		mustPerConn := map[int]int{}
		for _, m := range r.Must {
			mustPerConn[m.UID]++
			if m.Pat {
				x.res.Features["pattern-match"] = true
			} else {
				x.res.Features["channel-match"] = true
			}
		}
		if len(mustPerConn) > 1 {
			x.res.Features["several-subscriber-connections"] = true
		}
		for _, n := range mustPerConn {
			if n > 1 {
				x.res.Features["overlap-on-one-connection"] = true
				x.res.Counters["publishes_with_overlapping_subscriptions"]++
				break
			}
		}
		x.res.Counters["deliveries_required"] += int64(len(r.Must))
		// every established, untouched, matching subscription must have received it
		for _, m := range r.Must {
			if d[c14DKey{m.UID, m.Pat, m.Name}] > 0 {
				continue
			}
			cr := connByUID[m.UID]
			if perConn[r.Payload][m.UID] == 1 && mustPerConn[m.UID] > 1 {
				// one delivery per connection instead of one per subscription: accepted
				x.res.Counters["per_connection_delivery_accepted"]++
				continue
			}
			x.violate("c14|missed|"+x.memberRel(r, cr.Member)+"|"+c14Kind(m.Pat)+"|"+r.Phase,
				"message %s published on %q (step %d, via member %d, PUBLISH returned %d) never reached connection c%d (member %d), whose %s subscription %q was acknowledged before the publish was sent; that connection received %d copies in total",
				r.Payload, r.Chan, r.Step, r.Via, r.Ret, cr.Slot, cr.Member, c14Kind(m.Pat), m.Name, perConn[r.Payload][m.UID])
		}
		if len(r.May) > 0 {
			got := 0
			for _, m := range r.May {
				for k, n := range d {
					if k.pat == m.Pat && k.name == m.Name && connByUID[k.uid].Slot == m.Slot {
						got += n
					}
				}
			}
			if got > 0 {
				x.res.Counters["in_flight_subscriptions_that_received"]++
			} else {
				x.res.Counters["in_flight_subscriptions_that_did_not_receive"]++
			}
		}
		// PUBLISH's return value equals the number of deliveries
		if r.Ret != total {
			shape := "under"
			if r.Ret > total {
				shape = "over"
				if r.NonMatchingPats > 0 {
					shape = "nonmatching-pattern-present"
				}
			}
			x.violate("c14|publish-count|"+shape, "PUBLISH %s %s (step %d, via member %d, %s) returned %d but %d deliveries were observed on all connections; the model has %d matching subscriptions that must receive it, %d in flight, and %d pattern subscriptions that do not match",
				r.Chan, r.Payload, r.Step, r.Via, r.Phase, r.Ret, total, len(r.Must), len(r.May), r.NonMatchingPats)
		}
	}
	if x.failed() {
		// an unexpected reply was seen: the delivery verdicts of this script are not trusted
		x.res.Inconclusive = x.failure
		x.res.Viols = nil
	}
	_ = fmt.Sprint
}
