package main

// C13 — all members agree on a valid, balanced routing table.
//
// Fault enumeration: membership sequences over {join, graceful leave, abrupt
// stop, coordinator leave / abrupt stop, re-join of a stopped member on the
// same address, restart (abrupt stop immediately followed by a re-join on the
// same address)} of length 5 (every prefix is judged) x initial size 1..3 x
// ReplicaCount 1..3 x PartitionCount {7,31,271} x {no data, data loaded}.
//
// After every event the monitor waits (bounded) until every live member's
// memberlist shows exactly the live set, then makes every member run its
// routing-table update (only the member that believes it is the coordinator
// acts) and, in the "balanced" stage, every member's balancer, until nothing
// changes any more. Then it judges the predicates of the statement over the
// local view of EVERY live member and over what clients get. A failing
// predicate is reported only if it still fails after another pause and another
// round of pushes (a stall cannot produce a persistent disagreement).
//
// One event in four is followed by the next one immediately (overlapping
// transitions, judged after the last of them); every sixth case contains a
// coordinator departure overlapping with an arrival; every third case first
// grows to 5 or 6 members. A membership event that olric logs while a
// judgement is being made (false failure detection on an overloaded machine)
// voids that judgement. A member that has joined and still has no routing
// table after 25 s of quiet, converged membership with a push requested every
// 2 s is reported as c13|member-without-table.

import (
	"bytes"
	"context"
	"encoding/json"
	"errors"
	"fmt"
	"hash/fnv"
	"io"
	"math"
	"math/rand"
	"os"
	"sort"
	"strconv"
	"strings"
	"sync"
	"sync/atomic"
	"time"

	"github.com/cespare/xxhash/v2"
	"github.com/olric-data/olric"
	"github.com/olric-data/olric/config"
	"github.com/olric-data/olric/internal/cluster/partitions"
	"github.com/olric-data/olric/internal/discovery"
	"github.com/olric-data/olric/verif/cluster"
	"github.com/olric-data/olric/verif/ev"
	"github.com/olric-data/olric/verif/respc"
)

func init() {
	register("C13", &checkFn{level: "fault_enumeration", run: c13Run, child: c13Child, replay: c13Replay})
}

const (
	c13MaxMembers = 6
	c13SeqLen     = 5
	c13LoadFactor = 1.25 // config.DefaultLoadFactor; the harness never overrides it
	c13ProbeDMap  = "c13probe"
	c13DataDMap   = "c13data"
	c13SampleKeys = 12
	c13MaxRounds  = 12
	c13MemberWait = 25 * time.Second
)

type c13Step struct {
	Kind string `json:"kind"` // join leave crash coleave cocrash rejoin restart
	Pick int    `json:"pick"` // selects the target among the candidates (mod count)
	// Fast: the next event follows immediately, without waiting for the cluster
	// to stabilise after this one (overlapping transitions); nothing is judged in between.
	Fast bool `json:"fast,omitempty"`
}

type c13Case struct {
	ID    int       `json:"id"`
	Init  int       `json:"init"`
	R     int       `json:"replicas"`
	P     uint64    `json:"partitions"`
	Data  bool      `json:"data"`
	Steps []c13Step `json:"steps"`
}

func (c c13Case) cfgKey() string {
	return fmt.Sprintf("init=%d/R=%d/P=%d/data=%v", c.Init, c.R, c.P, c.Data)
}

func (c c13Case) String() string {
	var ks []string
	for _, s := range c.Steps {
		f := ""
		if s.Fast {
			f = "!"
		}
		ks = append(ks, fmt.Sprintf("%s#%d%s", s.Kind, s.Pick, f))
	}
	return fmt.Sprintf("case %d %s [%s]", c.ID, c.cfgKey(), strings.Join(ks, " "))
}

var c13Kinds = []string{"join", "leave", "crash", "coleave", "cocrash", "rejoin", "restart"}

// c13CasesPerProc: cases run by one child process; chosen so that there are at
// most 62 batches (each owns 64 ports of the invocation's 4000-port range).
func c13CasesPerProc(tier string) int {
	if tier == "thorough" {
		return 9
	}
	return 6
}

func c13NumCases(tier string) int {
	if tier == "thorough" {
		return 540
	}
	return 54
}

// c13Cases is a pure function of (seed, tier).
func c13Cases(seed int64, tier string) []c13Case {
	rng := rand.New(rand.NewSource(seed*7919 + 13))
	type cfg struct {
		init, r int
		p       uint64
		data    bool
	}
	var grid []cfg
	for _, data := range []bool{false, true} {
		for _, p := range []uint64{7, 31, 271} {
			for r := 1; r <= 3; r++ {
				for init := 1; init <= 3; init++ {
					grid = append(grid, cfg{init, r, p, data})
				}
			}
		}
	}
	rng.Shuffle(len(grid), func(i, j int) { grid[i], grid[j] = grid[j], grid[i] })
	pairUse := map[[2]string]int{}
	n := c13NumCases(tier)
	var cases []c13Case
	for i := 0; i < n; i++ {
		g := grid[i%len(grid)]
		cs := c13Case{ID: i, Init: g.init, R: g.r, P: g.p, Data: g.data}
		live, stopped, prev := g.init, 0, "start"
		grown := false
		injected, inj := 0, rng.Intn(3)
		for len(cs.Steps) < c13SeqLen {
			var legal []string
			for _, k := range c13Kinds {
				switch k {
				case "join":
					if live < c13MaxMembers {
						legal = append(legal, k)
					}
				case "leave", "crash", "coleave", "cocrash", "restart":
					if live >= 2 {
						legal = append(legal, k)
					}
				case "rejoin":
					if stopped >= 1 && live < c13MaxMembers {
						legal = append(legal, k)
					}
				}
			}
			// least-used (previous kind, kind) pair first, random tie-break
			rng.Shuffle(len(legal), func(a, b int) { legal[a], legal[b] = legal[b], legal[a] })
			best := legal[0]
			for _, k := range legal[1:] {
				if pairUse[[2]string{prev, k}] < pairUse[[2]string{prev, best}] {
					best = k
				}
			}
			// keep small clusters growing half of the time
			if live <= 2 && live < c13MaxMembers && rng.Intn(2) == 0 {
				best = "join"
			}
			// every third case first grows to 5 or 6 members (sizes that the free
			// walk from 1-3 members in 5 events hardly reaches)
			if i%3 == 2 && !grown {
				target := 5 + (i/3)%2
				if live < target {
					best = "join"
				}
				if live+1 >= target || best != "join" {
					grown = true
				}
			}
			// every sixth case contains a coordinator departure that overlaps with
			// the arrival of a member (the quantifier names coordinator departure
			// explicitly; overlapping it with a join needs two specific events in a
			// row, which the free walk produces too rarely for the quick tier)
			forceFast := false
			if i%6 == 3 {
				pos := len(cs.Steps)
				if injected == 0 && pos >= inj && pos < c13SeqLen-1 && live >= 2 {
					best = []string{"cocrash", "cocrash", "coleave"}[rng.Intn(3)]
					forceFast = true
					injected = 1
				} else if injected == 1 {
					best = "join"
					if rng.Intn(2) == 0 {
						best = "rejoin" // a stopped member exists: the coordinator that just went
					}
					injected = 2
				}
			}
			pairUse[[2]string{prev, best}]++
			st := c13Step{Kind: best, Pick: rng.Intn(1 << 16)}
			// one event in four is followed immediately by the next one
			if (rng.Intn(4) == 0 || forceFast) && len(cs.Steps) < c13SeqLen-1 {
				st.Fast = true
			}
			cs.Steps = append(cs.Steps, st)
			switch best {
			case "join":
				live++
			case "leave", "crash", "coleave", "cocrash":
				live--
				stopped++
			case "rejoin":
				live++
				stopped--
			}
			prev = best
		}
		cases = append(cases, cs)
	}
	return cases
}

// ---------------------------------------------------------------------------
// running one case

type c13Stopped struct {
	Name   string
	Port   int
	MLPort int
}

type c13Fail struct {
	Clause string // stable sub-key
	Detail string
}

type c13Exec struct {
	rep      *ev.Report
	cs       c13Case
	c        *cluster.Cluster
	stopped  []c13Stopped
	departed map[uint64]string // member id -> name of members that were stopped
	history  []string          // resolved steps so far ("join 127.0.0.1:1234", ...)
	probeSeq int
	verbose  bool
	watch    *c13LogWatch
}

func (r *c13Exec) logf(format string, args ...interface{}) {
	if r.verbose {
		fmt.Printf("    "+format+"\n", args...)
	}
}

func c13SortedLive(c *cluster.Cluster) []*cluster.Member {
	live := c.Live()
	sort.Slice(live, func(i, j int) bool { return live[i].Idx < live[j].Idx })
	return live
}

// oldest returns the live member with the smallest birthdate.
func c13Oldest(live []*cluster.Member) *cluster.Member {
	var best *cluster.Member
	for _, m := range live {
		if best == nil || m.V.RT.This().Birthdate < best.V.RT.This().Birthdate {
			best = m
		}
	}
	return best
}

func (r *c13Exec) noteStopped(m *cluster.Member) {
	r.departed[m.V.RT.This().ID] = m.Name
	r.stopped = append(r.stopped, c13Stopped{Name: m.Name, Port: m.Port(), MLPort: m.MLPort()})
}

// apply executes one membership event; label is the event as used in finding keys.
func (r *c13Exec) apply(st c13Step) (label string, err error) {
	live := c13SortedLive(r.c)
	co := c13Oldest(live)
	var nonCo []*cluster.Member
	for _, m := range live {
		if m != co {
			nonCo = append(nonCo, m)
		}
	}
	switch st.Kind {
	case "join":
		m, err := r.addMember(0, 0)
		if err != nil {
			return "join", err
		}
		r.history = append(r.history, "join "+m.Name)
		return "join", nil
	case "leave", "crash":
		if len(nonCo) == 0 {
			return st.Kind, fmt.Errorf("no non-coordinator member")
		}
		m := nonCo[st.Pick%len(nonCo)]
		r.noteStopped(m)
		if st.Kind == "leave" {
			r.c.StopGraceful(m)
			r.history = append(r.history, "leave "+m.Name)
			return "leave", nil
		}
		r.c.StopAbrupt(m)
		r.history = append(r.history, "abrupt-stop "+m.Name)
		return "abrupt-stop", nil
	case "coleave", "cocrash":
		if len(live) < 2 {
			return st.Kind, fmt.Errorf("coordinator is the only member")
		}
		r.noteStopped(co)
		if st.Kind == "coleave" {
			r.c.StopGraceful(co)
			r.history = append(r.history, "leave(coordinator) "+co.Name)
			return "leave(coordinator)", nil
		}
		r.c.StopAbrupt(co)
		r.history = append(r.history, "abrupt-stop(coordinator) "+co.Name)
		return "abrupt-stop(coordinator)", nil
	case "rejoin":
		if len(r.stopped) == 0 {
			return "rejoin", fmt.Errorf("nothing to re-join")
		}
		i := st.Pick % len(r.stopped)
		s := r.stopped[i]
		r.stopped = append(r.stopped[:i], r.stopped[i+1:]...)
		m, err := r.addMember(s.Port, s.MLPort)
		if err != nil {
			return "rejoin", err
		}
		r.history = append(r.history, "rejoin "+m.Name)
		return "rejoin", nil
	case "restart":
		m := live[st.Pick%len(live)]
		label = "restart"
		if m == co {
			label = "restart(coordinator)"
		}
		r.departed[m.V.RT.This().ID] = m.Name
		r.c.StopAbrupt(m)
		nm, err := r.addMember(m.Port(), m.MLPort())
		if err != nil {
			return label, err
		}
		r.history = append(r.history, label+" "+nm.Name)
		return label, nil
	}
	return st.Kind, fmt.Errorf("unknown step kind %q", st.Kind)
}

func idSet(ms []discovery.Member) map[uint64]bool {
	s := map[uint64]bool{}
	for _, m := range ms {
		s[m.ID] = true
	}
	return s
}

func sameIDSet(a, b map[uint64]bool) bool {
	if len(a) != len(b) {
		return false
	}
	for k := range a {
		if !b[k] {
			return false
		}
	}
	return true
}

// waitMembership waits until the memberlist of every live member shows exactly
// the live set (that is what "membership stabilises" means), and then gives the
// routing-table level member sets a bounded grace period. Only the first part
// can make the case inconclusive.
func (r *c13Exec) waitMembership() (bool, string) {
	deadline := time.Now().Add(c13MemberWait)
	why := ""
	okPolls := 0
	for time.Now().Before(deadline) {
		live := r.c.Live()
		want := map[uint64]bool{}
		for _, m := range live {
			want[m.V.RT.This().ID] = true
		}
		all := true
		for _, m := range live {
			if got := idSet(m.V.RT.Discovery().GetMembers()); !sameIDSet(got, want) {
				all = false
				why = fmt.Sprintf("memberlist of %s has %d members, %d live", m.Name, len(got), len(want))
				break
			}
		}
		if all {
			okPolls++
			if okPolls >= 3 {
				break
			}
		} else {
			okPolls = 0
		}
		time.Sleep(20 * time.Millisecond)
	}
	if okPolls < 3 {
		return false, why
	}
	// grace period for the event loops (routing-table member set, member count)
	grace := time.Now().Add(8 * time.Second)
	for time.Now().Before(grace) {
		live := r.c.Live()
		want := map[uint64]bool{}
		for _, m := range live {
			want[m.V.RT.This().ID] = true
		}
		all := true
		for _, m := range live {
			if !sameIDSet(idSet(m.V.RT.VerifMembers()), want) || int(m.V.RT.NumMembers()) != len(live) {
				all = false
				break
			}
		}
		if all {
			return true, ""
		}
		time.Sleep(20 * time.Millisecond)
	}
	r.rep.Count("rt_member_set_not_converged_after_grace", 1)
	for _, m := range r.c.Live() {
		fmt.Printf("    NOTE rt-level member set of %s after grace: %v NumMembers=%d (live=%d)\n", m.Name, names(m.V.RT.VerifMembers()), m.V.RT.NumMembers(), len(r.c.Live()))
	}
	return true, ""
}

func (r *c13Exec) fingerprint() uint64 {
	h := fnv.New64a()
	var b [8]byte
	put := func(x uint64) {
		for i := 0; i < 8; i++ {
			b[i] = byte(x >> (8 * i))
		}
		h.Write(b[:])
	}
	for _, m := range c13SortedLive(r.c) {
		put(m.V.RT.This().ID)
		for p := uint64(0); p < r.cs.P; p++ {
			pp := m.V.Primary.PartitionByID(p)
			bp := m.V.Backup.PartitionByID(p)
			for _, o := range pp.Owners() {
				put(o.ID)
			}
			put(0xfffffffffffffff1)
			for _, o := range bp.Owners() {
				put(o.ID)
			}
			put(0xfffffffffffffff2)
			var bits uint64
			if pp.Length() > 0 {
				bits |= 1
			}
			if bp.Length() > 0 {
				bits |= 2
			}
			put(bits)
		}
	}
	return h.Sum64()
}

// settle runs update rounds until one round changes nothing: every member is
// asked to update the routing table (olric itself lets only the coordinator
// act), and, if balance is set, every member's balancer runs to completion.
func (r *c13Exec) settle(balance bool) (rounds int, ok bool) {
	prev := uint64(0)
	for rounds = 1; rounds <= c13MaxRounds; rounds++ {
		for _, m := range c13SortedLive(r.c) {
			m.V.RT.UpdateEagerly()
		}
		if balance {
			var wg sync.WaitGroup
			for _, m := range r.c.Live() {
				wg.Add(1)
				go func(m *cluster.Member) {
					defer wg.Done()
					m.V.Balancer.BalanceEagerly()
				}(m)
			}
			wg.Wait()
		}
		fp := r.fingerprint()
		if rounds > 1 && fp == prev {
			return rounds, true
		}
		prev = fp
	}
	return rounds - 1, false
}

func names(ms []discovery.Member) []string {
	res := make([]string, len(ms))
	for i, m := range ms {
		res[i] = m.Name
	}
	return res
}

func sameStrings(a, b []string) bool {
	if len(a) != len(b) {
		return false
	}
	for i := range a {
		if a[i] != b[i] {
			return false
		}
	}
	return true
}

type c13NameTable struct {
	Primary [][]string
	Backup  [][]string
}

func c13Project(v cluster.Snapshot) c13NameTable {
	t := c13NameTable{}
	for p := range v.Primary {
		t.Primary = append(t.Primary, names(v.Primary[p]))
		t.Backup = append(t.Backup, names(v.Backup[p]))
	}
	return t
}

func c13FromClient(rt olric.RoutingTable, parts uint64) (c13NameTable, error) {
	t := c13NameTable{}
	if uint64(len(rt)) != parts {
		return t, fmt.Errorf("table has %d partitions, want %d", len(rt), parts)
	}
	for p := uint64(0); p < parts; p++ {
		route, ok := rt[p]
		if !ok {
			return t, fmt.Errorf("partition %d missing", p)
		}
		t.Primary = append(t.Primary, route.PrimaryOwners)
		t.Backup = append(t.Backup, route.ReplicaOwners)
	}
	return t, nil
}

func c13FromRESP(rep respc.Reply, parts uint64) (c13NameTable, error) {
	t := c13NameTable{Primary: make([][]string, parts), Backup: make([][]string, parts)}
	if rep.IsErr() {
		return t, fmt.Errorf("error reply: %s", rep.Str)
	}
	if rep.Kind != '*' || uint64(len(rep.Array)) != parts {
		return t, fmt.Errorf("reply is not an array of %d partitions: %s", parts, trunc13(rep.String(), 120))
	}
	seen := map[uint64]bool{}
	for _, it := range rep.Array {
		if it.Kind != '*' || len(it.Array) != 3 {
			return t, fmt.Errorf("malformed entry %s", trunc13(it.String(), 120))
		}
		// the coordinator writes the partition id as an integer, a member that
		// relays the coordinator's answer writes it as a bulk string; olric's own
		// client accepts both, so both are the same table
		var p uint64
		switch it.Array[0].Kind {
		case ':':
			p = uint64(it.Array[0].Int)
		case '$':
			n, err := strconv.ParseUint(it.Array[0].Str, 10, 64)
			if err != nil {
				return t, fmt.Errorf("malformed partition id in %s", trunc13(it.String(), 120))
			}
			p = n
		default:
			return t, fmt.Errorf("malformed entry %s", trunc13(it.String(), 120))
		}
		if p >= parts || seen[p] {
			return t, fmt.Errorf("bad or duplicate partition id %d", p)
		}
		seen[p] = true
		for _, o := range it.Array[1].Array {
			t.Primary[p] = append(t.Primary[p], o.Str)
		}
		for _, o := range it.Array[2].Array {
			t.Backup[p] = append(t.Backup[p], o.Str)
		}
	}
	return t, nil
}

func trunc13(s string, n int) string {
	if len(s) <= n {
		return s
	}
	return s[:n] + "..."
}

func c13DiffNames(a, b c13NameTable) string {
	for p := range a.Primary {
		if p >= len(b.Primary) {
			return fmt.Sprintf("partition %d missing", p)
		}
		if !sameStrings(a.Primary[p], b.Primary[p]) {
			return fmt.Sprintf("partition %d owners %v vs %v", p, a.Primary[p], b.Primary[p])
		}
		if !sameStrings(a.Backup[p], b.Backup[p]) {
			return fmt.Sprintf("partition %d backups %v vs %v", p, a.Backup[p], b.Backup[p])
		}
	}
	return ""
}

func c13DiffViews(a, b cluster.Snapshot) string {
	ids := func(ms []discovery.Member) string {
		var s []string
		for _, m := range ms {
			s = append(s, fmt.Sprintf("%s@%d", m.Name, m.Birthdate%1e10))
		}
		return "[" + strings.Join(s, " ") + "]"
	}
	eq := func(x, y []discovery.Member) bool {
		if len(x) != len(y) {
			return false
		}
		for i := range x {
			if x[i].ID != y[i].ID {
				return false
			}
		}
		return true
	}
	for p := range a.Primary {
		if !eq(a.Primary[p], b.Primary[p]) {
			return fmt.Sprintf("partition %d owners %s vs %s", p, ids(a.Primary[p]), ids(b.Primary[p]))
		}
		if !eq(a.Backup[p], b.Backup[p]) {
			return fmt.Sprintf("partition %d backups %s vs %s", p, ids(a.Backup[p]), ids(b.Backup[p]))
		}
	}
	return ""
}

type c13MemberRow struct {
	Name      string
	Birthdate int64
	Coord     bool
}

// c13CheckMembers compares a member list as reported to a client with the live set.
func c13CheckMembers(src string, rows []c13MemberRow, live []*cluster.Member, oldest *cluster.Member, add func(clause, detail string)) {
	want := map[string]int64{}
	for _, m := range live {
		want[m.Name] = m.V.RT.This().Birthdate
	}
	got := map[string]int64{}
	var coords []string
	for _, row := range rows {
		got[row.Name] = row.Birthdate
		if row.Coord {
			coords = append(coords, row.Name)
		}
	}
	same := len(got) == len(want) && len(rows) == len(want)
	for n, b := range want {
		if got[n] != b {
			same = false
		}
	}
	if !same {
		add("members-differ|"+strings.SplitN(src, " ", 2)[0], fmt.Sprintf("%s reports members %v, live set is %v", src, got, want))
	}
	if len(coords) != 1 || coords[0] != oldest.Name {
		add("coordinator-not-oldest|"+strings.SplitN(src, " ", 2)[0], fmt.Sprintf("%s marks %v as coordinator, the oldest live member is %s", src, coords, oldest.Name))
	}
}

// evaluate judges the predicates of the statement right now.
func (r *c13Exec) evaluate(stage string) []c13Fail {
	var fails []c13Fail
	seen := map[string]bool{}
	add := func(clause, detail string) {
		if seen[clause] {
			return
		}
		seen[clause] = true
		fails = append(fails, c13Fail{Clause: clause, Detail: detail})
	}
	rep := r.rep
	live := c13SortedLive(r.c)
	N := len(live)
	P := r.cs.P
	byID := map[uint64]*cluster.Member{}
	liveNames := map[string]bool{}
	for _, m := range live {
		byID[m.V.RT.This().ID] = m
		liveNames[m.Name] = true
	}
	oldest := c13Oldest(live)
	k := r.cs.R
	if N < k {
		k = N
	}
	k-- // number of current backup owners
	nlr := ""
	if N < r.cs.R {
		nlr = "|N<R"
	}

	// 1. white-box views of every live member
	views := make([]cluster.Snapshot, N)
	for i, m := range live {
		views[i] = m.View(P)
	}
	refIdx := 0
	for i, m := range live {
		if m == oldest {
			refIdx = i
		}
	}
	ref := views[refIdx]
	for i, m := range live {
		if i == refIdx {
			continue
		}
		rep.Count("member_view_pairs_compared", 1)
		if d := c13DiffViews(views[i], ref); d != "" {
			add("tables-differ|member", fmt.Sprintf("local view of %s differs from the coordinator %s: %s", m.Name, oldest.Name, d))
		}
	}

	// 2. validity of every member's view
	describe := func(o discovery.Member) string {
		if n, ok := r.departed[o.ID]; ok {
			return fmt.Sprintf("%s (departed instance, birthdate %d)", n, o.Birthdate)
		}
		return fmt.Sprintf("%s (unknown instance, birthdate %d)", o.Name, o.Birthdate)
	}
	bound := int(math.Ceil(float64(P) / float64(N) * c13LoadFactor))
	for i, m := range live {
		v := views[i]
		load := map[uint64]int{}
		lingerP, lingerB := 0, 0
		for p := uint64(0); p < P; p++ {
			owners := v.Primary[p]
			if len(owners) == 0 {
				add("no-primary-owner", fmt.Sprintf("view of %s: partition %d has no owner", m.Name, p))
				continue
			}
			prim := owners[len(owners)-1]
			if byID[prim.ID] == nil {
				add("dead-owner-listed|primary", fmt.Sprintf("view of %s: partition %d primary owner is %s; owners=%v", m.Name, p, describe(prim), names(owners)))
			}
			load[prim.ID]++
			for _, o := range owners[:len(owners)-1] {
				lingerP++
				om := byID[o.ID]
				if om == nil {
					add("dead-owner-listed|previous-primary", fmt.Sprintf("view of %s: partition %d lists %s; owners=%v", m.Name, p, describe(o), names(owners)))
				} else if om.V.Primary.PartitionByID(p).Length() == 0 {
					add("empty-owner-listed|previous-primary", fmt.Sprintf("view of %s: partition %d lists previous owner %s which holds no data for it; owners=%v", m.Name, p, o.Name, names(owners)))
				}
			}
			backups := v.Backup[p]
			if len(backups) < k {
				add("backup-count"+nlr, fmt.Sprintf("view of %s: partition %d has %d backup owners %v, want min(R=%d,N=%d)-1=%d", m.Name, p, len(backups), names(backups), r.cs.R, N, k))
				continue
			}
			cur := backups[len(backups)-k:]
			dup := map[uint64]bool{}
			for _, o := range cur {
				if byID[o.ID] == nil {
					add("dead-owner-listed|backup"+nlr, fmt.Sprintf("view of %s: partition %d current backup owner is %s; backups=%v", m.Name, p, describe(o), names(backups)))
				}
				if o.ID == prim.ID {
					add("backup=primary"+nlr, fmt.Sprintf("view of %s: partition %d current backup owner %s is the primary owner; owners=%v backups=%v", m.Name, p, o.Name, names(owners), names(backups)))
				}
				if dup[o.ID] {
					add("backup-duplicate"+nlr, fmt.Sprintf("view of %s: partition %d current backup owners are not distinct: %v", m.Name, p, names(backups)))
				}
				dup[o.ID] = true
			}
			for _, o := range backups[:len(backups)-k] {
				lingerB++
				om := byID[o.ID]
				if om == nil {
					add("dead-owner-listed|previous-backup"+nlr, fmt.Sprintf("view of %s: partition %d lists backup %s; backups=%v", m.Name, p, describe(o), names(backups)))
				} else if om.V.Backup.PartitionByID(p).Length() == 0 {
					add("empty-owner-listed|previous-backup"+nlr, fmt.Sprintf("view of %s: partition %d lists previous backup owner %s which holds no backup data for it; backups=%v", m.Name, p, o.Name, names(backups)))
				}
			}
		}
		for id, n := range load {
			if n > bound {
				name := "?"
				if om := byID[id]; om != nil {
					name = om.Name
				}
				add(fmt.Sprintf("overload|N=%d/P=%d", N, P), fmt.Sprintf("view of %s: %s owns %d of %d partitions, bound ceil(%d/%d*%.2f)=%d", m.Name, name, n, P, P, N, c13LoadFactor, bound))
			}
		}
		if i == refIdx {
			rep.Count("lingering_previous_primary_owners_seen", int64(lingerP))
			rep.Count("lingering_previous_backup_owners_seen", int64(lingerB))
			if lingerP+lingerB > 0 {
				rep.Count("evaluations_with_lingering_owners", 1)
			}
			mx := 0
			for _, n := range load {
				if n > mx {
					mx = n
				}
			}
			if mx == bound {
				rep.Count("evaluations_with_a_member_at_the_load_bound", 1)
			}
		}
		rep.Count("member_views_validated", 1)
	}

	// 3. what clients obtain
	refNames := c13Project(ref)
	ctx, cancel := context.WithTimeout(context.Background(), 20*time.Second)
	defer cancel()
	for _, m := range live {
		conn, err := respc.Dial(m.Name)
		if err != nil {
			add("client-table-unavailable|resp", fmt.Sprintf("dial %s: %v", m.Name, err))
			continue
		}
		reply, err := conn.Do(10*time.Second, "CLUSTER.ROUTINGTABLE")
		if err != nil {
			add("client-table-unavailable|resp", fmt.Sprintf("CLUSTER.ROUTINGTABLE on %s: %v", m.Name, err))
		} else if t, err := c13FromRESP(reply, P); err != nil {
			add("client-table-unavailable|resp", fmt.Sprintf("CLUSTER.ROUTINGTABLE on %s: %v", m.Name, err))
		} else {
			rep.Count("resp_routing_tables_compared", 1)
			if d := c13DiffNames(t, refNames); d != "" {
				add("tables-differ|resp", fmt.Sprintf("CLUSTER.ROUTINGTABLE from %s differs from the coordinator's local view: %s", m.Name, d))
			}
		}
		reply, err = conn.Do(10*time.Second, "CLUSTER.MEMBERS")
		if err != nil || reply.IsErr() || reply.Kind != '*' {
			add("client-members-unavailable|resp", fmt.Sprintf("CLUSTER.MEMBERS on %s: %v %s", m.Name, err, trunc13(reply.String(), 100)))
		} else {
			var rows []c13MemberRow
			for _, it := range reply.Array {
				if len(it.Array) != 3 {
					add("client-members-unavailable|resp", fmt.Sprintf("CLUSTER.MEMBERS on %s: malformed %s", m.Name, trunc13(it.String(), 100)))
					continue
				}
				rows = append(rows, c13MemberRow{Name: it.Array[0].Str, Birthdate: it.Array[1].Int, Coord: it.Array[2].Str == "true"})
			}
			rep.Count("resp_member_lists_checked", 1)
			c13CheckMembers("resp CLUSTER.MEMBERS from "+m.Name, rows, live, oldest, add)
		}
		conn.Close()

		// embedded client of this member
		if rt, err := m.Emb.RoutingTable(ctx); err != nil {
			add("client-table-unavailable|embedded", fmt.Sprintf("EmbeddedClient.RoutingTable on %s: %v", m.Name, err))
		} else if t, err := c13FromClient(rt, P); err != nil {
			add("tables-differ|embedded", fmt.Sprintf("EmbeddedClient.RoutingTable on %s: %v", m.Name, err))
		} else {
			rep.Count("embedded_routing_tables_compared", 1)
			if d := c13DiffNames(t, refNames); d != "" {
				add("tables-differ|embedded", fmt.Sprintf("EmbeddedClient.RoutingTable on %s differs from the coordinator's local view: %s", m.Name, d))
			}
		}
		if ms, err := m.Emb.Members(ctx); err == nil {
			var rows []c13MemberRow
			for _, x := range ms {
				rows = append(rows, c13MemberRow{x.Name, x.Birthdate, x.Coordinator})
			}
			c13CheckMembers("embedded Members on "+m.Name, rows, live, oldest, add)
		}
		// white-box coordinator belief
		if co := m.V.RT.Discovery().GetCoordinator(); co.ID != oldest.V.RT.This().ID {
			add("coordinator-not-oldest|whitebox", fmt.Sprintf("%s believes the coordinator is %s (birthdate %d), the oldest live member is %s", m.Name, co.Name, co.Birthdate, oldest.Name))
		}
		if is := m.V.RT.Discovery().IsCoordinator(); is != (m == oldest) {
			add("coordinator-not-oldest|whitebox", fmt.Sprintf("%s IsCoordinator()=%v, the oldest live member is %s", m.Name, is, oldest.Name))
		}
	}

	// cluster client (fresh: fetches members and routing table now)
	var cc *olric.ClusterClient
	{
		var err error
		cc, err = r.c.NewClusterClient()
		if err != nil {
			add("client-table-unavailable|clusterclient", fmt.Sprintf("NewClusterClient: %v", err))
		} else {
			defer cc.Close(context.Background())
			if rt, err := cc.RoutingTable(ctx); err != nil {
				add("client-table-unavailable|clusterclient", fmt.Sprintf("ClusterClient.RoutingTable: %v", err))
			} else if t, err := c13FromClient(rt, P); err != nil {
				add("tables-differ|clusterclient", fmt.Sprintf("ClusterClient.RoutingTable: %v", err))
			} else {
				rep.Count("clusterclient_routing_tables_compared", 1)
				if d := c13DiffNames(t, refNames); d != "" {
					add("tables-differ|clusterclient", "ClusterClient.RoutingTable differs from the coordinator's local view: "+d)
				}
			}
			if ms, err := cc.Members(ctx); err != nil {
				add("client-members-unavailable|clusterclient", fmt.Sprintf("ClusterClient.Members: %v", err))
			} else {
				var rows []c13MemberRow
				for _, x := range ms {
					rows = append(rows, c13MemberRow{x.Name, x.Birthdate, x.Coordinator})
				}
				c13CheckMembers("clusterclient Members", rows, live, oldest, add)
			}
		}
	}

	// 4. sample keys: partition computed independently (xxhash64(dmap+key) mod P)
	for i := 0; i < c13SampleKeys; i++ {
		key := fmt.Sprintf("s%d-%d", i, r.cs.ID)
		pid := xxhash.Sum64String(c13ProbeDMap+key) % P
		if len(ref.Primary[pid]) == 0 {
			continue
		}
		want := ref.Primary[pid][len(ref.Primary[pid])-1]
		for _, m := range live {
			part := m.V.Primary.PartitionByHKey(partitions.HKey(c13ProbeDMap, key))
			rep.Count("sample_key_mappings_checked", 1)
			if part.ID() != pid {
				add("key-mapping|partition", fmt.Sprintf("%s maps key %q to partition %d, hash mod P gives %d", m.Name, key, part.ID(), pid))
			} else if part.OwnerCount() > 0 && part.Owner().ID != want.ID {
				add("key-mapping|owner", fmt.Sprintf("%s maps key %q (partition %d) to %s, the coordinator's table says %s", m.Name, key, pid, part.Owner().Name, want.Name))
			}
		}
		if cc != nil {
			cpid, addr, err := cc.VerifSmartPick(c13ProbeDMap, key)
			rep.Count("sample_key_mappings_checked", 1)
			if err != nil {
				add("key-mapping|clusterclient", fmt.Sprintf("ClusterClient cannot route key %q: %v", key, err))
			} else if cpid != pid || addr != want.Name {
				add("key-mapping|clusterclient", fmt.Sprintf("ClusterClient maps key %q to partition %d on %s; expected partition %d on %s", key, cpid, addr, pid, want.Name))
			}
		}
	}
	_ = stage
	return fails
}

// probes writes fresh keys through every member, a cluster client and raw
// RESP and looks white-box where the entries physically landed.
func (r *c13Exec) probes(stepIdx int) []c13Fail {
	var fails []c13Fail
	live := c13SortedLive(r.c)
	P := r.cs.P
	ref := c13Oldest(live).View(P)
	ctx, cancel := context.WithTimeout(context.Background(), 20*time.Second)
	defer cancel()
	type probe struct{ key, via string }
	var ps []probe
	for _, m := range live {
		r.probeSeq++
		key := fmt.Sprintf("p%d-%d-%d", r.cs.ID, stepIdx, r.probeSeq)
		dm, err := m.Emb.NewDMap(c13ProbeDMap)
		if err == nil {
			err = dm.Put(ctx, key, "v")
		}
		if err != nil {
			r.rep.Count("probe_put_errors", 1)
			continue
		}
		ps = append(ps, probe{key, "embedded client of " + m.Name})
	}
	if cc, err := r.c.NewClusterClient(); err == nil {
		r.probeSeq++
		key := fmt.Sprintf("p%d-%d-%d", r.cs.ID, stepIdx, r.probeSeq)
		dm, err := cc.NewDMap(c13ProbeDMap)
		if err == nil {
			err = dm.Put(ctx, key, "v")
		}
		if err != nil {
			r.rep.Count("probe_put_errors", 1)
		} else {
			ps = append(ps, probe{key, "cluster client"})
		}
		cc.Close(context.Background())
	}
	{
		m := live[len(live)-1]
		if conn, err := respc.Dial(m.Name); err == nil {
			r.probeSeq++
			key := fmt.Sprintf("p%d-%d-%d", r.cs.ID, stepIdx, r.probeSeq)
			reply, err := conn.Do(10*time.Second, "DM.PUT", c13ProbeDMap, key, "v")
			if err != nil || reply.IsErr() {
				r.rep.Count("probe_put_errors", 1)
			} else {
				ps = append(ps, probe{key, "raw RESP DM.PUT on " + m.Name})
			}
			conn.Close()
		}
	}
	// locate
	where := map[string][]string{}
	for _, m := range live {
		for p := uint64(0); p < P; p++ {
			es, ok := m.V.DMap.VerifEntries(partitions.PRIMARY, p, c13ProbeDMap)
			if !ok {
				continue
			}
			for _, e := range es {
				where[e.Key] = append(where[e.Key], fmt.Sprintf("%s/partition %d", m.Name, p))
			}
		}
	}
	for _, pr := range ps {
		pid := xxhash.Sum64String(c13ProbeDMap+pr.key) % P
		if len(ref.Primary[pid]) == 0 {
			continue
		}
		owner := ref.Primary[pid][len(ref.Primary[pid])-1]
		want := fmt.Sprintf("%s/partition %d", owner.Name, pid)
		got := where[pr.key]
		r.rep.Count("probe_keys_located", 1)
		if len(got) != 1 || got[0] != want {
			fails = append(fails, c13Fail{Clause: "key-placement", Detail: fmt.Sprintf("key %q written through the %s is stored at %v, the routing table says %s", pr.key, pr.via, got, want)})
			break
		}
	}
	if !r.cs.Data {
		// keep the "no data" variant free of data
		if dm, err := live[0].Emb.NewDMap(c13ProbeDMap); err == nil {
			for _, pr := range ps {
				_, _ = dm.Delete(ctx, pr.key)
			}
		}
	}
	return fails
}

func (r *c13Exec) loadData() error {
	n := map[uint64]int{7: 40, 31: 150, 271: 700}[r.cs.P]
	live := c13SortedLive(r.c)
	ctx, cancel := context.WithTimeout(context.Background(), 60*time.Second)
	defer cancel()
	var dms []olric.DMap
	for _, m := range live {
		dm, err := m.Emb.NewDMap(c13DataDMap)
		if err != nil {
			return err
		}
		dms = append(dms, dm)
	}
	for i := 0; i < n; i++ {
		var err error
		for try := 0; try < 6; try++ {
			// the data is ballast; a put that fails because a connection pool entry
			// was closed by a (spurious) membership event is simply repeated
			if err = dms[(i+try)%len(dms)].Put(ctx, fmt.Sprintf("d%d", i), "x"); err == nil {
				break
			}
			r.rep.Count("data_put_retries", 1)
			time.Sleep(150 * time.Millisecond)
		}
		if err != nil {
			return fmt.Errorf("put d%d: %w", i, err)
		}
	}
	r.rep.Count("data_keys_loaded", int64(n))
	return nil
}

func (r *c13Exec) dumpTables() map[string]interface{} {
	out := map[string]interface{}{}
	P := r.cs.P
	for _, m := range c13SortedLive(r.c) {
		v := m.View(P)
		var rows []string
		for p := uint64(0); p < P && p < 40; p++ {
			rows = append(rows, fmt.Sprintf("%d: owners=%v backups=%v", p, names(v.Primary[p]), names(v.Backup[p])))
		}
		out[m.Name] = rows
	}
	return out
}

// c13LogWatch receives the log output of every member of one cluster and
// counts membership events as olric itself sees them. The monitor uses the
// count as an epoch: an event that arrives while a judgement is being made
// (e.g. memberlist falsely declaring a live member dead on an overloaded
// machine, and the member refuting it) means membership was NOT stable, so the
// judgement is void.
type c13LogWatch struct {
	epoch      atomic.Int64
	falseFails atomic.Int64
	pass       io.Writer
}

func (w *c13LogWatch) Write(p []byte) (int, error) {
	if bytes.Contains(p, []byte("Node left:")) || bytes.Contains(p, []byte("Node joined:")) || bytes.Contains(p, []byte("Node updated:")) {
		w.epoch.Add(1)
	}
	if w.pass != nil {
		return w.pass.Write(p)
	}
	return len(p), nil
}

// c13Tune makes failure detection slower than the harness default for
// FastFailureDetection (an abrupt stop is detected in 1-2 s): with 8 clusters
// running in parallel next to other CPU-heavy jobs the 50 ms probe timeout
// declared live members dead.
func c13Tune(cfg *config.Config) {
	mc := cfg.MemberlistConfig
	mc.ProbeInterval = 250 * time.Millisecond
	mc.ProbeTimeout = 120 * time.Millisecond
	mc.SuspicionMult = 4
	mc.SuspicionMaxTimeoutMult = 1
	mc.GossipInterval = 25 * time.Millisecond
	if os.Getenv("C13_LOG") == "2" {
		cfg.LogVerbosity = 6
		cfg.LogLevel = "DEBUG"
	}
}

// c13Violation is returned by apply when the event itself refutes the property.
type c13Violation struct {
	Clause string
	Detail string
}

func (v *c13Violation) Error() string { return v.Clause + ": " + v.Detail }

func (r *c13Exec) membershipConverged() bool {
	live := r.c.Live()
	want := map[uint64]bool{}
	for _, m := range live {
		want[m.V.RT.This().ID] = true
	}
	for _, m := range live {
		if !sameIDSet(idSet(m.V.RT.Discovery().GetMembers()), want) {
			return false
		}
	}
	return true
}

const (
	c13BootstrapWait   = 45 * time.Second
	c13BootstrapStable = 25 * time.Second
)

// addMember starts a member and waits until it has a routing table.
//
// The harness disables olric's periodic routing push (it drives the pushes
// itself), so while a member is joining the periodic push is stood in for here:
// every 2 s every live member is asked to update the routing table.
//
// A member that has joined, sees exactly the live set like everybody else, and
// still has no routing table after the membership has been quiet (no join /
// leave / update event anywhere) for 25 s although a push was requested every
// 2 s, refutes "after membership stabilises every member obtains the same
// routing table". A machine stall cannot fake that: a stall of that length
// makes memberlist declare members dead, which is a membership event.
func (r *c13Exec) addMember(port, mlPort int) (*cluster.Member, error) {
	m, err := r.c.StartMember(port, mlPort, 30*time.Second, c13Tune)
	if err != nil {
		return nil, err
	}
	var busy atomic.Bool
	nudge := func() {
		if !busy.CompareAndSwap(false, true) {
			return // the previous request is still running (or stuck)
		}
		go func() {
			defer busy.Store(false)
			for _, x := range r.c.Live() {
				x.V.RT.UpdateEagerly()
			}
		}()
		r.rep.Count("periodic_push_stand_ins_during_joins", 1)
	}
	start := time.Now()
	lastNudge := start
	var quietSince time.Time // membership converged and no membership event since
	epoch := r.watch.epoch.Load()
	for time.Since(start) < c13BootstrapWait {
		if m.V.RT.IsBootstrapped() {
			return m, nil
		}
		if err, done := m.StartError(); done && err != nil {
			r.c.StopGraceful(m)
			return nil, fmt.Errorf("member start: %w", err)
		}
		if e := r.watch.epoch.Load(); e != epoch || !r.membershipConverged() {
			epoch = e
			quietSince = time.Time{}
		} else if quietSince.IsZero() {
			quietSince = time.Now()
		}
		if time.Since(lastNudge) >= 2*time.Second {
			lastNudge = time.Now()
			nudge()
		}
		time.Sleep(20 * time.Millisecond)
	}
	defer r.c.StopGraceful(m)
	if !quietSince.IsZero() && time.Since(quietSince) >= c13BootstrapStable {
		co := c13Oldest(r.c.Live())
		return nil, &c13Violation{
			Clause: "member-without-table",
			Detail: fmt.Sprintf("%s joined %.0f s ago, every live member's memberlist has shown exactly the live set without any membership event for the last %.0f s and a routing update was requested every 2 s (request still running: %v), but %s has not received a routing table; oldest live member (coordinator) is %s",
				m.Name, time.Since(start).Seconds(), time.Since(quietSince).Seconds(), busy.Load(), m.Name, co.Name),
		}
	}
	return nil, fmt.Errorf("member %s not bootstrapped within %s (membership was not quiet long enough to blame olric)", m.Name, c13BootstrapWait)
}

type c13Verdict struct {
	stage string
	fails []c13Fail
}

// judgeOnce settles and evaluates every stage plus the write probes. It
// returns void=true when a membership event arrived in the meantime.
func (r *c13Exec) judgeOnce(stepIdx int, label string) (verdicts []c13Verdict, void bool, abort string) {
	rep := r.rep
	ok, why := r.waitMembership()
	if !ok {
		return nil, false, fmt.Sprintf("membership did not converge within %s: %s", c13MemberWait, why)
	}
	time.Sleep(60 * time.Millisecond) // let the log lines of the events just processed land
	e0 := r.watch.epoch.Load()
	stable := func() bool {
		if r.watch.epoch.Load() != e0 {
			return false
		}
		live := r.c.Live()
		want := map[uint64]bool{}
		for _, m := range live {
			want[m.V.RT.This().ID] = true
		}
		for _, m := range live {
			if !sameIDSet(idSet(m.V.RT.Discovery().GetMembers()), want) {
				return false
			}
		}
		return true
	}
	stages := []string{"balanced"}
	if r.cs.Data {
		stages = []string{"pushed", "balanced"}
	}
	clean := true
	for _, stage := range stages {
		rounds, settled := r.settle(stage == "balanced")
		if !stable() {
			return nil, true, ""
		}
		rep.Count("update_rounds", int64(rounds))
		if !settled {
			return nil, false, fmt.Sprintf("stage %s: routing tables / data placement still changing after %d update rounds", stage, rounds)
		}
		fails := r.evaluate(stage)
		if !stable() {
			return nil, true, ""
		}
		if len(fails) > 0 {
			r.logf("step %d %s stage %s: %d failing clauses, re-checking: %s", stepIdx, label, stage, len(fails), fails[0].Detail)
			// a real violation persists: pause, push again, judge again
			time.Sleep(1500 * time.Millisecond)
			r.settle(stage == "balanced")
			again := map[string]c13Fail{}
			for _, f := range r.evaluate(stage) {
				again[f.Clause] = f
			}
			if !stable() {
				return nil, true, ""
			}
			var persistent []c13Fail
			for _, f := range fails {
				if f2, ok := again[f.Clause]; ok {
					persistent = append(persistent, f2)
				} else {
					rep.Count("transient_failures_gone_on_recheck", 1)
					rep.SetAdd("transient_clauses", f.Clause)
				}
			}
			fails = persistent
		}
		verdicts = append(verdicts, c13Verdict{stage, fails})
		if len(fails) > 0 {
			clean = false
			break
		}
	}
	if clean {
		pf := r.probes(stepIdx)
		if !stable() {
			return nil, true, ""
		}
		verdicts = append(verdicts, c13Verdict{"probes", pf})
	}
	return verdicts, false, ""
}

// checkpoint stabilises and judges after one event. It returns false when the case cannot go on.
func (r *c13Exec) checkpoint(stepIdx int, label string) bool {
	rep := r.rep
	var ks []string
	for i := 0; i <= stepIdx && i < len(r.cs.Steps); i++ {
		k := r.cs.Steps[i].Kind
		if r.cs.Steps[i].Fast && i < stepIdx {
			k += "!"
		}
		ks = append(ks, k)
	}
	prefix := r.cs.cfgKey() + "|" + strings.Join(ks, ",")
	var verdicts []c13Verdict
	judged := false
	for attempt := 1; attempt <= 4; attempt++ {
		v, void, abort := r.judgeOnce(stepIdx, label)
		if abort != "" {
			rep.Inconclusive(fmt.Sprintf("%s step %d (%s): %s", r.cs, stepIdx, label, abort))
			return false
		}
		if void {
			rep.Count("judgements_voided_by_spurious_membership_events", 1)
			r.logf("step %d %s: membership event during the judgement (attempt %d), starting over", stepIdx, label, attempt)
			time.Sleep(500 * time.Millisecond)
			continue
		}
		verdicts, judged = v, true
		break
	}
	if !judged {
		rep.Inconclusive(fmt.Sprintf("%s step %d (%s): membership kept changing without any event from the harness (4 attempts)", r.cs, stepIdx, label))
		return false
	}
	clean := true
	for _, v := range verdicts {
		if v.stage != "probes" {
			rep.Eval(1)
			rep.Count("evaluations_stage_"+v.stage, 1)
			rep.Count("evaluations_after_"+label, 1)
			rep.Count(fmt.Sprintf("evaluations_with_%d_members", len(r.c.Live())), 1)
			if len(r.c.Live()) < r.cs.R {
				rep.Count("evaluations_with_N<R", 1)
			}
			rep.Distinct(prefix + "|" + v.stage)
		}
		for _, f := range v.fails {
			clean = false
			key := fmt.Sprintf("c13|%s|after=%s", f.Clause, label)
			detail := fmt.Sprintf("%s; history: %s; stage=%s live=%d R=%d P=%d: %s", r.cs.cfgKey(), strings.Join(r.history, ", "), v.stage, len(r.c.Live()), r.cs.R, r.cs.P, f.Detail)
			rep.Violate(key, detail, map[string]interface{}{
				"case": r.cs, "failed_after_step": stepIdx, "stage": v.stage, "history": r.history, "clause": f.Clause, "tables": r.dumpTables(),
			})
			fmt.Printf("  VIOL %s :: %s\n", key, detail)
		}
	}
	// a violated state poisons what follows: stop the case at its first violation
	return clean
}

// c13RunCase executes one case and returns the number of violations it added.
func c13RunCase(rep *ev.Report, cs c13Case, verbose bool) {
	cfg := cluster.Config{Replicas: cs.R, Partitions: cs.P, TableSize: 1 << 20, FastFailureDetection: true}
	watch := &c13LogWatch{}
	if os.Getenv("C13_LOG") != "" {
		watch.pass = os.Stdout
	}
	cfg.LogTo = watch
	c := cluster.New(cfg)
	defer c.Shutdown()
	r := &c13Exec{rep: rep, cs: cs, c: c, departed: map[uint64]string{}, verbose: verbose, watch: watch}
	for i := 0; i < cs.Init; i++ {
		m, err := r.addMember(0, 0)
		if err != nil {
			var v *c13Violation
			if errors.As(err, &v) {
				key := fmt.Sprintf("c13|%s|after=start", v.Clause)
				detail := fmt.Sprintf("%s; history: %s, then start of member %d: %s", cs.cfgKey(), strings.Join(r.history, ", "), i, v.Detail)
				rep.Eval(1)
				rep.Violate(key, detail, map[string]interface{}{"case": cs, "failed_after_step": -1, "stage": "event", "history": r.history, "clause": v.Clause})
				fmt.Printf("  VIOL %s :: %s\n", key, detail)
				return
			}
			rep.Inconclusive(fmt.Sprintf("%s: initial member %d: %v", cs, i, err))
			return
		}
		r.history = append(r.history, "start "+m.Name)
	}
	if ok, why := r.waitMembership(); !ok {
		rep.Inconclusive(fmt.Sprintf("%s: initial membership: %s", cs, why))
		return
	}
	if cs.Data {
		r.settle(false)
		if err := r.loadData(); err != nil {
			rep.Inconclusive(fmt.Sprintf("%s: loading data: %v", cs, err))
			return
		}
	}
	if !r.checkpoint(-1, "start") {
		return
	}
	var pending []string
	for si, st := range cs.Steps {
		t0 := time.Now()
		label, err := r.apply(st)
		rep.Count("events_"+label, 1)
		if err != nil {
			var v *c13Violation
			if errors.As(err, &v) {
				label = strings.Join(append(pending, label), "+")
				key := fmt.Sprintf("c13|%s|after=%s", v.Clause, label)
				detail := fmt.Sprintf("%s; history: %s, then %s: %s", cs.cfgKey(), strings.Join(r.history, ", "), st.Kind, v.Detail)
				rep.Eval(1)
				rep.Violate(key, detail, map[string]interface{}{"case": cs, "failed_after_step": si, "stage": "event", "history": r.history, "clause": v.Clause})
				fmt.Printf("  VIOL %s :: %s\n", key, detail)
				return
			}
			rep.Inconclusive(fmt.Sprintf("%s step %d (%s): %v", cs, si, label, err))
			r.logf("step %d %s: cannot apply: %v", si, label, err)
			return
		}
		if st.Fast && si < len(cs.Steps)-1 {
			pending = append(pending, label)
			rep.Count("events_followed_immediately_by_the_next", 1)
			r.logf("step %d %-26s live=%d  (next event follows immediately)", si, label, len(c.Live()))
			continue
		}
		label = strings.Join(append(pending, label), "+")
		pending = nil
		ok := r.checkpoint(si, label)
		r.logf("step %d %-26s live=%d  %.2fs ok=%v", si, label, len(c.Live()), time.Since(t0).Seconds(), ok)
		if !ok {
			return
		}
		if si > 0 {
			rep.SetAdd("event_pairs", cs.Steps[si-1].Kind+">"+st.Kind)
		}
	}
	rep.Count("cases_completed", 1)
	if len(r.history) > 0 {
		rep.Sample(map[string]interface{}{"case": cs.cfgKey(), "resolved_history": r.history})
	}
}

// ---------------------------------------------------------------------------
// driver

func c13Child(ctx *runCtx, spec string) {
	if strings.HasPrefix(spec, "self ") {
		c13SelfChild(ctx, spec)
		return
	}
	var from, to int
	fmt.Sscanf(spec, "%d:%d", &from, &to)
	cases := c13Cases(ctx.seed, ctx.tier)
	// Ports: every batch owns 64 ports inside this invocation's 4000-port range,
	// split in two halves used by alternating cases (a case needs at most 16), so
	// that neither a concurrently running batch nor a straggler of the previous
	// case can ever be reached under an address that a new member is given.
	// (Found the hard way: a member of a P=271 cluster asked a member of a P=7
	// cluster of another process, started on a port that a crashed member had just
	// freed, for the length of partition 200, and the process died.)
	batchIdx := (from / c13CasesPerProc(ctx.tier)) % 62
	for i := from; i < to && i < len(cases); i++ {
		os.Setenv("VERIF_PORT_BASE", fmt.Sprint(portRangeStart()+batchIdx*64+((i-from)%2)*32))
		cluster.ResetPorts()
		data, _ := json.Marshal(cases[i])
		fmt.Printf("CASE %s\n", data)
		t0 := time.Now()
		c13RunCase(ctx.rep, cases[i], true)
		fmt.Printf("DONE %d %.1fs\n", cases[i].ID, time.Since(t0).Seconds())
		_ = ctx.rep.WritePartial(os.Args[len(os.Args)-1] + ".progress")
	}
}

func c13LastCase(logPath string) string {
	data, err := os.ReadFile(logPath)
	if err != nil {
		return ""
	}
	last := ""
	for _, line := range strings.Split(string(data), "\n") {
		if strings.HasPrefix(line, "CASE ") {
			last = strings.TrimPrefix(line, "CASE ")
		}
	}
	return last
}

// c13PanicHead returns the panic / fatal error message and the first frames from a child's log.
func c13PanicHead(logPath, tail string) string {
	data, err := os.ReadFile(logPath)
	if err == nil {
		txt := string(data)
		for _, marker := range []string{"\npanic: ", "\nfatal error: "} {
			if i := strings.Index(txt, marker); i >= 0 {
				lines := strings.SplitN(txt[i+1:], "\n", 16)
				if len(lines) > 15 {
					lines = lines[:15]
				}
				return strings.Join(lines, " | ")
			}
		}
	}
	return lastLines(tail, 25)
}

func c13Run(ctx *runCtx) int {
	ctx.rep.Rule = "membership sequences of length 5 over {join, graceful leave, abrupt stop, coordinator leave, coordinator abrupt stop, re-join of a stopped member on the same address, restart = abrupt stop + immediate re-join on the same address}, chosen by a seeded generator that prefers the least used (previous event, event) pair, over the grid initial size 1..3 x ReplicaCount 1..3 x PartitionCount {7,31,271} x {no data, data loaded}; " +
		"after the start and after EVERY event the predicates are judged (with data: once after the pushes alone, when previous owners still linger, and once after balancing); evaluations = judged (event prefix, stage) points; distinct_nontrivial = distinct (configuration, event-kind prefix, stage) judged"
	ctx.rep.Assumptions = []string{
		"membership 'stabilised' = the memberlist of every live member shows exactly the live set for 3 polls; then every member runs its routing update (only the self-believed coordinator acts) and, in stage 'balanced', its balancer, until one full round changes neither any member's table nor which partitions hold data (<= 12 rounds, else inconclusive)",
		"a failing predicate is reported only if it fails again after a 1.5 s pause and another settle; failures that vanish are counted as transient_failures_gone_on_recheck",
		"load bound = ceil(P/N * 1.25) with real division (never tighter than the ring library)",
		"'holds data' = Partition.Length() > 0 read white-box on the listed member (the same quantity the coordinator asks for)",
		"current backup owners = the last min(R,N)-1 entries of the backup list; everything before them is a 'further listed owner'",
		"a member that fails to start/bootstrap within 40 s or a membership that does not converge within 25 s makes the case inconclusive",
	}
	cases := c13Cases(ctx.seed, ctx.tier)
	if os.Getenv("C13_LIST") != "" {
		for _, cs := range cases {
			fmt.Println(cs)
		}
		return 0
	}
	var batches []batch
	per := c13CasesPerProc(ctx.tier)
	for i := 0; i < len(cases); i += per {
		to := i + per
		if to > len(cases) {
			to = len(cases)
		}
		batches = append(batches, batch{Spec: fmt.Sprintf("%d:%d", i, to), Timeout: 20 * time.Minute})
	}
	parallel := 8
	// the cluster drives itself (c13_self.go)
	for i, cfg := range []string{"R=1 P=23", "R=2 P=31"} {
		batches = append(batches, batch{Spec: fmt.Sprintf("self %s seed=%d", cfg, ctx.seed*10+int64(i)), Timeout: 10 * time.Minute})
	}
	runBatches(ctx, batches, parallel, func(b batch, res batchResult, tail string) {
		last := c13LastCase(res.LogPath)
		if !res.Merged {
			// keep what the child had observed before it died
			_ = ctx.rep.MergeFile(strings.TrimSuffix(res.LogPath, ".log") + ".partial.json.progress")
		}
		if res.TimedOut {
			ctx.rep.Inconclusive(fmt.Sprintf("child %s timed out; last case: %s", b.Spec, last))
			return
		}
		var cs c13Case
		_ = json.Unmarshal([]byte(last), &cs)
		var ks []string
		for _, s := range cs.Steps {
			ks = append(ks, s.Kind)
		}
		ctx.rep.Violate(fmt.Sprintf("c13|process-died|%s|%s", cs.cfgKey(), strings.Join(ks, ",")),
			fmt.Sprintf("child %s died (exit %d) while running %s: %s", b.Spec, res.ExitCode, last, c13PanicHead(res.LogPath, tail)),
			map[string]interface{}{"case": cs, "log": res.LogPath})
	})
	ctx.rep.Extra("cases_planned", len(cases))
	min := 100
	if ctx.tier == "thorough" {
		min = 1000
	}
	return ctx.rep.Finish(min)
}

func c13Replay(ctx *runCtx, path string) int {
	var f struct {
		Key    string `json:"key"`
		Replay struct {
			Case c13Case `json:"case"`
		} `json:"replay"`
	}
	if err := readJSON(path, &f); err != nil {
		fmt.Fprintln(os.Stderr, "replay:", err)
		return 2
	}
	for attempt := 1; attempt <= 3; attempt++ {
		rep := ev.New("C13", "fault_enumeration", "replay")
		fmt.Printf("replaying %s (attempt %d)\n", f.Replay.Case, attempt)
		c13RunCase(rep, f.Replay.Case, true)
		if rep.NumViolations() > 0 {
			for _, v := range rep.Partial().Violations {
				fmt.Printf("VIOLATION property=C13 replay=%s key=%q detail=%q\n", path, v.Key, trunc13(v.Detail, 400))
			}
			return 1
		}
	}
	fmt.Println("replay: no violation reproduced in 3 attempts")
	return 0
}
