package main

// C07, "long" batches: counters that live long. Several callers on different members increment four counters by 1,
// thousands of times, on a cluster with small storage tables and the real compaction worker (5 ms), while a filler
// writes other keys of the same DMap (so that it is usually another key that makes a fragment roll over to a new
// table). Incr by 1 makes the oracle exact: the values returned for a counter are a permutation of 1..T. Before the
// counters start, a few keys WITH an expiry are incremented on every member; after the counters are done the
// cluster idles for longer than that expiry and every counter is incremented (and a GetPut chain continued) once
// more: a counter without expiry never restarts.

import (
	"context"
	"fmt"
	"sort"
	"sync"
	"sync/atomic"
	"time"

	"github.com/olric-data/olric/verif/cluster"
	"github.com/olric-data/olric/verif/paths"
)

func c07LongChild(ctx *runCtx, spec string) {
	var n, r, calls int
	var seed int64
	fmt.Sscanf(spec, "long N=%d R=%d calls=%d seed=%d", &n, &r, &calls, &seed)
	c, err := cluster.Start(cluster.Config{Replicas: r, Partitions: 3, TableSize: 16 << 10, CompactionInterval: 5 * time.Millisecond}, n)
	if err != nil {
		ctx.rep.Inconclusive("cluster start: " + err.Error())
		return
	}
	defer c.Shutdown()
	fp := c.Fingerprint()
	dmap := fmt.Sprintf("c07-long-%d", seed)
	router := paths.NewRouter(c, dmap)
	defer router.Close()
	bg := context.Background()
	kinds := []string{"EO", "EN", "CC", "RO", "RN"}
	if n == 1 {
		kinds = []string{"EO", "CC", "RO"}
	}
	// counters with an expiry, incremented through every path (and so on every member)
	s0 := router.NewSession()
	for i := 0; i < 12; i++ {
		k := fmt.Sprintf("win-%d", i)
		if err := s0.Via(kinds[i%len(kinds)]).Put(bg, k, []byte("5"), paths.PutOpts{PX: 300 * time.Millisecond}); err != nil {
			ctx.rep.Inconclusive(spec + ": Put PX: " + err.Error())
			return
		}
		if _, err := s0.Via(kinds[(i+1)%len(kinds)]).Incr(bg, k, 1); err != nil {
			ctx.rep.Inconclusive(spec + ": Incr: " + err.Error())
			return
		}
	}
	s0.Close()
	keys := []string{"ctr-a", "ctr-b", "ctr-c", "ctr-d"}
	var mu sync.Mutex
	got := map[string][]int{}
	var stopFill int32
	var fwg sync.WaitGroup
	fwg.Add(1)
	go func() {
		defer fwg.Done()
		s := router.NewSession()
		defer s.Close()
		val := make([]byte, 200)
		for i := 0; atomic.LoadInt32(&stopFill) == 0; i++ {
			_ = s.Via("EO").Put(bg, fmt.Sprintf("fill-%d", i%40), val, paths.PutOpts{})
		}
	}()
	var wg sync.WaitGroup
	callers := 6
	var failed int32
	for w := 0; w < callers; w++ {
		wg.Add(1)
		go func(w int) {
			defer wg.Done()
			s := router.NewSession()
			defer s.Close()
			cl := s.Via(kinds[w%len(kinds)])
			for i := 0; i < calls && atomic.LoadInt32(&failed) == 0; i++ {
				k := keys[(i+w)%len(keys)]
				v, err := cl.Incr(bg, k, 1)
				if err != nil {
					ctx.rep.Inconclusive(fmt.Sprintf("%s: Incr via %s: %v", spec, cl.Kind(), err))
					atomic.StoreInt32(&failed, 1)
					return
				}
				mu.Lock()
				got[k] = append(got[k], v)
				mu.Unlock()
			}
		}(w)
	}
	wg.Wait()
	atomic.StoreInt32(&stopFill, 1)
	fwg.Wait()
	if atomic.LoadInt32(&failed) == 1 {
		return
	}
	if c.Fingerprint() != fp {
		ctx.rep.Inconclusive(spec + ": membership/routing changed during the run")
		return
	}
	sess := router.NewSession()
	defer sess.Close()
	for _, k := range keys {
		ctx.rep.Eval(1)
		vals := append([]int(nil), got[k]...)
		sort.Ints(vals)
		total := len(vals)
		ctx.rep.Count("long_counter_increments", int64(total))
		bad := ""
		for i, v := range vals {
			if v != i+1 {
				if i > 0 && vals[i-1] == v {
					bad = fmt.Sprintf("the value %d was returned twice", v)
				} else {
					bad = fmt.Sprintf("the value %d was never returned (next returned value %d)", i+1, v)
				}
				break
			}
		}
		if bad != "" {
			ctx.rep.Violate("c07|Incr|not-a-permutation|long-lived-counter|small-tables+compaction",
				fmt.Sprintf("%s: %d Incr(+1) calls on %s by %d callers over %v (16 KiB tables, compaction every 5 ms, a filler writing other keys): %s", spec, total, k, callers, kinds, bad),
				map[string]interface{}{"batch": spec, "key": k})
			continue
		}
		g, err := sess.Via("EO").Get(bg, k)
		if err != nil || string(g.Value) != fmt.Sprint(total) {
			ctx.rep.Violate("c07|Incr|final-value|long-lived-counter", fmt.Sprintf("%s: after %d increments Get(%s) = (%q,%v)", spec, total, k, g.Value, err), map[string]interface{}{"batch": spec, "key": k})
			continue
		}
		ctx.rep.Distinct(fmt.Sprintf("long|N=%d|R=%d|%s", n, r, k))
	}
	// a GetPut chain is started, then everything idles beyond the expiry of the win-* keys
	for _, k := range keys {
		if _, _, err := sess.Via("EN").GetPut(bg, "chain-"+k, []byte("first")); err != nil && n > 1 {
			ctx.rep.Inconclusive(spec + ": GetPut: " + err.Error())
			return
		}
	}
	time.Sleep(450 * time.Millisecond)
	for _, k := range keys {
		total := len(got[k])
		v, err := sess.Via(kinds[1%len(kinds)]).Incr(bg, k, 1)
		ctx.rep.Count("increments_after_an_idle_gap", 1)
		if err != nil || v != total+1 {
			ctx.rep.Violate("c07|Incr|counter-restarted|after-idle-gap",
				fmt.Sprintf("%s: counter %s (never given an expiry) stood at %d; 450 ms later Incr(+1) returned (%d,%v)", spec, k, total, v, err), map[string]interface{}{"batch": spec, "key": k})
			continue
		}
		old, had, err := sess.Via("EO").GetPut(bg, "chain-"+k, []byte("second"))
		if n > 1 && (err != nil || !had || string(old) != "first") {
			ctx.rep.Violate("c07|GetPut|chain-cut|after-idle-gap",
				fmt.Sprintf("%s: GetPut on chain-%s 450 ms after the previous GetPut returned (old=%q had=%v %v), want the previous value", spec, k, old, had, err), map[string]interface{}{"batch": spec, "key": k})
		}
	}
	ctx.rep.Sample(map[string]interface{}{"config": spec, "callers": callers, "increments_per_counter": len(got[keys[0]])})
}
