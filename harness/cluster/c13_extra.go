package cluster

import (
	"context"
	"fmt"
	"time"

	"github.com/olric-data/olric"
	"github.com/olric-data/olric/config"
)

// MLPort returns the memberlist port of the member.
func (m *Member) MLPort() int { return m.cfg.MemberlistConfig.BindPort }

// AddMemberAtPorts starts a member on a fixed RESP port AND a fixed memberlist
// port: the way a restarted process comes back (same name, same gossip
// address, new birthdate). AddMemberAt picks a fresh memberlist port, which
// memberlist treats as an address conflict for a node it has seen die.
// bootstrapWait bounds the wait for the first routing table.
func (c *Cluster) AddMemberAtPorts(port, mlPort int, bootstrapWait time.Duration) (*Member, error) {
	return c.AddMemberTuned(port, mlPort, bootstrapWait, nil)
}

// AddMemberTuned is AddMemberAtPorts (0 = pick a free port) with a hook that
// may adjust the member's configuration (e.g. memberlist timing) before start.
func (c *Cluster) AddMemberTuned(wantPort, wantMLPort int, bootstrapWait time.Duration, tune func(*config.Config)) (*Member, error) {
	var lastErr error
	for attempt := 0; attempt < 5; attempt++ {
		port, mlPort := wantPort, wantMLPort
		if port == 0 {
			port = freePort()
		}
		if mlPort == 0 {
			mlPort = freePort()
		}
		cfg := c.memberConfig(port, mlPort)
		if tune != nil {
			tune(cfg)
		}
		for _, m := range c.Live() {
			cfg.Peers = append(cfg.Peers, m.V.RT.Discovery().LocalNode().Address())
		}
		db, err := olric.New(cfg)
		if err != nil {
			return nil, err
		}
		m := &Member{DB: db, cfg: cfg, startErr: make(chan error, 1)}
		go func() { m.startErr <- db.Start() }()
		m.V = db.Verif()
		deadline := time.Now().Add(bootstrapWait)
		ok, failed := false, false
		for time.Now().Before(deadline) {
			select {
			case err := <-m.startErr:
				lastErr = fmt.Errorf("member start: %w", err)
				failed = true
			default:
			}
			if failed {
				break
			}
			if m.V.RT.IsBootstrapped() {
				ok = true
				break
			}
			time.Sleep(10 * time.Millisecond)
		}
		if ok {
			m.Name = db.VerifName()
			m.Emb = db.NewEmbeddedClient()
			c.mu.Lock()
			m.Idx = c.nextIdx
			c.nextIdx++
			c.Members = append(c.Members, m)
			c.mu.Unlock()
			return m, nil
		}
		if !failed {
			lastErr = fmt.Errorf("member on port %d not bootstrapped within %s", port, bootstrapWait)
		}
		ctx, cancel := context.WithTimeout(context.Background(), 2*time.Second)
		_ = db.Shutdown(ctx)
		cancel()
		if !failed {
			return nil, lastErr
		}
		time.Sleep(200 * time.Millisecond)
	}
	return nil, lastErr
}

// ResetPorts makes the port allocator start again from VERIF_PORT_BASE (which
// is re-read). A process that runs many short-lived clusters one after the
// other calls it between clusters so that it stays inside its own port range
// instead of wandering into the range of a concurrently running process.
func ResetPorts() {
	portMu.Lock()
	portNext = 0
	portMu.Unlock()
}

// StartMember starts a member (0 = pick a free port) and registers it as live
// as soon as it has JOINED the memberlist cluster, without waiting for its
// first routing table: the caller decides how long "not bootstrapped" may last
// and what that means. A start error (e.g. the port is taken) is retried.
func (c *Cluster) StartMember(wantPort, wantMLPort int, joinWait time.Duration, tune func(*config.Config)) (*Member, error) {
	var lastErr error
	for attempt := 0; attempt < 5; attempt++ {
		port, mlPort := wantPort, wantMLPort
		if port == 0 {
			port = freePort()
		}
		if mlPort == 0 {
			mlPort = freePort()
		}
		cfg := c.memberConfig(port, mlPort)
		if tune != nil {
			tune(cfg)
		}
		for _, m := range c.Live() {
			cfg.Peers = append(cfg.Peers, m.V.RT.Discovery().LocalNode().Address())
		}
		db, err := olric.New(cfg)
		if err != nil {
			return nil, err
		}
		m := &Member{DB: db, cfg: cfg, startErr: make(chan error, 1)}
		go func() { m.startErr <- db.Start() }()
		m.V = db.Verif()
		deadline := time.Now().Add(joinWait)
		joined, failed := false, false
		for time.Now().Before(deadline) && !joined && !failed {
			select {
			case err := <-m.startErr:
				lastErr = fmt.Errorf("member start: %w", err)
				failed = true
			default:
				if m.V.RT.VerifJoined() {
					joined = true
				} else {
					time.Sleep(5 * time.Millisecond)
				}
			}
		}
		if joined {
			m.Name = db.VerifName()
			m.Emb = db.NewEmbeddedClient()
			c.mu.Lock()
			m.Idx = c.nextIdx
			c.nextIdx++
			c.Members = append(c.Members, m)
			c.mu.Unlock()
			return m, nil
		}
		if !failed {
			lastErr = fmt.Errorf("member on port %d did not join within %s", port, joinWait)
		}
		ctx, cancel := context.WithTimeout(context.Background(), 2*time.Second)
		_ = db.Shutdown(ctx)
		cancel()
		if !failed {
			return nil, lastErr
		}
		time.Sleep(200 * time.Millisecond)
	}
	return nil, lastErr
}

// StartError returns the error with which the member's Start() returned, if it has returned.
func (m *Member) StartError() (error, bool) {
	select {
	case err := <-m.startErr:
		m.startErr <- err
		return err, true
	default:
		return nil, false
	}
}
