// Package cluster builds in-process olric clusters for the monitors: members
// are real olric.Olric instances talking RESP and memberlist over loopback.
package cluster

import (
	"context"
	"fmt"
	"io"
	"log"
	"net"
	"os"
	"strconv"
	"sync"
	"sync/atomic"
	"time"

	"github.com/hashicorp/memberlist"
	"github.com/olric-data/olric"
	"github.com/olric-data/olric/config"
	"github.com/olric-data/olric/internal/cluster/partitions"
	"github.com/olric-data/olric/internal/discovery"
	"github.com/olric-data/olric/internal/verifhook"
)

// Config describes a cluster.
type Config struct {
	Replicas          int
	Partitions        uint64
	TableSize         uint64
	WriteQuorum       int
	ReadQuorum        int
	MemberCountQuorum int32
	ReadRepair        bool
	Async             bool
	LoadFactor        float64

	// Background cadences. Zero = effectively never (hours), so that the
	// harness drives these steps itself.
	BalancerInterval   time.Duration
	RoutingPush        time.Duration
	CompactionInterval time.Duration
	JanitorInterval    time.Duration
	EvictionWorkers    int64

	// DMap configuration
	DMaps func(d *config.DMaps)

	// NoInternalRetries makes member-to-member requests single-shot.
	NoInternalRetries bool

	// FastFailureDetection tunes memberlist so that an abrupt stop is detected in ~0.5 s.
	FastFailureDetection bool

	LogTo io.Writer
}

// Member is one in-process cluster member.
type Member struct {
	Idx      int
	Name     string // host:port of the RESP server, the member's name in the cluster
	DB       *olric.Olric
	V        *olric.Verif
	Emb      *olric.EmbeddedClient
	Stopped  bool
	cfg      *config.Config
	startErr chan error
}

// Cluster is a set of in-process members.
type Cluster struct {
	expectedLeaves map[string]int // member name -> leave events it is expected to have seen
	mu             sync.Mutex
	Cfg            Config
	Members        []*Member
	nextIdx        int
	noWait         bool
	pending        []*Member
}

// StartTogether starts n members at once and waits until all of them are
// bootstrapped. Needed when MemberCountQuorum > 1.
func StartTogether(cfg Config, n int) (*Cluster, error) {
	c := New(cfg)
	c.noWait = true
	for i := 0; i < n; i++ {
		if _, err := c.AddMemberAt(0); err != nil {
			return nil, err
		}
	}
	c.noWait = false
	deadline := time.Now().Add(40 * time.Second)
	for _, m := range c.pending {
		for !m.V.RT.IsBootstrapped() {
			if time.Now().After(deadline) {
				return nil, fmt.Errorf("member %s not bootstrapped within 40s", m.Name)
			}
			select {
			case err := <-m.startErr:
				return nil, fmt.Errorf("member start: %w", err)
			default:
			}
			time.Sleep(10 * time.Millisecond)
		}
	}
	c.mu.Lock()
	c.Members = append(c.Members, c.pending...)
	c.pending = nil
	c.mu.Unlock()
	if err := c.WaitStable(30 * time.Second); err != nil {
		c.Shutdown()
		return nil, err
	}
	return c, nil
}

var (
	portMu   sync.Mutex
	portNext int
)

func portBase() int {
	if s := os.Getenv("VERIF_PORT_BASE"); s != "" {
		if n, err := strconv.Atoi(s); err == nil {
			return n
		}
	}
	return 21000
}

// freePort returns a TCP port that is free right now, scanning upwards from
// this process' port base so that parallel children do not collide.
func freePort() int {
	portMu.Lock()
	defer portMu.Unlock()
	if portNext == 0 {
		portNext = portBase()
	}
	for i := 0; i < 5000; i++ {
		p := portNext
		portNext++
		if portNext > 60000 {
			portNext = portBase()
		}
		l, err := net.Listen("tcp", "127.0.0.1:"+strconv.Itoa(p))
		if err != nil {
			continue
		}
		_ = l.Close()
		// memberlist needs UDP too
		u, err := net.ListenPacket("udp", "127.0.0.1:"+strconv.Itoa(p))
		if err != nil {
			continue
		}
		_ = u.Close()
		return p
	}
	panic("no free port")
}

const never = 24 * time.Hour

func (c *Cluster) memberConfig(port, mlPort int) *config.Config {
	cc := c.Cfg
	cfg := config.New("local")
	cfg.BindAddr = "127.0.0.1"
	cfg.BindPort = port
	cfg.PartitionCount = cc.Partitions
	cfg.ReplicaCount = cc.Replicas
	cfg.WriteQuorum = cc.WriteQuorum
	cfg.ReadQuorum = cc.ReadQuorum
	cfg.MemberCountQuorum = cc.MemberCountQuorum
	cfg.ReadRepair = cc.ReadRepair
	if cc.Async {
		cfg.ReplicationMode = config.AsyncReplicationMode
	}
	if cc.LoadFactor != 0 {
		cfg.LoadFactor = cc.LoadFactor
	}
	cfg.LeaveTimeout = 500 * time.Millisecond
	cfg.BootstrapTimeout = 20 * time.Second
	cfg.JoinRetryInterval = 100 * time.Millisecond
	cfg.MaxJoinAttempts = 50
	cfg.TriggerBalancerInterval = orNever(cc.BalancerInterval)
	cfg.RoutingTablePushInterval = orNever(cc.RoutingPush)
	w := cc.LogTo
	if w == nil {
		w = io.Discard
	}
	cfg.LogOutput = w
	cfg.Logger = log.New(w, "", log.LstdFlags)
	cfg.LogLevel = "WARN"
	cfg.LogVerbosity = 2

	mc := memberlist.DefaultLocalConfig()
	mc.BindAddr = "127.0.0.1"
	mc.BindPort = mlPort
	mc.AdvertiseAddr = "127.0.0.1"
	mc.AdvertisePort = mlPort
	if cc.FastFailureDetection {
		// fast, but not so fast that a loaded machine produces false suspicions all the time
		mc.ProbeInterval = 300 * time.Millisecond
		mc.ProbeTimeout = 250 * time.Millisecond
		mc.SuspicionMult = 4
		mc.GossipInterval = 30 * time.Millisecond
		mc.PushPullInterval = 2 * time.Second
		mc.RetransmitMult = 3
	}
	cfg.MemberlistConfig = mc

	// The inter-member client keeps the repository defaults (3 retries, 3 s read
	// timeout) unless the monitor asks for single-shot requests.
	if cc.NoInternalRetries {
		cl := config.NewClient()
		cl.MaxRetries = -1
		cl.ReadTimeout = 10 * time.Second
		cl.WriteTimeout = 10 * time.Second
		cl.DialTimeout = 2 * time.Second
		cfg.Client = cl
	}

	d := &config.DMaps{}
	d.Engine = config.NewEngine()
	if cc.TableSize != 0 {
		d.Engine.Config["tableSize"] = cc.TableSize
	}
	d.CheckEmptyFragmentsInterval = orNever(cc.JanitorInterval)
	d.TriggerCompactionInterval = orNever(cc.CompactionInterval)
	if cc.EvictionWorkers != 0 {
		d.NumEvictionWorkers = cc.EvictionWorkers
	} else {
		d.NumEvictionWorkers = 1
	}
	if cc.DMaps != nil {
		cc.DMaps(d)
	}
	cfg.DMaps = d
	return cfg
}

func orNever(d time.Duration) time.Duration {
	if d == 0 {
		return never
	}
	return d
}

// New creates an empty cluster description with defaults filled in.
func New(cfg Config) *Cluster {
	if cfg.Replicas == 0 {
		cfg.Replicas = 1
	}
	if cfg.Partitions == 0 {
		cfg.Partitions = 7
	}
	if cfg.WriteQuorum == 0 {
		cfg.WriteQuorum = 1
	}
	if cfg.ReadQuorum == 0 {
		cfg.ReadQuorum = 1
	}
	if cfg.MemberCountQuorum == 0 {
		cfg.MemberCountQuorum = 1
	}
	return &Cluster{Cfg: cfg}
}

// Start creates a cluster with n members and waits until it is stable.
func Start(cfg Config, n int) (*Cluster, error) {
	c := New(cfg)
	for i := 0; i < n; i++ {
		if _, err := c.AddMember(); err != nil {
			c.Shutdown()
			return nil, err
		}
	}
	if err := c.WaitStable(30 * time.Second); err != nil {
		c.Shutdown()
		return nil, err
	}
	return c, nil
}

// Live returns the members that have not been stopped.
func (c *Cluster) Live() []*Member {
	c.mu.Lock()
	defer c.mu.Unlock()
	var res []*Member
	for _, m := range c.Members {
		if !m.Stopped {
			res = append(res, m)
		}
	}
	return res
}

// AddMember starts a new member that joins the live members. It returns when
// the member is bootstrapped (it has received a routing table).
func (c *Cluster) AddMember() (*Member, error) {
	return c.AddMemberAt(0)
}

// AddMemberAt is AddMember with a fixed RESP port (0 = pick one); used to
// re-join a stopped member under the same address.
func (c *Cluster) AddMemberAt(port int) (*Member, error) {
	var lastErr error
	for attempt := 0; attempt < 5; attempt++ {
		p := port
		if p == 0 {
			p = freePort()
		}
		mlPort := freePort()
		cfg := c.memberConfig(p, mlPort)
		for _, m := range c.Live() {
			cfg.Peers = append(cfg.Peers, fmt.Sprintf("127.0.0.1:%d", m.cfg.MemberlistConfig.BindPort))
		}
		c.mu.Lock()
		for _, pm := range c.pending {
			cfg.Peers = append(cfg.Peers, fmt.Sprintf("127.0.0.1:%d", pm.cfg.MemberlistConfig.BindPort))
		}
		c.mu.Unlock()
		db, err := olric.New(cfg)
		if err != nil {
			return nil, err
		}
		m := &Member{DB: db, cfg: cfg, startErr: make(chan error, 1)}
		go func() { m.startErr <- db.Start() }()
		m.V = db.Verif()
		if c.noWait {
			// the caller waits for the bootstrap of all members together (needed when
			// MemberCountQuorum > 1: a lone member never bootstraps)
			m.Name = db.VerifName()
			m.Emb = db.NewEmbeddedClient()
			c.mu.Lock()
			m.Idx = c.nextIdx
			c.nextIdx++
			c.pending = append(c.pending, m)
			c.mu.Unlock()
			return m, nil
		}
		// wait for bootstrap
		deadline := time.Now().Add(30 * time.Second)
		ok := false
		for time.Now().Before(deadline) {
			select {
			case err := <-m.startErr:
				lastErr = fmt.Errorf("member start: %w", err)
				goto retry
			default:
			}
			if m.V.RT.IsBootstrapped() {
				ok = true
				break
			}
			time.Sleep(10 * time.Millisecond)
		}
		if !ok {
			lastErr = fmt.Errorf("member on port %d not bootstrapped within 30s", p)
			ctx, cancel := context.WithTimeout(context.Background(), 2*time.Second)
			_ = db.Shutdown(ctx)
			cancel()
			continue
		}
		m.Name = db.VerifName()
		m.Emb = db.NewEmbeddedClient()
		c.mu.Lock()
		m.Idx = c.nextIdx
		c.nextIdx++
		c.Members = append(c.Members, m)
		c.mu.Unlock()
		return m, nil
	retry:
		ctx, cancel := context.WithTimeout(context.Background(), 2*time.Second)
		_ = db.Shutdown(ctx)
		cancel()
		if port != 0 {
			time.Sleep(200 * time.Millisecond)
		}
	}
	return nil, lastErr
}

// Port returns the RESP port of the member.
func (m *Member) Port() int { return m.cfg.BindPort }

// StopGraceful shuts a member down with a leave broadcast.
func (c *Cluster) noteStop(m *Member) {
	// called with c.mu held: every other live member will see one leave event
	if c.expectedLeaves == nil {
		c.expectedLeaves = map[string]int{}
	}
	for _, o := range c.Members {
		if !o.Stopped && o != m {
			c.expectedLeaves[o.Name]++
		}
	}
}

// LeaveAccounting describes observed vs expected leave events per live member.
func (c *Cluster) LeaveAccounting() string {
	counts := verifhook.Counts()
	c.mu.Lock()
	defer c.mu.Unlock()
	s := ""
	for _, m := range c.Members {
		st := "live"
		if m.Stopped {
			st = "stopped"
		}
		s += fmt.Sprintf("%s(%s) saw %d leaves, expected %d; ", m.Name, st, counts[m.Name+"|member.leave"], c.expectedLeaves[m.Name])
	}
	return s
}

// Flapped reports whether some live member has seen more leave events than the
// harness caused: a false failure suspicion (typically on an overloaded machine).
func (c *Cluster) Flapped() bool {
	counts := verifhook.Counts()
	c.mu.Lock()
	defer c.mu.Unlock()
	for _, m := range c.Members {
		if m.Stopped {
			continue
		}
		if int(counts[m.Name+"|member.leave"]) > c.expectedLeaves[m.Name] {
			return true
		}
	}
	return false
}

func (c *Cluster) StopGraceful(m *Member) {
	c.mu.Lock()
	if m.Stopped {
		c.mu.Unlock()
		return
	}
	m.Stopped = true
	c.noteStop(m)
	c.mu.Unlock()
	ctx, cancel := context.WithTimeout(context.Background(), 10*time.Second)
	defer cancel()
	_ = m.DB.Shutdown(ctx)
}

// StopAbrupt makes a member vanish without a leave broadcast.
func (c *Cluster) StopAbrupt(m *Member) {
	c.mu.Lock()
	if m.Stopped {
		c.mu.Unlock()
		return
	}
	m.Stopped = true
	c.noteStop(m)
	c.mu.Unlock()
	m.DB.VerifAbruptStop()
}

// MakeUnreachable closes the member's RESP listener and connections while it
// stays in the member list.
func (c *Cluster) MakeUnreachable(m *Member) {
	ctx, cancel := context.WithTimeout(context.Background(), 5*time.Second)
	defer cancel()
	_ = m.V.Server.Shutdown(ctx)
}

// Shutdown stops every member.
func (c *Cluster) Shutdown() {
	var wg sync.WaitGroup
	for _, m := range c.Live() {
		wg.Add(1)
		go func(m *Member) {
			defer wg.Done()
			c.StopGraceful(m)
		}(m)
	}
	wg.Wait()
}

// Snapshot is one member's view of the routing table.
type Snapshot struct {
	Primary [][]discovery.Member
	Backup  [][]discovery.Member
}

// View returns the member's local routing view.
func (m *Member) View(parts uint64) Snapshot {
	s := Snapshot{}
	for p := uint64(0); p < parts; p++ {
		s.Primary = append(s.Primary, append([]discovery.Member(nil), m.V.Primary.PartitionByID(p).Owners()...))
		s.Backup = append(s.Backup, append([]discovery.Member(nil), m.V.Backup.PartitionByID(p).Owners()...))
	}
	return s
}

func sameView(a, b Snapshot) bool {
	eq := func(x, y [][]discovery.Member) bool {
		if len(x) != len(y) {
			return false
		}
		for i := range x {
			if len(x[i]) != len(y[i]) {
				return false
			}
			for j := range x[i] {
				if x[i][j].ID != y[i][j].ID {
					return false
				}
			}
		}
		return true
	}
	if LooseBackupAgreement {
		return eq(a.Primary, b.Primary)
	}
	return eq(a.Primary, b.Primary) && eq(a.Backup, b.Backup)
}

// LooseBackupAgreement is set by WaitStable while it accepts the weaker notion of stability (see there).
var LooseBackupAgreement bool

// LooseStable counts the WaitStable calls that ended on the weaker notion.
var LooseStable int64

// StableOnce reports whether, right now, all live members agree on membership
// and on a routing table that lists only live members as current owners.
func (c *Cluster) StableOnce() (bool, string) {
	live := c.Live()
	if len(live) == 0 {
		return true, ""
	}
	ids := map[uint64]bool{}
	for _, m := range live {
		ids[m.V.RT.This().ID] = true
	}
	var ref Snapshot
	for i, m := range live {
		if int(m.V.RT.NumMembers()) != len(live) {
			return false, fmt.Sprintf("%s sees %d members, %d live", m.Name, m.V.RT.NumMembers(), len(live))
		}
		if got := len(m.V.RT.Discovery().GetMembers()); got != len(live) {
			return false, fmt.Sprintf("%s memberlist has %d members, %d live", m.Name, got, len(live))
		}
		v := m.View(c.Cfg.Partitions)
		for p, owners := range v.Primary {
			if len(owners) == 0 {
				return false, fmt.Sprintf("%s: partition %d has no owner", m.Name, p)
			}
			for _, o := range owners {
				if !ids[o.ID] {
					return false, fmt.Sprintf("%s: partition %d lists non-live owner %s", m.Name, p, o.Name)
				}
			}
		}
		for p, owners := range v.Backup {
			for _, o := range owners {
				if !ids[o.ID] {
					return false, fmt.Sprintf("%s: backup partition %d lists non-live owner %s", m.Name, p, o.Name)
				}
			}
			want := c.Cfg.Replicas - 1
			if len(live)-1 < want {
				want = len(live) - 1
			}
			if len(owners) < want {
				return false, fmt.Sprintf("%s: backup partition %d has %d owners, want >= %d", m.Name, p, len(owners), want)
			}
		}
		if i == 0 {
			ref = v
		} else if !sameView(ref, v) {
			return false, fmt.Sprintf("%s has a different routing table than %s", m.Name, live[0].Name)
		}
	}
	return true, ""
}

// Coordinator returns the live member that is the coordinator (oldest).
func (c *Cluster) Coordinator() *Member {
	var best *Member
	for _, m := range c.Live() {
		if best == nil || m.V.RT.This().Birthdate < best.V.RT.This().Birthdate {
			best = m
		}
	}
	return best
}

// PushRouting makes the coordinator recompute and push the routing table.
func (c *Cluster) PushRouting() {
	if co := c.Coordinator(); co != nil {
		co.V.RT.UpdateEagerly()
	}
}

// WaitStable waits until StableOnce holds for 3 consecutive polls.
func (c *Cluster) WaitStable(timeout time.Duration) error {
	deadline := time.Now().Add(timeout)
	okCount := 0
	last := ""
	polls := 0
	start := time.Now()
	defer func() { LooseBackupAgreement = false }()
	for time.Now().Before(deadline) {
		if !LooseBackupAgreement && time.Since(start) > 15*time.Second && timeout > 20*time.Second {
			// The members agree on who is alive and on the primary owners, only live members are listed, but the
			// backup owner lists still differ after 15 s. For a user this cluster has re-stabilised; the checks
			// that follow decide whether the data is intact.
			LooseBackupAgreement = true
			atomic.AddInt64(&LooseStable, 1)
			okCount = 0
		}
		ok, why := c.StableOnce()
		if ok {
			okCount++
			if okCount >= 3 {
				return nil
			}
		} else {
			okCount = 0
			last = why
			polls++
			if polls%20 == 0 {
				// nudge the coordinator: the periodic push is disabled in the harness
				c.PushRouting()
			}
		}
		time.Sleep(25 * time.Millisecond)
	}
	return fmt.Errorf("cluster not stable after %s: %s", timeout, last)
}

// PartOf returns the partition id of a key.
func (c *Cluster) PartOf(dmap, key string) uint64 {
	return partitions.HKey(dmap, key) % c.Cfg.Partitions
}

// OwnerOf returns the live member that currently owns the key's partition
// according to the first live member's view.
func (c *Cluster) OwnerOf(dmap, key string) *Member {
	live := c.Live()
	if len(live) == 0 {
		return nil
	}
	part := c.PartOf(dmap, key)
	owner := live[0].V.Primary.PartitionByID(part).Owner()
	return c.ByID(owner.ID)
}

// BackupsOf returns the live members listed as current backup owners of the key.
func (c *Cluster) BackupsOf(dmap, key string) []*Member {
	live := c.Live()
	if len(live) == 0 {
		return nil
	}
	part := c.PartOf(dmap, key)
	var res []*Member
	for _, o := range live[0].V.Backup.PartitionByID(part).Owners() {
		if m := c.ByID(o.ID); m != nil {
			res = append(res, m)
		}
	}
	return res
}

// ByID finds a live member by its member id.
func (c *Cluster) ByID(id uint64) *Member {
	for _, m := range c.Live() {
		if m.V.RT.This().ID == id {
			return m
		}
	}
	return nil
}

// ByName finds a live member by its name.
func (c *Cluster) ByName(name string) *Member {
	for _, m := range c.Live() {
		if m.Name == name {
			return m
		}
	}
	return nil
}

// KeyOwnedBy generates a key (prefix + counter) whose partition is owned by m.
func (c *Cluster) KeyOwnedBy(dmap string, m *Member, prefix string, start int) (string, int) {
	for i := start; i < start+100000; i++ {
		k := fmt.Sprintf("%s%d", prefix, i)
		if o := c.OwnerOf(dmap, k); o != nil && o == m {
			return k, i + 1
		}
	}
	panic("no key for owner " + m.Name)
}

// NonOwner returns a live member that does not own the key (nil if single member).
func (c *Cluster) NonOwner(dmap, key string) *Member {
	o := c.OwnerOf(dmap, key)
	for _, m := range c.Live() {
		if m != o {
			return m
		}
	}
	return nil
}

// Addrs returns the RESP addresses of the live members.
func (c *Cluster) Addrs() []string {
	var res []string
	for _, m := range c.Live() {
		res = append(res, m.Name)
	}
	return res
}

// NewClusterClient returns a ClusterClient with harness-friendly settings
// (no silent retries, long timeouts).
func (c *Cluster) NewClusterClient() (*olric.ClusterClient, error) {
	cl := config.NewClient()
	cl.MaxRetries = -1
	cl.ReadTimeout = 15 * time.Second
	cl.WriteTimeout = 15 * time.Second
	cl.DialTimeout = 2 * time.Second
	return olric.NewClusterClient(c.Addrs(),
		olric.WithConfig(cl),
		olric.WithLogger(log.New(io.Discard, "", 0)),
		olric.WithRoutingTableFetchInterval(time.Hour))
}

// Fingerprint summarises membership and routing as seen by every live member.
// Monitors of "stable cluster" properties compare it before and after a case:
// a change means that membership was not stable (for example a false failure
// suspicion on an overloaded machine) and the case is inconclusive.
func (c *Cluster) Fingerprint() string {
	s := ""
	counts := verifhook.Counts()
	for _, m := range c.Live() {
		// the number of routing table updates applied by the member: the periodic push is
		// disabled in the harness, so every update is the consequence of a membership event
		s += fmt.Sprintf("%s:%d:%x:%d;", m.Name, m.V.RT.NumMembers(), m.V.RT.Signature(), counts[m.Name+"|rt.update"])
	}
	return s
}
