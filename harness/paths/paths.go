// Package paths gives the monitors one uniform client interface over every
// entry path of olric: embedded client on the key's owner (EO), embedded
// client on a non-owner (EN), cluster client (CC), raw RESP to the owner (RO)
// or to a non-owner (RN), and single-command pipelines (PL).
package paths

import (
	"context"
	"errors"
	"fmt"
	"strconv"
	"strings"
	"sync"
	"sync/atomic"
	"time"

	"github.com/olric-data/olric"
	"github.com/olric-data/olric/internal/kvstore/entry"
	"github.com/olric-data/olric/verif/cluster"
	"github.com/olric-data/olric/verif/respc"
)

// Kinds lists every path kind.
var Kinds = []string{"EO", "EN", "CC", "RO", "RN", "PL"}

// PutOpts are the options of a Put.
type PutOpts struct {
	NX, XX bool
	EX, PX time.Duration // relative
	EXAT   time.Duration // absolute, since the epoch
	PXAT   time.Duration // absolute, since the epoch
}

func (o PutOpts) String() string {
	var s []string
	if o.NX {
		s = append(s, "NX")
	}
	if o.XX {
		s = append(s, "XX")
	}
	if o.EX != 0 {
		s = append(s, "EX")
	}
	if o.PX != 0 {
		s = append(s, "PX")
	}
	if o.EXAT != 0 {
		s = append(s, "EXAT")
	}
	if o.PXAT != 0 {
		s = append(s, "PXAT")
	}
	if len(s) == 0 {
		return "-"
	}
	return strings.Join(s, "+")
}

// GetResult is what a read returns.
type GetResult struct {
	Value     []byte
	TTL       int64 // absolute unix ms, 0 = none
	Timestamp int64
}

// Lock is a held lock.
type Lock interface {
	Unlock(ctx context.Context) error
	Lease(ctx context.Context, d time.Duration) error
	Token() string
}

// Client is the uniform per-path client. Errors are returned as they come;
// use Class to normalise them.
type Client interface {
	Kind() string
	Put(ctx context.Context, key string, value []byte, o PutOpts) error
	Get(ctx context.Context, key string) (GetResult, error)
	Delete(ctx context.Context, keys ...string) (int, error)
	Expire(ctx context.Context, key string, d time.Duration) error
	GetPut(ctx context.Context, key string, value []byte) (old []byte, had bool, err error)
	Incr(ctx context.Context, key string, delta int) (int, error)
	Decr(ctx context.Context, key string, delta int) (int, error)
	IncrByFloat(ctx context.Context, key string, delta float64) (float64, error)
	Lock(ctx context.Context, key string, timeout, deadline time.Duration) (Lock, error)
	// UnlockToken / LeaseToken present an arbitrary token (stale or forged).
	UnlockToken(ctx context.Context, key, token string) error
	LeaseToken(ctx context.Context, key, token string, d time.Duration) error
}

// Class normalises an error into a class string compared across paths.
func Class(err error) string {
	if err == nil {
		return "ok"
	}
	s := err.Error()
	switch {
	case strings.Contains(s, "key not found"):
		return "key not found"
	case strings.Contains(s, "key found"):
		return "key found"
	case strings.Contains(s, "write quorum"):
		return "write quorum"
	case strings.Contains(s, "read quorum"):
		return "read quorum"
	case strings.Contains(s, "cluster quorum"), strings.Contains(s, "enough peers"), strings.Contains(s, "CLUSTERQUORUM"):
		return "cluster quorum"
	case strings.Contains(s, "no such lock"):
		return "no such lock"
	case strings.Contains(s, "lock not acquired"):
		return "lock not acquired"
	case strings.Contains(s, "key too large"):
		return "key too large"
	case strings.Contains(s, "entry too large"):
		return "entry too large"
	case strings.Contains(s, "connection refused"), strings.Contains(s, "EOF"), strings.Contains(s, "i/o timeout"),
		strings.Contains(s, "broken pipe"), strings.Contains(s, "connection reset"), strings.Contains(s, "closed"),
		strings.Contains(s, "context deadline"), strings.Contains(s, "respc: timeout"):
		return "net"
	}
	return "other:" + s
}

// Router creates per-path clients for a DMap of a cluster.
type Router struct {
	C    *cluster.Cluster
	DMap string

	mu  sync.Mutex
	cc  *olric.ClusterClient
	ccd olric.DMap
	emb map[string]olric.DMap // member name -> embedded dmap handle
}

// NewRouter creates a router. The cluster client is created lazily.
func NewRouter(c *cluster.Cluster, dmap string) *Router {
	return &Router{C: c, DMap: dmap, emb: map[string]olric.DMap{}}
}

// Close releases the cluster client.
func (r *Router) Close() {
	r.mu.Lock()
	defer r.mu.Unlock()
	if r.cc != nil {
		ctx, cancel := context.WithTimeout(context.Background(), 2*time.Second)
		_ = r.cc.Close(ctx)
		cancel()
		r.cc = nil
	}
}

func (r *Router) clusterDMap() (olric.DMap, error) {
	r.mu.Lock()
	defer r.mu.Unlock()
	if r.ccd != nil {
		return r.ccd, nil
	}
	cc, err := r.C.NewClusterClient()
	if err != nil {
		return nil, err
	}
	d, err := cc.NewDMap(r.DMap)
	if err != nil {
		return nil, err
	}
	r.cc, r.ccd = cc, d
	return d, nil
}

// ClusterDMap returns the (cached) cluster client's handle of the DMap.
func (r *Router) ClusterDMap() (olric.DMap, error) { return r.clusterDMap() }

// ResetClusterClient drops the cached cluster client (after membership changes).
func (r *Router) ResetClusterClient() {
	r.Close()
	r.mu.Lock()
	r.ccd = nil
	r.mu.Unlock()
}

func (r *Router) embDMap(m *cluster.Member) (olric.DMap, error) {
	r.mu.Lock()
	defer r.mu.Unlock()
	if d, ok := r.emb[m.Name]; ok {
		return d, nil
	}
	d, err := m.Emb.NewDMap(r.DMap)
	if err != nil {
		return nil, err
	}
	r.emb[m.Name] = d
	return d, nil
}

// Session is a set of per-path clients owned by one logical client
// (goroutine); raw connections are not shared between sessions.
type Session struct {
	r     *Router
	conns map[string]*respc.Conn
	// Timeout for raw RESP replies
	Timeout time.Duration
}

// NewSession creates a session.
func (r *Router) NewSession() *Session {
	return &Session{r: r, conns: map[string]*respc.Conn{}, Timeout: 15 * time.Second}
}

// Close closes the raw connections of the session.
func (s *Session) Close() {
	for _, c := range s.conns {
		_ = c.Close()
	}
	s.conns = map[string]*respc.Conn{}
}

func (s *Session) conn(m *cluster.Member) (*respc.Conn, error) {
	if c, ok := s.conns[m.Name]; ok {
		return c, nil
	}
	c, err := respc.Dial(m.Name)
	if err != nil {
		return nil, err
	}
	s.conns[m.Name] = c
	return c, nil
}

func (s *Session) dropConn(m *cluster.Member) {
	if c, ok := s.conns[m.Name]; ok {
		_ = c.Close()
		delete(s.conns, m.Name)
	}
}

// memberFor picks the member a path uses for a key.
func (s *Session) memberFor(kind, key string) *cluster.Member {
	switch kind {
	case "EO", "RO":
		return s.r.C.OwnerOf(s.r.DMap, key)
	case "EN", "RN":
		if m := s.r.C.NonOwner(s.r.DMap, key); m != nil {
			return m
		}
		return s.r.C.OwnerOf(s.r.DMap, key)
	}
	return nil
}

// Via returns the client for a path kind. For EO/EN/RO/RN the member is
// chosen per key at call time. ViaMember pins a member instead.
func (s *Session) Via(kind string) Client {
	switch kind {
	case "EO", "EN":
		return &apiClient{kind: kind, s: s}
	case "CC":
		return &apiClient{kind: kind, s: s}
	case "PL":
		return &plClient{s: s}
	case "RO", "RN":
		return &rawClient{kind: kind, s: s}
	}
	panic("unknown path kind " + kind)
}

// ViaMember returns an embedded ("E") or raw RESP ("R") client pinned to a member.
func (s *Session) ViaMember(kind string, m *cluster.Member) Client {
	switch kind {
	case "E":
		return &apiClient{kind: "E@" + m.Name, s: s, pin: m}
	case "R":
		return &rawClient{kind: "R@" + m.Name, s: s, pin: m}
	}
	panic("unknown pinned kind " + kind)
}

// ---------------------------------------------------------------- API (embedded / cluster client)

type apiClient struct {
	kind string
	s    *Session
	pin  *cluster.Member
}

func (a *apiClient) Kind() string { return a.kind }

func (a *apiClient) dm(key string) (olric.DMap, error) {
	if a.pin != nil {
		return a.s.r.embDMap(a.pin)
	}
	if a.kind == "CC" {
		return a.s.r.clusterDMap()
	}
	m := a.s.memberFor(a.kind, key)
	if m == nil {
		return nil, errors.New("no member")
	}
	return a.s.r.embDMap(m)
}

func putOptions(o PutOpts) []olric.PutOption {
	var opts []olric.PutOption
	if o.NX {
		opts = append(opts, olric.NX())
	}
	if o.XX {
		opts = append(opts, olric.XX())
	}
	if o.EX != 0 {
		opts = append(opts, olric.EX(o.EX))
	}
	if o.PX != 0 {
		opts = append(opts, olric.PX(o.PX))
	}
	if o.EXAT != 0 {
		opts = append(opts, olric.EXAT(o.EXAT))
	}
	if o.PXAT != 0 {
		opts = append(opts, olric.PXAT(o.PXAT))
	}
	return opts
}

func (a *apiClient) Put(ctx context.Context, key string, value []byte, o PutOpts) error {
	d, err := a.dm(key)
	if err != nil {
		return err
	}
	return d.Put(ctx, key, value, putOptions(o)...)
}

func getResult(g *olric.GetResponse) (GetResult, error) {
	b, err := g.Byte()
	if err != nil {
		return GetResult{}, err
	}
	cp := make([]byte, len(b))
	copy(cp, b)
	return GetResult{Value: cp, TTL: g.TTL(), Timestamp: g.Timestamp()}, nil
}

func (a *apiClient) Get(ctx context.Context, key string) (GetResult, error) {
	d, err := a.dm(key)
	if err != nil {
		return GetResult{}, err
	}
	g, err := d.Get(ctx, key)
	if err != nil {
		return GetResult{}, err
	}
	return getResult(g)
}

func (a *apiClient) Delete(ctx context.Context, keys ...string) (int, error) {
	d, err := a.dm(keys[0])
	if err != nil {
		return 0, err
	}
	return d.Delete(ctx, keys...)
}

func (a *apiClient) Expire(ctx context.Context, key string, dur time.Duration) error {
	d, err := a.dm(key)
	if err != nil {
		return err
	}
	return d.Expire(ctx, key, dur)
}

func (a *apiClient) GetPut(ctx context.Context, key string, value []byte) ([]byte, bool, error) {
	d, err := a.dm(key)
	if err != nil {
		return nil, false, err
	}
	g, err := d.GetPut(ctx, key, value)
	if err != nil {
		return nil, false, err
	}
	if g == nil {
		return nil, false, nil
	}
	r, err := getResult(g)
	if err != nil {
		// the embedded client returns a response wrapping a nil entry for "no previous value"
		return nil, false, nil
	}
	return r.Value, true, nil
}

func (a *apiClient) Incr(ctx context.Context, key string, delta int) (int, error) {
	d, err := a.dm(key)
	if err != nil {
		return 0, err
	}
	return d.Incr(ctx, key, delta)
}

func (a *apiClient) Decr(ctx context.Context, key string, delta int) (int, error) {
	d, err := a.dm(key)
	if err != nil {
		return 0, err
	}
	return d.Decr(ctx, key, delta)
}

func (a *apiClient) IncrByFloat(ctx context.Context, key string, delta float64) (float64, error) {
	d, err := a.dm(key)
	if err != nil {
		return 0, err
	}
	return d.IncrByFloat(ctx, key, delta)
}

type apiLock struct {
	lc olric.LockContext
}

func (l *apiLock) Unlock(ctx context.Context) error                 { return l.lc.Unlock(ctx) }
func (l *apiLock) Lease(ctx context.Context, d time.Duration) error { return l.lc.Lease(ctx, d) }
func (l *apiLock) Token() string                                    { return "" }

func (a *apiClient) Lock(ctx context.Context, key string, timeout, deadline time.Duration) (Lock, error) {
	d, err := a.dm(key)
	if err != nil {
		return nil, err
	}
	var lc olric.LockContext
	if timeout == 0 {
		lc, err = d.Lock(ctx, key, deadline)
	} else {
		lc, err = d.LockWithTimeout(ctx, key, timeout, deadline)
	}
	if err != nil {
		return nil, err
	}
	return &apiLock{lc: lc}, nil
}

func (a *apiClient) UnlockToken(ctx context.Context, key, token string) error {
	return errors.New("UnlockToken: not available on API paths")
}

func (a *apiClient) LeaseToken(ctx context.Context, key, token string, d time.Duration) error {
	return errors.New("LeaseToken: not available on API paths")
}

// ---------------------------------------------------------------- raw RESP

type rawClient struct {
	kind string
	s    *Session
	pin  *cluster.Member
}

func (r *rawClient) Kind() string { return r.kind }

// RespError is an error reply.
type RespError struct{ Msg string }

func (e *RespError) Error() string { return e.Msg }

func (r *rawClient) do(key string, args ...[]byte) (respc.Reply, error) {
	m := r.pin
	if m == nil {
		m = r.s.memberFor(r.kind, key)
	}
	if m == nil {
		return respc.Reply{}, errors.New("no member")
	}
	c, err := r.s.conn(m)
	if err != nil {
		return respc.Reply{}, err
	}
	rep, err := c.DoBytes(r.s.Timeout, args...)
	if err != nil {
		r.s.dropConn(m)
		return rep, err
	}
	if rep.IsErr() {
		return rep, &RespError{Msg: rep.Str}
	}
	return rep, nil
}

func bs(ss ...string) [][]byte {
	res := make([][]byte, len(ss))
	for i, s := range ss {
		res[i] = []byte(s)
	}
	return res
}

func fsec(d time.Duration) string { return strconv.FormatFloat(d.Seconds(), 'f', -1, 64) }
func ims(d time.Duration) string  { return strconv.FormatInt(d.Milliseconds(), 10) }

// PutArgs builds the DM.PUT argument vector for the options.
func PutArgs(dmap, key string, value []byte, o PutOpts) [][]byte {
	args := [][]byte{[]byte("DM.PUT"), []byte(dmap), []byte(key), value}
	if o.EX != 0 {
		args = append(args, bs("EX", fsec(o.EX))...)
	}
	if o.PX != 0 {
		args = append(args, bs("PX", ims(o.PX))...)
	}
	if o.EXAT != 0 {
		args = append(args, bs("EXAT", fsec(o.EXAT))...)
	}
	if o.PXAT != 0 {
		args = append(args, bs("PXAT", ims(o.PXAT))...)
	}
	if o.NX {
		args = append(args, []byte("NX"))
	}
	if o.XX {
		args = append(args, []byte("XX"))
	}
	return args
}

func (r *rawClient) Put(ctx context.Context, key string, value []byte, o PutOpts) error {
	_, err := r.do(key, PutArgs(r.s.r.DMap, key, value, o)...)
	return err
}

func decodeEntry(raw string) GetResult {
	e := entry.New()
	e.Decode([]byte(raw))
	v := make([]byte, len(e.Value()))
	copy(v, e.Value())
	return GetResult{Value: v, TTL: e.TTL(), Timestamp: e.Timestamp()}
}

func (r *rawClient) Get(ctx context.Context, key string) (GetResult, error) {
	rep, err := r.do(key, bs("DM.GET", r.s.r.DMap, key, "RW")...)
	if err != nil {
		return GetResult{}, err
	}
	if rep.Null {
		return GetResult{}, errors.New("key not found (nil reply)")
	}
	return decodeEntry(rep.Str), nil
}

func (r *rawClient) Delete(ctx context.Context, keys ...string) (int, error) {
	args := bs("DM.DEL", r.s.r.DMap)
	args = append(args, bs(keys...)...)
	rep, err := r.do(keys[0], args...)
	if err != nil {
		return 0, err
	}
	return int(rep.Int), nil
}

func (r *rawClient) Expire(ctx context.Context, key string, d time.Duration) error {
	// whole seconds go through DM.EXPIRE, everything else through DM.PEXPIRE
	var err error
	if d%time.Second == 0 {
		_, err = r.do(key, bs("DM.EXPIRE", r.s.r.DMap, key, fsec(d))...)
	} else {
		_, err = r.do(key, bs("DM.PEXPIRE", r.s.r.DMap, key, ims(d))...)
	}
	return err
}

func (r *rawClient) GetPut(ctx context.Context, key string, value []byte) ([]byte, bool, error) {
	rep, err := r.do(key, [][]byte{[]byte("DM.GETPUT"), []byte(r.s.r.DMap), []byte(key), value}...)
	if err != nil {
		return nil, false, err
	}
	if rep.Null {
		return nil, false, nil
	}
	return []byte(rep.Str), true, nil
}

func (r *rawClient) Incr(ctx context.Context, key string, delta int) (int, error) {
	rep, err := r.do(key, bs("DM.INCR", r.s.r.DMap, key, strconv.Itoa(delta))...)
	if err != nil {
		return 0, err
	}
	return int(rep.Int), nil
}

func (r *rawClient) Decr(ctx context.Context, key string, delta int) (int, error) {
	rep, err := r.do(key, bs("DM.DECR", r.s.r.DMap, key, strconv.Itoa(delta))...)
	if err != nil {
		return 0, err
	}
	return int(rep.Int), nil
}

func (r *rawClient) IncrByFloat(ctx context.Context, key string, delta float64) (float64, error) {
	rep, err := r.do(key, bs("DM.INCRBYFLOAT", r.s.r.DMap, key, strconv.FormatFloat(delta, 'f', -1, 64))...)
	if err != nil {
		return 0, err
	}
	return strconv.ParseFloat(rep.Str, 64)
}

type rawLock struct {
	r     *rawClient
	key   string
	token string
}

func (l *rawLock) Unlock(ctx context.Context) error { return l.r.UnlockToken(ctx, l.key, l.token) }
func (l *rawLock) Lease(ctx context.Context, d time.Duration) error {
	return l.r.LeaseToken(ctx, l.key, l.token, d)
}
func (l *rawLock) Token() string { return l.token }

var rawLockForms uint64

func (r *rawClient) Lock(ctx context.Context, key string, timeout, deadline time.Duration) (Lock, error) {
	args := bs("DM.LOCK", r.s.r.DMap, key, fsec(deadline))
	if timeout != 0 {
		// the protocol knows both spellings: PX <milliseconds> and EX <seconds, possibly with a fraction>
		if atomic.AddUint64(&rawLockForms, 1)%2 == 0 {
			args = append(args, bs("EX", fsec(timeout))...)
		} else {
			args = append(args, bs("PX", ims(timeout))...)
		}
	}
	rep, err := r.do(key, args...)
	if err != nil {
		return nil, err
	}
	return &rawLock{r: r, key: key, token: rep.Str}, nil
}

func (r *rawClient) UnlockToken(ctx context.Context, key, token string) error {
	_, err := r.do(key, bs("DM.UNLOCK", r.s.r.DMap, key, token)...)
	return err
}

func (r *rawClient) LeaseToken(ctx context.Context, key, token string, d time.Duration) error {
	var err error
	if d%time.Second == 0 {
		_, err = r.do(key, bs("DM.LOCKLEASE", r.s.r.DMap, key, token, fsec(d))...)
	} else {
		_, err = r.do(key, bs("DM.PLOCKLEASE", r.s.r.DMap, key, token, ims(d))...)
	}
	return err
}

// ---------------------------------------------------------------- pipeline (one command per pipeline)

type plClient struct {
	s *Session
}

func (p *plClient) Kind() string { return "PL" }

func (p *plClient) pipe() (*olric.DMapPipeline, error) {
	d, err := p.s.r.clusterDMap()
	if err != nil {
		return nil, err
	}
	return d.Pipeline()
}

func (p *plClient) Put(ctx context.Context, key string, value []byte, o PutOpts) error {
	pl, err := p.pipe()
	if err != nil {
		return err
	}
	defer pl.Close()
	f, err := pl.Put(ctx, key, value, putOptions(o)...)
	if err != nil {
		return err
	}
	if err := pl.Exec(ctx); err != nil {
		return err
	}
	return f.Result()
}

func (p *plClient) Get(ctx context.Context, key string) (GetResult, error) {
	pl, err := p.pipe()
	if err != nil {
		return GetResult{}, err
	}
	defer pl.Close()
	f := pl.Get(ctx, key)
	if err := pl.Exec(ctx); err != nil {
		return GetResult{}, err
	}
	g, err := f.Result()
	if err != nil {
		return GetResult{}, err
	}
	return getResult(g)
}

func (p *plClient) Delete(ctx context.Context, keys ...string) (int, error) {
	pl, err := p.pipe()
	if err != nil {
		return 0, err
	}
	defer pl.Close()
	var fs []*olric.FutureDelete
	for _, k := range keys {
		fs = append(fs, pl.Delete(ctx, k))
	}
	if err := pl.Exec(ctx); err != nil {
		return 0, err
	}
	total := 0
	for _, f := range fs {
		n, err := f.Result()
		if err != nil {
			return total, err
		}
		total += n
	}
	return total, nil
}

func (p *plClient) Expire(ctx context.Context, key string, d time.Duration) error {
	pl, err := p.pipe()
	if err != nil {
		return err
	}
	defer pl.Close()
	f, err := pl.Expire(ctx, key, d)
	if err != nil {
		return err
	}
	if err := pl.Exec(ctx); err != nil {
		return err
	}
	return f.Result()
}

func (p *plClient) GetPut(ctx context.Context, key string, value []byte) ([]byte, bool, error) {
	pl, err := p.pipe()
	if err != nil {
		return nil, false, err
	}
	defer pl.Close()
	f, err := pl.GetPut(ctx, key, value)
	if err != nil {
		return nil, false, err
	}
	if err := pl.Exec(ctx); err != nil {
		return nil, false, err
	}
	g, err := f.Result()
	if err != nil {
		return nil, false, err
	}
	if g == nil {
		return nil, false, nil
	}
	r, err := getResult(g)
	if err != nil {
		return nil, false, err
	}
	return r.Value, true, nil
}

func (p *plClient) Incr(ctx context.Context, key string, delta int) (int, error) {
	pl, err := p.pipe()
	if err != nil {
		return 0, err
	}
	defer pl.Close()
	f, err := pl.Incr(ctx, key, delta)
	if err != nil {
		return 0, err
	}
	if err := pl.Exec(ctx); err != nil {
		return 0, err
	}
	return f.Result()
}

func (p *plClient) Decr(ctx context.Context, key string, delta int) (int, error) {
	pl, err := p.pipe()
	if err != nil {
		return 0, err
	}
	defer pl.Close()
	f, err := pl.Decr(ctx, key, delta)
	if err != nil {
		return 0, err
	}
	if err := pl.Exec(ctx); err != nil {
		return 0, err
	}
	return f.Result()
}

func (p *plClient) IncrByFloat(ctx context.Context, key string, delta float64) (float64, error) {
	pl, err := p.pipe()
	if err != nil {
		return 0, err
	}
	defer pl.Close()
	f, err := pl.IncrByFloat(ctx, key, delta)
	if err != nil {
		return 0, err
	}
	if err := pl.Exec(ctx); err != nil {
		return 0, err
	}
	return f.Result()
}

// ErrNoLockOnPipeline is returned by the lock operations of the pipeline path.
var ErrNoLockOnPipeline = errors.New("pipeline has no lock operations")

func (p *plClient) Lock(ctx context.Context, key string, timeout, deadline time.Duration) (Lock, error) {
	return nil, ErrNoLockOnPipeline
}
func (p *plClient) UnlockToken(ctx context.Context, key, token string) error {
	return ErrNoLockOnPipeline
}
func (p *plClient) LeaseToken(ctx context.Context, key, token string, d time.Duration) error {
	return ErrNoLockOnPipeline
}

var _ = fmt.Sprintf
