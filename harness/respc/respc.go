// Package respc is a minimal raw RESP2 client: it sends exactly the bytes it
// is given and parses replies (including pub/sub pushes, which are arrays).
package respc

import (
	"bufio"
	"errors"
	"fmt"
	"io"
	"net"
	"strconv"
	"time"
)

// Reply is a parsed RESP value.
type Reply struct {
	Kind  byte // '+', '-', ':', '$', '*', or 0 for null
	Str   string
	Int   int64
	Array []Reply
	Null  bool
}

// IsErr reports whether the reply is an error reply.
func (r Reply) IsErr() bool { return r.Kind == '-' }

func (r Reply) String() string {
	switch r.Kind {
	case '+':
		return "+" + r.Str
	case '-':
		return "-" + r.Str
	case ':':
		return ":" + strconv.FormatInt(r.Int, 10)
	case '$':
		if r.Null {
			return "$nil"
		}
		return "$" + strconv.Quote(r.Str)
	case '*':
		if r.Null {
			return "*nil"
		}
		s := "*["
		for i, e := range r.Array {
			if i > 0 {
				s += " "
			}
			s += e.String()
		}
		return s + "]"
	}
	return "?"
}

// Conn is a raw connection.
type Conn struct {
	c  net.Conn
	br *bufio.Reader
}

// Dial connects to addr.
func Dial(addr string) (*Conn, error) {
	c, err := net.DialTimeout("tcp", addr, 2*time.Second)
	if err != nil {
		return nil, err
	}
	return &Conn{c: c, br: bufio.NewReaderSize(c, 1<<16)}, nil
}

// Close closes the connection.
func (c *Conn) Close() error { return c.c.Close() }

// Encode builds the RESP array-of-bulk-strings form of a command.
func Encode(args ...[]byte) []byte {
	var b []byte
	b = append(b, '*')
	b = strconv.AppendInt(b, int64(len(args)), 10)
	b = append(b, '\r', '\n')
	for _, a := range args {
		b = append(b, '$')
		b = strconv.AppendInt(b, int64(len(a)), 10)
		b = append(b, '\r', '\n')
		b = append(b, a...)
		b = append(b, '\r', '\n')
	}
	return b
}

// EncodeStrings is Encode for string arguments.
func EncodeStrings(args ...string) []byte {
	bs := make([][]byte, len(args))
	for i, a := range args {
		bs[i] = []byte(a)
	}
	return Encode(bs...)
}

// WriteRaw writes bytes as they are.
func (c *Conn) WriteRaw(b []byte, timeout time.Duration) error {
	_ = c.c.SetWriteDeadline(time.Now().Add(timeout))
	_, err := c.c.Write(b)
	return err
}

// ErrTimeout is returned by Read when no complete reply arrived in time.
var ErrTimeout = errors.New("respc: timeout")

// Read reads one reply.
func (c *Conn) Read(timeout time.Duration) (Reply, error) {
	_ = c.c.SetReadDeadline(time.Now().Add(timeout))
	r, err := c.read(0)
	if err != nil {
		var ne net.Error
		if errors.As(err, &ne) && ne.Timeout() {
			return r, ErrTimeout
		}
	}
	return r, err
}

func (c *Conn) line() (string, error) {
	s, err := c.br.ReadString('\n')
	if err != nil {
		return "", err
	}
	if len(s) < 2 || s[len(s)-2] != '\r' {
		return "", fmt.Errorf("respc: bad line %q", s)
	}
	return s[:len(s)-2], nil
}

func (c *Conn) read(depth int) (Reply, error) {
	if depth > 8 {
		return Reply{}, errors.New("respc: too deep")
	}
	t, err := c.br.ReadByte()
	if err != nil {
		return Reply{}, err
	}
	l, err := c.line()
	if err != nil {
		return Reply{}, err
	}
	switch t {
	case '+', '-':
		return Reply{Kind: t, Str: l}, nil
	case ':':
		n, err := strconv.ParseInt(l, 10, 64)
		if err != nil {
			return Reply{}, err
		}
		return Reply{Kind: ':', Int: n}, nil
	case '$':
		n, err := strconv.Atoi(l)
		if err != nil {
			return Reply{}, err
		}
		if n < 0 {
			return Reply{Kind: '$', Null: true}, nil
		}
		buf := make([]byte, n+2)
		if _, err := io.ReadFull(c.br, buf); err != nil {
			return Reply{}, err
		}
		return Reply{Kind: '$', Str: string(buf[:n])}, nil
	case '*':
		n, err := strconv.Atoi(l)
		if err != nil {
			return Reply{}, err
		}
		if n < 0 {
			return Reply{Kind: '*', Null: true}, nil
		}
		r := Reply{Kind: '*', Array: make([]Reply, 0, n)}
		for i := 0; i < n; i++ {
			e, err := c.read(depth + 1)
			if err != nil {
				return Reply{}, err
			}
			r.Array = append(r.Array, e)
		}
		return r, nil
	}
	return Reply{}, fmt.Errorf("respc: unexpected type byte %q", t)
}

// Do sends a command and reads one reply.
func (c *Conn) Do(timeout time.Duration, args ...string) (Reply, error) {
	if err := c.WriteRaw(EncodeStrings(args...), timeout); err != nil {
		return Reply{}, err
	}
	return c.Read(timeout)
}

// DoBytes sends a command with binary arguments and reads one reply.
func (c *Conn) DoBytes(timeout time.Duration, args ...[]byte) (Reply, error) {
	if err := c.WriteRaw(Encode(args...), timeout); err != nil {
		return Reply{}, err
	}
	return c.Read(timeout)
}
