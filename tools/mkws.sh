#!/bin/bash
# tools/mkws.sh <name> : scratch workspace for developing one monitor in isolation.
#   /tmp/ag_<name>/repo   git worktree of /repo on branch ag-<name>
#   /tmp/ag_<name>/verif  copy of /verif whose harness builds against that worktree
set -eu
N="$1"
W=/tmp/ag_$N
rm -rf "$W/verif"
git -C /repo worktree remove --force "$W/repo" 2>/dev/null || true
git -C /repo branch -D "ag-$N" 2>/dev/null || true
mkdir -p "$W"
git -C /repo worktree add -q -b "ag-$N" "$W/repo" HEAD
rsync -a --exclude out --exclude .git /verif/ "$W/verif/"
sed -i "s#=> /repo#=> $W/repo#" "$W/verif/harness/go.mod"
echo "$W"
