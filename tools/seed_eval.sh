#!/bin/bash
# tools/seed_eval.sh <rt-id> <n> <PROP> [fullsuite]
# Takes a red-team change /tmp/rt_<rt-id>/out/<n>, stores it as /verif/seeded/<PROP>-<rt-id>-<n>/ and confirms
#  (a) the patch applies, builds and (optionally) passes the whole repository suite,
#  (b) the demonstration fails with the change and passes without it,
#  (c) whether ./check <PROP> quick (and, if missed, thorough) raises a VIOLATION with the change applied to /repo.
# Writes meta.json. /repo is restored afterwards; the scratch worktree is removed.
set -u
RT=$1; N=$2; PROP=$3; FULL=${4:-}
SRC=/tmp/rt_$RT/out/$N
DST=/verif/seeded/$PROP-$RT-$N
export GOFLAGS=-mod=mod GOPROXY=off GOSUMDB=off GOTOOLCHAIN=local
[ -f "$SRC/patch.diff" ] || { echo "no patch in $SRC"; exit 2; }
mkdir -p "$DST"
cp "$SRC/patch.diff" "$DST/patch.diff"
for f in "$SRC"/*_test.go "$SRC"/NOTES.md "$SRC"/*.go; do [ -f "$f" ] && cp "$f" "$DST/"; done
[ -d "$SRC/demo" ] && cp -r "$SRC/demo" "$DST/"
W=/tmp/sv_${PROP}_${RT}_${N}
git -C /repo worktree remove --force "$W" 2>/dev/null; rm -rf "$W"
git -C /repo worktree add -q --detach "$W" HEAD
res_build=fail; res_demo_with=unknown; res_demo_without=unknown; res_pkgs=unknown; res_full=skipped
demos=$(ls "$DST"/*_test.go 2>/dev/null)
run_demo() { # runs every demo test file in its package; echo pass|fail
  local out=pass
  for d in $demos; do
    pkg=$(grep -m1 '^package ' "$d" | awk '{print $2}')
    case "$pkg" in
      olric|olric_test) dir=. ;;
      *) dir=$(cd "$W" && grep -rl --include=*.go "^package $pkg\$" internal pkg config 2>/dev/null | head -1 | xargs dirname) ;;
    esac
    [ -z "$dir" ] && { echo "nodir"; return; }
    cp "$d" "$W/$dir/"
    tests=$(grep -o '^func Test[A-Za-z0-9_]*' "$d" | sed 's/func //' | paste -sd'|')
    if ! (cd "$W" && timeout 600 go test -count=1 -timeout 9m -run "^($tests)\$" "./$dir" > "$DST/.demo.log" 2>&1); then out=fail; fi
    rm -f "$W/$dir/$(basename "$d")"
  done
  echo $out
}
# --- without the change
res_demo_without=$(run_demo)
# --- with the change
if git -C "$W" apply "$DST/patch.diff" 2>/dev/null && (cd "$W" && go build ./... 2>"$DST/.build.log"); then
  res_build=ok
  res_demo_with=$(run_demo)
  cp "$DST/.demo.log" "$DST/demo_with_change.log" 2>/dev/null
  pkgs=$(git -C "$W" diff --name-only | xargs -n1 dirname | sort -u | sed 's#^#./#' | tr '\n' ' ')
  if (cd "$W" && go test -count=1 -timeout 20m $pkgs ./internal/dmap/ > "$DST/.pkgs.log" 2>&1); then res_pkgs=pass; else
     # timing-sensitive cluster tests: one retry
     if (cd "$W" && go test -count=1 -timeout 20m $pkgs ./internal/dmap/ > "$DST/.pkgs.log" 2>&1); then res_pkgs=pass-on-retry; else res_pkgs="fail: $(grep -E '^--- FAIL' "$DST/.pkgs.log" | head -3 | tr '\n' ' ')"; fi
  fi
  if [ -n "$FULL" ]; then
    if (cd "$W" && go test -vet=off -count=1 -timeout 25m ./... > "$DST/.full.log" 2>&1); then res_full=pass; else res_full="fail: $(grep -E '^--- FAIL' "$DST/.full.log" | head -4 | tr '\n' ' ')"; fi
  fi
fi
git -C /repo worktree remove --force "$W" 2>/dev/null; rm -rf "$W"
# --- the checks
caught=no; tier=quick; keys=""
if [ "$res_build" = ok ] && git -C /repo diff --quiet && git -C /repo apply --check "$DST/patch.diff" 2>/dev/null; then
  git -C /repo apply "$DST/patch.diff"
  (cd /verif && ./check "$PROP" quick > "$DST/check_quick.log" 2>&1)
  if grep -q "^VIOLATION property=$PROP" "$DST/check_quick.log"; then caught=quick; else
    (cd /verif && ./check "$PROP" thorough > "$DST/check_thorough.log" 2>&1)
    if grep -q "^VIOLATION property=$PROP" "$DST/check_thorough.log"; then caught=thorough; fi
  fi
  keys=$(grep -h "^VIOLATION property=$PROP" "$DST"/check_*.log 2>/dev/null | grep -o 'key="[^"]*"' | head -3 | tr '\n' ' ' | sed 's/"/\\"/g')
  git -C /repo checkout -- . ; git -C /repo clean -fdq
fi
rm -f "$DST"/.demo.log "$DST"/.build.log
trigger=$(grep -i -m1 -A3 'trigger\|manifest\|needs' "$DST/NOTES.md" 2>/dev/null | tr '\n' ' ' | cut -c1-400 | sed 's/"/\\"/g')
cat > "$DST/meta.json" <<EOF
{
 "property": "$PROP",
 "source": "independent red-team sub-agent rt-$RT, change $N (given only the property text and a scratch worktree)",
 "needs_to_manifest": "$trigger",
 "confirmed_by_me": {
   "applies_and_builds": "$res_build",
   "demonstration_without_change": "$res_demo_without",
   "demonstration_with_change": "$res_demo_with",
   "tests_of_touched_packages_and_internal_dmap_with_change": "$res_pkgs",
   "full_suite_with_change": "$res_full"
 },
 "what_i_ran": "tools/seed_eval.sh $RT $N $PROP $FULL : scratch worktree, git apply, go build ./..., demo with/without, package tests; then git -C /repo apply + ./check $PROP quick (thorough if missed) + git checkout",
 "caught_by": "$caught",
 "finding_keys": "$keys"
}
EOF
echo "$PROP rt-$RT/$N build=$res_build demo(without/with)=$res_demo_without/$res_demo_with pkgs=$res_pkgs full=$res_full caught=$caught"
