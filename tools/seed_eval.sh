#!/bin/bash
# tools/seed_eval.sh <rt-id> <n> <PROP> [fullsuite]        (env PHASE=A|B|AB, default AB)
# Takes a red-team change /tmp/rt_<rt-id>/out/<n>, stores it as /verif/seeded/<PROP>-<rt-id>-<n>/ and confirms
#  phase A (scratch worktree only, safe to run several at once):
#    the patch applies and builds, the demonstration fails with the change and passes without it, the tests of the
#    touched packages and of internal/dmap pass with it (optionally the whole suite);
#  phase B (uses /repo, one at a time):
#    whether ./check <PROP> quick (and, if missed, thorough) raises a VIOLATION with the change applied to /repo.
# Writes meta.json. /repo is restored afterwards; the scratch worktree is removed.
set -u
RT=$1; N=$2; PROP=$3; FULL=${4:-}
PHASE=${PHASE:-AB}
SRC=/tmp/rt_$RT/out/$N
DST=/verif/seeded/$PROP-$RT-$N
export GOFLAGS=-mod=mod GOPROXY=off GOSUMDB=off GOTOOLCHAIN=local
mkdir -p "$DST"
if [ -f "$SRC/patch.diff" ]; then
  cp "$SRC/patch.diff" "$DST/patch.diff"
  for f in "$SRC"/*_test.go "$SRC"/NOTES.md "$SRC"/*.go; do [ -f "$f" ] && cp "$f" "$DST/"; done
  [ -d "$SRC/demo" ] && cp -r "$SRC/demo" "$DST/"
  for f in "$SRC"/full*suite*.log "$SRC"/fullsuite.log; do [ -f "$f" ] && cp "$f" "$DST/redteam_full_suite.log"; done
fi
[ -f "$DST/patch.diff" ] || { echo "no patch for $PROP-$RT-$N"; exit 2; }
res_build=fail; res_demo_with=unknown; res_demo_without=unknown; res_pkgs=unknown; res_full=skipped
demos=$(ls "$DST"/*_test.go 2>/dev/null)

if [[ "$PHASE" == *A* ]]; then
  W=/tmp/sv_${PROP}_${RT}_${N}
  git -C /repo worktree remove --force "$W" 2>/dev/null; rm -rf "$W"
  git -C /repo worktree add -q --detach "$W" HEAD
  run_demo() { # runs every demo test file in its package; echo pass|fail
    local out=pass
    for d in $demos; do
      pkg=$(grep -m1 '^package ' "$d" | awk '{print $2}')
      case "$pkg" in
        olric|olric_test) dir=. ;;
        *) pkg=${pkg%_test}; dir=$(cd "$W" && grep -rl --include=*.go "^package $pkg\$" internal pkg config 2>/dev/null | head -1 | xargs dirname) ;;
      esac
      [ -z "$dir" ] && { echo "nodir"; return; }
      cp "$d" "$W/$dir/"
      tests=$(grep -o '^func Test[A-Za-z0-9_]*' "$d" | sed 's/func //' | paste -sd'|')
      if ! (cd "$W" && timeout 900 go test -count=1 -timeout 14m -run "^($tests)\$" "./$dir" > "$DST/.demo.log" 2>&1); then out=fail; fi
      rm -f "$W/$dir/$(basename "$d")"
    done
    echo $out
  }
  res_demo_without=$(run_demo)
  if git -C "$W" apply "$DST/patch.diff" 2>/dev/null && (cd "$W" && go build ./... 2>"$DST/.build.log"); then
    res_build=ok
    res_demo_with=$(run_demo)
    cp "$DST/.demo.log" "$DST/demo_with_change.log" 2>/dev/null
    pkgs=$(git -C "$W" diff --name-only | xargs -n1 dirname | sort -u | sed 's#^#./#' | tr '\n' ' ')
    res_pkgs="fail"
    for attempt in 1 2 3; do   # timing-sensitive cluster tests on a loaded machine: up to two retries
      if (cd "$W" && go test -count=1 -timeout 20m $pkgs ./internal/dmap/ > "$DST/.pkgs.log" 2>&1); then
        res_pkgs=pass; [ $attempt -gt 1 ] && res_pkgs="pass-on-attempt-$attempt"; break
      fi
      res_pkgs="fail: $(grep -E '^--- FAIL' "$DST/.pkgs.log" | head -3 | tr '\n' ' ')"
    done
    if [ -n "$FULL" ]; then
      if (cd "$W" && go test -vet=off -count=1 -timeout 25m ./... > "$DST/.full.log" 2>&1); then res_full=pass; else res_full="fail: $(grep -E '^--- FAIL' "$DST/.full.log" | head -4 | tr '\n' ' ')"; fi
    fi
  fi
  git -C /repo worktree remove --force "$W" 2>/dev/null; rm -rf "$W"
  {
    echo "res_build=\"$res_build\""; echo "res_demo_with=\"$res_demo_with\""; echo "res_demo_without=\"$res_demo_without\""
    echo "res_pkgs=\"$res_pkgs\""; echo "res_full=\"$res_full\""
  } > "$DST/.confirm"
  rm -f "$DST"/.demo.log "$DST"/.build.log
fi
if [[ "$PHASE" != *B* ]]; then
  echo "$PROP rt-$RT/$N phaseA build=$res_build demo(without/with)=$res_demo_without/$res_demo_with pkgs=$res_pkgs full=$res_full"
  exit 0
fi
[ -f "$DST/.confirm" ] && . "$DST/.confirm"

# --- the checks
caught=no; keys=""
rm -f "$DST"/check_quick.log "$DST"/check_thorough.log
if git -C /repo diff --quiet && git -C /repo apply --check "$DST/patch.diff" 2>/dev/null; then
  git -C /repo apply "$DST/patch.diff"
  (cd /verif && ./check "$PROP" quick > "$DST/check_quick.log" 2>&1)
  if grep -q "^VIOLATION property=$PROP" "$DST/check_quick.log"; then caught=quick; elif [ -n "${QUICK_ONLY:-}" ]; then caught="no (quick only; thorough not run)"; else
    (cd /verif && timeout 2400 ./check "$PROP" thorough > "$DST/check_thorough.log" 2>&1)
    if grep -q "^VIOLATION property=$PROP" "$DST/check_thorough.log"; then caught=thorough; fi
  fi
  keys=$(grep -h "^VIOLATION property=$PROP" "$DST"/check_*.log 2>/dev/null | grep -o 'key="[^"]*"' | sort | uniq -c | sort -rn | head -3 | awk '{$1="";print}' | tr '\n' ' ' | sed 's/\\/\\\\/g; s/"/\\"/g')
  git -C /repo checkout -- . ; git -C /repo clean -fdq
else
  caught="not-run: /repo dirty or the patch does not apply"
fi
# keep only the verdict lines of the check logs
for l in "$DST"/check_*.log; do [ -f "$l" ] && grep -E "^(VIOLATION|KNOWN-FINDING|SUMMARY)" "$l" | cut -c1-600 | head -40 > "$l.tmp" && mv "$l.tmp" "$l"; done
trigger=$(grep -i -m1 -A3 'what is needed\|needed to\|trigger\|manifest' "$DST/NOTES.md" 2>/dev/null | tr '\n' ' ' | cut -c1-500 | sed 's/\\/\\\\/g; s/"/\\"/g; s/\t/ /g')
cat > "$DST/meta.json" <<EOF
{
 "property": "$PROP",
 "source": "independent red-team sub-agent rt-$RT, change $N (given only the property text and a scratch worktree of /repo)",
 "needs_to_manifest": "$trigger (see NOTES.md)",
 "confirmed_by_me": {
   "applies_and_builds": "$res_build",
   "demonstration_without_change": "$res_demo_without",
   "demonstration_with_change": "$res_demo_with",
   "tests_of_touched_packages_and_internal_dmap_with_change": "$res_pkgs",
   "full_suite_with_change": "$res_full (the red-team agent's own full-suite log, where it kept one, is redteam_full_suite.log)"
 },
 "what_i_ran": "tools/seed_eval.sh $RT $N $PROP: scratch worktree of /repo HEAD, git apply, go build ./..., demonstration with/without the change, go test of the touched packages and internal/dmap; then git -C /repo apply + ./check $PROP quick (thorough if quick missed) + git -C /repo checkout -- .",
 "caught_by": "$caught",
 "finding_keys": "$keys"
}
EOF
python3 -c "import json,sys; json.load(open('$DST/meta.json'))" 2>/dev/null || echo "WARNING: meta.json of $DST is not valid JSON"
echo "$PROP rt-$RT/$N build=$res_build demo(without/with)=$res_demo_without/$res_demo_with pkgs=$res_pkgs full=$res_full caught=$caught"
