#!/usr/bin/env python3
"""Replaces the seeded-changes table of DESIGN.md §8.7 with the output of tools/seeded_table.py."""
import subprocess, re
tab = subprocess.run(["python3", "/verif/tools/seeded_table.py"], capture_output=True, text=True, check=True).stdout.rstrip("\n")
lines = open("/verif/DESIGN.md").read().split("\n")
start = next(i for i, l in enumerate(lines) if l.startswith("| seeded change |"))
end = start
while end < len(lines) and lines[end].startswith("|"):
    end += 1
lines[start:end] = tab.split("\n")
open("/verif/DESIGN.md", "w").write("\n".join(lines))
print("rows:", len(tab.split("\n")) - 2)
