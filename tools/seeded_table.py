#!/usr/bin/env python3
"""Prints the markdown table of DESIGN.md §8.7 from seeded/*/meta.json."""
import json, glob, os, re

rows = []
for d in sorted(glob.glob("/verif/seeded/*/")):
    mp = os.path.join(d, "meta.json")
    if not os.path.exists(mp):
        continue
    m = json.load(open(mp))
    name = os.path.basename(d.rstrip("/"))
    title = ""
    notes = os.path.join(d, "NOTES.md")
    if os.path.exists(notes):
        for l in open(notes):
            if l.startswith("#"):
                title = re.sub(r"^#+\s*", "", l.strip())
                title = re.sub(r"^(C\d+|c\d+)\s*[/:,-]?\s*(red-team\s*)?(change|Change)\s*\d\s*[:—–-]*\s*", "", title)
                title = re.sub(r"^(Change|change)\s*\d\s*[:—–-]*\s*", "", title)
                break
    c = m.get("confirmed_by_me", {})
    conf = "ok" if (c.get("applies_and_builds") == "ok" and c.get("demonstration_without_change") == "pass" and c.get("demonstration_with_change") == "fail") else \
        "build=%s demo without/with=%s/%s" % (c.get("applies_and_builds"), c.get("demonstration_without_change"), c.get("demonstration_with_change"))
    pk = c.get("tests_of_touched_packages_and_internal_dmap_with_change", "")
    keys = m.get("finding_keys", "").replace('key=', '').replace('\\"', '"').strip()
    first = re.split(r'"\s+"', keys)[0].strip('" ')
    if len(first) > 110:
        first = first[:107] + "..."
    rows.append((name, m["property"], title[:120], conf, pk[:40], m.get("caught_by", "?"), first))

print("| seeded change | what it does | confirmed (applies, demo passes without / fails with) | package tests with it | caught by | first finding key |")
print("|---|---|---|---|---|---|")
for r in rows:
    print("| `%s` | %s | %s | %s | **%s** | `%s` |" % (r[0], r[2], r[3], r[4], r[5], r[6]))
