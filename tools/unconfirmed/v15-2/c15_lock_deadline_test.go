package olric

// Demonstration for change 2. Copy into the root package directory of the
// repository (/tmp/rt_v15/repo) and run:
//   go test -count=1 -run TestC15_LockSubSecondDeadline_SameResultOnEveryPath .

import (
	"context"
	"fmt"
	"testing"
	"time"

	"github.com/stretchr/testify/require"
)

// A lock is held with a timeout of 150ms. A second caller asks for the same lock with a
// deadline of 900ms: the lock expires well within the deadline, so the caller has to get
// it - whatever the client path is.
func TestC15_LockSubSecondDeadline_SameResultOnEveryPath(t *testing.T) {
	cluster := newTestOlricCluster(t)
	db1 := cluster.addMember(t)
	db2 := cluster.addMember(t)

	ctx := context.Background()

	e1, err := db1.NewEmbeddedClient().NewDMap("c15.lock")
	require.NoError(t, err)
	e2, err := db2.NewEmbeddedClient().NewDMap("c15.lock")
	require.NoError(t, err)

	c, err := NewClusterClient([]string{db1.name})
	require.NoError(t, err)
	defer func() {
		require.NoError(t, c.Close(ctx))
	}()
	cdm, err := c.NewDMap("c15.lock")
	require.NoError(t, err)

	paths := []struct {
		name string
		dm   DMap
	}{
		{"embedded client on member 1", e1},
		{"embedded client on member 2", e2},
		{"cluster client", cdm},
	}

	for i := 0; i < 4; i++ {
		for _, path := range paths {
			key := fmt.Sprintf("lock-%d-%s", i, path.name)
			_, err := e1.LockWithTimeout(ctx, key, 150*time.Millisecond, time.Second)
			require.NoError(t, err)

			lx, err := path.dm.Lock(ctx, key, 900*time.Millisecond)
			require.NoErrorf(t, err, "Lock(%q, deadline=900ms) through %s", key, path.name)
			require.NoError(t, lx.Unlock(ctx))
		}
	}
}
