package dmap

// Demonstration for change 2. Copy into internal/dmap/ and run:
//   go test -count=1 -run TestRT_AtomicCounterOnFreshDMapWithNeighbours ./internal/dmap/

import (
	"context"
	"fmt"
	"sync"
	"testing"

	"github.com/olric-data/olric/internal/cluster/partitions"
	"github.com/olric-data/olric/internal/testcluster"
	"github.com/stretchr/testify/require"
)

func TestRT_AtomicCounterOnFreshDMapWithNeighbours(t *testing.T) {
	cluster := testcluster.New(NewService)
	s1 := cluster.AddMember(nil).(*Service)
	s2 := cluster.AddMember(nil).(*Service)
	defer cluster.Shutdown()

	ctx := context.Background()
	const (
		trials     = 150
		callers    = 4
		perCaller  = 3
		neighbours = 6
	)

	for trial := 0; trial < trials; trial++ {
		name := fmt.Sprintf("rtmap-%d", trial)
		dm1, err := s1.NewDMap(name)
		require.NoError(t, err)
		dm2, err := s2.NewDMap(name)
		require.NoError(t, err)
		dms := []*DMap{dm1, dm2}

		// Keys of the same DMap that live in the partition of the counter.
		counterPart := partitions.HKey(name, "counter") % s1.config.PartitionCount
		var keys []string
		for i := 0; len(keys) < neighbours; i++ {
			key := fmt.Sprintf("neighbour-%d", i)
			if partitions.HKey(name, key)%s1.config.PartitionCount == counterPart {
				keys = append(keys, key)
			}
		}

		var mu sync.Mutex
		seen := make(map[int]int)
		total := 0

		start := make(chan struct{})
		var wg sync.WaitGroup
		for i, key := range keys {
			wg.Add(1)
			go func(i int, key string) {
				defer wg.Done()
				<-start
				if err := dms[i%2].Put(ctx, key, "value", nil); err != nil {
					t.Errorf("Put failed: %v", err)
				}
			}(i, key)
		}
		for c := 0; c < callers; c++ {
			wg.Add(1)
			go func(c int) {
				defer wg.Done()
				<-start
				for i := 0; i < perCaller; i++ {
					nr, err := dms[c%2].Incr(ctx, "counter", 1)
					if err != nil {
						t.Errorf("Incr failed: %v", err)
						return
					}
					mu.Lock()
					seen[nr]++
					total++
					mu.Unlock()
				}
			}(c)
		}
		close(start)
		wg.Wait()

		for nr, count := range seen {
			if count != 1 {
				t.Errorf("trial %d: value %d has been returned by %d Incr calls", trial, nr, count)
			}
		}
		nr, err := dm1.Incr(ctx, "counter", 0)
		require.NoError(t, err)
		require.Equal(t, total, nr, "trial %d: lost updates: %d acknowledged increments, the counter is %d", trial, total, nr)
	}
}
