package routingtable

// Demonstration for change 2. Copy into internal/cluster/routingtable/ and run:
//   go test -count=1 -run TestC13_NodeUpdateRefreshesRing ./internal/cluster/routingtable/

import (
	"errors"
	"testing"
	"time"

	"github.com/hashicorp/memberlist"
	"github.com/olric-data/olric/internal/discovery"
	"github.com/olric-data/olric/internal/testutil"
	"github.com/stretchr/testify/require"
)

func TestC13_NodeUpdateRefreshesRing(t *testing.T) {
	cluster := newTestCluster()
	defer cluster.cancel()

	c1 := testutil.NewConfig()
	c1.PartitionCount = 71
	rt1, err := cluster.addNode(c1)
	require.NoError(t, err)

	c2 := testutil.NewConfig()
	c2.PartitionCount = 71
	rt2, err := cluster.addNode(c2)
	require.NoError(t, err)

	err = testutil.TryWithInterval(50, 100*time.Millisecond, func() error {
		if !rt2.IsBootstrapped() || rt2.Signature() != rt1.Signature() {
			return errors.New("the second node has not got the table")
		}
		return nil
	})
	require.NoError(t, err)

	// The second member is restarted under the same address before the others noticed that it
	// was gone: memberlist reports this as a NodeUpdate carrying the new metadata (new birthdate,
	// hence a new member ID). This is what the coordinator receives:
	reborn := discovery.NewMember(c2)
	require.NotEqual(t, rt2.This().ID, reborn.ID)
	meta, err := reborn.Encode()
	require.NoError(t, err)
	node := *rt2.Discovery().LocalNode()
	node.Meta = meta
	rt1.Discovery().ClusterEvents <- discovery.ToClusterEvent(memberlist.NodeEvent{Event: memberlist.NodeUpdate, Node: &node})

	err = testutil.TryWithInterval(50, 100*time.Millisecond, func() error {
		rt1.Members().RLock()
		defer rt1.Members().RUnlock()
		if _, err := rt1.Members().Get(reborn.ID); err != nil {
			return err
		}
		return nil
	})
	require.NoError(t, err)
	rt1.UpdateEagerly()
	rt1.UpdateEagerly()

	known := func(m discovery.Member) bool {
		rt1.Members().RLock()
		defer rt1.Members().RUnlock()
		_, err := rt1.Members().Get(m.ID)
		return err == nil
	}

	// The hash ring must only contain current incarnations.
	for _, m := range rt1.consistent.GetMembers() {
		dm := m.(discovery.Member)
		if !known(dm) {
			t.Errorf("hash ring holds a departed incarnation: %s id=%d birthdate=%d", dm, dm.ID, dm.Birthdate)
		}
	}

	// No departed incarnation may be listed as an owner, on any member.
	var bad int
	for _, rt := range []*RoutingTable{rt1, rt2} {
		for partID := uint64(0); partID < c1.PartitionCount; partID++ {
			for _, owner := range rt.primary.PartitionByID(partID).Owners() {
				if !known(owner) {
					bad++
					if bad <= 3 {
						t.Logf("on %s: partition %d lists departed incarnation %s id=%d", rt.This(), partID, owner, owner.ID)
					}
				}
			}
		}
	}
	if bad != 0 {
		t.Fatalf("%d owner entries refer to a departed member incarnation", bad)
	}
}
