#!/bin/bash
# tools/mkrt.sh <id> [<property id>]: scratch worktree for a red-team agent: /tmp/rt_<id>/repo (detached HEAD of /repo), /tmp/rt_<id>/out
set -eu
N="$1"; W=/tmp/rt_$N
git -C /repo worktree remove --force "$W/repo" 2>/dev/null || true
rm -rf "$W"; mkdir -p "$W/out"
git -C /repo worktree add -q --detach "$W/repo" HEAD
python3 - "${2:-$N}" <<'PY' > "$W/PROPERTY.txt"
import json,sys
pid=sys.argv[1].upper()
for l in open('/verif/properties.jsonl'):
    p=json.loads(l)
    if p['id']==pid:
        print("Property", p['id'], "-", p['title']); print(); print("Statement:", p['statement']); print(); print("Must hold for:", p['quantifier']['text'])
PY
echo "$W"
