#!/usr/bin/env python3
"""Regenerates MANIFEST.json from the table below. Run after adding a check."""
import json, subprocess

def repo_commits(prefix):
    out = subprocess.run(["git", "-C", "/repo", "log", "--format=%h %s"], capture_output=True, text=True).stdout
    return [l.split()[0] for l in out.splitlines() if l.split(" ", 1)[1].startswith(prefix)]

CHECKS = {
 "C11": dict(category="exploration", design="DESIGN.md §3 C11",
   technique="reference-model monitor: real kvstore engines vs a map, full state comparison after every step; exhaustive short sequences + seeded random long ones; race detector/checkptr in the thorough tier",
   text="Every operation sequence over a 14-symbol alphabet up to length 4 (quick) / 5 (thorough), plus seeded random sequences of 100-2000 operations, is executed against two real storage engines; after every single step Get/GetRaw/GetTTL/GetKey/Check/Stats.Length/Range/RangeHKey/Scan (three page sizes)/ScanRegexMatch of both engines are compared with a reference map; compaction must finish within a step bound, table transfer must leave nothing behind. Held = no divergence on these executions.",
   note="Trusts the harness' own reference map and the put-if-newer merge it uses for the transfer peer; hkey collisions are not simulated; the storage engine is driven single-threaded, as the fragment lock guarantees in the real system."),
 "C15": dict(category="exploration", design="DESIGN.md §3 C15",
   technique="differential + model monitor over an exhaustive operation x option x prior-state x path grid, stored entry read white-box",
   text="Every case of the grid {Put x {-,NX,XX} x {-,EX,PX,EXAT,PXAT}, Expire (s/ms), GetPut, Incr, Decr, IncrByFloat, Lock/Unlock/Lease, Lock on a busy key, multi-key Delete over 1-3 owners} x prior states is executed through each of the six entry paths (embedded owner / non-owner, cluster client, raw RESP owner / non-owner, pipeline) with ReplicaCount 1 and 2, each on a fresh key; the outcome tuple (error class, returned value/count, stored value, expiry class read white-box on the owner) must equal a small model of the documented semantics and be the same on every path.",
   note="Expiry classes use a 3 ms tolerance around [call+d, return+d]; behaviour the statement does not define (Incr on a non-integer, IncrByFloat and expiry) is compared across paths only. One cluster size (3 members, 7 partitions)."),
 "C01": dict(category="exploration", design="DESIGN.md §3 C01",
   technique="recorded client-boundary histories checked per key with porcupine (register model with NX/XX), hook jitter, hostile compaction/janitor cadence, race detector on a subset",
   text="Concurrent histories (12 logical clients over embedded owner/non-owner, cluster client, raw RESP owner/non-owner and pipeline paths; 3 keys; Put/NX/XX/Get/Delete with unique values) are recorded with call/return times on one monotonic clock and every key's sub-history is checked for linearizability against a register model. Configurations cover 1-3 members, ReplicaCount 1-3, partition counts 1/7/13/271, table sizes 512 B / 2 KiB / 1 MiB (multi-table fragments), with background compaction and janitor at a 20 ms cadence in every second configuration and seeded delays injected between the code's own critical sections. The -race binary runs part of the same workload; a race inside the storage engine / fragment map is a violation. Held = every observed history was linearizable.",
   note="Only the schedules the Go scheduler and the injected jitter produced; histories containing a transport error and checker timeouts are dropped as inconclusive (reported); membership is stable by construction."),
 "C07": dict(category="exploration", design="DESIGN.md §3 C07",
   technique="set-inclusion chain oracle over power-of-two deltas, GetPut single-path oracle, real-time order check, hook jitter between read and write, race detector on a subset",
   text="8/16/24 concurrent callers hit one key once each per round with Incr/Decr/IncrByFloat (distinct power-of-two deltas, so a returned value is the set of calls ordered before it) or GetPut (unique values). Eight assignments of callers to entry points (owner only; cluster client only; one non-owner member; two different non-owner members; non-owner + cluster client; raw RESP non-owner + owner; all six paths mixed) on 1-3 members with ReplicaCount 1-2. The returned values must form a chain under set inclusion containing each caller's own delta, respect real-time order and sum to the final value; GetPut's old->new relation must be a single path over all calls.",
   note="Stable membership; a delay of 0-2 ms is injected between the read and the write of each atomic operation; rounds with a transport error are inconclusive."),
 "C04": dict(category="exploration", design="DESIGN.md §3 C04",
   technique="white-box equality monitor: after every acknowledged operation of random scripts the primary fragment of every partition is compared with each backup fragment (key set, value, expiry, timestamp); DM.GETENTRY vs DM.GETENTRY RC cross-check",
   text="Sequential random scripts over the whole mutating API (Put with every option combination, Expire/PExpire, GetPut, Incr, Decr, IncrByFloat, Delete, Lock/LockWithTimeout/Unlock/Lease, TTL eviction scans, LRU eviction) through random entry paths on clusters of 3-4 members with ReplicaCount 2-3 and table sizes 1 KiB / 1 MiB. After EVERY step the complete primary fragment of every partition is compared, under the fragments' own locks, with the backup fragment on every listed backup owner: same keys, values, expiry and write timestamps. A behavioural cross-check compares DM.GETENTRY on the owner with DM.GETENTRY RC on each backup owner.",
   note="Stable membership and synchronous replication; a difference must persist over 8 polls (200 ms) because background eviction removes backups before the primary copy; last-access is not compared."),
 "C18": dict(category="exploration", design="DESIGN.md §3 C18",
   technique="snapshot-and-compare monitor over returned values across overwrite/delete/table-recycling churn/compaction/migration, scribble tests on returned slices and Put buffers, race detector with a reader goroutine over returned values",
   text="Every []byte/string returned by Get (embedded owner, embedded non-owner, cluster client; Byte and String accessors), GetPut and iterators is registered with a private copy taken at return time and re-compared after each follow-up: overwrite, delete, 12 rounds of churn with compaction to completion on 1 KiB tables (recycled and reused tables are observed white-box), and migration to a newly joined member. Returned slices and buffers passed to Put are overwritten by the harness and the stored value is re-read on every path and white-box on primary and backups. ReplicaCount 1 and 2 (with 2 the read is answered from the backup's decoded copy, so 1 is the case that exposes table memory). The -race binary runs the same script with a goroutine reading the registered values throughout; a race between that reader and olric code is a violation.",
   note="Sweeps happen at phase boundaries, so a value that changes and changes back in between is not seen; the race detector only sees accesses that actually overlap in the run."),
 "C08": dict(category="exploration", design="DESIGN.md §3 C08",
   technique="interval oracle over recorded lock histories + online critical-section counter; token-forgery scripts with white-box before/after comparison; time-judged clauses with margins and a scheduler-stall detector",
   text="Scenario instances on fresh keys over embedded owner/non-owner, cluster client and raw RESP owner/non-owner paths: contention (4-9 competitors, untimed and long-timed locks; certain tenures [acquire.return, unlock.call] must not overlap, online counter must read 1), deadlines (lock-not-acquired no earlier than the deadline; a waiter gets the lock after the unlock and not before), tokens (stale, forged, wrong-length, empty, non-hex and prefix tokens for Unlock and Lease must fail and leave value and expiry unchanged, white-box), timed locks (timeout 400/800 ms with no/longer/shorter Lease taken through every path: a competitor acquires no earlier than the expiry and within 1 s after it).",
   note="Time-based clauses use a 1 s margin (2 ms slack for 'no earlier than'); cases with a measured scheduling stall or an unstable membership fingerprint are inconclusive; hold times stay away from the expiry so that unlockKey's check-then-delete window is not what is measured."),
 "C09": dict(category="exploration", design="DESIGN.md §3 C09",
   technique="deadline oracle with margins: stored expiry cross-checked against [call+ttl, return+ttl], reads wholly before and observers wholly after the deadline, white-box eviction labelling, stall detector; expiry bookkeeping sequences",
   text="Grid of option form {EX, PX, EXAT, PXAT, DMap default TTL, Expire, PExpire} x set path {EO,EN,CC,RO,RN,PL} x observer {Get, GetPut old value, Incr base, NX, XX, Expire} with rotating observer path and ttl 400/700/1200 ms, each on a fresh key, under eager (P=3, 8 eviction workers) and rare (P=271, 1 worker) eviction and ReplicaCount 1-2: the stored expiry must match the option, a read wholly before deadline-150 ms must see the value, the observer wholly after deadline+150 ms must behave as on an absent key whether or not eviction already removed it. Bookkeeping sequences per path: Incr/Decr keep the expiry (±5 ms), Expire replaces it and keeps the value, plain Put and GetPut clear it.",
   note="A violation smaller than the 150 ms margin is invisible; stalled cases (scheduling delay > 50 ms) and unstable membership are inconclusive."),
 "C05": dict(category="fault_enumeration", design="DESIGN.md §3 C05",
   technique="fault enumeration over (R,W,RQ) x subsets of unreachable backup owners with an outcome oracle computed from reachable copies and a white-box copy count; member-count starvation with per-command refusal check and state digest",
   text="Every (ReplicaCount, WriteQuorum, ReadQuorum) with 1<=W,RQ<=R<=3 (quick: R<=2) on R+1 members x every subset of the focus partition's backup owners made unreachable (RESP listener and connections closed while the member stays in the member list): Put and Get through the owner and a reachable non-owner (embedded and raw RESP) must be acknowledged / answered iff 1 + reachable backups >= the quorum, otherwise fail with exactly the write-/read-quorum error; acknowledged Puts must have stored >= W copies (counted white-box). Member-count quorum 2 and 3 on 3 members: after graceful departures every one of 32 commands on a fresh connection and NewDMap must be refused with the cluster-quorum error and the member's complete stored state (digest over all fragments) must be unchanged.",
   note="Unreachability is produced by closing the RESP listener; for a non-existent key the error class of Get is not judged; INTERNAL.NODE.UPDATEROUTING is exempt by design."),
 "C06": dict(category="exploration", design="DESIGN.md §3 C06",
   technique="argmax(timestamp) oracle over white-box placed copies on owner / real previous owner / backups (exhaustive layouts), read-repair after-state check, merge oracle over all delivery orders and re-deliveries through the real MOVEFRAGMENT command",
   text="Get: in a really fragmented partition (join with the balancer held back) every assignment of {missing, ts1, ts2, ts3} to the holders {owner, previous owner, backup owners} is placed white-box (ReplicaCount 1-3, read-repair off/on) and a Get through a rotating path must return a copy with the maximal timestamp; with read-repair the owner's own copy and every stale backup copy must equal the winner after that single Get. Merge: seeded sets of 2-4 tables over 5 keys with timestamps 1..6 (ties included) and optional pre-existing local entries are delivered through INTERNAL.NODE.MOVEFRAGMENT to primary and backup fragments in every permutation and with every single re-delivery; after each delivery the receiver must hold, per key, the newest entry delivered so far.",
   note="Ties accept any copy with the maximal timestamp; missing backup copies need not be created by read-repair; quick runs a third of the layouts and a quarter of the delivery orders (selected by the seed), thorough all of them."),
 "C12": dict(category="exploration", design="DESIGN.md §3 C12",
   technique="set/multiset oracle over complete iterations (embedded and cluster client iterators, raw DM.SCAN cursor loops on primaries and on backups with RC) against a model of shaped stores; termination bounds; hook-counted server-side scan calls",
   text="Seeded programs shape 0-2000-key stores on real clusters (1-3 members, ReplicaCount 1-2, partition counts 1-31, table sizes 300 B-1 MiB): puts in five entry-size classes, overwrites and deletes of blocks and scattered keys, compaction to completion or mid-way (gaps in table numbering, recycled tables), re-puts, short expiries. Each store is iterated to completion by EmbeddedDMap.Scan, ClusterDMap.Scan, raw DM.SCAN cursor loops per partition and owner, and the same with RC on backup owners, for COUNT in {1,2,3,10,100,10^6, default, <=0} and MATCH classes none/all/some/no match/one block. Yielded multisets are compared with the model: every stable key at least once (exactly once through the client iterators), no deleted or never-stored key, MATCH exactly the matching present keys, termination within call/round-trip bounds. Join batches repeat this while a partition lists two owners and after balancing; the thorough tier also scans under concurrent churn on a disjoint key set.",
   note="Expired-but-not-evicted keys and churn keys are not judged (the statement is silent); rawrc completeness is judged on stable clusters only; membership changes during an iteration are out of scope."),
 "C10": dict(category="exploration", design="DESIGN.md §3 C10",
   technique="census-after-every-Put monitor (white-box per-fragment key count / in-use bytes against the equal-share bound, immediate read-back of the written key), idle-window monitor with margins and stall detection",
   text="LRU: per-DMap and global configurations over MaxKeys {1,3,P-1,P,10P}, MaxInuse, both together, LRUSamples {1,2,5,20}, P {3,7,31}, 1-2 members, uniform and heavily skewed key distributions, inserts mixed with overwrites, all entry paths: after EVERY Put the Put must not have failed, an immediate Get must return the bytes just written, and a white-box census of every owned primary fragment must respect max(1, floor(MaxKeys/owned)) keys and MaxInuse/owned + one entry bytes (4 concurrent writers: bounds at barriers). Idle: a touched key set refreshed every window/3 through all paths must never disappear and an untouched set must be gone within window + 5 s, for global, custom, custom-over-global configurations and a cold-keys-in-an-older-table layout.",
   note="'Eventually' is restated as window + 5 s with eager eviction workers; cases with a scheduling stall, a transport error or an unstable membership fingerprint are inconclusive; backup copies are judged by C04/C20."),
 "C14": dict(category="exploration", design="DESIGN.md §3 C14",
   technique="reference-model monitor over seeded subscribe/psubscribe/unsubscribe/publish/disconnect scripts on raw RESP and Go PubSub connections; ordered per-connection delivery logs with in-stream markers and PING fences; PUBSUB introspection compared with the model",
   text="2400 (quick) / 24600 (thorough) scripts of 20-60 steps over 2-8 subscriber connections on 1-3 members (75% raw RESP, 25% Go PubSub clients), channels {a,ab,b.1,b.2} and patterns {a*,b.?,*,zz*,a}, 1-4 concurrent publishers through any member, optional subscription churn and disconnects. Every subscription acknowledged before a publish was sent must receive it exactly once, in publisher order, with the right channel and payload; nothing may arrive through a non-matching, never-made or already unsubscribed subscription; PUBLISH's return value must equal the deliveries observed; PUBSUB CHANNELS (with and without glob) / NUMSUB / NUMPAT of every member must equal the model at quiescent points; after a disconnect the member's bookkeeping must reach the model within 2 s.",
   note="Order is judged on the connection's own stream (markers, PING fences), never on wall-clock time; subscriptions in flight during churn may receive 0 or 1 copy; membership flaps make a script inconclusive; the thorough tier runs 600 scripts under the race detector."),
 "C17": dict(category="exploration", design="DESIGN.md §3 C17",
   technique="round-trip monitor with per-type generators: typed accessor and Scan on every path, backup copy (GETENTRY RC + white-box), after migration to a joined member; rejection monitor with entry census and neighbour re-verification",
   text="Generated values of every supported type (all integer widths at their extremes, float32/64 incl. ±0, ±Inf, NaN, denormals, 17-digit values, bool, strings and byte slices with NUL/CRLF/RESP-looking content, 64 KiB and sizes around the table size, time.Time with zones/nanoseconds/extreme years, durations, a BinaryMarshaler type) under keys of length 0..255 (binary, CR/LF, spaces) are written through embedded owner / non-owner / cluster client on a 2-member ReplicaCount=2 cluster (table size x WriteQuorum), read back through every path with the typed accessor and Scan, compared on the backup copy, and again from every member after a third member joined and the partitions were balanced. Keys of 256+ bytes and entries that cannot fit a table must be rejected with the documented errors on every path with nothing stored on any member (census), and all previously stored neighbours re-verified.",
   note="Round trip through olric's own encoder/decoder (a consistently wrong pair would go unseen); years outside 0..9999, nil values and async replication are out of scope; loss-type observations during a membership flap are inconclusive."),
 "C02": dict(category="fault_enumeration", design="DESIGN.md §3 C02",
   technique="fault enumeration (member subsets x graceful/abrupt x idle/between/hook-timed mid-operation crash) with a per-key acknowledgement log oracle read through every survivor, post-fault sequential model check",
   text="Clusters of 3-5 members with ReplicaCount 2-3: 180 acknowledged operations on 60 keys through all entry paths, then up to R-1 members (every single member incl. the coordinator, every pair for R=3) are stopped gracefully or abruptly (no leave broadcast) either at idle, while a workload keeps running on the survivors, or exactly at put.before-backup / put.before-local / del.backups / del.local inside the owner (a hook stops the member at that point and never returns). After white-box detected re-stabilisation every key is read through an embedded client on every survivor and a fresh cluster client and must be the last pre-fault acknowledged value (or not-found for a Delete) or a value of an operation that was open or issued after the fault began; optionally the balancer is then driven to completion and everything verified again; finally Put/Get/Delete scripts on the survivors are checked against a map. Read-repair on and off.",
   note="Abrupt stop = listener and connections closed, memberlist shut down without leave, contexts cancelled, memory discarded (no persistence exists); memberlist tuned to probe every 200 ms; cases in which membership changed without an injected fault (false suspicion under load) or stabilisation timed out are inconclusive; writes acknowledged after the fault began only widen allowed(key)."),
}

NOT_BUILT_REASON = "check not built yet (work in progress in this session); not claimed until its monitor is silent on the unchanged tree"

def main():
    props = [json.loads(l)["id"] for l in open("/verif/properties.jsonl")]
    checks = []
    for pid in props:
        c = CHECKS.get(pid)
        if not c:
            continue
        checks.append({
            "property_id": pid,
            "quick_cmd": f"./check {pid} quick",
            "thorough_cmd": f"./check {pid} thorough",
            "evidence_file": f"/verif/evidence/{pid}.json",
            "replay_cmd_template": f"./check {pid} --replay {{path}}",
            "engine": "vrun",
            "level_claimed": {"category": c["category"], "text": c["text"], "design_ref": c["design"]},
            "level_note": c["note"],
            "technique": c["technique"],
        })
    na = [{"property_id": p, "reason": NOT_BUILT_REASON} for p in props if p not in CHECKS]
    m = {
        "version": 1,
        "setup_cmd": "./check --build",
        "hooks": {
            "guard": "verif (Go build tag)",
            "enable": "go build -tags verif (harness module /verif/harness with replace github.com/olric-data/olric => /repo)",
            "baseline_off_cmd": "cd /repo && GOFLAGS=-mod=mod GOPROXY=off GOSUMDB=off go test -json -vet=off -count=1 -timeout 25m ./...",
            "source_commits": repo_commits("verif hooks:"),
            "add_only": True,
        },
        "engines": [{
            "name": "vrun",
            "path": "/verif/harness/cmd/vrun",
            "serves_properties": sorted(CHECKS),
            "kind_free_text": "Go harness: in-process olric clusters / bare storage engines under generated workloads, hook-driven fault injection, reference-model and history oracles (porcupine), race detector builds",
        }],
        "checks": checks,
        "notes": "Runtime monitoring and sanitizers only. ./check rebuilds the harness from /repo's working tree with -tags verif on every invocation. Known findings: /verif/KNOWN_FINDINGS.txt. Fix commits in /repo start with 'fix:'.",
        "not_applicable": na,
    }
    json.dump(m, open("/verif/MANIFEST.json", "w"), indent=1)
    print("checks:", [c["property_id"] for c in checks], "not_applicable:", len(na))

main()
